"""C33 -- Python <-> C/C++ value conversions round-trip or raise (DESIGN 7/C33)."""
import json, os, struct, copy
import cybuild

TITLE = "Python <-> C/C++ value conversions round-trip or raise"
EXTRACTS = ["Convert"]
RULE = ("(A) per (c_string_type/c_string_encoding configuration, C type from a catalogue of scalars, std::string, vector, "
        "std::list, set, unordered_set, map, unordered_map, pair, struct, union, C array, ctuple and nestings thereof): "
        "generated canonical values (empty containers, boundary ints, NUL and non-ASCII text), coercible variants "
        "(other iterables, generators, duplicates, bool, bytearray), and every canonical value with an invalid element "
        "(wrong type, None, out-of-range int, undecodable/unencodable text, non-iterable, wrong container kind) "
        "substituted at every position, missing/extra/duplicated struct and union keys, arrays/pairs/ctuples of every "
        "wrong length; passed through `cdef T x = o; return x` compiled as C++ by the compiler under test; distinct by "
        "(configuration, type, input value).  (B) text part: per configuration (every c_string_type x c_string_encoding "
        "class the compiler accepts: '' / ascii / utf8 / another 8-bit codec, plus the alias spellings through the real "
        "directive parser and the Limited-API text of the helper) one module with every entry point of the str/bytes/"
        "bytearray <-> char*, unsigned char*, std::string conversions (def argument, local assignment, cdef return value, "
        "strlen / size() of the converted argument, struct member from dict, vector[string]); inputs: one code point of "
        "every storage class boundary (ASCII 0x01/0x7f, Latin-1 0x80/0xff, BMP 0x100/0x7ff/0x800/0xd7ff/0xe000/0xffff, "
        "astral 0x10000/0x10ffff, lone surrogates 0xd800/0xdbff/0xdc00/0xdfff, NUL) alone and first/middle/last in an "
        "ASCII and in non-ASCII backgrounds, long strings, and byte strings with every kind of ill-formed UTF-8 sequence at "
        "every position; every entry point is called on the SAME object (cached UTF-8 form); distinct by "
        "(configuration, entry point, input)")
EXPLANATION = ("theorems, for ALL element converter pairs obeying the element law `toX x = Ok v -> fromX v = Ok x` and all "
               "values: C->Python->C is the identity for vector/std::list (order kept), set/unordered_set and "
               "map/unordered_map (order-free duplicate-free representation), pair, C array; lifted by induction on the "
               "type structure to every nested type of the grammar incl. struct-from-dict and ctuple "
               "(C33_nested_roundtrip, on well-formed C values); the first failing element in iteration order (key before "
               "value for maps, first before second for pairs) decides the error of every container loop and nothing is "
               "returned; set results hold only converted items; C array: a value is produced only from exactly n items, "
               "any other length raises; struct: ValueError whenever a member key is missing, only member keys matter "
               "(refutation of 'wrong keys raise' for extra keys); std::string is length based and NUL safe, char* is exact "
               "on NUL-free strings and cut at the first NUL otherwise (refuted); map from a non-dict raises AttributeError "
               "(refuted). text: the model of __Pyx_PyUnicode_AsStringAndSize (PEP 393 ascii flag / kind as functions of the "
               "largest code point; full-API, Limited-API and repaired Limited-API texts) is proved equal to CPython's "
               "s.encode(E) with *length = number of bytes for ALL strings (ascii: accepted iff all code points < 128, "
               "bytes = code points; utf8: the RFC 3629 table of C18, rejected iff a lone surrogate occurs; always "
               "UnicodeEncodeError), decode(encode s) = s and encode(decode b) = b for all strings / byte strings (strict "
               "decoder), so str -> std::string -> str is the identity or UnicodeEncodeError, char* the same on NUL-free "
               "text, and the nested round trip no longer assumes the codec law; the Limited-API text as it is gives "
               "SystemError for a lone surrogate under ascii (refuted, finding). partial: NOT proved: "
               "well-formedness of every from_py result / Python->C->Python idempotence (tested only); scalar ints are the "
               "range check that C05 proves equal to the real helper; doubles are opaque bit patterns; unions, error "
               "messages and the evaluation order inside to_py are only tested.")
TRUSTED = ["g++/libstdc++ as a conforming C++ implementation (std::set/map insert keeps the first of equal keys)",
           "CPython's UTF-8 / ASCII / Latin-1 codecs and PyUnicode_AsUTF8AndSize (modelled by the RFC 3629 table and the "
           "strict decoder of C18, compared with CPython on every run); PEP 393 kind / ascii flag (read back through ctypes "
           "on every str input and compared with the model)",
           "C05 for the scalar int helpers (modelled here as the range check)",
           "Python == on values produced by to_py at one C type is structural equality (no -0.0/NaN among set elements or map keys)"]
ASSUMPTIONS = ["LP64", "builtin containers only (no user-defined iterables whose __iter__/__len__ raise or lie)"]

# ------------------------------------------------------------------ types
def I(w, sg, cname): return ("int", w, sg, cname)
I32 = I(32, True, "int"); U8 = I(8, False, "unsigned char"); I64 = I(64, True, "long long")
I16 = I(16, True, "short"); U32 = I(32, False, "unsigned int")
D = ("double",); S = ("string",)
def V(t): return ("vector", t)
def C(t): return ("cpplist", t)
def X(t): return ("set", t)
def U(t): return ("uset", t)
def M(k, v): return ("map", k, v)
def H(k, v): return ("umap", k, v)
def P(a, b): return ("pair", a, b)
def R(n, t): return ("array", n, t)
def ST(name, fs): return ("struct", name, tuple(fs))
def UN(name, fs): return ("union", name, tuple(fs))
def CT(*ts): return ("ctuple", tuple(ts))

S1 = ST("S1", [("a", I32), ("b", D)])
S2 = ST("S2", [("s", S1), ("arr", R(2, I16)), ("c", U8)])
U1 = UN("U1", [("i", I32), ("d", D)])
CT1 = CT(I32, D)
CATALOGUE = [
    ("vec_int", V(I32)), ("vec_u8", V(U8)), ("vec_dbl", V(D)), ("vec_str", V(S)), ("vec_vec", V(V(I16))),
    ("list_i64", C(I64)), ("list_str", C(S)), ("set_int", X(I32)), ("set_str", X(S)), ("uset_u32", U(U32)),
    ("uset_str", U(S)), ("set_pair", X(P(I32, S))), ("set_vec", X(V(I32))), ("map_int_int", M(I32, I32)),
    ("map_str_vec", M(S, V(I32))), ("umap_str_int", H(S, I32)), ("umap_int_dbl", H(I32, D)),
    ("map_pairkey", M(P(I32, I32), S)), ("map_map", M(I32, M(S, I16))), ("map_set", M(U8, X(I32))),
    ("pair_int_str", P(I32, S)), ("pair_nested", P(P(I32, D), V(S))), ("vec_pair", V(P(U8, D))),
    ("struct1", S1), ("struct2", S2), ("vec_struct", V(S1)), ("map_struct", M(I32, S1)), ("union1", U1),
    ("arr3", R(3, I32)), ("arr22", R(2, R(2, I16))), ("arr_dbl", R(2, D)), ("arr1", R(1, I64)),
    ("ctuple1", CT1), ("ctuple2", CT(I32, CT(U8, D))), ("vec_ctuple", V(CT1)), ("str", S),
]
# (key, c_string_type, c_string_encoding, model tokens)
CONFIGS = [("bn", "bytes", "", "b n"), ("u8", "str", "utf8", "u 8"), ("ua", "str", "ascii", "u a"),
           ("a8", "bytearray", "utf8", "a 8"), ("ul", "str", "latin1", "u l"), ("ba", "bytes", "ascii", "b a")]


def has_string(t):
    if t[0] == "string":
        return True
    if t[0] in ("struct", "union"):
        return any(has_string(ft) for _, ft in t[2])
    if t[0] == "ctuple":
        return any(has_string(x) for x in t[1])
    return any(has_string(x) for x in t[1:] if isinstance(x, tuple))


def cy_type(t):
    k = t[0]
    if k == "int": return t[3]
    if k == "double": return "double"
    if k == "string": return "string"
    if k == "vector": return "vector[%s]" % cy_type(t[1])
    if k == "cpplist": return "cpp_list[%s]" % cy_type(t[1])
    if k == "set": return "cpp_set[%s]" % cy_type(t[1])
    if k == "uset": return "unordered_set[%s]" % cy_type(t[1])
    if k == "map": return "cpp_map[%s, %s]" % (cy_type(t[1]), cy_type(t[2]))
    if k == "umap": return "unordered_map[%s, %s]" % (cy_type(t[1]), cy_type(t[2]))
    if k == "pair": return "pair[%s, %s]" % (cy_type(t[1]), cy_type(t[2]))
    if k in ("struct", "union"): return t[1]
    if k == "ctuple": return "(%s)" % ", ".join(cy_type(x) for x in t[1])
    raise ValueError(t)


def cy_decl(t, var):
    """declaration of a variable of type t (arrays put their extents after the name)"""
    dims = ""
    while t[0] == "array":
        dims += "[%d]" % t[1]
        t = t[2]
    return "%s%s %s" % (cy_type(t), dims, var)


def member_decl(t, var):
    return cy_decl(t, var)


def model_type(t):
    k = t[0]
    if k == "int": return "i%d%s" % (t[1], "s" if t[2] else "u")
    if k == "double": return "d"
    if k == "string": return "s"
    one = {"vector": "V", "cpplist": "C", "set": "X", "uset": "U"}
    if k in one: return one[k] + " " + model_type(t[1])
    two = {"map": "M", "umap": "H", "pair": "P"}
    if k in two: return "%s %s %s" % (two[k], model_type(t[1]), model_type(t[2]))
    if k == "array": return "R%d %s" % (t[1], model_type(t[2]))
    if k in ("struct", "union"):
        return ("St%d " if k == "struct" else "Un%d ") % len(t[2]) + " ".join(
            "S%s %s" % (",".join(str(ord(c)) for c in n), model_type(ft)) for n, ft in t[2])
    if k == "ctuple": return "Ct%d " % len(t[1]) + " ".join(model_type(x) for x in t[1])
    raise ValueError(t)


def gen_source(types):
    L = ["# cython: language_level=3", "# distutils: language=c++",
         "from libcpp.string cimport string", "from libcpp.vector cimport vector",
         "from libcpp.list cimport list as cpp_list", "from libcpp.set cimport set as cpp_set",
         "from libcpp.unordered_set cimport unordered_set", "from libcpp.map cimport map as cpp_map",
         "from libcpp.unordered_map cimport unordered_map", "from libcpp.pair cimport pair", ""]
    seen = []

    def decls(t):
        if t[0] in ("struct", "union"):
            for _, ft in t[2]:
                decls(ft)
            if t[1] not in seen:
                seen.append(t[1])
                L.append("cdef %s %s:" % (t[0], t[1]))
                for n, ft in t[2]:
                    L.append("    " + member_decl(ft, n))
                L.append("")
        elif t[0] == "ctuple":
            for x in t[1]:
                decls(x)
        else:
            for x in t[1:]:
                if isinstance(x, tuple):
                    decls(x)
    for _, t in types:
        decls(t)
    for name, t in types:
        L += ["def rt_%s(o):" % name, "    cdef %s = o" % cy_decl(t, "x"), "    return x", ""]
    L += ["def rt_charp(o):", "    cdef const char* x = o", "    return x", "",
          "def gen(l):", "    for x in l:", "        yield x", ""]
    return "\n".join(L)

# ------------------------------------------------------------------ value encoding (JSON safe)
# ["N"] ["O"] ["B",b] ["I","z"] ["F",bits] ["Y",hex] ["A",hex] ["S",[cp..]] ["L",[..]] ["T",[..]] ["E",[..]]
# ["D",[[k,v]..]] ["G",[..]]
def fbits(x): return struct.unpack("<Q", struct.pack("<d", x))[0]
def bfloat(b): return struct.unpack("<d", struct.pack("<Q", b))[0]
def eI(z): return ["I", str(z)]
def eF(x): return ["F", fbits(x)]
def eY(b): return ["Y", bytes(b).hex()]
def eA(b): return ["A", bytes(b).hex()]
def eS(s): return ["S", [ord(c) for c in s]]
NONE = ["N"]; OBJ = ["O"]


def tok(v):
    k = v[0]
    if k in "NO": return k
    if k == "B": return "B1" if v[1] else "B0"
    if k == "I": return "I" + v[1]
    if k == "F": return "F%d" % v[1]
    if k in "YA": return k + (v[1] or "-")
    if k == "S": return "S" + (",".join(map(str, v[1])) or "-")
    if k in "LTEG": return " ".join(["%s%d" % (k, len(v[1]))] + [tok(x) for x in v[1]])
    if k == "D": return " ".join(["D%d" % len(v[1])] + [tok(a) + " " + tok(b) for a, b in v[1]])
    raise ValueError(v)


def untok(toks):
    """parse the model's answer back into the JSON encoding"""
    t = toks.pop(0)
    k, a = t[0], t[1:]
    if k in "NO": return [k]
    if k == "B": return ["B", a == "1"]
    if k == "I": return ["I", a]
    if k == "F": return ["F", int(a)]
    if k in "YA": return [k, "" if a == "-" else a]
    if k == "S": return ["S", [] if a == "-" else [int(x) for x in a.split(",")]]
    if k in "LTEG": return [k, [untok(toks) for _ in range(int(a))]]
    if k == "D": return ["D", [[untok(toks), untok(toks)] for _ in range(int(a))]]
    raise ValueError(t)


def canon(v):
    """hashable canonical form: type aware, order free for sets and dicts"""
    k = v[0]
    if k in "NO": return (k,)
    if k in "LTG": return (k, tuple(canon(x) for x in v[1]))
    if k == "E": return (k, frozenset(canon(x) for x in v[1]))
    if k == "D": return (k, frozenset((canon(a), canon(b)) for a, b in v[1]))
    if k == "S": return (k, tuple(v[1]))
    return (k, v[1])


def loose(v):
    """Python == classes: bool/int merged, bytes/bytearray merged"""
    k = v[0]
    if k == "B": return ("I", str(int(v[1])))
    if k == "A": return ("Y", v[1])
    if k in "LTG": return (k, tuple(loose(x) for x in v[1]))
    if k == "E": return (k, frozenset(loose(x) for x in v[1]))
    if k == "D": return (k, frozenset((loose(a), loose(b)) for a, b in v[1]))
    if k == "S": return (k, tuple(v[1]))
    if k in "NO": return (k,)
    return (k, v[1])

WORKER = r'''
import sys, json, struct, importlib
def dec(v):
    k = v[0]
    if k == "N": return None
    if k == "O": return object()
    if k == "B": return bool(v[1])
    if k == "I": return int(v[1])
    if k == "F": return struct.unpack("<d", struct.pack("<Q", v[1]))[0]
    if k == "Y": return bytes.fromhex(v[1])
    if k == "A": return bytearray.fromhex(v[1])
    if k == "S": return "".join(map(chr, v[1]))
    if k == "L": return [dec(x) for x in v[1]]
    if k == "T": return tuple(dec(x) for x in v[1])
    if k == "E": return set(dec(x) for x in v[1])
    if k == "D": return {dec(a): dec(b) for a, b in v[1]}
    if k == "G": return GEN([dec(x) for x in v[1]])
    raise ValueError(v)
def enc(o):
    if o is None: return ["N"]
    if o is True or o is False: return ["B", o]
    if type(o) is int: return ["I", str(o)]
    if type(o) is float: return ["F", struct.unpack("<Q", struct.pack("<d", o))[0]]
    if type(o) is bytes: return ["Y", o.hex()]
    if type(o) is bytearray: return ["A", o.hex()]
    if type(o) is str: return ["S", [ord(c) for c in o]]
    if type(o) is list: return ["L", [enc(x) for x in o]]
    if type(o) is tuple: return ["T", [enc(x) for x in o]]
    if type(o) in (set, frozenset): return ["E", [enc(x) for x in o]]
    if type(o) is dict: return ["D", [[enc(a), enc(b)] for a, b in o.items()]]
    return ["O"]
req = json.load(sys.stdin)
out = []
for modname, cases in req:
    mod = importlib.import_module(modname)
    GEN = mod.gen
    for fn, v in cases:
        has_gen = "\"G\"" in json.dumps(v)
        try:
            o = dec(v)
            vin = v if has_gen or "\"O\"" in json.dumps(v) else enc(o)
        except Exception as e:
            out.append({"bad": repr(e)}); continue
        try:
            r = getattr(mod, fn)(o)
            out.append({"in": vin, "ok": enc(r)})
        except BaseException as e:
            out.append({"in": vin, "exc": type(e).__name__, "msg": str(e)[:200],
                        "mro": [c.__name__ for c in type(e).__mro__]})
print(json.dumps(out))
'''

# ------------------------------------------------------------------ generators
def int_range(t):
    w, sg = t[1], t[2]
    return (-(1 << (w - 1)), (1 << (w - 1)) - 1) if sg else (0, (1 << w) - 1)


BYTE_POOL = [b"", b"a", b"abc", b"a\x00b", b"\x00", b"\xff\xfe", b"h\xc3\xa9", b"\xe2\x82\xac", b"\xf0\x9f\x98\x80z",
             b"\xc0\x80", b"\xed\xa0\x80", b"tr\x00\x00", b"\x80", b"x" * 40]
TEXT_POOL = ["", "a", "abc", "a\x00b", "\x00", "hé", "€", "\U0001f600z", "ÿ", "nul\x00é", "y" * 40]
FLOAT_POOL = [0.5, -2.25, 1e300, 5e-324, float("inf"), -float("inf"), 3.75, 1.0, 0.0, 123456.789]


def str_value(cfg, rng, keyish=False):
    """a canonical Python value for std::string under the configuration"""
    _, st, en, _ = cfg
    if st == "str":
        codec = {"utf8": "utf-8", "ascii": "ascii", "latin1": "latin-1"}[en]
        for _ in range(20):
            s = rng.choice(TEXT_POOL)
            try:
                s.encode(codec)
                return eS(s)
            except UnicodeError:
                continue
        return eS("q")
    b = rng.choice(BYTE_POOL)
    return eA(b) if st == "bytearray" else eY(b)


def gen_valid(t, cfg, rng, depth=0, key=False):
    """canonical value (the image of to_py) for type t"""
    k = t[0]
    if k == "int":
        lo, hi = int_range(t)
        return eI(rng.choice([lo, hi, 0, 1, lo + 1, hi - 1, rng.randint(lo, hi), rng.randint(max(lo, -100), min(hi, 100))]))
    if k == "double":
        pool = FLOAT_POOL if key else FLOAT_POOL + [float("nan"), -0.0]
        return eF(rng.choice(pool))
    if k == "string":
        return str_value(cfg, rng)
    n = rng.choice([0, 1, 2, 3] if depth else [0, 1, 2, 3, 5])
    if k in ("vector", "cpplist"):
        return ["L", [gen_valid(t[1], cfg, rng, depth + 1, key) for _ in range(n)]]
    if k in ("set", "uset"):
        els = dedupe([gen_valid(t[1], cfg, rng, depth + 1, True) for _ in range(n)])
        return ["E" if all(hashable_enc(x) for x in els) else "L", els]
    if k in ("map", "umap"):
        ks = dedupe([gen_valid(t[1], cfg, rng, depth + 1, True) for _ in range(n)])
        return ["D", [[kk, gen_valid(t[2], cfg, rng, depth + 1, key)] for kk in ks]]
    if k == "pair":
        return ["T", [gen_valid(t[1], cfg, rng, depth + 1, key), gen_valid(t[2], cfg, rng, depth + 1, key)]]
    if k == "array":
        return ["L", [gen_valid(t[2], cfg, rng, depth + 1, key) for _ in range(t[1])]]
    if k == "struct":
        return ["D", [[eS(nm), gen_valid(ft, cfg, rng, depth + 1, key)] for nm, ft in t[2]]]
    if k == "union":
        nm, ft = rng.choice(t[2])
        return ["D", [[eS(nm), gen_valid(ft, cfg, rng, depth + 1, key)]]]
    if k == "ctuple":
        return ["T", [gen_valid(x, cfg, rng, depth + 1, key) for x in t[1]]]
    raise ValueError(t)


def dedupe(vs):
    seen, out = set(), []
    for v in vs:
        c = loose(v)
        if c not in seen:
            seen.add(c); out.append(v)
    return out


def bad_leaves(t, cfg):
    """invalid substitutes for a position of type t: (value, kind)"""
    k = t[0]
    _, st, en, _ = cfg
    out = [(NONE, "none")]
    if k == "int":
        lo, hi = int_range(t)
        out += [(eS("x"), "wrongtype"), (eI(hi + 1), "range"), (eI(lo - 1), "range"), (eI(1 << 70), "range"),
                (eY(b"1"), "wrongtype"), (["L", []], "wrongtype")]
    elif k == "double":
        out += [(eS("x"), "wrongtype"), (eY(b"1"), "wrongtype"), (["T", []], "wrongtype")]
    elif k == "string":
        out += [(eI(5), "wrongtype"), (["L", [eI(97)]], "wrongtype"), (eF(1.5), "wrongtype")]
        if en == "ascii":
            out.append((eS("hé"), "unencodable"))
        elif en == "utf8":
            out.append((eS("a\ud800"), "unencodable"))
        else:
            out.append((eS("abc"), "wrongtype"))          # str is not accepted without ascii/utf8
        if st == "str" and en in ("utf8", "ascii"):
            out.append((eY(b"\xff\xfe"), "undecodable"))  # accepted on input, cannot be decoded on output
    elif k in ("vector", "cpplist", "set", "uset", "array", "pair", "ctuple"):
        out += [(eI(5), "wrongtype"), (OBJ, "wrongtype"), (eF(2.5), "wrongtype")]
    elif k in ("map", "umap"):
        out += [(eI(5), "wrongtype"), (["L", []], "nonmapping"), (["L", [["T", [eI(1), eI(2)]]]], "nonmapping"),
                (["E", []], "nonmapping"), (eS("ab"), "nonmapping")]
    elif k in ("struct", "union"):
        out += [(eI(5), "wrongtype"), (["L", [eI(1), eI(2)]], "wrongtype"), (["E", []], "wrongtype"), (eS("ab"), "wrongtype")]
    return out


def positions(t, v, path=()):
    """all (path, type) positions of a canonical value (container positions and leaves)"""
    yield path, t
    k = t[0]
    if k in ("vector", "cpplist", "set", "uset"):
        for i, x in enumerate(v[1]):
            yield from positions(t[1], x, path + (i,))
    elif k == "array":
        for i, x in enumerate(v[1]):
            yield from positions(t[2], x, path + (i,))
    elif k in ("map", "umap"):
        for i, (a, b) in enumerate(v[1]):
            yield from positions(t[1], a, path + (i, 0))
            yield from positions(t[2], b, path + (i, 1))
    elif k == "pair":
        yield from positions(t[1], v[1][0], path + (0,))
        yield from positions(t[2], v[1][1], path + (1,))
    elif k == "ctuple":
        for i, x in enumerate(v[1]):
            yield from positions(t[1][i], x, path + (i,))
    elif k in ("struct", "union"):
        names = [n for n, _ in t[2]]
        for i, (a, b) in enumerate(v[1]):
            ft = dict(t[2])["".join(map(chr, a[1]))]
            yield from positions(ft, b, path + (i, 1))


def subst(v, path, new):
    if not path:
        return new
    v = [v[0], list(v[1])]
    i = path[0]
    if v[0] == "D":
        pair = list(v[1][i])
        pair[path[1]] = subst(pair[path[1]], path[2:], new)
        v[1][i] = pair
    else:
        v[1][i] = subst(v[1][i], path[1:], new)
    return v


def hashable_enc(v):
    k = v[0]
    if k in "LEDAG": return False
    if k == "T": return all(hashable_enc(x) for x in v[1])
    return True


def valid_struct_ok(v):
    """substituting into a dict key / set element must keep the Python value constructible"""
    k = v[0]
    if k in "LTG": return all(valid_struct_ok(x) for x in v[1])
    if k == "E": return all(hashable_enc(x) and valid_struct_ok(x) for x in v[1])
    if k == "D": return all(hashable_enc(a) and valid_struct_ok(a) and valid_struct_ok(b) for a, b in v[1])
    return True


def coercions(t, v, cfg, rng):
    """non-canonical but convertible (or length-wrong) variants of a canonical value: (value, kind)"""
    k = t[0]
    out = []
    if k in ("vector", "cpplist", "array"):
        items = v[1]
        out += [(["T", items], "coerce"), (["G", items], "coerce")]
        if all(hashable_enc(x) for x in items):
            out.append((["D", [[x, NONE] for x in dedupe(items)]], "coerce"))
        et = t[1] if k != "array" else t[2]
        if et[0] == "int":
            out.append((["L", [["B", True]] + items[1:]] if items else ["L", []], "coerce"))
            if k != "array":
                out.append((eY(b"\x00\x7f\xff"), "coerce"))
                out.append((eA(b"ab"), "coerce"))
        if k == "array":
            n = t[1]
            extra = gen_valid(et, cfg, rng, 1)
            for seq in ("L", "T", "G"):
                out += [([seq, items[:-1]], "length"), ([seq, items + [extra]], "length"), ([seq, []], "length")]
            out.append((["G", items + [extra, extra]], "length"))
            # element error combined with a wrong length (which error wins)
            bad = bad_leaves(et, cfg)[1][0] if len(bad_leaves(et, cfg)) > 1 else NONE
            out += [(["G", [bad] + items], "length"), (["G", items + [bad]], "length"),
                    (["L", items + [bad]], "length"), (["G", [bad]], "length")]
    if k in ("set", "uset"):
        items = v[1]
        out += [(["L", items + items[:2]], "coerce"), (["T", items[::-1]], "coerce"), (["G", items + items], "coerce")]
    if k in ("pair", "ctuple"):
        items = v[1]
        out += [(["L", items], "coerce"), (["T", items[:1]], "length"), (["T", items + items[:1]], "length"),
                (["T", []], "length"), (["G", items], "coerce"), (["L", items + items], "length")]
    if k in ("map", "umap"):
        pass
    if k == "struct":
        items = v[1]
        for i in range(len(items)):
            out.append((["D", items[:i] + items[i + 1:]], "missingkey"))
        out.append((["D", []], "missingkey"))
        out.append((["D", items + [[eS("zz_extra"), eI(1)]]], "extrakey"))
        out.append((["D", [[eI(0), eI(1)]] + items], "extrakey"))
        out.append((["D", items[1:] + [[eS("zz_extra"), eI(1)]]], "missingkey"))
        out.append((["D", items[::-1]], "coerce"))
    if k == "union":
        items = v[1]
        names = [n for n, _ in t[2]]
        other = [n for n in names if eS(n) != items[0][0]]
        out.append((["D", []], "missingkey"))
        out.append((["D", [[eS("zz"), eI(1)]]], "missingkey"))
        out.append((["D", items + [[eS("zz"), eI(1)]]], "extrakey"))
        for o in other:
            ft = dict(t[2])[o]
            out.append((["D", items + [[eS(o), gen_valid(ft, cfg, rng, 1)]]], "extrakey"))
            out.append((["D", [[eS(o), gen_valid(ft, cfg, rng, 1)]] + items], "extrakey"))
        out.append((["L", []], "missingkey"))
    if k == "string":
        _, st, en, _ = cfg
        for b in BYTE_POOL[:9]:
            out += [(eY(b), "coerce"), (eA(b), "coerce")]
        if en in ("utf8", "ascii"):
            for s in TEXT_POOL[:9]:
                out.append((eS(s), "coerce"))
    return out

# ------------------------------------------------------------------ the property oracle (Python level)
ALLOWED = {"TypeError", "ValueError", "OverflowError"}


class Bad(Exception):
    """the oracle's own verdict: the input is not convertible (kinds: type / value / range / length)"""
    def __init__(self, kind): self.kind = kind


def o_items(v):
    k = v[0]
    if k in "LTEG": return list(v[1])
    if k == "D": return [a for a, _ in v[1]]
    if k == "S": return [["S", [c]] for c in v[1]]
    if k in "YA": return [eI(x) for x in bytes.fromhex(v[1])]
    raise Bad("type")


def expect(t, v, cfg):
    """Python-level expectation: the value `T x = v; return x` must be equal (==) to, or Bad"""
    k = t[0]
    _, st, en, _ = cfg
    if k == "int":
        if v[0] == "B": return eI(int(v[1]))
        if v[0] != "I": raise Bad("type")
        lo, hi = int_range(t)
        if not lo <= int(v[1]) <= hi: raise Bad("range")
        return v
    if k == "double":
        if v[0] != "F": raise Bad("type")
        return v
    if k == "string":
        if v[0] in "YA":
            raw = bytes.fromhex(v[1])
        elif v[0] == "S" and en in ("utf8", "ascii"):
            try:
                raw = "".join(map(chr, v[1])).encode(en, "strict")
            except UnicodeError:
                raise Bad("value")
        else:
            raise Bad("type")
        if st == "bytes": return eY(raw)
        if st == "bytearray": return eA(raw)
        try:
            return eS(raw.decode({"utf8": "utf-8", "ascii": "ascii", "latin1": "latin-1"}[en]))
        except UnicodeError:
            raise Bad("value")
    if k in ("vector", "cpplist"):
        return ["L", [expect(t[1], x, cfg) for x in o_items(v)]]
    if k in ("set", "uset"):
        r = ["E", dedupe([expect(t[1], x, cfg) for x in o_items(v)])]
        if not all(hashable_enc(x) for x in r[1]): raise Bad("type")
        return r
    if k in ("map", "umap"):
        if v[0] != "D": raise Bad("type")
        seen, out = set(), []
        for a, b in v[1]:
            ka, vb = expect(t[1], a, cfg), expect(t[2], b, cfg)
            if not hashable_enc(ka): raise Bad("type")
            if loose(ka) not in seen:
                seen.add(loose(ka)); out.append([ka, vb])
        return ["D", out]
    if k == "pair":
        it = o_items(v)
        if len(it) != 2: raise Bad("length")
        return ["T", [expect(t[1], it[0], cfg), expect(t[2], it[1], cfg)]]
    if k == "ctuple":
        if v[0] not in "LTSYA": raise Bad("type")
        it = o_items(v)
        if len(it) != len(t[1]): raise Bad("length")
        return ["T", [expect(x, y, cfg) for x, y in zip(t[1], it)]]
    if k == "array":
        it = o_items(v)
        # element errors and length errors are both refusals; which one is reported is not the property's business
        out = [expect(t[2], x, cfg) for x in it[:t[1]]]
        if len(it) != t[1]: raise Bad("length")
        return ["L", out]
    if k == "struct":
        if v[0] != "D": raise Bad("type")
        names = [eS(n) for n, _ in t[2]]
        d = {json.dumps(a): b for a, b in v[1]}
        if any(json.dumps(n) not in d for n in names): raise Bad("value")
        out = ["D", [[n, expect(ft, d[json.dumps(n)], cfg)] for n, (_, ft) in zip(names, t[2])]]
        if len(v[1]) != len(names): raise Bad("value")     # wrong (extra) keys
        return out
    if k == "union":
        if v[0] != "D":
            raise Bad("type")
        names = [eS(n) for n, _ in t[2]]
        if len(v[1]) != 1 or v[1][0][0] not in names: raise Bad("value")
        ft = dict(t[2])["".join(map(chr, v[1][0][0][1]))]
        return ["U", v[1][0][0], expect(ft, v[1][0][1], cfg), names]
    raise ValueError(t)


def classify(name, t, kind, v, got, cfg):
    if name == "charp" and v[0] in "YA" and "00" in [v[1][i:i + 2] for i in range(0, len(v[1]), 2)]:
        return "charptr_embedded_nul_truncated"
    if name == "charp" and v[0] == "S" and 0 in v[1]:
        return "charptr_embedded_nul_truncated"
    if kind == "extrakey" and "ok" in got:
        return "struct_extra_keys_ignored"
    if got.get("exc") == "AttributeError" and kind in ("nonmapping", "none", "wrongtype"):
        return "map_from_nonmapping_attributeerror"
    return "conversion_%s_%s" % (kind, "wrong_value" if "ok" in got else got.get("exc"))

# ------------------------------------------------------------------ run
def model_exc_matches(mtok, got):
    if "exc" not in got:
        return False
    e, msg = got["exc"], got.get("msg", "")
    if mtok == "!IndexTooMany": return e == "IndexError" and msg.startswith("too many values")
    if mtok == "!IndexNotEnough": return e == "IndexError" and msg.startswith("not enough values")
    return mtok == "!" + e


def union_match(exp, got_v):
    if got_v[0] != "D": return False
    keys = [a for a, _ in got_v[1]]
    if sorted(map(json.dumps, keys)) != sorted(map(json.dumps, exp[3])): return False
    for a, b in got_v[1]:
        if a == exp[1]:
            return canon(b) == canon(exp[2])
    return False


def build_cases(ctx, cfg, types, quick, with_charp=True):
    rng = ctx.rng
    cases = []       # (fn, typename, type, kind, value)
    nvalid = 3 if quick else 10
    for name, t in types:
        valids = [gen_valid(t, cfg, rng) for _ in range(nvalid)]
        seen = set()
        for vi, v in enumerate(valids):
            def add(val, kind):
                key = json.dumps(val)
                if key in seen or not valid_struct_ok(val):
                    return
                seen.add(key)
                cases.append(("rt_" + name, name, t, kind, val))
            add(v, "valid")
            for val, kind in coercions(t, v, cfg, rng):
                add(val, kind)
            pos = list(positions(t, v))
            if quick and vi > 0:
                pos = rng.sample(pos, min(len(pos), 6))
            for path, pt in pos:
                bads = bad_leaves(pt, cfg)
                if quick and vi > 0:
                    bads = rng.sample(bads, min(len(bads), 3))
                for bad, kind in bads:
                    add(subst(v, path, bad), kind)
    if not with_charp:
        return cases
    # char*: top level only
    for b in BYTE_POOL:
        cases.append(("rt_charp", "charp", None, "charp", eY(b)))
        cases.append(("rt_charp", "charp", None, "charp", eA(b)))
    for s in TEXT_POOL + ["a\ud800"]:
        cases.append(("rt_charp", "charp", None, "charp", eS(s)))
    for bad in (NONE, eI(5), ["L", []], eF(1.0)):
        cases.append(("rt_charp", "charp", None, "charp", bad))
    return cases


def run(ctx):
    quick = ctx.tier == "quick"
    configs = CONFIGS[:2] if quick else CONFIGS
    import time
    t0 = time.time()
    specs, mods = [], []          # mods: (module name, cfg, types)
    for ci, cfg in enumerate(configs):
        key, st, en, _ = cfg
        if ci == 0:
            # NB vec_ctuple must share a module with ctuple1: a ctuple used only as a C++ template
            # argument is never declared (invalid C++; compile-time defect outside this property)
            chunks = [CATALOGUE[:18], CATALOGUE[18:]]
        else:
            strs = [(n, t) for n, t in CATALOGUE if has_string(t)]
            chunks = [strs]
        for j, types in enumerate(chunks):
            mn = "c33_%s_%d" % (key, j)
            mods.append((mn, cfg, types))
            specs.append(dict(name=mn, source=gen_source(types), workdir=ctx.workdir, cplus=True,
                              cflags=["-O0"], directives={"c_string_type": st, "c_string_encoding": en}))
    tmods = text_modules(quick)
    specs += [text_spec(ctx, tm) for tm in tmods]
    built = cybuild.build_many(specs, jobs=min(len(specs), 12))
    for (so, err), sp in zip(built, specs):
        if err is not None:
            ctx.corr_break("build " + sp["name"], sp["name"], str(err)[:1500], "module builds")
            return
    t1 = time.time()
    model = ctx.model("convert")
    allcases, req = [], []
    for j, (mn, cfg, types) in enumerate(mods):
        cs = build_cases(ctx, cfg, types, quick, with_charp=(mn.endswith("_0")))
        allcases += [(cfg,) + c for c in cs]
        req.append([mn, [[c[0], c[4]] for c in cs]])
    r = cybuild.run_script(WORKER, ctx.workdir, stdin_obj=req, timeout=1500)
    if r["json"] is None:
        ctx.corr_break("worker", "c33 worker", (r["err"] or "")[-1500:] + " rc=%s" % r["rc"], "JSON results")
        return
    ctx.note("timing: build %.1f s, run %.1f s" % (t1 - t0, time.time() - t1))
    results = r["json"]
    mq = []
    for (cfg, fn, name, t, kind, v), got in zip(allcases, results):
        vin = got.get("in", v)
        if name == "charp":
            mq.append("charp %s %s" % (cfg[3], tok(vin)))
        else:
            mq.append("rt %s %s %s" % (cfg[3], model_type(t), tok(vin)))
    mres = model.batch(mq)
    n_unmodelled = 0
    dbg = {"fail": {}, "corr": {}}
    for (cfg, fn, name, t, kind, v), got, q, m in zip(allcases, results, mq, mres):
        inp = {"config": cfg[0], "func": fn, "kind": kind, "value": v}
        if "bad" in got:
            ctx.corr_break("worker-decode", inp, got["bad"], "decodable input")
            continue
        vin = got["in"]
        ctx.case("%s/%s/%s" % (cfg[0], name, kind), inp, sig=(cfg[0], name, json.dumps(v)))
        # --- implementation vs model
        if m.startswith("!ERR"):
            ctx.corr_break("convert:model-error", inp, got, m)
        elif m == "!Unmodelled":
            n_unmodelled += 1
        elif m.startswith("!"):
            if not model_exc_matches(m, got):
                dbg["corr"].setdefault(name + "/" + kind, []).append([q, got])
                ctx.corr_break("convert:rt", inp, got, m)
        else:
            mv = untok(m.split())
            if "ok" not in got or not model_value_eq(mv, got["ok"]):
                dbg["corr"].setdefault(name + "/" + kind, []).append([q, m, got])
                ctx.corr_break("convert:rt", inp, got, m)
        # --- implementation vs property oracle
        if name == "charp":
            ok, exp = charp_oracle(cfg, vin, got)
        else:
            ok, exp = oracle(t, vin, cfg, got)
        if not ok:
            kl = classify(name, t, kind, vin, got, cfg)
            dbg["fail"].setdefault(kl, []).append([cfg[0], fn, vin, got, exp])
            ctx.fail(kl, inp, got, exp, note="model says %s" % m)
    ctx.extra["unmodelled_cases"] = n_unmodelled
    if tmods:
        run_text(ctx, tmods, model, dbg)
    if os.environ.get("C33_DEBUG"):
        with open(os.environ["C33_DEBUG"], "w") as f:
            json.dump(dbg, f)
    ctx.note("configurations: %s; %d types; %d cases; %d outside the model" %
             (",".join(c[0] for c in configs), len(CATALOGUE), len(allcases), n_unmodelled))


def model_value_eq(mv, gv):
    """model answer vs real answer: exact (type aware), PObj in the model = wildcard (union storage)"""
    if mv[0] == "O":
        return True
    if mv[0] != gv[0]:
        return False
    k = mv[0]
    if k in "LT":
        return len(mv[1]) == len(gv[1]) and all(model_value_eq(a, b) for a, b in zip(mv[1], gv[1]))
    if k == "D":
        if len(mv[1]) != len(gv[1]): return False
        gd = {json.dumps(canon_key(a)): b for a, b in gv[1]}
        return all(json.dumps(canon_key(a)) in gd and model_value_eq(b, gd[json.dumps(canon_key(a))]) for a, b in mv[1])
    if k == "E":
        return canon(mv) == canon(gv)
    return canon(mv) == canon(gv)


def canon_key(v):
    return repr(canon(v))


def oracle(t, vin, cfg, got):
    try:
        exp = expect(t, vin, cfg)
    except Bad as b:
        allowed = set(ALLOWED)
        if b.kind == "length":
            allowed.add("IndexError")      # length errors are not in the property's list: any refusal counts
        if "exc" in got and (set(got["mro"]) & allowed):
            return True, None
        return False, "raises one of %s (input not convertible: %s)" % (sorted(allowed), b.kind)
    if exp[0] == "U":
        if "ok" in got and union_match(exp, got["ok"]):
            return True, None
        return False, {"union member": exp[1], "value": exp[2]}
    if "ok" in got and loose(got["ok"]) == loose(exp) and strict_types_ok(exp, got["ok"]):
        return True, None
    return False, exp


def strict_types_ok(exp, gv):
    """the output must have the canonical Python types (list/set/dict/tuple, int, float, c_string_type)"""
    return canon(exp) == canon(gv)


def charp_oracle(cfg, vin, got):
    try:
        exp = expect(S, vin, cfg)
    except Bad:
        if "exc" in got and (set(got["mro"]) & ALLOWED):
            return True, None
        return False, "raises TypeError/ValueError"
    if "ok" in got and canon(got["ok"]) == canon(exp):
        return True, None
    if "exc" in got and (set(got["mro"]) & ALLOWED):
        return True, None              # round-trip OR raise
    return False, exp


def replay(ctx, obj):
    inp = obj["input"]
    if "text_config" in inp:
        return replay_text(ctx, inp, obj)
    cfg = [c for c in CONFIGS if c[0] == inp["config"]][0]
    types = [(n, t) for n, t in CATALOGUE if "rt_" + n == inp["func"]]
    cybuild.build("c33_replay", gen_source(types), ctx.workdir, cplus=True, cflags=["-O0"],
                  directives={"c_string_type": cfg[1], "c_string_encoding": cfg[2]})
    r = cybuild.run_script(WORKER, ctx.workdir, stdin_obj=[["c33_replay", [[inp["func"], inp["value"]]]]])
    print("replayed:", json.dumps(inp), "->", r["json"], "expected", obj.get("expected"))


# ================================================================== (B) text conversions
# __Pyx_PyObject_AsStringAndSize / __Pyx_PyUnicode_AsStringAndSize / __Pyx_PyObject_FromString[AndSize]
# under every c_string_type / c_string_encoding class, through every entry point.
FX_LIMNULL = os.environ.get("C33_FX_LIMNULL", "1")     # "1" once proposed_fixes/C33-limited_api_ascii_surrogate_systemerror.diff is applied
LIMITED = ["CYTHON_LIMITED_API=1", "Py_LIMITED_API=0x030c0000"]

# key, c_string_type, c_string_encoding (as written), normalised (type, enc), model tokens, how the directive is
# given ("opt": compiler_directives, already normalised; "hdr": `# cython:` comment = the real directive parser), api
TEXT_QUICK = [
    ("ba", "bytes", "ascii", ("bytes", "ascii"), "b a", "opt", "0"),
    ("ua", "str", "ascii", ("str", "ascii"), "u a", "opt", "0"),
    ("u8", "str", "utf8", ("str", "utf8"), "u 8", "opt", "0"),
    ("a8", "bytearray", "utf8", ("bytearray", "utf8"), "a 8", "opt", "0"),
    ("lua", "str", "ascii", ("str", "ascii"), "u a", "opt", "L"),
]
TEXT_THOROUGH = [
    ("bn", "bytes", "", ("bytes", ""), "b n", "opt", "0"),
    ("an", "bytearray", "", ("bytearray", ""), "a n", "opt", "0"),
    ("b8", "bytes", "utf8", ("bytes", "utf8"), "b 8", "opt", "0"),
    ("aa", "bytearray", "ascii", ("bytearray", "ascii"), "a a", "opt", "0"),
    ("ul", "str", "latin1", ("str", "latin1"), "u l", "opt", "0"),
    ("bl", "bytes", "latin1", ("bytes", "latin1"), "b l", "opt", "0"),
    ("al", "bytearray", "iso8859-15", ("bytearray", "iso8859-15"), "a l", "opt", "0"),
    ("h1", "unicode", "default", ("str", "utf8"), "u 8", "hdr", "0"),
    ("h2", "str", "US-ASCII", ("str", "ascii"), "u a", "hdr", "0"),
    ("h3", "bytes", "UTF-8", ("bytes", "utf8"), "b 8", "hdr", "0"),
    ("h4", "bytearray", "utF8", ("bytearray", "utf8"), "a 8", "hdr", "0"),
    ("lb8", "bytes", "utf8", ("bytes", "utf8"), "b 8", "opt", "L"),
    ("lba", "bytes", "ascii", ("bytes", "ascii"), "b a", "opt", "L"),
]

# entry point -> (model command kind, wrapper)   wrapper: how the input is packed for the call
TEXT_ENTRIES = [
    ("arg_ccharp", "charp"), ("arg_charp", "charp"), ("arg_ucharp", "charp"), ("var_ccharp", "charp"),
    ("ret_ccharp", "charp"), ("arg_ccharp_len", "cplen"), ("arg_string", "str"), ("var_string", "str"),
    ("arg_string_len", "ssize"), ("struct_rt", "struct"), ("vec_string", "vec"),
]
TEXT_BODY = r"""
from libc.string cimport strlen
from libcpp.string cimport string
from libcpp.vector cimport vector

cdef struct Named:
    const char* name
    int n

cdef const char* c_ret(object o) except NULL:
    return o

def arg_ccharp(const char* s): return s
def arg_charp(char* s): return s
def arg_ucharp(const unsigned char* s): return s
def arg_ccharp_len(const char* s): return strlen(s)
def var_ccharp(o):
    cdef const char* p = o
    return p
def ret_ccharp(o): return c_ret(o)
def arg_string(string s): return s
def arg_string_len(string s): return s.size()
def var_string(o):
    cdef string s = o
    return s
def struct_rt(d):
    cdef Named v = d
    return v
def vec_string(o):
    cdef vector[string] v = o
    return v
"""


def text_modules(quick):
    if os.environ.get("C33_NO_TEXT"):       # timing aid only (wall time of part A alone)
        return []
    return TEXT_QUICK if quick else TEXT_QUICK + TEXT_THOROUGH


def text_spec(ctx, tm):
    key, st, en, _, _, via, api = tm
    head = "# distutils: language=c++\n#\n"
    dirs = None
    if via == "hdr":
        head += "# cython: language_level=3, c_string_type=%s, c_string_encoding=%s\n" % (st, en)
    else:
        dirs = {"c_string_type": st, "c_string_encoding": en}
    return dict(name="c33t_" + key, source=head + TEXT_BODY, workdir=ctx.workdir, cplus=True, cflags=["-O0"],
                directives=dirs, macros=(LIMITED if api == "L" else None))


def text_entries(tm):
    if tm[6] == "L":      # the API variant matters to the leaf conversions only
        return [e for e in TEXT_ENTRIES if e[1] not in ("struct", "vec")]
    return TEXT_ENTRIES

# code points at the boundaries of every storage class / encoder branch
CP_CLASSES = [
    ("ascii", [0x01, 0x41, 0x7f]),
    ("latin1", [0x80, 0xa0, 0xe9, 0xff]),
    ("bmp", [0x100, 0x7ff, 0x800, 0x20ac, 0xd7ff, 0xe000, 0xffff]),
    ("astral", [0x10000, 0x1f600, 0x10ffff]),
    ("surrogate", [0xd800, 0xdbff, 0xdc00, 0xdfff]),
    ("nul", [0]),
]
BACKGROUNDS = [("a", [0x61, 0x62]), ("l", [0xe9, 0xbf]), ("b", [0x20ac, 0x100]), ("s", [0x1f600, 0x10000])]
# ill-formed / boundary UTF-8 sequences (and the well-formed neighbours)
BYTE_SEQS = [
    b"\x80", b"\xbf", b"\xc0\x80", b"\xc1\xbf", b"\xc2", b"\xc2\x80", b"\xdf\xbf", b"\xc2\x41",
    b"\xe0\x80\x80", b"\xe0\x9f\xbf", b"\xe0\xa0\x80", b"\xed\x9f\xbf", b"\xed\xa0\x80", b"\xed\xbf\xbf",
    b"\xee\x80\x80", b"\xef\xbf\xbf", b"\xe2\x82", b"\xe2\x82\xac", b"\xf0\x80\x80\x80", b"\xf0\x8f\xbf\xbf",
    b"\xf0\x90\x80\x80", b"\xf0\x9f\x98", b"\xf0\x9f\x98\x80", b"\xf4\x8f\xbf\xbf", b"\xf4\x90\x80\x80",
    b"\xf5\x80\x80\x80", b"\xf8\x88\x80\x80\x80", b"\xfe", b"\xff", b"\x7f", b"\x01", b"\x00", b"\xe9", b"\xa0",
]


def cp_class(cps):
    """storage class of a str input (from the input alone): what decides the branch taken"""
    if any(0xd800 <= c <= 0xdfff for c in cps): top = "surrogate"
    elif not cps or max(cps) < 0x80: top = "ascii"
    elif max(cps) < 0x100: top = "latin1"
    elif max(cps) < 0x10000: top = "bmp"
    else: top = "astral"
    return top + ("+nul" if 0 in cps else "")


def place(c, bg, pos):
    if pos == "only": return c
    if pos == "first": return c + bg
    if pos == "last": return bg + c
    return bg[:1] + c + bg[1:]


def text_inputs(ctx, quick):
    """[(stratum, tagged value)] -- the same list for every configuration"""
    out, seen = [], set()

    def add(stratum, v):
        k = json.dumps(v)
        if k not in seen:
            seen.add(k); out.append((stratum, v))
    rng = ctx.rng
    for cname, cps in CP_CLASSES:
        for c in cps:
            for bname, bg in BACKGROUNDS:
                if quick and bname != "a" and c not in (0, 0x7f, 0x80, 0xff, 0x100, 0xffff, 0x10000, 0xdc00):
                    continue
                for pos in ("only", "first", "middle", "last"):
                    if pos == "only" and bname != "a":
                        continue
                    add("str/%s/%s/bg-%s" % (cname, pos, bname), ["S", place([c], bg, pos)])
    add("str/empty", ["S", []])
    add("str/ascii/all", ["S", list(range(1, 128))])
    add("str/latin1/all", ["S", list(range(1, 256))])
    for n in (40, 300):
        add("str/long/ascii", ["S", [0x78] * n])
        add("str/long/latin1-last", ["S", [0x78] * n + [0xe9]])
        add("str/long/latin1-first", ["S", [0xff] + [0x78] * n])
        add("str/long/bmp", ["S", [0x20ac] * n])
        add("str/long/surrogate-last", ["S", [0x78] * n + [0xdfff]])
    add("str/surrogate/pair", ["S", [0xd800, 0xdc00]])
    add("str/surrogate/pair-rev", ["S", [0x61, 0xdc00, 0xd800]])
    add("str/nul/latin1", ["S", [0xe9, 0, 0xe9]])
    add("str/nul/only-nuls", ["S", [0, 0]])
    pool = [c for _, cps in CP_CLASSES for c in cps]
    for i in range(12 if quick else 300):
        n = rng.choice([1, 2, 3, 5, 9])
        cl = rng.choice(CP_CLASSES[:4 if rng.random() < 0.7 else 6])[1]
        cps = [rng.choice(cl + [0x61, 0x7a]) if rng.random() < 0.8 else rng.choice(pool) for _ in range(n)]
        if not quick and rng.random() < 0.3:
            cps = [rng.randrange(0x110000) for _ in range(n)]
        add("str/random", ["S", cps])
    for bs in BYTE_SEQS:
        for pos in ("only", "first", "middle", "last"):
            if quick and pos in ("first",) and bs not in (b"\x00", b"\xff", b"\xc2"):
                continue
            b = place(bs, b"ab", pos)
            add("bytes/%s" % pos, ["Y", b.hex()])
            if not quick or pos == "middle":
                add("bytearray/%s" % pos, ["A", b.hex()])
    for b in (b"", b"abc", b"x" * 300, bytes(range(1, 256)), b"\x00\x00", "h\xe9€\U0001f600".encode("utf8") * 20):
        add("bytes/pool", ["Y", b.hex()]); add("bytearray/pool", ["A", b.hex()])
    for bad in (NONE, eI(5), eF(1.5), ["L", []], OBJ, ["T", [eS("a")]], ["B", True]):
        add("wrongtype", bad)
    return out

TEXT_WORKER = r"""
import sys, json, struct, importlib, ctypes
def dec(v):
    k = v[0]
    if k == "N": return None
    if k == "O": return object()
    if k == "B": return bool(v[1])
    if k == "I": return int(v[1])
    if k == "F": return struct.unpack("<d", struct.pack("<Q", v[1]))[0]
    if k == "Y": return bytes.fromhex(v[1])
    if k == "A": return bytearray.fromhex(v[1])
    if k == "S": return "".join(map(chr, v[1]))
    if k == "L": return [dec(x) for x in v[1]]
    if k == "T": return tuple(dec(x) for x in v[1])
    raise ValueError(v)
def enc(o):
    if o is None: return ["N"]
    if o is True or o is False: return ["B", o]
    if type(o) is int: return ["I", str(o)]
    if type(o) is float: return ["F", struct.unpack("<Q", struct.pack("<d", o))[0]]
    if type(o) is bytes: return ["Y", o.hex()]
    if type(o) is bytearray: return ["A", o.hex()]
    if type(o) is str: return ["S", [ord(c) for c in o]]
    if type(o) is list: return ["L", [enc(x) for x in o]]
    if type(o) is tuple: return ["T", [enc(x) for x in o]]
    if type(o) is dict: return ["D", [[enc(a), enc(b)] for a, b in o.items()]]
    return ["O"]
def state(o):
    # PEP 393 header of CPython 3.12: ... hash | state{interned:2, kind:3, compact:1, ascii:1}
    if type(o) is not str or sys.version_info[:2] != (3, 12): return None
    v = ctypes.c_uint.from_address(id(o) + 32).value
    return [(v >> 2) & 7, (v >> 6) & 1]
req = json.load(sys.stdin)
out = []
for modname, entries, values in req:
    mod = importlib.import_module(modname)
    rows = []
    for v in values:
        o = dec(v)                 # ONE object for all entry points: later calls meet the cached UTF-8 form
        row = {"state": state(o), "res": []}
        for fn, kind in entries:
            a = o
            if kind == "struct": a = {"name": o, "n": 7}
            elif kind == "vec": a = [b"ok", o, o]
            try:
                row["res"].append({"ok": enc(getattr(mod, fn)(a))})
            except BaseException as e:
                row["res"].append({"exc": type(e).__name__, "msg": str(e)[:160],
                                   "mro": [c.__name__ for c in type(e).__mro__]})
        rows.append(row)
    out.append(rows)
print(json.dumps(out))
"""

PY_CODEC = {"ascii": "ascii", "utf8": "utf-8", "latin1": "latin-1", "iso8859-15": "iso8859-15"}


class Raises(Exception):
    def __init__(self, name): self.name = name


def text_from_py(norm, v):
    """CPython-level meaning of Python -> char buffer: bytes, or Raises(exception type)"""
    en = norm[1]
    if v[0] in "YA":
        return bytes.fromhex(v[1])
    if v[0] == "S":
        if en not in ("ascii", "utf8"):
            raise Raises("TypeError")             # no implicit encoding
        try:
            return "".join(map(chr, v[1])).encode(PY_CODEC[en], "strict")
        except UnicodeEncodeError:
            raise Raises("UnicodeEncodeError")
    raise Raises("TypeError")


def text_to_py(norm, raw):
    st, en = norm
    if st == "bytes": return eY(raw)
    if st == "bytearray": return eA(raw)
    try:
        return eS(raw.decode(PY_CODEC[en], "strict"))
    except UnicodeDecodeError:
        raise Raises("UnicodeDecodeError")


def text_expect(norm, kind, v, cut):
    """expected tagged result of an entry point; cut: char* values end at the first NUL (strlen)"""
    def charp(raw):
        return raw.split(b"\x00")[0] if cut else raw
    if kind == "charp":
        return text_to_py(norm, charp(text_from_py(norm, v)))
    if kind == "cplen":
        return eI(len(text_from_py(norm, v).split(b"\x00")[0]))      # strlen IS the length up to the first NUL
    if kind == "str":
        return text_to_py(norm, text_from_py(norm, v))
    if kind == "ssize":
        return eI(len(text_from_py(norm, v)))
    if kind == "struct":
        return ["D", [[eS("name"), text_to_py(norm, charp(text_from_py(norm, v)))], [eS("n"), eI(7)]]]
    if kind == "vec":
        ok = text_to_py(norm, b"ok")
        raw = text_from_py(norm, v)
        return ["L", [ok, text_to_py(norm, raw), text_to_py(norm, raw)]]
    raise ValueError(kind)


def text_verdict(norm, kind, v, got, cut):
    """(ok?, expected description)"""
    try:
        exp = text_expect(norm, kind, v, cut)
    except Raises as r:
        return (got.get("exc") == r.name), "raises " + r.name
    return ("ok" in got and canon(got["ok"]) == canon(exp)), exp


def text_class(tm, kind, fn, v, got):
    key, norm, api = tm[0], tm[3], tm[6]
    if v[0] == "S":
        what = cp_class(v[1])
    elif v[0] in "YA":
        what = "bytes" + ("+nul" if "00" in [v[1][i:i + 2] for i in range(0, len(v[1]), 2)] else "")
    else:
        what = "nonstring"
    if api == "L" and norm[1] == "ascii" and what.startswith("surrogate") and FX_LIMNULL != "1":
        return "limited_api_ascii_surrogate_systemerror"
    return "text_%s_%s_%s_%s" % (norm[1] or "noenc", kind, what, "wrong_value" if "ok" in got else got.get("exc"))


def text_query(tm, kind, v):
    api = "0" if tm[6] != "L" else ("2" if FX_LIMNULL == "1" else "1")
    cmd = {"charp": "charpl", "cplen": "cplen", "str": "strl", "ssize": "ssize"}.get(kind)
    if cmd:
        return "%s %s %s %s" % (cmd, api, tm[4], tok(v))
    if kind == "struct":
        return "rt %s St2 S110,97,109,101 p S110 i32s D2 S110,97,109,101 %s S110 I7" % (tm[4], tok(v))
    return "rt %s V s L3 Y6f6b %s %s" % (tm[4], tok(v), tok(v))


def run_text(ctx, tmods, model, dbg):
    import time
    quick = ctx.tier == "quick"
    t0 = time.time()
    inputs = text_inputs(ctx, quick)
    vals = [v for _, v in inputs]
    req = [["c33t_" + tm[0], text_entries(tm), vals] for tm in tmods]
    r = cybuild.run_script(TEXT_WORKER, ctx.workdir, stdin_obj=req, timeout=1500, name="driver_text.py")
    if r["json"] is None:
        ctx.corr_break("text-worker", "c33 text worker", (r["err"] or "")[-1500:] + " rc=%s" % r["rc"], "JSON results")
        return
    # model: storage class of every str input + every (configuration, entry kind, input)
    qs, qi = [], {}

    def q(line):
        if line not in qi:
            qi[line] = len(qs); qs.append(line)
        return qi[line]
    kq = {json.dumps(v): q("kind " + tok(v)) for v in vals if v[0] == "S"}
    plan = []
    for tm, rows in zip(tmods, r["json"]):
        for (stratum, v), row in zip(inputs, rows):
            for (fn, kind), got in zip(text_entries(tm), row["res"]):
                plan.append((tm, stratum, v, fn, kind, got, q(text_query(tm, kind, v))))
    ans = model.batch(qs)
    # PEP 393 tie: the model's kind / ascii flag vs the real object header
    nstate = 0
    for (stratum, v), row in zip(inputs, r["json"][0]):
        if v[0] == "S" and row["state"] is not None:
            nstate += 1
            m = ans[kq[json.dumps(v)]]
            if m != "%d %d" % tuple(row["state"]):
                ctx.corr_break("text:pep393-state", {"value": v}, row["state"], m)
    nfail = 0
    for tm, stratum, v, fn, kind, got, qidx in plan:
        key, norm = tm[0], tm[3]
        inp = {"text_config": key, "func": fn, "kind": kind, "value": v}
        ctx.case("text/%s/%s/%s" % (key, kind, stratum), inp, sig=("text", key, fn, json.dumps(v)))
        m = ans[qidx]
        # --- implementation vs model (exact value, exact exception type)
        if m.startswith("!ERR") or m == "!Unmodelled":
            ctx.corr_break("text:model-error", inp, got, m)
        elif m.startswith("!"):
            if got.get("exc") != m[1:]:
                dbg["corr"].setdefault("text/" + kind, []).append([qs[qidx], m, got])
                ctx.corr_break("text:" + kind, inp, got, m)
        else:
            if "ok" not in got or not model_value_eq(untok(m.split()), got["ok"]):
                dbg["corr"].setdefault("text/" + kind, []).append([qs[qidx], m, got])
                ctx.corr_break("text:" + kind, inp, got, m)
        # --- implementation vs CPython's codecs (value, length, exception type)
        ok, exp = text_verdict(norm, kind, v, got, cut=False)
        if not ok:
            nfail += 1
            if kind in ("charp", "struct") and text_verdict(norm, kind, v, got, cut=True)[0]:
                kl = "charptr_embedded_nul_truncated"       # exactly the strlen cut, nothing else wrong
            else:
                kl = text_class(tm, kind, fn, v, got)
            dbg["fail"].setdefault(kl, []).append([key, fn, v, got, exp])
            ctx.fail(kl, inp, got, exp, note="model says %s" % m)
    ctx.extra["text_configurations"] = [{"key": tm[0], "c_string_type": tm[1], "c_string_encoding": tm[2],
                                         "directive_via": tm[5], "api": "limited" if tm[6] == "L" else "full"} for tm in tmods]
    ctx.extra["text_storage_classes"] = sorted({cp_class(v[1]) for v in vals if v[0] == "S"})
    ctx.note("text part: %d configurations x %d inputs x entry points = %d cases (%d str inputs with PEP 393 state tie), "
             "%d model queries, %.1f s" % (len(tmods), len(vals), len(plan), nstate, len(qs), time.time() - t0))


def replay_text(ctx, inp, obj):
    tm = [t for t in TEXT_QUICK + TEXT_THOROUGH if t[0] == inp["text_config"]][0]
    cybuild.build(**text_spec(ctx, tm))
    ents = [e for e in TEXT_ENTRIES if e[0] == inp["func"]]
    r = cybuild.run_script(TEXT_WORKER, ctx.workdir, stdin_obj=[["c33t_" + tm[0], ents, [inp["value"]]]],
                           name="driver_text.py")
    print("replayed:", json.dumps(inp), "->", r["json"], "expected", obj.get("expected"))
