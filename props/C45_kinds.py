"""C45 helper (not a property): the "kinds" family.

One generated MODULE contains code objects of every kind that emits trace events
  def / nested closure / lambda / method, staticmethod, classmethod of a Python class / def method of
  a cdef class / cdef function (object, void, C int with error value) / cpdef called directly /
  cpdef called through its Python wrapper / generator / generator with `yield from` / coroutine with
  await (suspending and not) / async generator under `async for` / generator expression, real
  (for, sum, tuple, min, max, frozenset) and inlined (any, all, sorted, list, set, dict, str.join) /
  comprehensions and class bodies (inline in the enclosing code object)
whose bodies are drawn from the statement language of Model/M_TraceGen.v (call, raise, return, yield,
if, for-else, try/except, try/finally, with).  Every run-time decision of the module is read from a
TAPE (`T()` pops the next small int), so one compiled module is executed on many tapes: one case =
(module, entry function, tape, build, hook).  The same source text (pure-Python-mode Cython) is
  * compiled with profile=True and with linetrace=True/-DCYTHON_TRACE=1 and run under
    sys.setprofile / sys.settrace                                                  (implementation)
  * executed by CPython under the same hooks                                        (oracle)
  * interpreted by the evaluator below into an execution tree + per-instance oracles, which the
    extracted Coq model (M_TraceGen.word) turns into the event word                 (model)
and the generated C text of every code object is compared with M_TraceGen.epilogue (static tie).
"""
import os, re, json

CATCH = ("V", "S")          # what `except (ValueError, StopIteration)` catches
F_KINDS = ("def", "nested", "lambda", "meth", "smeth", "cmeth", "emeth", "cfunc", "cvoid", "cint", "ccall",
           "ccallpy")
G_KINDS = ("gen", "coro", "agen")
X_INL = ("any", "all", "sorted", "list", "set", "dict", "join")
X_REAL = ("for", "sum", "tuple", "min", "max", "frozenset")
MK = {"def": "f0", "nested": "f0", "lambda": "f0", "meth": "f0", "smeth": "f0", "cmeth": "f0", "emeth": "f0",
      "cfunc": "f1", "cvoid": "f1", "cint": "f1", "ccall": "f1", "ccallpy": "f2",
      "gen": "g00", "coro": "g00", "agen": "g00", "genexpr": "g00",
      "any": "g10", "all": "g10", "sorted": "g11", "list": "g11", "set": "g11", "dict": "g11", "join": "g11"}


# ------------------------------------------------------------------ module generator
class ModGen:
    """functions are numbered; a function only refers to functions with a HIGHER number (no recursion)"""

    def __init__(self, rng, n_mid=14, early=True, cpw=True, fixed=True, n_gen=6):
        self.rng = rng
        self.fns = {}
        self.order = []
        r = rng
        nid = [0]

        def new(pk, body=None, **kw):
            j = nid[0]; nid[0] += 1
            self.fns[j] = dict(id=j, pk=pk, body=body, **kw)
            self.order.append(j)
            return j
        self.new = new
        # numbering: allocate ids top-down but fill bodies bottom-up
        n_entry = 3
        entries = [new("def") for _ in range(n_entry)]
        mids = []
        kinds_mid = ["def", "nested", "lambda", "meth", "smeth", "cmeth", "emeth", "cfunc", "cvoid", "cint", "ccall"]
        r.shuffle(kinds_mid)
        for i in range(n_mid):
            mids.append(new(kinds_mid[i % len(kinds_mid)]))
        fixed_ids = {}
        if fixed:
            for nm in ("fx_inl", "fx_exits_f", "fx_gen_drv", "fx_async", "fx_yf", "fx_with", "fx_cexits", "fx_zoo"):
                fixed_ids[nm] = new("def")
        # one small function of every plain kind, leaving by raise / return / falling off the end
        self.zoo = [new(pk) for pk in ("def", "nested", "lambda", "meth", "smeth", "cmeth", "emeth", "cfunc", "cvoid",
                                       "cint", "ccall")] if fixed else []
        self.early_ids = [new("def"), new("def")] if early else []
        self.cpw_id = new("def") if cpw else None
        gens = []
        gk = ["gen", "coro", "gen", "gen", "agen", "gen"]
        for i in range(n_gen):
            gens.append(new(gk[i % 6]))
        # fixed-shape generator-ish functions
        self.g_yf = new("gen")          # delegates with yield from
        self.g_inner = new("gen")
        self.co_outer = new("coro")     # awaits a coroutine and a suspending awaitable
        self.co_inner = new("coro")
        self.co_afor = new("coro")      # async for over an async generator
        self.ag = new("agen")
        self.g_exits = [new("gen") for _ in range(4)]
        self.cpw_fns = [new("ccallpy"), new("ccallpy")] if cpw else []
        leaves = []
        lk = ["def", "cfunc", "cint", "meth", "def", "cvoid", "lambda"]
        for i in range(7):
            leaves.append(new(lk[i]))
        self.cm_enter = new("meth", [("return",)], name="__enter__")
        self.cm_exit = new("meth", [("return",)], name="__exit__")
        self.susp = new("gen", [("yield",)], name="__await__")
        self.entries, self.mids, self.gens, self.leaves = entries, mids, gens, leaves
        self.fixed_ids = fixed_ids
        self.extra = []                 # synthesized generator expressions
        # ---- bodies, bottom-up
        for j in leaves:
            self.fns[j]["body"] = self.leaf_body(self.fns[j]["pk"])
        for j in self.zoo:
            lf = r.choice([c for c in leaves if self.fns[c]["pk"] != "cvoid"])
            self.fns[j]["body"] = [("lcall", [lf])] if self.fns[j]["pk"] == "lambda" else \
                [("if", [("raise",)], []), ("if", [("return",)], []), ("call", lf)]
        for j in self.cpw_fns:
            self.fns[j]["body"] = [("if", [("raise",)], []), ("call", r.choice(leaves))]
        if self.cpw_fns:
            self.fns[self.cpw_fns[-1]]["body"] = [("call", r.choice(leaves)), ("if", [("raise",)], [("return",)])]
        self.fixed_gen_bodies()
        for j in reversed(gens):
            self.fns[j]["body"] = self.rand_body(j, self.fns[j]["pk"])
        if cpw:
            self.fns[self.cpw_id]["body"] = [("try", [("call", self.cpw_fns[0])], [("call", leaves[0])]),
                                             ("call", self.cpw_fns[1]), ("call", self.cpw_fns[0])]
        for k, j in enumerate(self.early_ids):
            self.fns[j]["body"] = self.early_body(k)
        if fixed:
            self.fixed_bodies()
        for j in reversed(mids):
            self.fns[j]["body"] = self.rand_body(j, self.fns[j]["pk"])
        for j in reversed(entries):
            self.fns[j]["body"] = self.entry_body(j)
        self.all_entries = list(entries) + list(fixed_ids.values()) + self.early_ids + \
            ([self.cpw_id] if cpw else [])

    # ---- helpers
    def callable_after(self, j, expr=False):
        ok = [k for k in self.order if k > j and self.fns[k]["pk"] in F_KINDS and self.fns[k]["pk"] != "ccallpy"
              and "name" not in self.fns[k] and k not in self.early_ids and k != self.cpw_id
              and k not in self.fixed_ids.values() and k not in self.zoo]
        if expr:
            ok = [k for k in ok if self.fns[k]["pk"] != "cvoid"]
        return ok

    def gens_after(self, j, kinds=("gen",)):
        special = {self.g_yf, self.g_inner, self.co_outer, self.co_inner, self.co_afor, self.ag, self.susp}
        return [k for k in self.order if k > j and self.fns[k]["pk"] in kinds and k not in special]

    def leaf_body(self, pk):
        r = self.rng
        if pk == "lambda":
            return [("lcall", [])]
        opts = [[("if", [("raise",)], []), ("return",)],
                [("if", [("raise",)], [])],
                [("if", [("return",)], [("raise",)])],
                [("loop", [("if", [("raise",)], [])], [])],
                [("try", [("if", [("raise",)], [])], []), ("if", [("raise",)], [])]]
        return r.choice(opts)

    def genx(self, parent, how, filt=None):
        """synthesize the generator expression code object; returns its id"""
        e = self.rng.choice(self.callable_after(max(parent, self.mids[-1] if self.mids else parent), expr=True))
        q = self.rng.choice(self.callable_after(parent, expr=True)) if filt else None
        j = self.new(how if how in X_INL else "genexpr", None, how=how, elem=e, filt=q, parent=parent)
        self.order.remove(j)
        self.extra.append(j)
        return j

    def stmt(self, j, pk, depth, in_fin, in_gen, in_try):
        r = self.rng
        cal = self.callable_after(j)
        opts = ["call"] * 5 + ["ifraise"] * 2 + ["if"] * 2 + ["return"]
        if depth < 2:
            opts += ["loop", "try", "try", "fin", "with", "ifc"]
        if in_gen and not in_fin:
            opts += ["yield"] * 5
        if pk in ("coro", "agen"):
            opts = ["call"] * 4 + ["ifraise", "if", "try", "ifc"] + (["yield"] * 3 if in_gen else [])
        elif pk not in ("lambda",) and depth < 2 and not in_gen:
            if self.gens_after(j):
                opts += ["for", "drive", "drive", "consume"]
            if self.gens_after(j, ("coro",)):
                opts += ["runco"]
            opts += ["comp"]
            if pk not in ("cfunc", "cvoid", "cint", "ccall", "ccallpy"):      # no closures in cdef/cpdef functions
                opts += ["genx"] * 3 + ["class"]
        k = r.choice(opts)
        if k == "return" and in_try:
            k = "call"
        if k == "call":
            return ("call", r.choice(cal))
        if k == "ifraise":
            return ("if", [("raise",)], [])
        if k == "return":
            return ("if", [("return",)], [])
        if k == "yield":
            return ("yield",)
        if k == "if":
            return ("if", self.block(j, pk, depth + 1, in_fin, in_gen, in_try, 2),
                    self.block(j, pk, depth + 1, in_fin, in_gen, in_try, 1) if r.random() < 0.5 else [])
        if k == "ifc":
            return ("ifc", r.choice(self.callable_after(j, expr=True)),
                    self.block(j, pk, depth + 1, in_fin, in_gen, in_try, 2), [])
        if k == "loop":
            return ("loop", self.block(j, pk, depth + 1, in_fin, in_gen, in_try, 2),
                    self.block(j, pk, depth + 1, in_fin, in_gen, in_try, 1) if r.random() < 0.3 else [])
        if k == "try":
            return ("try", self.block(j, pk, depth + 1, in_fin, in_gen, in_try, 2),
                    self.block(j, pk, depth + 1, in_fin, in_gen, in_try, 1))
        if k == "fin":
            return ("fin", self.block(j, pk, depth + 1, in_fin, in_gen, True, 2),
                    self.block(j, pk, depth + 1, True, in_gen, in_try, 1))
        if k == "with":
            return ("with", self.block(j, pk, depth + 1, in_fin, in_gen, True, 2))
        if k == "for":
            return ("for", r.choice(self.gens_after(j)), self.block(j, pk, depth + 1, in_fin, in_gen, True, 1))
        if k == "drive":
            ops = [r.choice("nN")] + [r.choice("nnNt") for _ in range(r.randint(0, 3))]
            return ("drive", r.choice(self.gens_after(j)), "".join(ops))
        if k == "runco":
            return ("runco", r.choice(self.gens_after(j, ("coro",))))
        if k == "consume":
            return ("consume", r.choice(["list", "tuple", "sum", "sorted", "set", "frozenset", "min", "max"]),
                    r.choice(self.gens_after(j)))
        if k == "genx":
            how = r.choice(X_INL + X_REAL)
            return ("genx", how, self.genx(j, how, filt=r.random() < 0.3))
        if k == "comp":
            return ("comp", r.choice(["list", "set", "dict"]), r.choice(self.callable_after(j, expr=True)))
        if k == "class":
            return ("class", r.choice(self.callable_after(j, expr=True)))
        raise AssertionError(k)

    def block(self, j, pk, depth, in_fin, in_gen, in_try, nmax):
        return [self.stmt(j, pk, depth, in_fin, in_gen, in_try) for _ in range(self.rng.randint(1, nmax))]

    def rand_body(self, j, pk):
        r = self.rng
        if pk == "lambda":
            cal = self.callable_after(j, expr=True)
            return [("lcall", [r.choice(cal) for _ in range(r.randint(1, 2))])]
        if pk in ("coro", "agen"):
            b = [self.stmt(j, pk, 1, False, pk == "agen", False) for _ in range(r.randint(1, 3))]
            if pk == "agen":
                b.insert(r.randint(0, len(b)), ("yield",))
                if r.random() < 0.5:
                    b.append(("loop", [("call", r.choice(self.callable_after(j))), ("yield",)], []))
            else:
                b.append(("call", r.choice(self.callable_after(j))))
                if r.random() < 0.6:
                    b.insert(r.randint(0, len(b)), r.choice([("awaits",), ("await", self.co_inner)]))
            return b
        in_gen = pk == "gen"
        b = self.block(j, pk, 0, False, in_gen, False, 4)
        if in_gen and not any(s[0] == "yield" for s in b):
            b.insert(r.randint(0, len(b)), ("yield",))
        tail = r.random()
        if pk != "lambda":
            if tail < 0.25:
                b.append(("return",))
            elif tail < 0.35:
                b.append(("raise",))
            elif tail < 0.45:
                b.append(("if", [("return",)], [("raise",)]))
            elif tail < 0.5:
                b.append(("loop", [("call", r.choice(self.callable_after(j)))], [("return",)]))
        return b

    def entry_body(self, j):
        r = self.rng
        targets = [k for k in self.mids]
        b = []
        for _ in range(r.randint(2, 4)):
            t = r.choice(targets)
            b.append(("try", [("call", t)], []) if r.random() < 0.6 else ("call", t))
        return b

    def early_body(self, k):
        lv = self.leaves
        if k == 0:      # mis-nested: callee of the finally body after the return event
            return [("if", [("fin", [("return",)], [("try", [("call", lv[0])], [])])], []),
                    ("if", [("fin", [("return",)], [("return",)])], []),
                    ("with", [("call", lv[1]), ("return",)])]
        g = self.g_exits[0]
        return [("for", g, [("if", [("return",)], [])]), ("fin", [("if", [("return",)], [])], [("raise",)])]

    def fixed_gen_bodies(self):
        lv = self.leaves
        F = self.fns
        F[self.g_inner]["body"] = [("yield",), ("call", lv[0]), ("yield",), ("if", [("raise",)], [])]
        F[self.g_yf]["body"] = [("call", lv[1]), ("yfrom", self.g_inner), ("yield",), ("yfrom", self.g_inner),
                                ("return",)]
        F[self.co_inner]["body"] = [("call", lv[0]), ("if", [("raise",)], []), ("return",)]
        F[self.co_outer]["body"] = [("await", self.co_inner), ("awaits",), ("call", lv[2]),
                                    ("try", [("await", self.co_inner)], [("awaits",)])]
        F[self.ag]["body"] = [("loop", [("call", lv[0]), ("yield",)], []), ("if", [("raise",)], [("yield",)])]
        F[self.co_afor]["body"] = [("afor", self.ag), ("call", lv[1])]
        ge = self.g_exits
        # generator exits: fall off, explicit return, raise, finally/except around the yield
        F[ge[0]]["body"] = [("yield",), ("call", lv[0]), ("yield",), ("yield",)]
        F[ge[1]]["body"] = [("loop", [("yield",), ("if", [("return",)], [])], []), ("raise",)]
        F[ge[2]]["body"] = [("try", [("yield",), ("yield",)], [("yield",), ("call", lv[1])]),
                            ("fin", [("yield",), ("if", [("raise",)], [])], [("try", [("call", lv[0])], [])]),
                            ("if", [("return",)], [("raise",)])]
        F[ge[3]]["body"] = [("with", [("yield",), ("call", lv[2]), ("yield",)]),
                            ("fin", [("yield",)], [("if", [("return",)], [])])]

    def fixed_bodies(self):
        lv, F, ge = self.leaves, self.fns, self.g_exits
        fi = self.fixed_ids
        j = fi["fx_inl"]
        ex = [c for c in lv if self.fns[c]["pk"] not in ("cvoid",)]
        b = []
        for how in X_INL + X_REAL:
            gid = self.new(how if how in X_INL else "genexpr", None, how=how, elem=self.rng.choice(ex), filt=None,
                           parent=j)
            self.order.remove(gid); self.extra.append(gid)
            b.append(("try", [("genx", how, gid)], []))
        gid = self.new("list", None, how="list", elem=ex[0], filt=ex[1], parent=j)
        self.order.remove(gid); self.extra.append(gid)
        b.append(("try", [("genx", "list", gid)], []))
        b.append(("comp", "list", ex[0])); b.append(("class", ex[1]))
        F[j]["body"] = b
        F[fi["fx_exits_f"]]["body"] = [("try", [("call", c)], []) for c in lv] + [("call", lv[0])]
        F[fi["fx_gen_drv"]]["body"] = [
            ("for", ge[0], [("call", lv[0])]), ("drive", ge[0], "n"), ("try", [("drive", ge[1], "nnN")], []),
            ("try", [("drive", ge[2], "ntn")], []), ("try", [("drive", ge[2], "nnnt")], []),
            ("try", [("drive", ge[3], "nt")], []), ("try", [("drive", ge[3], "nnn")], []),
            ("try", [("consume", "list", ge[1])], []), ("try", [("consume", "sum", ge[2])], []),
            ("try", [("drive", ge[0], "nnnnNt")], [])]
        F[fi["fx_async"]]["body"] = [("try", [("runco", self.co_outer)], []), ("try", [("runco", self.co_afor)], []),
                                     ("try", [("runco", self.co_inner)], [])]
        F[fi["fx_yf"]]["body"] = [("try", [("consume", "list", self.g_yf)], []),
                                  ("try", [("consume", "tuple", self.g_yf)], [])]
        F[fi["fx_with"]]["body"] = [("with", [("call", lv[0])]), ("try", [("with", [("raise",)])], []),
                                    ("with", [("with", [("call", lv[1])])]),
                                    ("fin", [("try", [("call", lv[0])], [("call", lv[1])])], [("call", lv[4])])]
        F[fi["fx_zoo"]]["body"] = [("try", [("call", z)], []) for z in self.zoo]
        F[fi["fx_cexits"]]["body"] = [("try", [("call", c)], [("call", lv[0])])
                                      for c in lv if F[c]["pk"] in ("cfunc", "cint", "cvoid")] + \
                                     [("loop", [("call", lv[1])], [("return",)])]


# ------------------------------------------------------------------ model view of a module
def genx_body(fn, n=None):
    """concrete body of a synthesized generator expression; n = number of items (None: symbolic)"""
    how, e, q = fn["how"], fn["elem"], fn["filt"]
    if how in ("any", "all"):
        inner = [("ifc" if how == "any" else "ifcn", e, [("return",)], [])]
        els = [("return",)]
    elif how in X_INL:
        inner, els = [("call", e)], []
    else:
        inner, els = [("call", e), ("yield",)], []
    if q is not None:
        inner = [("ifc", q, inner, [])]
    return [("loopn", n, inner, els)]


def body_of(mod, j):
    fn = mod.fns[j]
    return genx_body(fn) if fn["body"] is None else fn["body"]


def mstmts(b):
    out = []
    for s in b:
        k = s[0]
        if k in ("call", "consume", "class", "runco"):
            out += ["e"]
        elif k == "lcall":
            out += ["e", "r"]
        elif k == "raise":
            out += ["x"]
        elif k == "return":
            out += ["r"]
        elif k == "yield":
            out += ["y"]
        elif k == "if":
            out += ["i"] + mstmts(s[1]) + ["."] + mstmts(s[2]) + ["."]
        elif k in ("ifc", "ifcn"):
            out += ["i"] + mstmts(s[2]) + ["."] + mstmts(s[3]) + ["."]
        elif k in ("loop", "loopn"):
            out += ["l"] + mstmts(s[1 if k == "loop" else 2]) + ["."] + mstmts(s[2 if k == "loop" else 3]) + ["."]
        elif k == "try":
            out += ["t"] + mstmts(s[1]) + ["."] + mstmts(s[2]) + ["."]
        elif k == "fin":
            out += ["n"] + mstmts(s[1]) + ["."] + mstmts(s[2]) + ["."]
        elif k == "with":
            out += ["e", "n", "t"] + mstmts(s[1]) + [".", "i", ".", "x", ".", ".", ".", "i", "e", ".", ".", "."]
        elif k == "for":
            out += ["n", "l"] + mstmts(s[2]) + [".", ".", ".", "e", "."]
        elif k == "drive":
            out += ["n"] + ["e"] * len(s[2]) + [".", "e", "."]
        elif k == "genx":
            out += ["l", ".", "."] if s[1] == "for" else ["e"]
        elif k == "comp":
            out += ["l", "e", ".", "."]
        elif k in ("yfrom", "await", "awaits"):
            out += ["e", "i", "y", ".", "."]
        elif k == "afor":
            out += ["l", ".", "."]
        else:
            raise AssertionError(k)
    return out


def func_tokens(mod, j, tflag):
    fn = mod.fns[j]
    return ["F", MK[fn["pk"]], "1" if tflag else "0"] + mstmts(body_of(mod, j)) + ["."]


def all_ids(mod):
    return sorted(mod.fns)


# ------------------------------------------------------------------ rendering
class Render:
    def __init__(self, mod):
        self.mod = mod
        self.L = []
        self.line_fid = {}        # first line (def line and decorator line) -> function id
        self.erase_py_lines = set()   # class bodies: frames only CPython has
        self.span = {}            # function id -> (first line, last line)
        self.cnt = 0

    def call_expr(self, j):
        fn = self.mod.fns[j]
        pk = fn["pk"]
        if pk == "meth":
            return "_K%d().f%d()" % (j, j)
        if pk in ("smeth", "cmeth"):
            return "_K%d.f%d()" % (j, j)
        if pk == "emeth":
            return "_E%d().f%d()" % (j, j)
        if pk == "ccallpy":
            return "_SELF.f%d()" % j
        return "f%d()" % j

    def uid(self):
        self.cnt += 1
        return self.cnt

    def genx_src(self, gid):
        fn = self.mod.fns[gid]
        how, e, q = fn["how"], fn["elem"], fn["filt"]
        v = "_i%d" % self.uid()
        cond = (" if (%s or T())" % self.call_expr(q)) if q is not None else ""
        el = self.call_expr(e)
        rng = "for %s in range(T())%s" % (v, cond)
        if how in ("any", "all"):
            return "%s((%s or T()) %s)" % (how, el, rng)
        if how == "dict":
            return "dict((%s, %s) %s)" % (v, el, rng)
        if how == "join":
            return "','.join(str(%s) %s)" % (el, rng)
        if how in ("min", "max"):
            return "%s(((%s or 0) %s), default=0)" % (how, el, rng)
        if how in ("sum", "sorted"):
            return "%s((%s or 0) %s)" % (how, el, rng)
        if how == "for":
            return "(%s %s)" % (el, rng)
        return "%s(%s %s)" % (how, el, rng)

    def emit(self, b, ind, fn):
        pad = "    " * ind
        L = self.L
        pk = fn["pk"]
        if not b:
            L.append(pad + "pass")
        for s in b:
            k = s[0]
            if k == "call":
                L.append(pad + self.call_expr(s[1]))
            elif k == "lcall":
                raise AssertionError("lambda body is rendered by the lambda")
            elif k == "raise":
                L.append(pad + "raise ValueError(1)")
            elif k == "return":
                L.append(pad + ("return 0" if pk == "cint" else "return"))
            elif k == "yield":
                L.append(pad + "yield 0")
            elif k == "if":
                L.append(pad + "if T():"); self.emit(s[1], ind + 1, fn)
                if s[2]:
                    L.append(pad + "else:"); self.emit(s[2], ind + 1, fn)
            elif k == "ifc":
                L.append(pad + "if (%s or T()):" % self.call_expr(s[1])); self.emit(s[2], ind + 1, fn)
                if s[3]:
                    L.append(pad + "else:"); self.emit(s[3], ind + 1, fn)
            elif k == "loop":
                L.append(pad + "for _i%d in range(T()):" % self.uid()); self.emit(s[1], ind + 1, fn)
                if s[2]:
                    L.append(pad + "else:"); self.emit(s[2], ind + 1, fn)
            elif k == "try":
                L.append(pad + "try:"); self.emit(s[1], ind + 1, fn)
                L.append(pad + "except (ValueError, StopIteration):"); self.emit(s[2], ind + 1, fn)
            elif k == "fin":
                L.append(pad + "try:"); self.emit(s[1], ind + 1, fn)
                L.append(pad + "finally:"); self.emit(s[2], ind + 1, fn)
            elif k == "with":
                L.append(pad + "with _CM():"); self.emit(s[1], ind + 1, fn)
            elif k == "for":
                v = "_g%d" % self.uid()
                L.append(pad + "%s = %s" % (v, self.call_expr(s[1])))
                L.append(pad + "try:")
                L.append(pad + "    for _x in %s:" % v); self.emit(s[2], ind + 2, fn)
                L.append(pad + "finally:")
                L.append(pad + "    %s.close()" % v)
            elif k == "drive":
                v = "_g%d" % self.uid()
                L.append(pad + "%s = %s" % (v, self.call_expr(s[1])))
                L.append(pad + "try:")
                for op in s[2]:
                    L.append(pad + "    " + {"n": "next(%s, None)", "N": "next(%s)",
                                              "t": "%s.throw(ValueError(7))"}[op] % v)
                L.append(pad + "finally:")
                L.append(pad + "    %s.close()" % v)
            elif k == "consume":
                arg = self.call_expr(s[2])
                if s[1] in ("min", "max"):
                    L.append(pad + "%s(%s, default=0)" % (s[1], arg))
                else:
                    L.append(pad + "%s(%s)" % (s[1], arg))
            elif k == "genx":
                gid = s[2]
                if s[1] == "for":
                    L.append(pad + "for _x in %s:" % self.genx_src(gid))
                    self.line_fid[len(L)] = gid
                    self.span[gid] = (len(L), len(L))
                    L.append(pad + "    pass")
                else:
                    L.append(pad + self.genx_src(gid))
                    self.line_fid[len(L)] = gid
                    self.span[gid] = (len(L), len(L))
            elif k == "comp":
                v = "_i%d" % self.uid()
                e = self.call_expr(s[2])
                L.append(pad + {"list": "[%s for %s in range(T())]", "set": "{%s for %s in range(T())}",
                                "dict": "{%s: %s for %s in range(T())}"}[s[1]] %
                         ((e, v) if s[1] != "dict" else (v, e, v)))
            elif k == "class":
                L.append(pad + "class _Q%d:" % self.uid())
                self.erase_py_lines.add(len(L))
                L.append(pad + "    z = %s" % self.call_expr(s[1]))
            elif k == "yfrom":
                L.append(pad + "yield from %s" % self.call_expr(s[1]))
            elif k == "await":
                L.append(pad + "await %s" % self.call_expr(s[1]))
            elif k == "awaits":
                L.append(pad + "await _Susp()")
            elif k == "afor":
                L.append(pad + "async for _x in %s:" % self.call_expr(s[1]))
                L.append(pad + "    pass")
            elif k == "runco":
                L.append(pad + "_drive(%s)" % self.call_expr(s[1]))
            else:
                raise AssertionError(k)

    def func(self, j):
        fn = self.mod.fns[j]
        pk, L = fn["pk"], self.L
        name = fn.get("name", "f%d" % j)
        first = len(L) + 1

        def mark(extra=0):
            for ln in range(first, len(L) + 1):
                self.line_fid[ln] = j
        if pk == "lambda":
            calls = fn["body"][0][1]
            L.append("f%d = lambda: (%s0,)[-1]" % (j, "".join(self.call_expr(c) + ", " for c in calls)))
            mark(); self.span[j] = (first, len(L)); return
        head = {"def": ([], "def %s():", 0), "cfunc": (["@cython.cfunc"], "def %s():", 0),
                "cvoid": (["@cython.cfunc"], "def %s() -> cython.void:", 0),
                "cint": (["@cython.cfunc", "@cython.exceptval(-1)"], "def %s() -> cython.int:", 0),
                "ccall": (["@cython.ccall"], "def %s():", 0), "ccallpy": (["@cython.ccall"], "def %s():", 0),
                "gen": ([], "def %s():", 0), "coro": ([], "async def %s():", 0), "agen": ([], "async def %s():", 0)}
        if pk in head and "name" not in fn:
            decs, d, _ = head[pk]
            L.extend(decs); L.append(d % name); mark()
            self.emit(fn["body"], 1, fn)
        elif pk == "nested":
            L.append("def _mk%d():" % j)
            L.append("    y = %d" % j)
            first = len(L) + 1
            L.append("    def %s():" % name); mark()
            L.append("        _u = y")
            self.emit(fn["body"], 2, fn)
            L.append("    return %s" % name)
            L.append("%s = _mk%d()" % (name, j))
        elif pk in ("meth", "smeth", "cmeth", "emeth") and "name" not in fn:
            if pk == "emeth":
                L.append("@cython.auto_pickle(False)")
                L.append("@cython.cclass")
            L.append("class _%s%d:" % ("E" if pk == "emeth" else "K", j))
            first = len(L) + 1
            if pk == "smeth":
                L.append("    @staticmethod")
            if pk == "cmeth":
                L.append("    @classmethod")
            L.append("    def %s(%s):" % (name, {"smeth": "", "cmeth": "cls"}.get(pk, "self"))); mark()
            self.emit(fn["body"], 2, fn)
        else:
            raise AssertionError((pk, fn))
        self.span[j] = (first, len(L))
        L.append("")

    def render(self):
        mod, L = self.mod, self.L
        L += ["import cython", "_tape = []", "T = _tape.pop", "_SELF = None", "",
              "def _set_tape(t):", "    _tape[:] = t[::-1]", "",
              "@cython.profile(False)", "@cython.linetrace(False)", "def _drive(c):", "    try:",
              "        while True:", "            c.send(None)", "    except StopIteration:", "        return 0", ""]
        L.append("class _CM:")
        first = len(L) + 1
        L.append("    def __enter__(self):"); self.line_fid[len(L)] = mod.cm_enter
        L.append("        return self"); self.span[mod.cm_enter] = (len(L) - 1, len(L))
        L.append("    def __exit__(self, *a):"); self.line_fid[len(L)] = mod.cm_exit
        L.append("        return False"); self.span[mod.cm_exit] = (len(L) - 1, len(L))
        L.append("")
        L.append("class _Susp:")
        L.append("    def __await__(self):"); self.line_fid[len(L)] = mod.susp
        L.append("        yield 0"); self.span[mod.susp] = (len(L) - 1, len(L))
        L.append("")
        special = {mod.cm_enter, mod.cm_exit, mod.susp}
        for j in sorted(mod.order, reverse=True):
            if j in special:
                continue
            self.func(j)
        return "\n".join(L) + "\n"


# ------------------------------------------------------------------ evaluator
class PRaise(Exception):
    def __init__(self, kind):
        Exception.__init__(self, kind)
        self.kind = kind


class PReturn(Exception):
    pass


class TapeOut(Exception):
    pass


class TooBig(Exception):
    pass


class Inst:
    def __init__(self, ev, fid):
        self.fid, self.choices, self.nseg = fid, [], 0
        self.iid = len(ev.insts)
        ev.insts.append(self)

    def ch(self, kids, go, e=None):
        self.choices.append("%d:%d:%s" % (kids, 1 if go else 0,
                                           "-" if e is None else ("c" if e.kind in CATCH else "u")))


class Seg:
    __slots__ = ("fid", "iid", "k", "kids", "how", "end")

    def __init__(self, fid, iid, k):
        self.fid, self.iid, self.k, self.kids = fid, iid, k, []
        self.how, self.end = "call", "?"

    def tokens(self, out):
        out += ["N", str(self.fid), str(self.iid), str(self.k)]
        for c in self.kids:
            c.tokens(out)
        out.append(".")
        return out


class GenInst:
    def __init__(self, ev, fid, body):
        self.ev, self.inst, self.body = ev, Inst(ev, fid), body
        self.state, self.it, self.delegate = "new", None, None

    def resume(self, kind, exc=None):
        if self.state == "done":
            if kind == "throw":
                raise PRaise(exc)
            return "stop"
        if self.delegate is not None:
            assert kind == "next", "throw/close during delegation is not generated"
            try:
                r = self.delegate.resume("next")
            except PRaise as e:
                self.delegate = None
                return self._run("throw", e.kind)
            if r == "yield":
                return "yield"
            self.delegate = None
            return self._run("next")
        return self._run(kind, exc)

    def _run(self, kind, exc=None):
        ev, inst = self.ev, self.inst
        if self.state == "new":
            assert kind == "next", "throw()/close() of a never-started generator is not generated here"
            inst.ch(0, 1)
            self.it = ev.block(inst, self.body, 0, self)
        seg = ev.open_seg(inst)
        seg.how = ("start" if self.state == "new" else "next") if kind == "next" else \
            ("close" if exc == "G" else "throw")
        self.state = "run"
        try:
            if kind == "next":
                next(self.it)
            else:
                self.it.throw(PRaise(exc))
        except StopIteration:
            self.state, seg.end = "done", "falloff"
            ev.close_seg()
            return "stop"
        except PReturn:
            self.state, seg.end = "done", "return"
            ev.close_seg()
            return "stop"
        except PRaise as e:
            self.state, seg.end = "done", "raise" + e.kind
            ev.close_seg()
            if e.kind == "S":
                raise PRaise("R")        # PEP 479
            raise
        self.state, seg.end = "susp", "yield"
        ev.close_seg()
        return "yield"

    def next_strict(self):
        if self.resume("next") == "stop":
            raise PRaise("S")

    def throw(self):
        if self.resume("throw", "V") == "stop":
            raise PRaise("S")

    def close(self):
        if self.state in ("done", "new"):
            assert self.state == "done" or True
            if self.state == "new":
                self.state = "done"
            return
        try:
            r = self.resume("throw", "G")
        except PRaise as e:
            if e.kind == "G":
                return
            raise
        assert r == "stop", "generator ignored GeneratorExit"

    def exhaust(self):
        while self.resume("next") == "yield":
            pass


class Ev:
    LIMIT = 1500

    def __init__(self, mod, tape):
        self.mod, self.tape = mod, list(reversed(tape))
        self.insts, self.stack, self.nseg = [], [], 0
        self.early = False          # a return inside try/finally / with executed
        self.cpw = False            # a cpdef function was entered through its Python wrapper
        self.cpw_raise = False      # ... and raised

    def T(self):
        if not self.tape:
            raise TapeOut()
        return self.tape.pop()

    def open_seg(self, inst):
        n = Seg(inst.fid, inst.iid, inst.nseg)
        inst.nseg += 1
        self.stack[-1].kids.append(n)
        self.stack.append(n)
        self.nseg += 1
        if self.nseg > self.LIMIT:
            raise TooBig()
        return n

    def close_seg(self):
        self.stack.pop()

    def run(self, entry):
        root = Seg(-1, -1, 0)
        self.stack = [root]
        try:
            self.call_f(entry)
        except PRaise:
            pass
        assert len(self.stack) == 1
        return root.kids[0]

    # ---- activations
    def call_f(self, j):
        fn = self.mod.fns[j]
        assert fn["pk"] in F_KINDS, fn["pk"]
        inst = Inst(self, j)
        seg = self.open_seg(inst)
        if fn["pk"] == "ccallpy":
            self.cpw = True
        try:
            for _ in self.block(inst, fn["body"], 0, None):
                raise AssertionError("yield in a plain function")
            seg.end = "falloff"
        except PReturn:
            seg.end = "return"
        except PRaise as e:
            seg.end = "raise" + e.kind
            if fn["pk"] == "ccallpy":
                self.cpw_raise = True
            raise
        finally:
            self.close_seg()

    def make_gen(self, j, n=None):
        fn = self.mod.fns[j]
        body = genx_body(fn, n) if fn["body"] is None else fn["body"]
        return GenInst(self, j, body)

    def callpart(self, thunk):
        top = self.stack[-1]
        b = len(top.kids)
        try:
            r, e = thunk(), None
        except PRaise as ex:
            r, e = None, ex
        return r, len(top.kids) - b, e

    def expr(self, inst, thunk):
        r, kids, e = self.callpart(thunk)
        inst.ch(kids, 1, e)
        if e is not None:
            raise e
        return r

    # ---- statements (generators: they yield at a `yield`)
    def block(self, inst, b, fd, gi):
        for s in b:
            yield from self.stmt(inst, s, fd, gi)

    def stmt(self, inst, s, fd, gi):
        k = s[0]
        if k == "call":
            self.expr(inst, lambda: self.call_f(s[1]))
        elif k == "lcall":
            def both():
                for c in s[1]:
                    self.call_f(c)
            self.expr(inst, both)
            raise PReturn()
        elif k == "raise":
            raise PRaise("V")
        elif k == "return":
            if fd > 0:
                self.early = True
            raise PReturn()
        elif k == "yield":
            try:
                yield None
            except PRaise as e:
                inst.ch(0, 1, e)
                raise
            inst.ch(0, 1)
        elif k == "if":
            c = self.T()
            inst.ch(0, c)
            yield from self.block(inst, s[1] if c else s[2], fd, gi)
        elif k in ("ifc", "ifcn"):
            r, kids, e = self.callpart(lambda: self.call_f(s[1]))
            if e is not None:
                inst.ch(kids, 1, e)
                raise e
            c = self.T()
            go = bool(c) if k == "ifc" else not c
            inst.ch(kids, go)
            yield from self.block(inst, s[2] if go else s[3], fd, gi)
        elif k in ("loop", "loopn"):
            if k == "loop":
                n, body, els = self.T(), s[1], s[2]
            else:
                n, body, els = s[1], s[2], s[3]
            for _ in range(n):
                inst.ch(0, 1)
                yield from self.block(inst, body, fd, gi)
            inst.ch(0, 0)
            yield from self.block(inst, els, fd, gi)
        elif k == "try":
            try:
                yield from self.block(inst, s[1], fd, gi)
            except PRaise as e:
                if e.kind not in CATCH:
                    raise
                yield from self.block(inst, s[2], fd, gi)
        elif k == "fin":
            try:
                yield from self.block(inst, s[1], fd + 1, gi)
            except (PRaise, PReturn) as e:
                yield from self.block(inst, s[2], fd, gi)
                raise e
            else:
                yield from self.block(inst, s[2], fd, gi)
        elif k == "with":
            m = self.mod
            self.expr(inst, lambda: self.call_f(m.cm_enter))
            try:
                try:
                    yield from self.block(inst, s[1], fd + 1, gi)
                except PRaise as e:
                    if e.kind not in CATCH:
                        raise
                    r, kids, e2 = self.callpart(lambda: self.call_f(m.cm_exit))
                    inst.ch(kids, 0)
                    raise
            except (PRaise, PReturn) as e:
                if isinstance(e, PRaise) and e.kind in CATCH:
                    inst.ch(0, 0)
                else:
                    inst.ch(0, 1)
                    self.expr(inst, lambda: self.call_f(m.cm_exit))
                raise e
            else:
                inst.ch(0, 1)
                self.expr(inst, lambda: self.call_f(m.cm_exit))
        elif k == "for":
            g = self.make_gen(s[1])
            try:
                while True:
                    r, kids, e = self.callpart(lambda: g.resume("next"))
                    if e is not None:
                        inst.ch(kids, 1, e)
                        raise e
                    if r == "stop":
                        inst.ch(kids, 0)
                        break
                    inst.ch(kids, 1)
                    yield from self.block(inst, s[2], fd + 1, gi)
            except (PRaise, PReturn) as e:
                self.expr(inst, g.close)
                raise e
            else:
                self.expr(inst, g.close)
        elif k == "drive":
            g = self.make_gen(s[1])
            try:
                for op in s[2]:
                    self.expr(inst, {"n": lambda: g.resume("next"), "N": g.next_strict, "t": g.throw}[op])
            except PRaise as e:
                self.expr(inst, g.close)
                raise e
            else:
                self.expr(inst, g.close)
        elif k == "consume":
            g = self.make_gen(s[2])
            self.expr(inst, g.exhaust)
        elif k == "genx":
            how, gid = s[1], s[2]
            n = self.T()
            if how in X_INL:
                self.expr(inst, lambda: self.run_inlined(gid, n))
            elif how == "for":
                g = self.make_gen(gid, n)
                while True:
                    r, kids, e = self.callpart(lambda: g.resume("next"))
                    if e is not None:
                        inst.ch(kids, 1, e)
                        raise e
                    inst.ch(kids, r == "yield")
                    if r == "stop":
                        break
            else:
                g = self.make_gen(gid, n)
                self.expr(inst, g.exhaust)
        elif k == "comp":
            n = self.T()
            for _ in range(n):
                inst.ch(0, 1)
                self.expr(inst, lambda: self.call_f(s[2]))
            inst.ch(0, 0)
        elif k == "class":
            self.expr(inst, lambda: self.call_f(s[1]))
        elif k in ("yfrom", "await", "awaits"):
            inner = self.make_gen(self.mod.susp if k == "awaits" else s[1])
            r, kids, e = self.callpart(lambda: inner.resume("next"))
            inst.ch(kids, 1, e)
            if e is not None:
                raise e
            if r == "stop":
                inst.ch(0, 0)
            else:
                inst.ch(0, 1)
                gi.delegate = inner
                try:
                    yield "deleg"
                except PRaise as ex:
                    inst.ch(0, 1, ex)
                    raise
                inst.ch(0, 1)
        elif k == "afor":
            g = self.make_gen(s[1])
            while True:
                r, kids, e = self.callpart(lambda: g.resume("next"))
                if e is not None:
                    inst.ch(kids, 1, e)
                    raise e
                inst.ch(kids, r == "yield")
                if r == "stop":
                    break
        elif k == "runco":
            g = self.make_gen(s[1])
            self.expr(inst, g.exhaust)
        else:
            raise AssertionError(k)
        return
        yield

    def run_inlined(self, gid, n):
        """an inlined generator expression: the body function runs once, to its end"""
        g = self.make_gen(gid, n)
        r = g.resume("next")
        assert r == "stop", "inlined generator expression suspended"


def evaluate(mod, entry, tape):
    ev = Ev(mod, tape)
    root = ev.run(entry)
    tree = root.tokens([])
    orc = ["O"]
    for i in ev.insts:
        orc += ["I"] + i.choices + ["."]
    orc.append(";")
    fids, cover = set(), {}

    def walk(n):
        fids.add(n.fid)
        pk = mod.fns[n.fid]["pk"]
        key = "%s/%s/%s" % (pk, n.how, n.end)
        cover[key] = cover.get(key, 0) + 1
        for c in n.kids:
            walk(c)
    walk(root)
    return dict(tree=tree, orc=orc, nseg=ev.nseg, used=len(tape) - len(ev.tape), early=ev.early, cpw=ev.cpw,
                cpw_raise=ev.cpw_raise, fids=fids, cover=cover)


# ------------------------------------------------------------------ generated C (static tie)
FUNC_RE = re.compile(r'^static [^;{}()]*?\b(__pyx_[A-Za-z0-9_]+)\([^;{]*\)\s*(?:/\*[^*]*\*/\s*)?\{', re.M)
TOK_RE = re.compile(
    r'__Pyx_Trace(StartFunc|StartGen|ResumeGen|Yield|ReturnValue|ReturnCValue|ExceptionUnwind|Exception)\(([^;]*?)\);'
    r'|/\* function exit code \*/|(__pyx_L\d+_error):;|goto (__pyx_L0);'
    r'|default: /\* CPython raises|if \(__Pyx_PyErr_Occurred\(\)\) \{')


def c_functions(ctext):
    """-> list of dict(cname, name, line, toks) for every traced C function"""
    out = []
    for m in FUNC_RE.finditer(ctext):
        end = ctext.find("\n}\n", m.end())
        body = ctext[m.end():end]
        toks, name, line = [], None, None
        for t in TOK_RE.finditer(body):
            if t.group(1):
                k, a = t.group(1), t.group(2)
                if k in ("StartFunc", "StartGen"):
                    toks.append("S")
                    mm = re.match(r'\s*"((?:[^"\\]|\\.)*)",\s*[^,]*,\s*(\d+)', a)
                    if mm and name is None:
                        name, line = mm.group(1), int(mm.group(2))
                elif k == "ResumeGen":
                    toks.append("M")
                elif k == "Yield":
                    toks.append("Y")
                elif k in ("ReturnValue", "ReturnCValue"):
                    toks.append("RN" if a.strip().startswith("NULL") else "R")
                elif k == "Exception":
                    toks.append("X")
                else:
                    toks.append("U")
            else:
                s = t.group(0)
                toks.append("|" if s.startswith("/* function") else "ERR:" if t.group(3) else
                            "goto_ret" if t.group(4) else "DEFAULT" if s.startswith("default") else "ifexc")
        if "S" in toks:
            out.append(dict(cname=m.group(1), name=name, line=line, toks=toks))
    return out


def c_epilogue(f):
    """layout around "function exit code" in the notation of M_TraceGen.epilogue, or a complaint"""
    t = f["toks"]
    is_gen = "DEFAULT" in t
    if "|" not in t:
        return None, "no exit-code marker"
    if is_gen:
        if t[:3] != ["DEFAULT", "S", "R"] or t[3:4] != ["S"]:
            return None, "generator prologue %s" % t[:5]
        body = t[4:]
    else:
        if t[:1] != ["S"]:
            return None, "function prologue %s" % t[:3]
        body = t[1:]
    i = len(body) - 1 - body[::-1].index("|")
    pre, post = body[:i], body[i + 1:]
    # legacy + monitoring variants of the unwind event are textually both present in functions
    post = [x for x in post]
    norm = []
    j = 0
    while j < len(post):
        if post[j] == "U" and post[j + 1:j + 2] == ["RN"]:
            norm.append("U"); j += 2
        else:
            norm.append(post[j]); j += 1
    if is_gen:
        # the fall-off return event sits right before the marker, after the body's last goto
        k = len(pre)
        fall = []
        if pre and pre[-1] == "R":
            # a return statement is always followed by its goto; a bare trailing R is the fall-off event
            fall = ["R"]
        epi = fall + ["|"] + norm
    else:
        epi = ["|"] + norm
    facts = dict(is_gen=is_gen, ny=pre.count("Y"), nm=pre.count("M"))
    return (epi, facts), None


# ------------------------------------------------------------------ the worker (runs inside the subprocess)
WORKER = r'''
import sys, importlib, types, os
_mods = {}
def _get(modname, mode):
    key = (modname, mode)
    if key not in _mods:
        if mode == 'cy':
            m = importlib.import_module(modname)
        else:
            m = types.ModuleType(modname)
            exec(compile(open(modname + '.py').read(), modname + '.py', 'exec'), m.__dict__)
        m._SELF = m
        _mods[key] = m
    return _mods[key]
def _mine(co):
    return os.path.basename(co.co_filename).startswith('c45k')
def run_k(modname, mode, entry, hook, tape):
    m = _get(modname, mode)
    f = getattr(m, entry)
    m._set_tape(tape)
    ev = []
    def cb(frame, event, arg):
        co = frame.f_code
        if _mine(co):
            ev.append("%s:%s:%d:%d" % (event, co.co_name, co.co_firstlineno, frame.f_lineno))
            if len(ev) > 60000:
                raise SystemExit("too many events")
        return cb
    setter = sys.setprofile if hook == 'profile' else sys.settrace
    res = "ok"
    setter(cb)
    try:
        try:
            f()
        except BaseException as e:
            res = type(e).__name__
    finally:
        setter(None)
    return [res] + ev
'''


def decode(res):
    if "e" in res:
        return None, ("ERR", res.get("e"), res.get("m"))
    items = [x["r"].strip("'") for x in res["r"]]
    out = []
    for x in items[1:]:
        e, n, fl, l = x.split(":")
        out.append((e, n, int(fl), int(l)))
    return items[0], out


def nesting_check(evs):
    """independent Dyck check on (event, name, firstline, line): call/return by code object, line /
    exception events inside their own activation, c_call/c_return pairs likewise nested"""
    st = []
    for i, (e, n, fl, l) in enumerate(evs):
        key = (n, fl)
        if e == "call":
            st.append(("py", key))
        elif e == "return":
            if not st:
                return "return event #%d of %s with no open activation" % (i, n)
            if st[-1] != ("py", key):
                return "return event #%d of %s:%d while %s is the innermost open activation" % (i, n, fl, st[-1][1])
            st.pop()
        elif e == "c_call":
            st.append(("c", key))
        elif e in ("c_return", "c_exception"):
            if not st or st[-1] != ("c", key):
                return "%s event #%d of %s does not close a c_call of the same frame" % (e, i, n)
            st.pop()
        elif e in ("line", "exception", "opcode"):
            if not st or st[-1] != ("py", key):
                return "%s event #%d of %s outside its activation (innermost: %s)" % (e, i, n, st[-1] if st else None)
    if st:
        return "activations never ended: %s" % [k for _, k in st]
    return None


# ------------------------------------------------------------------ the check
def tapes_for(rng, mod, n, length=400):
    """(entry, tape) pairs; every entry is used, weights favour small loop counts"""
    out = []
    ents = list(mod.all_entries)
    # systematic tapes: nothing raises / loops are empty; everything raises at once; first test false,
    # second true (explicit returns); one or two items per loop with late raises
    for pat in ([0], [1], [0, 1], [1, 0, 0], [2, 0, 0, 0, 1]):
        for e in ents:
            out.append((e, (pat * length)[:length]))
    for i in range(n):
        w = rng.choice([[0, 0, 1, 1, 2], [0, 1, 1, 1, 2, 3], [0, 0, 0, 1], [1, 1, 1, 0, 2], [0, 1]])
        tape = [rng.choice(w) for _ in range(length)]
        out.append((ents[i % len(ents)], tape))
    return out


def check_kinds(ctx, cybuild, model, seed, tag, n_tapes, fx_ret, fx_wrap, lock, n_mid=14, n_gen=6, only=None):
    import random
    rng = random.Random(seed)
    mod = ModGen(rng, n_mid=n_mid, n_gen=n_gen)
    mod.ident = {"family": "kinds", "module_seed": seed, "n_mid": n_mid, "n_gen": n_gen}
    rd = Render(mod)
    src = rd.render()
    P, Lm, SRC = "c45kp" + tag, "c45kl" + tag, "c45ks" + tag
    with open(os.path.join(ctx.workdir, SRC + ".py"), "w") as f:
        f.write(src)
    specs = [dict(name=P, source=src, workdir=ctx.workdir, cflags=["-O0"], suffix=".py",
                  directives={"profile": True, "language_level": 3}),
             dict(name=Lm, source=src, workdir=ctx.workdir, cflags=["-O0"], macros=["CYTHON_TRACE=1"], suffix=".py",
                  directives={"linetrace": True, "language_level": 3})]
    built = cybuild.build_many(specs, jobs=2)
    for (so, err), sp in zip(built, specs):
        if err is not None:
            with lock:
                ctx.corr_break("build " + sp["name"], {"module": sp["name"], "source": src[:3000]}, str(err)[:1500],
                               "module builds")
            return
    ids = all_ids(mod)
    gflag = "w" if fx_wrap else "a"
    # ---- per function: terminator flag and the text layout (static tie)
    with lock:
        r1 = model.batch(["gfun %s %s" % (gflag, " ".join(func_tokens(mod, j, False))) for j in ids])
    tflag = {}
    for j, line in zip(ids, r1):
        it = line.split()[0] == "1"
        tflag[j] = it and mod.fns[j]["pk"] not in ("any", "all")
    with lock:
        r2 = model.batch(["gfun %s %s" % (gflag, " ".join(func_tokens(mod, j, tflag[j]))) for j in ids])
    epi_model = {j: line.split()[4:] for j, line in zip(ids, r2)}    # after "<is_term> <clean> <func_ok> |"
    prog = ["P"]
    for j in ids:
        prog += func_tokens(mod, j, tflag[j])
    prog.append(";")
    static_tie(ctx, mod, rd, epi_model, tflag, [P, Lm], lock)
    # ---- executions
    cases, meta, evals = [], [], []
    for entry, tape in (only if only is not None else tapes_for(rng, mod, n_tapes)):
        try:
            ev = evaluate(mod, entry, tape)
        except (TapeOut, TooBig):
            continue
        tape = tape[:ev["used"] + 2]
        evals.append((entry, tape, ev))
    with lock:
        words = model.batch(["gw l %s 0 %s %s %s %s" % ("1" if fx_ret else "0", gflag, " ".join(prog),
                                                        " ".join(ev["orc"]), " ".join(ev["tree"]))
                             for _, _, ev in evals])
    variants = [(P, "profile"), (Lm, "profile"), (Lm, "trace")]
    for ci, (entry, tape, ev) in enumerate(evals):
        nm = "f%d" % entry
        for modn, hook in variants:
            cases.append(["run_k", [modn, "cy", nm, hook, tape]]); meta.append((ci, "cy", modn, hook))
        for hook in ("profile", "trace"):
            cases.append(["run_k", [SRC, "py", nm, hook, tape]]); meta.append((ci, "py", SRC, hook))
    res = cybuild.call_cases(ctx.workdir, cases, setup=WORKER, alarm=30)
    with lock:
        compare_kinds(ctx, mod, rd, src, evals, words, variants, meta, res, P, Lm, fx_ret, fx_wrap)


def static_tie(ctx, mod, rd, epi_model, tflag, names, lock):
    for modn in names:
        ctext = open(os.path.join(ctx.workdir, modn + ".c")).read()
        seen = set()
        for f in c_functions(ctext):
            if f["name"] is None or f["name"].endswith(" (wrapper)"):
                continue
            j = rd.line_fid.get(f["line"])
            inp = {"module": modn, "c_function": f["cname"], "name": f["name"], "line": f["line"]}
            if j is None:
                if f["name"] in ("_drive", "_set_tape", "__reduce_cython__", "__setstate_cython__") or \
                        f["name"].startswith("_mk"):
                    continue
                with lock:
                    ctx.corr_break("static: traced C function of unknown code object", inp, f["toks"][:8], "known")
                continue
            seen.add(j)
            fn = mod.fns[j]
            inp["kind"], inp["model_kind"], inp["is_terminator"] = fn["pk"], MK[fn["pk"]], tflag[j]
            got, bad = c_epilogue(f)
            if bad:
                with lock:
                    ctx.corr_break("static: layout of trace macros", inp, bad, "prologue/epilogue as modelled")
                continue
            epi, facts = got
            want = epi_model[j]
            ok = epi[:len(want)] == want
            if facts["is_gen"] != MK[fn["pk"]].startswith("g"):
                ok = False
            if facts["ny"] != facts["nm"] or (MK[fn["pk"]] in ("g10", "g11") and facts["ny"]):
                ok = False
            with lock:
                ctx.count("static/%s/%s" % (modn[:5], MK[fn["pk"]]), 1, distinct_sigs=[("static", modn, j)])
                if not ok:
                    ctx.corr_break("static: M_TraceGen.epilogue vs generated C (%s)" % modn, inp,
                                   {"epilogue": epi, "yields": facts["ny"], "resumes": facts["nm"]},
                                   {"epilogue": want})
        missing = [j for j in all_ids(mod) if j not in seen and mod.fns[j]["pk"] != "ccallpy"]
        # every code object must have been found in the C text (else the tie is vacuous)
        missing = [j for j in missing if not (mod.fns[j]["pk"] == "ccallpy")]
        if missing:
            with lock:
                ctx.corr_break("static: code objects without a traced C function (%s)" % modn,
                               {"module": modn, "ids": missing[:10],
                                "kinds": [mod.fns[j]["pk"] for j in missing[:10]]}, "missing", "present")


def project(evs, rd, erase_fids, py):
    """-> ([(c|r, fid)], complaint)"""
    out = []
    for e, n, fl, l in evs:
        if e not in ("call", "return"):
            continue
        j = rd.line_fid.get(fl)
        if j is None:
            if py and (fl in rd.erase_py_lines or n == "_drive"):
                continue
            return None, "event %s:%s:%d of an unknown code object" % (e, n, fl)
        if j in erase_fids:
            continue
        out.append(("c" if e == "call" else "r") + str(j))
    return out, None


def executed_source(mod, rd, src, fids):
    lines = src.splitlines()
    out = []
    for j in sorted(fids):
        a, b = rd.span[j]
        if mod.fns[j]["pk"] in ("meth", "smeth", "cmeth", "emeth", "nested") and "name" not in mod.fns[j]:
            a -= 1
        out += lines[a - 1:b]
    return "\n".join(out)[:4000]


def compare_kinds(ctx, mod, rd, src, evals, words, variants, meta, res, P, Lm, fx_ret, fx_wrap):
    by = {}
    for mt, r in zip(meta, res):
        by[mt] = decode(r)
    inl = {j for j in mod.fns if MK[mod.fns[j]["pk"]] in ("g10", "g11")}
    deleg = {j for j in mod.fns if mod.fns[j]["body"] and
             any(s[0] in ("yfrom", "await", "awaits") for s in flat(mod.fns[j]["body"]))}
    cover = {}
    for ci, (entry, tape, ev) in enumerate(evals):
        for k, v in ev["cover"].items():
            cover[k] = cover.get(k, 0) + v
        inp = dict(mod.ident, entry=entry, entry_kind=mod.fns[entry]["pk"], tape=tape,
                   tree=" ".join(ev["tree"])[:600],
                   executed_source=executed_source(mod, rd, src, ev["fids"]))
        klass = "return_inside_try_finally" if ev["early"] else \
            ("cpdef_wrapper_raise_double_return" if ev["cpw_raise"] and not fx_wrap else "event_mismatch")
        head, _, wtxt = words[ci].partition(" | ")
        hv = head.split()
        mword = [] if wtxt.strip() in ("-", "") else wtxt.strip().split(",")
        if words[ci].startswith("!ERR"):
            ctx.corr_break("model run", inp, words[ci], "word")
            continue
        # the theorem's instance: program ok + complete tree => reads as a node and is well nested
        if hv[0] == "1" and hv[1] == "1" and not (hv[2] == "1" and hv[3] == "1"):
            ctx.corr_break("model theorem instance (program_events_balanced)", inp, head, "1 1 1 1")
        if hv[1] != "1":
            ctx.corr_break("evaluator tree is not a complete execution of the model", inp, head, "complete")
        for hook in ("profile", "trace"):
            st, o = by[(ci, "py", "c45ks" + P[5:], hook)]
            if st is None:
                ctx.corr_break("oracle run " + hook, inp, o, "events")
                continue
            bad = nesting_check(o)
            if bad:
                ctx.corr_break("CPython events not nested?!", inp, bad, "nested")
        for modn, hook in variants:
            st, got = by[(ci, "cy", modn, hook)]
            sig = (P[5:], entry, tuple(tape), modn[:5], hook)
            ctx.case("kinds/%s/%s" % (modn[:5], hook), inp, sig=sig, nontrivial=ev["nseg"] >= 3)
            inp2 = dict(inp, module=modn, hook=hook)
            if st is None:
                ctx.fail("crash_or_error", inp2, got, "events")
                continue
            if ev["cpw"] and hook == "trace" and not fx_wrap:
                # finding: frame->f_trace of the cpdef C function is Py_None, its first line event
                # calls None: TypeError, and the interpreter switches tracing off
                if st == "TypeError":
                    ctx.fail("cpdef_wrapper_settrace_typeerror", inp2, "TypeError after %d events" % len(got),
                             "the function runs; events balanced")
                    continue
            ost, oracle = by[(ci, "py", "c45ks" + P[5:], hook)]
            failed = False
            bad = nesting_check(got)
            if bad:
                ctx.fail(klass, inp2, bad, "balanced and well nested"); failed = True
            if ost is not None and st != ost:
                ctx.fail(klass if klass != "event_mismatch" else "outcome_differs", inp2, st, ost,
                         note="the entry function ended differently from CPython"); failed = True
            for e, n, fl, l in got:
                j = rd.line_fid.get(fl)
                if j is None or not (rd.span[j][0] <= l <= rd.span[j][1]):
                    ctx.fail("line_outside_function" if klass == "event_mismatch" else klass, inp2,
                             "%s:%s:%d:%d" % (e, n, fl, l), "a line of the code object"); failed = True
                    break
            g, bad = project(got, rd, set(), False)
            if bad:
                ctx.corr_break("compiled events", inp2, bad, "known code objects")
                continue
            if ost is not None:
                erase = inl | deleg
                ge, _ = project(got, rd, erase, False)
                oe, bad = project(oracle, rd, erase, True)
                if bad:
                    ctx.corr_break("CPython events", inp2, bad, "known code objects")
                elif ge != oe:
                    ctx.fail(klass, inp2, ge, oe, note="call/return sequence differs from CPython's on the code "
                             "objects whose frames both have (inlined genexprs and delegating generators erased)")
                    failed = True
            if g != mword:
                ctx.corr_break("M_TraceGen.word vs compiled (%s,%s)" % (modn, hook), inp2, g, mword)
    ctx.extra.setdefault("kind_exit_coverage", {})
    for k, v in cover.items():
        ctx.extra["kind_exit_coverage"][k] = ctx.extra["kind_exit_coverage"].get(k, 0) + v


def flat(b):
    for s in b:
        yield s
        for x in s[1:]:
            if isinstance(x, list) and x and isinstance(x[0], tuple):
                yield from flat(x)
