"""C11 - Emitted C string literals denote exactly the original bytes (DESIGN 7/C11)."""
import os, json, hashlib, itertools, subprocess, struct, shutil
import concurrent.futures as cf
import cybuild

TITLE = "Emitted C string literals denote exactly the original bytes"
EXTRACTS = ["CStr"]
RULE = ("byte strings: every string of length <= 2 (quick) / <= 3 (thorough: model==implementation on all 2^24, gcc on 64 of the 256 first bytes) at the default limit; every string "
        "of length <= 4 (quick) / <= 5 (thorough) over the alphabet {\\\\ ? 0 \" LF a 0x80} at limits 6..10; adversarial "
        "long strings (runs of backslashes, '?', digits after NUL/octal escapes, quotes, high bytes) placed so that "
        "the escaped text crosses a multiple of the limit within +-6 characters, limits 6..4010; random special-heavy "
        "strings whose escaped length is 1990..2010 / 3990..4010; all 256 character constants; MSVC char-array "
        "form.  Distinct by (function, bytes, limit); every case is non-trivial (its literal is compiled and read back).")
EXPLANATION = ("theorems (Coq): for every byte string and every limit >= 6 the emitted literal (escape_byte_string "
               "+ split_string_literal + quotes) is read back by the reference C reader (trigraph replacement, line "
               "splicing, simple/octal/hex escapes, adjacent-literal concatenation) as exactly the original bytes; "
               "it contains no two adjacent question marks (hence no trigraph); every chunk is non-empty and at most "
               "limit characters; the splitter terminates on every text for limit >= 6 (fuel len+1 suffices) and "
               "makes no progress at limit 5; the MSVC char-array form and all 256 character constants read back. "
               "Correspondence: model text == real function text; gcc (-std=c11, trigraphs on) compiles the real "
               "text and the program's bytes == the original bytes.")
TRUSTED = ["reference C reader c_read in M_CStr.v as the meaning of 'a conforming C compiler reads' (phases 1,2,5,6; "
           "cross-checked against gcc on every correspondence case)",
           "gcc -std=c11 (and clang, -std=c89 in the thorough tier) as the property oracle",
           "re.sub leftmost-alternation semantics as modelled by replace_specials"]
ASSUMPTIONS = ["limit >= 6 (the compiler only ever uses the default 2000)", "execution character set = source bytes (ASCII superset), CHAR_BIT = 8"]

IMPL = r'''
import pyload; pyload.install()
import sys, json, hashlib, itertools
from Cython.Compiler import StringEncoding as S
from Cython.Compiler import Code
pyload.assert_sources()
spec = json.load(sys.stdin)
out = {}
def lit(b, limit):
    return '"%s"' % S.split_string_literal(S.escape_byte_string(b), limit)
res = []
for h, limit in spec.get("lits", []):
    b = bytes.fromhex(h)
    t = lit(b, limit)
    if limit == 2000:
        t2 = S.bytes_literal(b, 'iso8859-1').as_c_string_literal()
        if t2 != t:
            t = "!METHOD-DIFFERS " + t2
    res.append(t)
out["lits"] = res
out["splits"] = [S.split_string_literal(bytes.fromhex(h).decode('latin-1'), limit) for h, limit in spec.get("splits", [])]
out["chars"] = [S.escape_char(bytes([i])) for i in range(256)] if spec.get("chars") else []
class W:
    def __init__(self): self.lines = []
    def putln(self, s, safe=False): self.lines.append(s)
arr = []
for h in spec.get("chararr", []):
    b = bytes.fromhex(h)
    w = W()
    Code._write_cstring_const(w, S.escape_byte_string(b), "X", 65536)
    arr.append(w.lines)
out["chararr"] = arr
sw = []
for pre, depth, limit in spec.get("sweeps", []):
    pre = bytes.fromhex(pre)
    hh = hashlib.md5()
    buf = []
    for tup in itertools.product(range(256), repeat=depth):
        buf.append(lit(pre + bytes(tup), limit))
    hh.update(("\n".join(buf) + "\n").encode("latin-1"))
    sw.append(hh.hexdigest())
out["sweeps"] = sw
for pre, depth, limit, path in spec.get("cfiles", []):
    pre = bytes.fromhex(pre)
    with open(path, "w", encoding="latin-1") as f:
        f.write(spec["c_head"])
        for tup in itertools.product(range(256), repeat=depth):
            f.write("E(%s),\n" % lit(pre + bytes(tup), limit))
        f.write(spec["c_tail"])
print(json.dumps(out))
'''

C_HEAD = ("#include <stdio.h>\n#define E(x) {x, sizeof(x)-1}\n"
          "struct ent { const char *p; unsigned long n; };\nstatic const struct ent T[] = {\n")
C_TAIL = ("};\nint main(void){ unsigned long i; for(i=0;i<sizeof(T)/sizeof(T[0]);i++){ unsigned n = (unsigned)T[i].n; "
          "fwrite(&n,4,1,stdout); fwrite(T[i].p,1,n,stdout);} return 0; }\n")
HEAD_LINES = C_HEAD.count("\n")


def cc_literals(workdir, name, entries, flags, compiler="gcc", pre_decls=None, ready=False):
    """entries: C expressions of type 'array of char' (string literals or array names), one per line
    (ready=True: the file <name>.c was already written by the implementation driver).
    Returns (list of bytes | None, error text, failing entry index | None)."""
    src = os.path.join(workdir, name + ".c")
    decl = "".join(pre_decls or [])
    if not ready:
        with open(src, "w", encoding="latin-1") as f:
            f.write(decl + C_HEAD)
            for e in entries:
                f.write("E(%s),\n" % e)
            f.write(C_TAIL)
    exe = os.path.join(workdir, name + ".exe")
    p = subprocess.run([compiler] + flags + ["-O0", "-w", src, "-o", exe], capture_output=True, text=True,
                       errors="replace", timeout=900)
    if p.returncode != 0:
        bad = None
        base = decl.count("\n") + HEAD_LINES
        for line in p.stderr.splitlines():
            parts = line.split(":")
            if len(parts) > 2 and parts[0].endswith(name + ".c") and parts[1].isdigit() and "error" in line:
                ln = int(parts[1]) - base - 1
                if 0 <= ln < len(entries):
                    bad = ln
                    break
        return None, p.stderr[-1500:], bad
    q = subprocess.run([exe], capture_output=True, timeout=900)
    data, out, i = q.stdout, [], 0
    while i + 4 <= len(data):
        n = struct.unpack_from("<I", data, i)[0]
        out.append(data[i + 4:i + 4 + n])
        i += 4 + n
    try:
        os.unlink(exe)
    except OSError:
        pass
    if q.returncode != 0 or len(out) != len(entries):
        return None, "program rc=%s, %d of %d entries" % (q.returncode, len(out), len(entries)), None
    return out, "", None


SPECIAL = [0x5c, 0x3f, 0x30, 0x22, 0x0a, 0x61, 0x80]


def classify(b, limit):
    """class of a failing input, from the input only."""
    if b"??" in b:
        return "trigraph_pair"
    if len(b) <= 3:
        return "short_string"
    return "split_boundary" if limit < 2000 or len(b) > 400 else "escape"


def esc_len(b):
    """length of the escaped text according to the documented rules (generator only)."""
    n, i = 0, 0
    hi = any(c >= 128 for c in b)
    while i < len(b):
        c = b[i]
        if c == 0x3f and i + 1 < len(b) and b[i + 1] == 0x3f:
            n += 8; i += 2; continue
        if c in (0x5c, 0x22, 0x0a, 0x0d, 0x09):
            n += 2
        elif c < 32 or c == 0x27 or c >= 128 or (c == 127 and hi):
            n += 4
        else:
            n += 1
        i += 1
    return n


PIECES = [b"\\" * 1, b"\\" * 2, b"\\" * 3, b"\\" * 7, b"\\" * 40, b"??", b"???", b"????/", b"?\\?", b"\x00" + b"123",
          b"\x0012", b"\x01" + b"7", b"\x80" + b"9", b"\xff\xff", b'"', b'""', b"'", b"\n", b"\\n", b"\\\n", b"\\\"",
          b"x\\", b"\\x41", b"\x7f", b"?\"?", b"a", b"\\" * 5 + b"0", b"\t\\\\\t", b"\\?\\?", b"\x00" * 3]


def adversarial(rng, limit, n):
    """strings whose escaped text puts a special piece within +-6 of a multiple of limit."""
    out = []
    for _ in range(n):
        k = rng.choice([1, 1, 1, 2, 3])
        b = b""
        for j in range(1, k + 1):
            piece = rng.choice(PIECES) * rng.choice([1, 1, 2, 3])
            if rng.random() < 0.15:
                piece = b"\\" * rng.randrange(limit // 2, 2 * limit + 3) if limit <= 300 else b"\\" * rng.randrange(1, 3000)
            target = j * limit + rng.randrange(-6, 7) - rng.randrange(0, max(1, min(esc_len(piece), 8)))
            pad = target - esc_len(b)
            if pad > 0:
                fill = rng.choice([b"a", b"a", b"0", b"?a", b"a\\"])
                b += (fill * pad)[:pad] if fill != b"a\\" else b"a" * pad
                # trim so that the escaped length hits the target from below
                while esc_len(b) > target and b:
                    b = b[:-1]
            b += piece
        b += rng.choice([b"", b"a", b"abc", b"\\", b"\\\\", b"?", b"\x00"]) * rng.choice([0, 1, 1, 2, 5])
        out.append(b)
    return out


def random_special(rng, lo, hi):
    """special-heavy random string with escaped length in [lo, hi]."""
    alpha = [0x5c] * 6 + [0x3f] * 4 + [0x22, 0x27, 0x0a, 0x00, 0x01, 0x30, 0x31, 0x37, 0x38, 0x61, 0x7f, 0x80, 0xff, 0x20]
    while True:
        want = rng.randrange(lo, hi + 1)
        b = bytearray()
        n = 0                      # running estimate (exact except for '??' pairs across pieces)
        while n < want - 8:
            r = rng.random()
            if r < 0.2:
                piece = bytes([0x5c]) * rng.randrange(1, 30)
            elif r < 0.3:
                piece = b"a" * rng.randrange(1, 40)
            else:
                piece = bytes([rng.choice(alpha)])
            if n + 4 * len(piece) > want:
                piece = piece[:1]
            b += piece
            n += esc_len(b"\x80" + piece) - 4
        exact = esc_len(bytes(b))
        if exact < lo:
            b += b"a" * (want - exact)
            exact = esc_len(bytes(b))
        if lo <= exact <= hi:
            return bytes(b)


def run(ctx):
    import time
    T0 = time.time()
    def lap(what):
        ctx.note("t+%.0fs %s" % (time.time() - T0, what))
    quick = ctx.tier == "quick"
    rng = ctx.rng
    model = ctx.model("cstr")
    flags_main = ["-std=c11"]          # ISO mode: trigraphs are replaced

    # ------------------------------------------------------------------ case lists
    lits = []          # (stratum, bytes, limit)
    for n in range(3):
        for tup in itertools.product(range(256), repeat=n):
            lits.append(("exhaustive<=2", bytes(tup), 2000))
    ctx.extra.setdefault("exhaustive_domains", []).append("all 65793 byte strings of length <= 2, limit 2000")
    maxlen = 4 if quick else 5
    for n in range(maxlen + 1):
        for tup in itertools.product(SPECIAL, repeat=n):
            for limit in (6, 7, 8, 9, 10):
                lits.append(("small-alphabet/limit6-10", bytes(tup), limit))
    ctx.extra["exhaustive_domains"].append("all strings of length <= %d over 7 special bytes x limits 6..10" % maxlen)
    limits = [6, 7, 8, 9, 10, 11, 12, 13, 16, 17, 50, 100, 255, 256, 1999, 2000, 2001, 4010]
    per = 40 if quick else 400
    for limit in limits:
        for b in adversarial(rng, limit, per if limit != 2000 else 3 * per):
            lits.append(("adversarial/limit%s" % (limit if limit in (2000,) else ("<=17" if limit <= 17 else "mid")), b, limit))
    for lo, hi, lim in [(1990, 2010, 2000), (3990, 4010, 2000), (1990, 2010, 1000), (3990, 4010, 4000)]:
        for _ in range(40 if quick else 400):
            lits.append(("random-special/len~%d" % lo, random_special(rng, lo, hi), lim))
    # runs of backslashes of every length around the limit (default limit)
    for n in list(range(990, 1012)) + list(range(1990, 2012)):
        lits.append(("backslash-run", b"\\" * n, 2000))
        lits.append(("backslash-run", b"a" + b"\\" * n, 2000))
    seen, uniq = set(), []
    for s, b, l in lits:
        if (b, l) not in seen:
            seen.add((b, l)); uniq.append((s, b, l))
    lits = uniq

    # arbitrary texts (not escape outputs) for the splitter alone: tie only
    splits = []
    for _ in range(300 if quick else 3000):
        limit = rng.choice([6, 7, 8, 9, 10, 12, 33, 100])
        n = rng.randrange(0, 6 * limit)
        splits.append((bytes(rng.choice([0x5c, 0x5c, 0x5c, 0x61, 0x30, 0x22, 0x3f]) for _ in range(n)), limit))

    arr_inputs = [bytes(t) for n in range(2) for t in itertools.product(range(256), repeat=n) if n > 0]
    arr_inputs += [b for (_, b, l) in lits if 2 < len(b) <= 40][: (300 if quick else 5000)]
    arr_inputs += [bytes(t) for t in itertools.product(SPECIAL, repeat=3)]

    sweeps = []
    if not quick:
        sweeps = [("%02x" % p, 2, 2000) for p in range(256)]
        ctx.extra["exhaustive_domains"].append("all 16777216 byte strings of length 3, limit 2000 "
                                               "(model text == implementation text by digest per first byte; the model's c_read reads every one back)")

    lap("cases generated")
    # ------------------------------------------------------------------ implementation
    spec = {"lits": [[b.hex(), l] for _, b, l in lits], "splits": [[b.hex(), l] for b, l in splits], "chars": True,
            "chararr": [b.hex() for b in arr_inputs], "sweeps": [list(s) for s in sweeps]}
    r = cybuild.run_script(IMPL, ctx.workdir, spec, timeout=3000)
    if r["json"] is None:
        ctx.corr_break("implementation run", "driver", (r["err"] or r["out"])[-1500:], "results")
        return
    impl = r["json"]

    lap("implementation done")
    # ------------------------------------------------------------------ model (tie)
    mlit = model.batch(["lit %s %d" % (b.hex() or "-", l) for _, b, l in lits])
    nbad = 0
    for (s, b, l), it, mt in zip(lits, impl["lits"], mlit):
        ctx.case(s, {"bytes": b.hex(), "limit": l}, sig=("lit", b, l))
        mtxt = bytes.fromhex(mt).decode("latin-1") if mt not in ("NONE", "-") else ("" if mt == "-" else None)
        if mtxt != it and nbad < 10:
            nbad += 1
            ctx.corr_break("cstr:as_c_string_literal", {"bytes": b.hex(), "limit": l}, it[:600], (mtxt or mt)[:600])
    msp = model.batch(["split %s %d" % (b.hex() or "-", l) for b, l in splits])
    for (b, l), it, mt in zip(splits, impl["splits"], msp):
        ctx.case("split/arbitrary-text(tie only)", {"text": b.hex(), "limit": l}, sig=("split", b, l))
        mtxt = bytes.fromhex(mt).decode("latin-1") if mt not in ("FUEL", "UNMODELLED", "-") else ("" if mt == "-" else None)
        if mtxt != it and nbad < 20:
            nbad += 1
            ctx.corr_break("cstr:split_string_literal", {"text": b.hex(), "limit": l}, it[:600], (mtxt or mt)[:600])
    mch = model.batch(["escchar %d" % i for i in range(256)])
    for i in range(256):
        ctx.case("escape_char", {"byte": i}, sig=("char", i))
        if bytes.fromhex(mch[i]).decode("latin-1") != impl["chars"][i]:
            ctx.corr_break("cstr:escape_char", {"byte": i}, impl["chars"][i], mch[i])
    marr = model.batch(["chararr %s" % b.hex() for b in arr_inputs])
    arr_texts = []
    for b, lines, mt in zip(arr_inputs, impl["chararr"], marr):
        ctx.case("msvc-char-array", {"bytes": b.hex()}, sig=("arr", b))
        ok = (len(lines) == 5 and lines[0] == "#ifdef _MSC_VER" and lines[2] == "#else" and lines[4] == "#endif"
              and lines[1].startswith("static const char X[] = {") and lines[1].endswith("};"))
        body = lines[1][len("static const char X[] = {"):-2] if ok else None
        arr_texts.append((body, lines[3] if ok else None))
        mtxt = bytes.fromhex(mt).decode("latin-1") if mt != "-" else ""
        if body != mtxt and nbad < 30:
            nbad += 1
            ctx.corr_break("cstr:char_array_form", {"bytes": b.hex()}, repr(lines)[:600], mtxt[:600])

    lap("model tie done")
    # ------------------------------------------------------------------ property oracle: gcc
    def check_batch(name, cases, entries, flags, compiler="gcc", pre=None, kind="lit"):
        got, err, badidx = cc_literals(ctx.workdir, name, entries, flags, compiler, pre)
        if got is None:
            # the batch does not compile: bisect to one literal that does not compile on its own
            lo, hi = 0, len(entries)
            while hi - lo > 1 and pre is None:
                mid = (lo + hi) // 2
                g2, e2, _ = cc_literals(ctx.workdir, name + "_b", entries[lo:mid], flags, compiler, None)
                if g2 is None:
                    hi, err = mid, e2
                else:
                    lo = mid
            if pre is None and hi - lo == 1:
                g2, e2, _ = cc_literals(ctx.workdir, name + "_b", entries[lo:hi], flags, compiler, None)
                badidx = lo if g2 is None else None
                err = e2 if g2 is None else err
            if badidx is not None:
                b, l = cases[badidx]
                ctx.fail(classify(b, l), {"bytes": b.hex(), "limit": l, "kind": kind, "cc": compiler + " " + " ".join(flags)},
                         "does not compile: " + err[:300], b.hex(), note="emitted: " + entries[badidx][:300])
            else:
                ctx.fail("cc_batch_failed", {"batch": name, "kind": kind}, err[:600], "compiles")
            return
        nf = 0
        for (b, l), g, e in zip(cases, got, entries):
            if g != b and nf < 5:
                nf += 1
                ctx.fail(classify(b, l), {"bytes": b.hex(), "limit": l, "kind": kind, "cc": compiler + " " + " ".join(flags)},
                         g.hex()[:400], b.hex()[:400], note="emitted: " + e[:300])

    jobs = []
    good = [(b, l, t) for (_, b, l), t in zip(lits, impl["lits"]) if not t.startswith("!")]
    for (_, b, l), t in zip(lits, impl["lits"]):
        if t.startswith("!"):
            ctx.fail("method_differs", {"bytes": b.hex(), "limit": l}, t[:300], "as_c_string_literal == quoted split(escape)")
    nb = 8
    for k in range(nb):
        part = good[k::nb]
        jobs.append(("lit%d" % k, [(b, l) for b, l, _ in part], [t for _, _, t in part], flags_main, "gcc", None, "lit"))
    # char arrays: X<i>[] = {...}
    arr_cases = [(b, 0) for b, (body, _) in zip(arr_inputs, arr_texts) if body is not None]
    pre = ["static const char A%d[] = {%s, 0};\n" % (i, body) for i, (body, _) in enumerate(t for t in arr_texts if t[0] is not None)]
    jobs.append(("arr", arr_cases, ["A%d" % i for i in range(len(arr_cases))], flags_main, "gcc", pre, "char-array"))
    jobs.append(("arrstr", arr_cases, [t[1][len("static const char X[] = "):-1] for t in arr_texts if t[0] is not None],
                 flags_main, "gcc", None, "char-array-else-branch"))
    if not quick:
        extra = [(["-std=c89"], "gcc"), (["-std=gnu17", "-trigraphs"], "gcc"), ([], "gcc")]
        if shutil.which("clang"):
            extra.append((["-std=c11"], "clang"))
        for j, (fl, comp) in enumerate(extra):
            part = good[j::2][:60000]
            jobs.append(("x%d" % j, [(b, l) for b, l, _ in part], [t for _, _, t in part], fl, comp, None, "lit"))
    with cf.ThreadPoolExecutor(max_workers=8) as ex:
        list(ex.map(lambda a: check_batch(*a), jobs))

    lap("gcc batches done")
    # ------------------------------------------------------------------ reference reader vs gcc
    # (a) on every emitted literal: c_read(text) must equal what gcc produced == original bytes;
    # (b) on reader-adversarial texts Cython never emits (trigraphs, line splices, short octal, hex):
    #     wherever c_read accepts, gcc -std=c11 must compile the text to the same bytes.
    # (strings of length <= 2: the model's own sweep reads every literal back; texts are tied above)
    for d in (0, 1, 2):
        sw = model.batch(["sweep - %d 2000" % d])[0].split()
        if sw[1] != "0":
            ctx.corr_break("cstr:sweep read-back", {"depth": d}, "0 bad", sw[1] + " bad")
    longer = [(b, l, t) for (b, l, t) in good if len(b) > 2 or l != 2000]
    mrd = model.batch(["cread %s" % t.encode("latin-1").hex() for _, _, t in longer])
    nrd = 0
    for (b, l, t), m in zip(longer, mrd):
        if m != "S " + (b.hex() or "-") and nrd < 5:
            nrd += 1
            ctx.corr_break("cstr:c_read(emitted text)", {"bytes": b.hex(), "limit": l}, b.hex()[:300], m[:300])
    RT = ['??/', "??'", '??=', '??(', '??!', '??-', '?', '??', '\\\n', '" "', '""', '"\n"', r'\x4', r'\x41', r'\x7f',
          r'\7', r'\18', r'\101', r'\1011', r'\377', r'\0', '0', '7', '9', 'a', 'f', 'g', r'\"', r'\?', r"\'", r'\\', r'\n',
          r'\a', r'\v', "'", ' ', r'\xfF', r'\x00', '/']
    rtexts = []
    for _ in range(1500 if quick else 20000):
        body = "".join(rng.choice(RT) for _ in range(rng.randrange(1, 9)))
        rtexts.append('"' + body + '"')
    rres = model.batch(["cread %s" % t.encode("latin-1").hex() for t in rtexts])
    acc = [(t, bytes.fromhex(m[2:]) if m[2:] != "-" else b"") for t, m in zip(rtexts, rres) if m.startswith("S ")]
    ctx.count("reader-vs-gcc/accepted", len(acc), distinct_sigs=[("rd", t) for t, _ in acc])
    ctx.note("reference reader accepted %d of %d adversarial reader texts; all compared with gcc -std=c11" % (len(acc), len(rtexts)))
    if acc:
        got, err, badidx = cc_literals(ctx.workdir, "rdr", [t for t, _ in acc], flags_main)
        if got is None:
            ctx.corr_break("cstr:c_read vs gcc", {"text": acc[badidx][0] if badidx is not None else "batch"}, err[:400], "accepted by c_read")
        else:
            nrd = 0
            for (t, mb), g in zip(acc, got):
                if g != mb and nrd < 5:
                    nrd += 1
                    ctx.corr_break("cstr:c_read vs gcc", {"text": t}, g.hex(), mb.hex())

    # character constants
    csrc = ("#include <stdio.h>\nstatic const unsigned char C[] = {\n" +
            "".join("(unsigned char)'%s',\n" % c for c in impl["chars"]) +
            "};\nint main(void){fwrite(C,1,sizeof C,stdout);return 0;}\n")
    with open(os.path.join(ctx.workdir, "chars.c"), "w", encoding="latin-1") as f:
        f.write(csrc)
    p = subprocess.run(["gcc", "-std=c11", "-w", "-O0", "chars.c", "-o", "chars.exe"], cwd=ctx.workdir,
                       capture_output=True, text=True, errors="replace", timeout=300)
    if p.returncode != 0:
        ctx.fail("char_constant", {"all": 256}, "does not compile: " + p.stderr[:400], "compiles")
    else:
        q = subprocess.run([os.path.join(ctx.workdir, "chars.exe")], capture_output=True, timeout=60)
        for i in range(256):
            if q.stdout[i:i + 1] != bytes([i]):
                ctx.fail("char_constant", {"byte": i}, q.stdout[i:i + 1].hex(), "%02x" % i, note=impl["chars"][i])

    lap("reader checks done")
    # ------------------------------------------------------------------ thorough: all strings of length 3
    if sweeps:
        with cf.ThreadPoolExecutor(max_workers=8) as ex:
            chunks = [sweeps[i::8] for i in range(8)]
            res = list(ex.map(lambda ch: model.batch(["sweep %s %d %d" % s for s in ch], timeout=3000), chunks))
        mres = {}
        for ch, rr in zip(chunks, res):
            for s, line in zip(ch, rr):
                mres[s] = line.split()
        for s, ih in zip(sweeps, impl["sweeps"]):
            cnt, bad, dig = mres[s]
            if dig != ih:
                ctx.corr_break("cstr:sweep3 digest", {"prefix": s[0]}, ih, dig)
            if bad != "0":
                ctx.corr_break("cstr:sweep3 model read-back", {"prefix": s[0]}, "0 bad", bad + " bad")
            ctx.count("exhaustive=3/model+impl-digest", int(cnt), distinct_sigs=[("sweep3", s[0])])

        lap("length-3 model/impl digests done")
        # gcc over a stratified quarter of the length-3 strings (every special first byte + random others):
        # the implementation driver writes one .c file per first byte, gcc compiles and runs it
        special_first = [0x00, 0x01, 0x09, 0x0a, 0x0d, 0x1f, 0x20, 0x22, 0x27, 0x30, 0x31, 0x37, 0x38, 0x39, 0x3f,
                         0x41, 0x5c, 0x61, 0x6e, 0x78, 0x7e, 0x7f, 0x80, 0xff]
        others = [p for p in range(256) if p not in special_first]
        firsts = sorted(special_first + rng.sample(others, 40))
        rr = cybuild.run_script(IMPL, ctx.workdir, {"c_head": C_HEAD, "c_tail": C_TAIL, "cfiles": [
            ["%02x" % p, 2, 2000, os.path.join(ctx.workdir, "s3_%02x.c" % p)] for p in firsts]}, timeout=3000)
        if rr["json"] is None:
            ctx.corr_break("implementation run", "length-3 C files", (rr["err"] or rr["out"])[-800:], "files written")
            firsts = []
        lap("length-3 C files written")

        def gcc_prefix(p):
            cases = [(bytes((p,) + t), 2000) for t in itertools.product(range(256), repeat=2)]
            name = "s3_%02x" % p
            got, err, _ = cc_literals(ctx.workdir, name, [None] * len(cases), flags_main, "gcc", None, ready=True)
            if got is None:
                # rare path: re-obtain the texts and let check_batch bisect
                r2 = cybuild.run_script(IMPL, os.path.join(ctx.workdir, "p%02x" % p),
                                        {"lits": [[b.hex(), 2000] for b, _ in cases]}, timeout=600)
                if r2["json"] is None:
                    ctx.fail("cc_batch_failed", {"batch": name}, err[:600], "compiles")
                else:
                    check_batch(name + "r", cases, r2["json"]["lits"], flags_main, "gcc", None, "lit3")
            else:
                nf = 0
                for (b, l), g in zip(cases, got):
                    if g != b and nf < 3:
                        nf += 1
                        ctx.fail(classify(b, l), {"bytes": b.hex(), "limit": l, "kind": "lit3", "cc": "gcc -std=c11"},
                                 g.hex(), b.hex())
            try:
                os.unlink(os.path.join(ctx.workdir, name + ".c"))
            except OSError:
                pass
        with cf.ThreadPoolExecutor(max_workers=8) as ex:
            list(ex.map(gcc_prefix, firsts))
        lap("length-3 gcc done")
        ctx.count("exhaustive=3/gcc(64 first bytes)", len(firsts) * 65536, distinct_sigs=[("gcc3", p) for p in firsts])
        ctx.extra["exhaustive_domains"].append("gcc: all length-3 strings with first byte in %d values (%s)" % (
            len(firsts), ",".join("%02x" % p for p in firsts)))


def replay(ctx, obj):
    inp = obj["input"]
    b = bytes.fromhex(inp.get("bytes", ""))
    l = inp.get("limit", 2000) or 2000
    r = cybuild.run_script(IMPL, ctx.workdir, {"lits": [[b.hex(), l]], "chararr": [b.hex()]})
    t = r["json"]["lits"][0]
    got, err, _ = cc_literals(ctx.workdir, "replay", [t], ["-std=c11"])
    print("bytes   :", b.hex()[:2000])
    print("emitted :", t[:4000])
    print("gcc     :", (got[0].hex()[:2000] if got else "does not compile: " + err))
    print("expected:", obj.get("expected"))
