"""C27 helper (not a property): how a C-level call reaches a c(p)def method - vtable slots, adapters
(CFuncDefNode.generate_wrapper_functions), static types of the caller, final methods, optional arguments.

Generated forests of extension types (depth <= 4) whose method m is, per class: not declared / `cdef` /
`cpdef` / plain `def`, with 0..2 optional arguments (never decreasing down a chain), `@cython.final cdef`,
final leaf classes, bodies that also call the parent implementation (`Parent.m(self)`).  Every class T in
which m is a C method gets three call sites: `def call_T(T o): o.m()`, `def call1_T(T o): o.m(5)` (optional
argument given) and `def self_T(self): self.m()`.  Histories as in C27 (Python subclasses with/without
__slots__, mixin, class/instance set/replace/delete, super()-calling overrides, bound methods kept across
mutations) with C calls through EVERY static type of the object's chain.

Ties: (1) vtable initialisation + adapter bodies + call sites parsed from the generated C vs the extracted
`build` / call-site slot of M_VTable; (2) compiled results vs extracted vrun_cy; (3) compiled results vs the
same hierarchy as plain Python classes run by CPython (cdef m = private attribute _c_m, cpdef m = _c_m
redirecting to self.m())."""
import json, os, re
import cybuild


# ----------------------------------------------------------------------------------------------
def visible(t, i):
    """nearest declaration of m seen from class i: ('c'|'p', k, fin, cls) | ('d', cls) | None"""
    while i is not None:
        c = t[i]
        if c["vd"] != "n":
            return (c["vd"][0], c["vd"][1], c["vd"][2], i)
        if c["defm"]:
            return ("d", i)
        i = c["parent"]
    return None


def cvisible(t, i):
    """like visible but skipping plain defs (the C-level declaration)"""
    while i is not None:
        c = t[i]
        if c["vd"] != "n":
            return (c["vd"][0], c["vd"][1], c["vd"][2], i)
        i = c["parent"]
    return None


def chain_ids(t, i):
    out = []
    while i is not None:
        out.append(i); i = t[i]["parent"]
    return out[::-1]


def mk_class(ti, i, parent, vd, defm=False, dd=False, finalcls=False, sup=False):
    return dict(name="V%d_%d" % (ti, i), parent=parent, vd=vd, defm=defm, dd=dd, finalcls=finalcls, sup=sup,
                tag=7000 + 100 * ti + i)


# fixed chains: every declaration pattern of depth <= 3 over {n, c, p} x optional-argument growth is too many for
# one module; these cover each branch of declare_cfunction / generate_wrapper_functions at least once
FIXED = [
    # cdef -> cpdef upgrade (adapter passes the constant), then inherited, Python subclassable at every level
    [(None, ("c", 0, False)), (0, ("p", 0, False)), (1, "n")],
    # cpdef -> cpdef same signature (entry re-used, no adapter), cdef -> cdef
    [(None, ("p", 0, False)), (0, ("p", 0, False)), (1, ("p", 0, False))],
    # optional arguments grow: cdef/0 -> cdef/1 -> cpdef/1 -> cpdef/2 : three adapters in the last class
    [(None, ("c", 0, False)), (0, ("c", 1, False)), (1, ("p", 1, False)), (2, ("p", 2, False))],
    # upgrade and optional argument at once; branch re-using the slot
    [(None, ("c", 0, False)), (0, ("p", 1, False)), (1, ("p", 1, False)), (0, ("c", 0, False))],
    # cpdef with more optional arguments (skip_dispatch forwarded, struct replaced)
    [(None, ("p", 1, False)), (0, ("p", 2, False)), (1, "n")],
    # final cdef method, final class
    [(None, ("c", 0, False)), (0, ("c", 0, True)), (1, "n"), (0, ("p", 0, False), dict(finalcls=True))],
    # declared only in a subclass; plain def below a cdef
    [(None, "n"), (0, ("c", 1, False)), (1, ("p", 1, False), dict(sup=True)), (1, "n", dict(defm=True))],
    # __dict__ in the root, parent-calling bodies
    [(None, ("c", 0, False), dict(dd=True)), (0, ("p", 0, False), dict(sup=True)), (1, ("p", 1, False), dict(sup=True))],
    # final type with an inherited __dict__ (known finding: no override check in methods of final types)
    [(None, ("p", 0, False), dict(dd=True)), (0, ("p", 0, False), dict(finalcls=True))],
]


def fixed_tree(ti, spec):
    t = []
    for i, it in enumerate(spec):
        kw = it[2] if len(it) > 2 else {}
        t.append(mk_class(ti, i, it[0], it[1], **kw))
    return t


def gen_tree(rng, ti):
    r0 = rng.random()
    root = "n" if r0 < 0.1 else (("c" if rng.random() < 0.65 else "p"), rng.choice([0, 0, 1]), False)
    t = [mk_class(ti, 0, None, root, dd=rng.random() < 0.25)]
    depth = [1]
    for i in range(1, rng.randrange(3, 6)):
        cand = [j for j in range(len(t)) if depth[j] < 4 and not t[j]["finalcls"]]
        p = rng.choice(cand[-2:] if rng.random() < 0.7 else cand)
        v = cvisible(t, p)
        nv = visible(t, p)
        anc_dd = any(t[j]["dd"] for j in chain_ids(t, p))
        vd, defm, fcls = "n", False, False
        r = rng.random()
        if v is not None and v[2]:
            pass                                   # below a final method: nothing may re-declare it
        elif r < 0.7:
            kind = "p" if (v is not None and v[0] == "p") or rng.random() < 0.55 else "c"
            k0 = v[1] if v is not None else 0
            k = min(2, k0 + (1 if rng.random() < 0.35 else 0))
            fin = kind == "c" and rng.random() < 0.12
            vd = (kind, k, fin)
        elif r < 0.78 and (nv is None or nv[0] != "d"):
            defm = True
        if rng.random() < 0.1 and not (vd != "n" and vd[2]) and not anc_dd:
            fcls = True          # final type with an inherited __dict__: class final_type_instance_attribute_override (witness_cases)
        sup = vd != "n" and v is not None and rng.random() < 0.3
        t.append(mk_class(ti, i, p, vd, defm=defm, dd=(not anc_dd and not fcls and rng.random() < 0.15), finalcls=fcls, sup=sup))
        depth.append(depth[p] + 1)
    return t


DEFAULTS = lambda ci, j: 10 * (ci + 1) + j + 1


def body_expr(t, i, pyname):
    """expression computing the result string of class i's implementation; pyname(cls) -> how the parent body is called"""
    c = t[i]
    k = c["vd"][1]
    args = ["a%d" % j for j in range(k)]
    fmt = "B:%s" % c["name"] + "".join(":%d" for _ in args)
    e = "'%s'" % fmt if not args else "'%s' %% (%s,)" % (fmt, ", ".join(args))
    if c["sup"]:
        e = "%s + '>' + %s" % (e, pyname(cvisible(t, c["parent"])[3]))
    return e


def params(t, i):
    k = t[i]["vd"][1]
    return "".join(", int a%d=%d" % (j, DEFAULTS(i, j)) for j in range(k))


def pyx_source(trees):
    L = ["# cython: language_level=3", "cimport cython", ""]
    for t in trees:
        for i, c in enumerate(t):
            if c["finalcls"]:
                L.append("@cython.final")
            L.append("cdef class %s%s:" % (c["name"], "(%s)" % t[c["parent"]]["name"] if c["parent"] is not None else ""))
            n0 = len(L)
            if c["dd"]:
                L.append("    cdef dict __dict__")
            if c["vd"] != "n":
                if c["vd"][2]:
                    L.append("    @cython.final")
                L += ["    %s m(self%s):" % ("cpdef" if c["vd"][0] == "p" else "cdef", params(t, i)),
                      "        return " + body_expr(t, i, lambda p: "%s.m(self)" % t[p]["name"])]
            elif c["defm"]:
                L += ["    def m(self, *a):", "        return 'F:%d'" % c["tag"]]
            v = visible(t, i)
            if v is not None and v[0] != "d":
                L += ["    def self_%s(self):" % c["name"], "        return self.m()"]
            if len(L) == n0:
                L.append("    pass")
        for i, c in enumerate(t):
            v = visible(t, i)
            if v is not None and v[0] != "d":
                L += ["def call_%s(%s o):" % (c["name"], c["name"]), "    return o.m()"]
                if v[1] >= 1:
                    L += ["def call1_%s(%s o):" % (c["name"], c["name"]), "    return o.m(5)"]
        L.append("")
    return "\n".join(L) + "\n"


def oracle_source(trees):
    """plain Python classes: cdef m = private _c_m; cpdef m = Python-visible m + _c_m redirecting to self.m()"""
    L = []
    for t in trees:
        for i, c in enumerate(t):
            L.append("class %s%s:" % (c["name"], "(%s)" % t[c["parent"]]["name"] if c["parent"] is not None else ""))
            if not any(t[j]["dd"] for j in chain_ids(t, i)):
                L.append("    __slots__ = ()")
            else:
                L.append("    pass")
            if c["vd"] != "n":
                k = c["vd"][1]
                L += ["    def _b_%s(self%s):" % (c["name"], "".join(", a%d=%d" % (j, DEFAULTS(i, j)) for j in range(k))),
                      "        return " + body_expr(t, i, lambda p: "self._b_%s()" % t[p]["name"])]
                if c["vd"][0] == "p":
                    L += ["    def m(self, *a):", "        return self._b_%s(*a)" % c["name"],
                          "    def _c_m(self, *a):", "        return self.m(*a)"]
                else:
                    L += ["    def _c_m(self, *a):", "        return self._b_%s(*a)" % c["name"]]
            elif c["defm"]:
                L += ["    def m(self, *a):", "        return 'F:%d'" % c["tag"]]
            v = visible(t, i)
            if v is not None and v[0] != "d":
                L += ["    def self_%s(self):" % c["name"], "        return self._c_m()"]
        for i, c in enumerate(t):
            v = visible(t, i)
            if v is not None and v[0] != "d":
                L += ["def call_%s(o):" % c["name"], "    return o._c_m()"]
                if v[1] >= 1:
                    L += ["def call1_%s(o):" % c["name"], "    return o._c_m(5)"]
        L.append("")
    return "\n".join(L) + "\n"


# ----------------------------------------------------------------------------------------------
def vd_text(c):
    """model declaration of an extension class: final = final method, or any method declared in a final class"""
    d = c["vd"]
    return "n" if d == "n" else "%s%d%s" % (d[0], d[1], "f" if (d[2] or c["finalcls"]) else "")


def chain_text(t, i):
    return ";".join("%d,%s" % (j, vd_text(t[j])) for j in chain_ids(t, i))


def ext_classes(t):
    out = []
    for i, c in enumerate(t):
        mro = chain_ids(t, i)[::-1]
        decl = "c" if (c["vd"] != "n" and c["vd"][0] == "p") else ("d" if c["defm"] else "n")
        out.append(dict(kind="E", mro=mro, decl=decl, tag=c["tag"] if decl == "d" else None, dd=c["dd"],
                        dk="E" if any(t[j]["dd"] for j in mro) else "N", ext=c["name"], vd=vd_text(c)))
    return out


def gen_case(rng, ti, t, maxlen):
    ne = len(t)
    classes = ext_classes(t)
    npy = rng.choice([0, 1, 1, 2, 2, 3])
    tag = [100]

    def newtag():
        tag[0] += 1
        return tag[0]
    mixin = None
    if npy and rng.random() < 0.25:
        mixin = len(classes)
        sl = rng.random() < 0.4
        d = newtag() if rng.random() < 0.3 else None
        classes.append(dict(kind="P", mro=[mixin], decl=("d" if d else "n"), tag=d, dd=False, dk="N" if sl else "M", vd="n",
                            py=dict(name="Mx", bases=[], slots=sl, decl=d, sup=False)))
    mixin_used = False
    first_py = len(classes)
    subclassable = [i for i in range(ne) if not t[i]["finalcls"]]
    for j in range(npy):
        cid = len(classes)
        cand = subclassable + list(range(first_py, cid))
        if not cand:
            break
        b = rng.choice(cand[-4:] if rng.random() < 0.6 else cand)
        sl = rng.random() < 0.3
        d = newtag() if rng.random() < 0.45 else None
        bases, mro = [b], [cid] + classes[b]["mro"]
        plain = True
        if mixin is not None and not mixin_used and rng.random() < 0.6:
            mixin_used = True
            plain = False
            if rng.random() < 0.5:
                bases, mro = [mixin, b], [cid, mixin] + classes[b]["mro"]
            else:
                bases, mro = [b, mixin], [cid] + classes[b]["mro"] + [mixin]
        if any(classes[k]["dk"] == "E" for k in mro[1:]):
            dk = "E"
        elif sl and all(classes[k]["dk"] == "N" for k in mro[1:]):
            dk = "N"
        else:
            dk = "M"
        # super()-calling override only where an extension type above certainly provides a Python-visible m
        eb = [k for k in mro[1:] if classes[k]["kind"] == "E"]
        has_cp = any(classes[k]["decl"] == "c" for k in eb)
        sup = bool(d) and plain and has_cp and mixin not in classes[b]["mro"] and rng.random() < 0.35
        classes.append(dict(kind="P", mro=mro, decl=("d" if d else "n"), tag=d, dd=False, dk=dk, vd="n",
                            py=dict(name="P%d" % j, bases=bases, slots=sl, decl=d, sup=sup)))
    n = len(classes)
    pycls = [i for i in range(n) if classes[i]["kind"] == "P"]
    inst_cls = [i for i in range(n) if i != mixin]
    ops, objs = [], []

    def ebase(c):
        return [k for k in classes[c]["mro"] if classes[k]["kind"] == "E"][0]

    def sites(c):
        """(static type, kind) pairs usable for an instance of class c"""
        out = []
        for T in chain_ids(t, ebase(c)):
            v = visible(t, T)
            if v is None or v[0] == "d":
                continue
            out += [(T, "f"), (T, "s")]
            if v[1] >= 1:
                out.append((T, "a"))
        return out

    def new(c):
        ops.append(["N", c]); objs.append(c)
    new(rng.choice(inst_cls[-3:]))
    if rng.random() < 0.6:
        new(rng.choice(inst_cls))

    def ccall(o):
        s = sites(objs[o])
        if not s:
            ops.append(["CP", o]); return
        T, k = rng.choice(s)
        ops.append(["CT", T, o, k])
    for _ in range(rng.randrange(4, maxlen + 1)):
        r = rng.random()
        o = rng.randrange(len(objs))
        if r < 0.14 and pycls:
            c = rng.choice(pycls)
            # wrappers of extension types as class attribute - only those accepting as many optional arguments as
            # any implementation of the chain (fewer: see witness_cases / class override_with_fewer_optional_args)
            mx = max([t[k]["vd"][1] for k in range(ne) if t[k]["vd"] != "n"] or [0])
            wr = [k for k in classes[c]["mro"] if classes[k]["decl"] == "c" and t[k]["vd"][1] == mx]
            if wr and rng.random() < 0.15:
                ops.append(["SC", c, "W", rng.choice(wr)])
            else:
                ops.append(["SC", c, "F", newtag()])
        elif r < 0.22 and pycls:
            ops.append(["DC", rng.choice(pycls)])
        elif r < 0.27:
            new(rng.choice(inst_cls))
        elif r < 0.37:
            ops.append(["SI", o, newtag()])
        elif r < 0.43:
            ops.append(["DI", o])
        elif r < 0.50:
            ops.append(["CP", o])
        elif r < 0.54:
            ops.append(["BG", o])
        elif r < 0.58:
            ops.append(["BC"])
        elif r < 0.95:
            ccall(o)
        else:
            c = rng.choice(classes[objs[o]]["mro"])
            ops.append(["CV", c, o])
    # at the end: every object through every static type of its chain, and from Python
    for o in range(len(objs)):
        for T, k in sites(objs[o]):
            if k != "s" or rng.random() < 0.5:
                ops.append(["CT", T, o, k])
        ops.append(["CP", o])
    return dict(tree=ti, classes=classes, ops=ops, objs=objs)


def hier_text(classes):
    out = []
    for c in classes:
        d = "c" if c["decl"] == "c" else ("n" if c["decl"] == "n" else "d%d" % c["tag"])
        out.append("%s,%s,%s,%d,%s" % (c["kind"], ".".join(map(str, c["mro"])), d, 1 if c["dd"] else 0, c["dk"]))
    return ";".join(out)


def vdl_text(classes):
    return ";".join(c["vd"] for c in classes)


def mops_text(ops):
    out = []
    for op in ops:
        if op[0] in ("BG", "BC"):
            continue
        if op[0] == "CT":
            out.append("CT:%d:%d" % (op[1], op[2]))
        else:
            out.append(":".join(str(x) for x in op))
    return " ".join(out)


DRIVER = r'''
import sys, json, importlib
spec = json.load(sys.stdin)
mode = spec["mode"]
if mode == "compiled":
    ns = importlib.import_module(spec["modname"]).__dict__
else:
    ns = {}
    exec(compile(spec["oracle_src"], "oracle.py", "exec"), ns)
def fn_self(n):
    def f(self, *a): return "F:%d" % n
    return f
def fn0(n):
    def g(*a): return "F:%d" % n
    return g
def call(f):
    try:
        return f()
    except TypeError: return "TE"
    except AttributeError: return "AE"
    except RecursionError: return "REC"
    except Exception as e: return "EXC:" + type(e).__name__
out = []
for case in spec["cases"]:
    classes, isext = [], []
    for cd in case["classes"]:
        if cd["kind"] == "E":
            classes.append(ns[cd["ext"]]); isext.append(True)
        else:
            p = cd["py"]; body = {}
            if p["slots"]: body["__slots__"] = ()
            bases = tuple(classes[b] for b in p["bases"])
            if p["decl"] is not None and not p["sup"]:
                body["m"] = fn_self(p["decl"])
            K = type(p["name"], bases, body)
            if p["decl"] is not None and p["sup"]:
                def mk(K, n):
                    def m(self, *a): return "F:%d>" % n + super(K, self).m()
                    return m
                K.m = mk(K, p["decl"])
            classes.append(K); isext.append(False)
    info = []
    for c in classes:
        off = c.__dictoffset__
        info.append([[classes.index(k) for k in c.__mro__ if k is not object],
                     "N" if off == 0 else ("E" if off > 0 else "M"), bool(c.__flags__ & (1 << 9))])
    objs, res, xres = [], [], []
    bound = [None]
    for op in case["ops"]:
        k = op[0]
        if k == "SC":
            setattr(classes[op[1]], "m", fn_self(op[3]) if op[2] == "F" else classes[op[3]].__dict__["m"])
        elif k == "DC":
            try: delattr(classes[op[1]], "m")
            except AttributeError: pass
        elif k == "N": objs.append(classes[op[1]]())
        elif k == "SI":
            try: setattr(objs[op[1]], "m", fn0(op[2]))
            except AttributeError: pass
        elif k == "DI":
            try: delattr(objs[op[1]], "m")
            except AttributeError: pass
        elif k == "CP": o = objs[op[1]]; res.append(call(lambda: o.m()))
        elif k == "CV": o = objs[op[2]]; c = classes[op[1]]; res.append(call(lambda: c.m(o)))
        elif k == "CT":
            o = objs[op[2]]; T = case["classes"][op[1]]["ext"]
            if op[3] == "f": res.append(call(lambda: ns["call_" + T](o)))
            elif op[3] == "a": res.append(call(lambda: ns["call1_" + T](o)))
            else: res.append(call(lambda: getattr(o, "self_" + T)()))
        elif k == "BG":
            o = objs[op[1]]
            try: bound[0] = o.m
            except AttributeError: bound[0] = None
        elif k == "BC":
            b = bound[0]
            xres.append("none" if b is None else call(lambda: b()))
    out.append({"res": res, "xres": xres, "info": info})
print(json.dumps(out))
'''


def canon(case, res):
    """class-level view of a result string: body of ext class i / Python function tag"""
    names = {c["ext"]: i for i, c in enumerate(case["classes"]) if c["kind"] == "E"}
    out = []
    for r in res:
        r = r.split(">")[0]
        if r.startswith("B:"):
            out.append("B%d" % names.get(r.split(":")[1], -1))
        elif r.startswith("F:"):
            out.append("F" + r[2:])
        else:
            out.append(r)
    return out


def call_ops(case):
    return [i for i, op in enumerate(case["ops"]) if op[0] in ("CP", "CT", "CV")]


def classify(case, t, opi):
    """class of a failing call, from the input only"""
    op = case["ops"][opi]
    cl = case["classes"]
    if op[0] == "CT":
        c = case["objs"][op[2]]
        eb = [k for k in cl[c]["mro"] if cl[k]["kind"] == "E"]
        cp = [k for k in eb if cl[k]["decl"] == "c"]
        if cl[c]["kind"] == "E" and t[c]["finalcls"] and cl[c]["dk"] == "E" and \
                any(o[0] == "SI" and o[1] == op[2] for o in case["ops"][:opi]):
            return "final_type_instance_attribute_override"
        for o in case["ops"][:opi]:
            if o[0] == "SC" and o[2] == "W" and o[1] in cl[c]["mro"] and cp:
                if t[o[3]]["vd"][1] < t[cp[0]]["vd"][1]:
                    return "override_with_fewer_optional_args"
                if t[o[3]]["vd"][1] >= 1 and o[3] != cp[0]:
                    return "override_receives_dispatcher_defaults"
        # a plain def below the most-derived cpdef in the extension chain (documented restriction)
        for k in eb:
            if cl[k]["decl"] == "c":
                break
            if cl[k]["decl"] == "d" and any(cl[j]["decl"] == "c" for j in eb):
                if cl[c]["dk"] == "N" and cl[c]["kind"] == "E":
                    return "def_override_in_cdef_subclass"
        e = eb[0]
        ch = chain_ids(t, e)
        T = op[1]
        below = [j for j in ch[ch.index(T) + 1:] if t[j]["vd"] != "n"]
        if below:
            vT = cvisible(t, T)
            last = t[below[-1]]["vd"]
            if vT[0] == "c" and last[0] == "p":
                return "cdef_to_cpdef_adapter_call"
            return "vtable_adapter_call"
        return "vtable_call"
    return "wrong_implementation_invoked"


# ----------------------------------------------------------------------------------------------
# the generated C: vtable initialisation, adapters, call sites
def parse_c(ctext, trees):
    """per tree, per class: {'assign': [(depth, func, cast)], ...}; adapters: func -> (target, args)"""
    adapters = {}
    for m in re.finditer(r"\n(?:static )?\w[\w \*]*?(\w+__pyx_wrap_\d+)\(([^)]*)\) \{\s*\n\s*(?:return )?(\w+)\(([^)]*)\);", ctext):
        adapters[m.group(1)] = (m.group(3), [a.strip() for a in m.group(4).split(",")], m.group(2))
    out = {}
    for t in trees:
        for i, c in enumerate(t):
            asg = []
            for m in re.finditer(r"__pyx_vtable_\w*?_%s\.((?:__pyx_base\.)*)m = \(([^;]*)\)(\w+);" % re.escape(c["name"]), ctext):
                asg.append((m.group(1).count("__pyx_base."), m.group(3), m.group(2)))
            base_copy = re.search(r"__pyx_vtable_\w*?_%s\.__pyx_base = \*__pyx_vtabptr_\w*?_(V\d+_\d+);" % re.escape(c["name"]), ctext)
            out[c["name"]] = dict(assign=asg, base=(base_copy.group(1) if base_copy else None))
    return out, adapters


def func_class(fname, names):
    """class whose implementation / adapter the C function name belongs to"""
    m = re.match(r"__pyx_f_\w*?\d+(V\d+_\d+)_m(__pyx_wrap_\d+)?$", fname)
    if not m or m.group(1) not in names:
        return None, None
    return names[m.group(1)], bool(m.group(2))


def c_vtables(t, parsed, adapters):
    """oldest-first slot list per class, derived from the C text: 'cls:ov:opt:ent'"""
    names = {c["name"]: i for i, c in enumerate(t)}
    vts = {}
    for i, c in enumerate(t):
        p = parsed[c["name"]]
        ch = chain_ids(t, i)
        par = c["parent"]
        if par is not None and p["base"] is not None and p["base"] != t[par]["name"]:
            return None, "base copy of %s from %s" % (c["name"], p["base"])
        slots = dict(vts[par]) if par is not None and p["base"] is not None else {}
        for depth, func, cast in p["assign"]:
            scls = ch[len(ch) - 1 - depth]
            k, isad = func_class(func, names)
            if k is None:
                return None, "unrecognised function %s" % func
            ov = "__pyx_skip_dispatch" in cast
            opt = "__pyx_opt_args_" in cast
            if not isad:
                ent = "I%d" % k
            else:
                if func not in adapters:
                    return None, "adapter body of %s not found" % func
                tgt, args, _ = adapters[func]
                k2, isad2 = func_class(tgt, names)
                if k2 != k or isad2:
                    return None, "adapter %s forwards to %s" % (func, tgt)
                rest = args[1:]
                sk, oa = "-", "-"
                for a in rest:
                    if a in ("0", "1"):
                        sk = a
                    elif a == "__pyx_skip_dispatch":
                        sk = "fwd"
                    elif a == "NULL":
                        oa = "NULL"
                    elif a == "__pyx_optional_args":
                        oa = "fwd"
                    else:
                        return None, "adapter %s argument %s" % (func, a)
                ent = "A%d/%s/%s" % (k, sk, oa)
            slots[scls] = "%d:%s:%s:%s" % (scls, "p" if ov else "c", "o" if opt else "-", ent)
        vts[i] = slots
    return {i: [v[k] for k in sorted(v, key=lambda s: chain_ids(t, i).index(s))] for i, v in vts.items()}, None


def model_vt_view(line):
    """model slot 'cls:ov:nopt:fin:ent' -> 'cls:ov:opt:ent'"""
    if line == "-":
        return []
    out = []
    for s in line.split(" "):
        cls, ov, nopt, fin, ent = s.split(":")
        out.append("%s:%s:%s:%s" % (cls, ov, "o" if int(nopt) > 0 else "-", ent))
    return out


def c_site(ctext, fname, T, t, names):
    """call site of m inside def function fname: ('virt', slotcls, args) | ('direct', k, args) | None"""
    m = re.search(r"\nstatic PyObject \*__pyx_pf_\w*?%s\([^;{]*\) \{(.*?)\n\}\n" % re.escape(fname), ctext, re.S)
    if not m:
        return None
    body = m.group(1)
    v = re.search(r"\(\(struct __pyx_vtabstruct_\w*?_(V\d+_\d+) \*\)[\w\.>\-]*?__pyx_vtab\)->((?:__pyx_base\.)*)m\(([^;]*?)\);", body)
    if v:
        X = names.get(v.group(1))
        ch = chain_ids(t, X)
        depth = v.group(2).count("__pyx_base.")
        return ("virt", X, ch[len(ch) - 1 - depth], [a.strip() for a in v.group(3).split(",")][1:])
    d = re.search(r"= (__pyx_f_\w+_m)\(([^;]*?)\);", body)
    if d:
        k, isad = func_class(d.group(1), names)
        return ("direct", None, k, [a.strip() for a in d.group(2).split(",")][1:])
    return None


def check_c(ctx, model, trees, c_file, inp_tag):
    """tie (1): C text vs extracted build / site"""
    try:
        ctext = open(c_file).read()
    except OSError as e:
        ctx.corr_break("vtable:c-file", inp_tag, str(e), "generated C readable")
        return
    parsed, adapters = parse_c(ctext, trees)
    nslots = nad = nsites = 0
    for ti, t in enumerate(trees):
        names = {c["name"]: i for i, c in enumerate(t)}
        cv, err = c_vtables(t, parsed, adapters)
        if cv is None:
            ctx.corr_break("vtable:parse", {"tree": t}, err, "vtable initialisation recognised")
            continue
        lines = model.batch(["vt 0 %s" % chain_text(t, i) for i in range(len(t))])
        for i, ln in enumerate(lines):
            mv = model_vt_view(ln)
            nslots += len(mv); nad += sum(1 for s in mv if ":A" in s)
            if mv != cv[i]:
                ctx.corr_break("vtable:entries", {"tree": t, "class": t[i]["name"], "chain": chain_text(t, i)}, cv[i], mv)
        # call sites
        q, meta = [], []
        for i, c in enumerate(t):
            v = visible(t, i)
            if v is None or v[0] == "d":
                continue
            q.append("site %s %d" % (chain_text(t, i), i)); meta.append(i)
        for i, ln in zip(meta, model.batch(q)):
            scls, ov, nopt, fin, ent = ln.split(":")
            for fname, explicit in (("call_" + t[i]["name"], False), ("self_" + t[i]["name"], False)) + \
                    ((("call1_" + t[i]["name"], True),) if int(nopt) >= 1 else ()):
                got = c_site(ctext, fname, i, t, names)
                nsites += 1
                if fin == "f":
                    want_kind = "direct"
                else:
                    want_kind = "virt"
                exp_args = (["0"] if ov == "p" else []) + ([] if int(nopt) == 0 else (["&"] if explicit else ["NULL"]))
                if got is None:
                    ctx.corr_break("vtable:site-parse", {"tree": t, "function": fname}, "call of m not found", ln)
                    continue
                gargs = ["&" if a.startswith("&") else a for a in got[3]]
                if want_kind == "virt":
                    ok = got[0] == "virt" and got[1] == i and got[2] == int(scls) and gargs == exp_args
                else:
                    ok = got[0] == "direct" and ("I%d" % got[2]) == ent and gargs == exp_args
                if not ok:
                    ctx.corr_break("vtable:call-site", {"tree": t, "function": fname}, list(got), [want_kind, ln, exp_args])
    ctx.count("vtable/c-slots", nslots)
    ctx.count("vtable/c-adapters", nad)
    ctx.count("vtable/c-call-sites", nsites)


# ----------------------------------------------------------------------------------------------
def make_trees(ctx):
    quick = ctx.tier == "quick"
    trees = [fixed_tree(i, FIXED[i]) for i in range(len(FIXED))]
    for i in range(len(trees), len(trees) + (3 if quick else 8)):
        trees.append(gen_tree(ctx.rng, i))
    return trees


def build_spec(ctx, trees, tagname):
    return dict(name="c27v_%s" % tagname, source=pyx_source(trees), workdir=os.path.join(ctx.workdir, "vt_%s" % tagname),
                cflags=["-O0"])


def witness_cases(trees):
    """the refutation witness of C27_vdispatch_adapter_skip_refuted on tree 0 (cdef; cpdef; inherited)"""
    t = trees[0]
    cl = ext_classes(t)
    n = len(cl)
    cl.append(dict(kind="P", mro=[n, 1, 0], decl="d", tag=7, dd=False, dk="M", vd="n",
                   py=dict(name="P", bases=[1], slots=False, decl=7, sup=False)))
    out = [dict(tree=0, classes=cl, ops=[["N", n], ["CT", 1, 0, "f"], ["CT", 0, 0, "f"], ["CT", 0, 0, "s"], ["CP", 0]], objs=[n])]
    # known finding: the override check passes ALL parameters (defaults filled in) to the Python-level attribute, so an
    # override accepting fewer optional arguments than the dispatching implementation raises TypeError
    # (tree 4: cpdef m(a=..) ; cpdef m(a=.., b=..)); implementation vs oracle only, the model has no arities
    t4 = trees[4]
    cl4 = ext_classes(t4)
    n4 = len(cl4)
    cl4.append(dict(kind="P", mro=[n4, 2, 1, 0], decl="n", tag=None, dd=False, dk="M", vd="n",
                    py=dict(name="P", bases=[2], slots=False, decl=None, sup=False)))
    out.append(dict(tree=4, classes=cl4, ops=[["N", n4], ["CT", 0, 0, "f"], ["SC", n4, "W", 0], ["CP", 0], ["CT", 0, 0, "f"]],
                    objs=[n4], nomodel=True))
    # known finding: cpdef methods of final types have no override check, but an instance attribute can still shadow m
    # when the final type inherits a __dict__ (tree 8)
    t8 = trees[8]
    cl8 = ext_classes(t8)
    out.append(dict(tree=8, classes=cl8, ops=[["N", 1], ["CT", 0, 0, "f"], ["SI", 0, 5], ["CP", 0], ["CT", 0, 0, "f"], ["CT", 1, 0, "f"]],
                    objs=[1], nomodel=True))
    return out


def run_cases(ctx, trees, spec, cases):
    model = ctx.model("override")
    check_c(ctx, model, trees, os.path.join(spec["workdir"], spec["name"] + ".c"), spec["name"])
    ro = cybuild.run_script(DRIVER, os.path.join(ctx.workdir, "vt_oracle"), {"mode": "oracle", "oracle_src": oracle_source(trees), "cases": cases}, timeout=900)
    rc = cybuild.run_script(DRIVER, spec["workdir"], {"mode": "compiled", "modname": spec["name"], "cases": cases}, timeout=900)
    if ro["json"] is None:
        ctx.corr_break("vtable:oracle driver", "oracle", (ro["err"] or ro["out"])[-800:], "runs")
        return
    if rc["json"] is None:
        ctx.corr_break("vtable:compiled driver", spec["name"], (rc["err"] or rc["out"])[-800:], "runs")
        return
    hts = [hier_text(c["classes"]) for c in cases]
    vds = [vdl_text(c["classes"]) for c in cases]
    ots = [mops_text(c["ops"]) for c in cases]
    mpy = model.batch(["vpy %s %s %s" % (h, v, o) for h, v, o in zip(hts, vds, ots)])
    mcy = model.batch(["vcy 0 0 0 %s %s %s" % (h, v, o) for h, v, o in zip(hts, vds, ots)])
    minfo = model.batch(["vinfo %s %s" % (h, v) for h, v in zip(hts, vds)])
    for case, got, orc, mp, mc, mi in zip(cases, rc["json"], ro["json"], mpy, mcy, minfo):
        t = trees[case["tree"]]
        inp = {"part": "vtable", "tree": t, "classes": case["classes"], "ops": case["ops"], "objs": case["objs"]}
        nct = sum(1 for o in case["ops"] if o[0] == "CT")
        e_adapt = any(classify(case, t, i) in ("cdef_to_cpdef_adapter_call", "vtable_adapter_call")
                      for i, o in enumerate(case["ops"]) if o[0] == "CT")
        ctx.case("vtable/%s/py%d" % ("adapter" if e_adapt else "direct", sum(1 for c in case["classes"] if c["kind"] == "P")),
                 inp, sig=("vt", hier_text(case["classes"]), vdl_text(case["classes"]), json.dumps(case["ops"])))
        cres, ores = canon(case, got["res"]), canon(case, orc["res"])
        if "wf=1" not in mi or "wfvt=1" not in mi:
            ctx.corr_break("vtable:wf_vt", inp, "generated hierarchy", mi)
        for i, (c, (mro, dk, heap)) in enumerate(zip(case["classes"], got["info"])):
            if mro != c["mro"] or dk != c["dk"] or heap != (c["kind"] == "P"):
                ctx.corr_break("vtable:hierarchy", inp, [i, mro, dk, heap], [c["mro"], c["dk"], c["kind"]])
                break
        # reference side of the model against CPython running the plain classes
        if ",".join(ores) != mp.replace("INV", "TE"):
            ctx.corr_break("vtable:vrun_py-vs-CPython", inp, ores, mp)
        # tie (2): compiled module vs extracted vrun_cy
        if ",".join(cres) != mc.replace("INV", "TE") and not case.get("nomodel"):
            ctx.corr_break("vtable:vrun_cy", inp, cres, mc)
        # property (3): full result strings (class, optional-argument values, parent chain) against the oracle
        if got["res"] != orc["res"] or got["xres"] != orc["xres"]:
            idx = call_ops(case)
            bad = [j for j, (a, b) in enumerate(zip(got["res"], orc["res"])) if a != b]
            if bad and len(got["res"]) == len(orc["res"]):
                j = bad[0]
                klass = classify(case, t, idx[j])
                if canon(case, [got["res"][j]]) == canon(case, [orc["res"][j]]) and klass != "override_receives_dispatcher_defaults":
                    klass = "right_implementation_wrong_arguments"
                ctx.fail(klass, dict(inp, failing_op=idx[j], call=case["ops"][idx[j]]), got["res"], orc["res"], note="model: %s" % mc)
            else:
                ctx.fail("bound_method_call", inp, got["xres"], orc["xres"])


def gen_cases(ctx, trees):
    quick = ctx.tier == "quick"
    n = 180 if quick else 1000
    maxlen = 10 if quick else 16
    cases = witness_cases(trees)
    usable = [i for i in range(len(trees)) if i != 8]       # tree 8 only carries the known-finding witness
    for i in range(n):
        ti = usable[i % len(usable)]
        cases.append(gen_case(ctx.rng, ti, trees[ti], maxlen))
    return cases
