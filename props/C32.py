"""C32 -- C function exception declarations propagate errors faithfully (DESIGN 7/C32)."""
import os, json, ast, math, re
import cybuild, framework
from props import C32_value

TITLE = "C function exception declarations propagate errors faithfully"
EXTRACTS = ["ExcSpec"]
RULE = ("generated .pyx: every exception clause (none/noexcept/except v/except? v/except *, several sentinels incl. 0, "
        "NaN, extern NAN, (unsigned)-1, NULL, enum constant) x return kinds (signed/unsigned C ints, double, pointer, enum, "
        "void, struct, object) x function flavour (plain / nogil with 'with gil' bodies / 'with gil' / cpdef) x body "
        "(return each value of a per-kind set incl. the sentinel and the default, raise, raise-and-handle, fall off the end, "
        "C-level raise) x stale pending exception (0/1) x caller (def function with the GIL, 'with nogil' block, C caller "
        "chain incl. nogil C caller, call through a function pointer of every compatible spec, Python call of cpdef); "
        "legacy_implicit_noexcept module; C++ module (except +, +*, +PyExc; 12 thrown classes); declaration table "
        "(clause x kind x extern/cclass/funcptr/pxd/legacy) dumped from the compiler; distinct by (module, function, "
        "caller, mode, value, stale).  Value level (props/C32_value.py): every integer return type (signed/unsigned/plain "
        "char, short, int, long, long long, size_t, Py_ssize_t, Py_UCS4, typedef, stdint, bint) and float/double x "
        "sentinel spelling (negative, maximum, minimum, maximum+1 = not a value of the type, constant expressions "
        "-(1+1) / <int>-1 / enum constant / DEF, 0.1 / NaN / inf) x except v / except? v x body (returns the stored "
        "sentinel, its neighbours, extremes, raises, raises-and-handles) x call context (assignment, inside an expression, "
        "statement with discarded result, nogil block); the emitted test text of every call site is parsed, compared "
        "with the model's emitted text and evaluated by gcc over all (8/16-bit) or boundary (32/64-bit) result values")
EXPLANATION = ("theorems: for every spec/kind/flavour/caller context/body/value, the emitted epilogue + call-site check give "
               "exactly the documented outcome (Raise e iff the body raised and the spec propagates; else Return r with "
               "nothing pending), under the user contract for plain 'except v'; 'except? v' returning v is not an error; "
               "noexcept reports exactly once and returns the default; no thread-state access without the GIL; stale "
               "pending exceptions characterised; normalisation of every clause is well-formed and the compiler's dumped "
               "declaration table equals the model (by computation); pointer-assignment compatibility is sound; value level: "
               "with C's typing of constants, integer promotion, usual arithmetic conversions and casts made explicit, the "
               "emitted test result == ((T)constant) is true exactly for the stored sentinel for every integer type "
               "width/signedness and every constant expression whenever the cast keeps the stored value (T = return type); "
               "without the cast it is never true for unsigned types narrower than int and negative constants; the abstract "
               "sentinel test of the decision model is that C test; floats over abstract ==/rounding. "
               "partial: C++ 'except +' is reduced to the catch-order table of __Pyx_CppExn2PyErr (tested, 3 handlers); "
               "tracebacks, refcounts and memoryview returns are not modelled.")
TRUSTED = ["C11 6.3.1.1/6.3.1.8/6.4.4.1 (promotion, usual arithmetic conversions, constant typing) transcribed in M_ExcTest.v for LP64 "
           "and cross-checked against gcc on every emitted test text", "OCaml float = / Int32.bits_of_float as C == / (float) rounding",
           "CPython C-API contract of PyErr_Occurred/PyErr_WriteUnraisable/PyGILState_* (Gallina definitions in M_ExcSpec.v)",
           "gcc/g++ as conforming compilers", "sys.unraisablehook as the observer of unraisable reports",
           "documented semantics transcribed by hand in the harness oracle (user guide, 'Error return values')"]
ASSUMPTIONS = ["LP64", "CPython 3.12 (non-debug)",
               "gcc: conversion to a signed integer type is reduction modulo 2^w; a decimal constant that fits no signed type "
               "is unsigned long (Cython writes LONG_MIN as -9223372036854775808L); plain char is signed (x86-64)",
               "an 'except v' function returning v without an exception is outside the contract (crashes in PyTraceBack_Here "
               "on 3.12): only the model tie 'error path without exception' is checked there"]

EXC_ID = {"ValueError": 1, "KeyError": 2, "TypeError": 3, "MemoryError": 101, "OSError": 104, "IndexError": 105,
          "OverflowError": 106, "ArithmeticError": 107, "RuntimeError": 108, "ZeroDivisionError": 110}
EXC_NAME = {v: k for k, v in EXC_ID.items()}
EXC_NAME[102] = "TypeError"; EXC_NAME[103] = "ValueError"


# ----------------------------------------------------------------------------- kinds / clauses
def dtag(x):
    """model tag of a double"""
    if x != x:
        return "d:nan"
    if x == 0 and math.copysign(1, x) < 0:
        return "d:-0"
    if math.isinf(x):
        return "d:%d" % (10 ** 9 if x > 0 else -10 ** 9)
    if x == int(x):
        return "d:%d" % int(x)
    return "d:%d" % (10 ** 6 + int(round(x * 16)))


class Kind:
    def __init__(self, name, ctype, tok, cls, w=0, sg=True):
        self.name, self.ctype, self.tok, self.cls, self.w, self.sg = name, ctype, tok, cls, w, sg

    def wrap(self, v):
        v %= 2 ** self.w
        if self.sg and v >= 2 ** (self.w - 1):
            v -= 2 ** self.w
        return v

    # python-side value -> model token
    def vtok(self, v):
        c = self.cls
        if c == "int":
            return "i:%d" % v
        if c == "enum":
            return "i:%d" % v
        if c == "dbl":
            return dtag(float(v))
        if c == "ptr":
            return "p:%d" % v
        if c == "struct":
            return "s:%d:%d" % (v, v + 1)
        if c == "obj":
            return "o:%d" % {"x": 1, None: 0}[v]
        return "u"

    def values(self, thorough):
        c = self.cls
        if c == "int":
            lo, hi = (-(2 ** (self.w - 1)), 2 ** (self.w - 1) - 1) if self.sg else (0, 2 ** self.w - 1)
            vs = [self.wrap(-1), 0, 7, 5] + ([lo, hi] if thorough else [hi])
            return sorted(set(vs))
        if c == "enum":
            return [-1, 0, 5]
        if c == "dbl":
            return ["-1.0", "0.0", "-0.0", "2.5", "7.0", "nan", "inf"]
        if c == "ptr":
            return [0, 8]
        if c == "struct":
            return [3]
        if c == "obj":
            return ["x"]
        return [None]

    def default(self):
        return {"int": 0, "enum": 0, "dbl": "0.0", "ptr": 0, "struct": None, "obj": None, "void": None}[self.cls]

    # observed python value -> model token
    def otok(self, r):
        c = self.cls
        if c in ("int", "enum"):
            return "i:%d" % r
        if c == "dbl":
            return dtag(float(r))
        if c == "ptr":
            return "p:%d" % r
        if c == "struct":
            return "s:%d:%d" % (r[0], r[1])
        if c == "obj":
            return "o:%d" % (1 if r == "x" else 0)
        return "u"


KINDS = [Kind("int", "int", "I:32:1", "int", 32, True), Kind("uint", "unsigned int", "I:32:0", "int", 32, False),
         Kind("long", "long", "I:64:1", "int", 64, True), Kind("uchar", "unsigned char", "I:8:0", "int", 8, False),
         Kind("short", "short", "I:16:1", "int", 16, True),
         Kind("double", "double", "F", "dbl"), Kind("float", "float", "F", "dbl"),
         Kind("intp", "int*", "P", "ptr"), Kind("void", "void", "V", "void"), Kind("S", "S", "S", "struct"),
         Kind("E", "E", "E", "enum"), Kind("object", "object", "O", "obj")]
KBY = {k.name: k for k in KINDS}

C_COMMON = [("none", "", "none"), ("noexc", "noexcept", "noexcept"), ("star", "except *", "star")]


def clauses_for(k, with_invalid=False):
    """(short name, source text, model clause token)"""
    c = k.cls
    L = list(C_COMMON)
    if c == "int":
        L += [("exm1", "except -1", "ex=i:-1"), ("exqm1", "except? -1", "exq=i:-1"), ("ex0", "except 0", "ex=i:0"),
              ("exq0", "except? 0", "exq=i:0"), ("ex7", "except 7", "ex=i:7"), ("exq7", "except? 7", "exq=i:7")]
    elif c == "dbl":
        L += [("exm1", "except -1", "ex=i:-1"), ("exqm1", "except? -1", "exq=i:-1"), ("exq0", "except? 0", "exq=i:0"),
              ("ex2h", "except 2.5", "ex=" + dtag(2.5)), ("exq2h", "except? 2.5", "exq=" + dtag(2.5)),
              ("exnan", "except nan", "ex=d:nan"), ("exqnan", "except? nan", "exq=d:nan"),
              ("exNAN", "except NAN", "ex=d:nan~"), ("exqNAN", "except? NAN", "exq=d:nan~"),
              ("exinf", "except infty", "ex=" + dtag(float("inf")))]
    elif c == "ptr":
        L += [("exnull", "except NULL", "ex=p:0"), ("exqnull", "except? NULL", "exq=p:0")]
    elif c == "enum":
        L += [("exem", "except E_M", "ex=i:-1"), ("exqem", "except? E_M", "exq=i:-1")]
    if with_invalid and c in ("void", "struct", "obj", "ptr"):
        L += [("badm1", "except -1", "ex=i:-1"), ("badqm1", "except? -1", "exq=i:-1")]
    return L


PRELUDE = r'''
from libc.math cimport NAN
DEF nan = float("nan")
DEF infty = float("inf")
cdef extern from *:
    """
    static void c32_set_stale(void) { PyErr_SetString(PyExc_KeyError, "stale"); }
    static void c32_raise_c(void) { PyErr_SetString(PyExc_TypeError, "cboom"); }
    static PyObject* c32_take_pending(void) {
        PyObject *t, *v, *tb, *r;
        if (!PyErr_Occurred()) { Py_RETURN_NONE; }
        PyErr_Fetch(&t, &v, &tb);
        r = PyObject_GetAttrString(t, "__name__");
        Py_XDECREF(t); Py_XDECREF(v); Py_XDECREF(tb);
        return r;
    }
    """
    void c32_set_stale() noexcept
    void c32_raise_c() except *
    object c32_take_pending()

cdef struct S:
    int a
    int b
cdef enum E:
    E_A = 0
    E_B = 5
    E_M = -1

cdef int g_reached = 0
def c32_reached():
    return g_reached
'''


def body_lines(k, flv):
    """callee body: mode 0 return val, 1 raise, 2 raise+handle then return val, 3 fall off the end, 4 C-level raise"""
    ng = flv == "nogil"
    L = []
    ind = "    "
    if ng:
        L += [ind + "if mode == 1:", ind + "    with gil:", ind + "        raise ValueError('boom')",
              ind + "if mode == 2:", ind + "    with gil:", ind + "        try:", ind + "            raise KeyError('inner')",
              ind + "        except KeyError:", ind + "            pass",
              ind + "if mode == 4:", ind + "    with gil:", ind + "        c32_raise_c()"]
    else:
        L += [ind + "if mode == 1:", ind + "    raise ValueError('boom')",
              ind + "if mode == 2:", ind + "    try:", ind + "        raise KeyError('inner')",
              ind + "    except KeyError:", ind + "        pass",
              ind + "if mode == 4:", ind + "    c32_raise_c()"]
    if k.cls != "void":
        L += [ind + "if mode != 3:", ind + "    return val"]
    return L


def fname(k, cl, flv, cp=False):
    return "%s_%s_%s_%s" % ("cp" if cp else "f", k.name, cl[0], flv)


def sig_args(k):
    return "int mode" if k.cls == "void" else "int mode, %s val" % k.ctype


def gen_callee(k, cl, flv, cp=False):
    tail = {"plain": "", "nogil": " nogil", "withgil": " with gil"}[flv]
    head = "%s %s %s(%s) %s%s:" % ("cpdef" if cp else "cdef", k.ctype, fname(k, cl, flv, cp), sig_args(k), cl[1], tail)
    return [head] + body_lines(k, flv) + [""]


def wrapper_parts(k):
    """(python arg decl, pre lines, call arg, result decl, out expr, zero-init lines for an out variable)"""
    c = k.cls
    if c in ("int", "dbl"):
        return ("%s val" % k.ctype, [], "val", "cdef %s r" % k.ctype, "r", ["r = 0"])
    if c == "ptr":
        return ("size_t vi", [], "<int*>vi", "cdef int* r", "<size_t>r", ["r = NULL"])
    if c == "enum":
        return ("int vi", [], "<E>vi", "cdef E r", "<int>r", ["r = E_A"])
    if c == "struct":
        return ("int vi", ["cdef S val", "val.a = vi", "val.b = vi + 1"], "val", "cdef S r", "(r.a, r.b)", ["r.a = 0", "r.b = 0"])
    if c == "obj":
        return ("object vi", [], "vi", "cdef object r", "r", [])
    return ("object vi", [], None, None, "None", [])


def gen_cc(k, cl, flv, cp=False):
    """C callers of one function: cdef void cc_<f>(mode, val, T* out) except * [nogil] (object: returns object)"""
    f = fname(k, cl, flv, cp)
    ind = "    "
    L = []
    if k.cls == "obj":
        return ["cdef object cc_%s(int mode, object val):" % f, ind + "global g_reached",
                ind + "r = %s(mode, val)" % f, ind + "g_reached = 1", ind + "return r", ""]
    for nm, tl in (("cc", ""), ("ccn", " nogil")):
        if nm == "ccn" and flv == "plain":
            continue
        if k.cls == "void":
            L += ["cdef void %s_%s(int mode) except *%s:" % (nm, f, tl), ind + "global g_reached",
                  ind + "%s(mode)" % f, ind + "g_reached = 1", ""]
        else:
            L += ["cdef void %s_%s(int mode, %s val, %s* out) except *%s:" % (nm, f, k.ctype, k.ctype, tl),
                  ind + "global g_reached", ind + "out[0] = %s(mode, val)" % f, ind + "g_reached = 1", ""]
    return L


def callers_of(k, flv):
    c = ["py", "pycc"]
    if flv != "plain" and k.cls != "obj":      # an object result cannot be assigned without the GIL
        c += ["ng", "pyccn"]
    return c


def gen_dispatchers(funcs):
    """one def per (kind, caller): 'if fid == i: r = f_i(mode, val)' -- every branch is a direct call of f_i with
    its own emitted check.  py_ (GIL held), ng_ ('with nogil' block), pycc_/pyccn_ (through the C caller).
    -> lines, {(function name, caller): (def name, fid)}"""
    ind = "    "
    L, index = [], {}
    bykind = {}
    for k, cl, flv, cp in funcs:
        bykind.setdefault(k.name, []).append((k, cl, flv, cp))
    for kn, fl in bykind.items():
        k = KBY[kn]
        parg, pre, carg, rdecl, out, zero = wrapper_parts(k)
        for caller in ("py", "ng", "pycc", "pyccn"):
            members = [(k_, cl, flv, cp) for (k_, cl, flv, cp) in fl if caller in callers_of(k_, flv)]
            if not members:
                continue
            dn = "%s_%s" % (caller, kn)
            W = ["def %s(int fid, int mode, %s, bint stale):" % (dn, parg), ind + "global g_reached"]
            W += [ind + x for x in pre] + ([ind + rdecl] if rdecl else []) + [ind + x for x in zero]
            W += [ind + "g_reached = 0", ind + "if stale: c32_set_stale()"]
            nog = caller in ("ng", "pyccn")
            base = ind
            if nog:
                W += [ind + "with nogil:"]
                base = ind + ind
            for i, (k_, cl, flv, cp) in enumerate(members):
                f = fname(k_, cl, flv, cp)
                index[(f, caller)] = (dn, i)
                if caller in ("py", "ng"):
                    call = "%s(mode%s)" % (f, "" if carg is None else ", " + carg)
                    stmt = call if rdecl is None else "r = " + call
                elif k.cls == "obj":
                    stmt = "r = cc_%s(mode, %s)" % (f, carg)
                elif k.cls == "void":
                    stmt = "%s_%s(mode)" % ("cc" if caller == "pycc" else "ccn", f)
                else:
                    stmt = "%s_%s(mode, %s, &r)" % ("cc" if caller == "pycc" else "ccn", f, carg)
                W += [base + "%s fid == %d:" % ("if" if i == 0 else "elif", i), base + ind + stmt]
            W += [ind + "pend = c32_take_pending()", ind + "return ('ok', %s, pend)" % out, ""]
            L += W
    return L, index


def gen_module(funcs, legacy=False):
    """funcs: list of (kind, clause, flavour, cpdef) -> source, dispatcher index"""
    L = ["# cython: language_level=3" + (", legacy_implicit_noexcept=True" if legacy else ""), PRELUDE]
    for k, cl, flv, cp in funcs:
        L += gen_callee(k, cl, flv, cp)
    for k, cl, flv, cp in funcs:
        L += gen_cc(k, cl, flv, cp)
    D, index = gen_dispatchers(funcs)
    return "\n".join(L + D) + "\n", index


# function-pointer module: every (function spec, pointer spec) pair of a kind; incompatible pairs are
# listed by the compiler (declaration dump) and left out.
FP_KINDS = ["int", "double", "void"]


def fp_clauses(k):
    names = {"int": ["none", "noexc", "star", "exm1", "exqm1", "ex0", "exq0"],
             "double": ["none", "noexc", "exm1", "exqm1", "exnan", "exqnan"],
             "void": ["none", "noexc", "star"]}[k.name]
    return [c for c in clauses_for(k) if c[0] in names]


def fp_type_name(k, pc):
    return "fp_%s_%s" % (k.name, pc[0])


def gen_fp_typedefs(k):
    L = []
    for pc in fp_clauses(k):
        L.append("ctypedef %s (*%s)(%s) %s" % (k.ctype, fp_type_name(k, pc), sig_args(k), pc[1]))
    return L


def gen_fp_module(pairs):
    """pairs: (kind, fclause, pclause) compatible -> source, {(kind, fclause, pclause): (def name, fid)}"""
    L = ["# cython: language_level=3", PRELUDE]
    seen = set()
    for k, fc, pc in pairs:
        if (k.name, fc[0]) not in seen:
            seen.add((k.name, fc[0]))
            L += gen_callee(k, fc, "plain")
    for kn in sorted({p[0].name for p in pairs}):
        L += gen_fp_typedefs(KBY[kn])
    ind = "    "
    index = {}
    for kn in sorted({p[0].name for p in pairs}):
        k = KBY[kn]
        members = [p for p in pairs if p[0].name == kn]
        parg, pre, carg, rdecl, out, zero = wrapper_parts(k)
        W = ["def fp_%s(int fid, int mode, %s, bint stale):" % (kn, parg)]
        W += [ind + x for x in pre] + ([ind + rdecl] if rdecl else []) + [ind + x for x in zero]
        for i, (k_, fc, pc) in enumerate(members):
            W += [ind + "cdef %s p%d = %s" % (fp_type_name(k, pc), i, fname(k, fc, "plain"))]
        W += [ind + "if stale: c32_set_stale()"]
        for i, (k_, fc, pc) in enumerate(members):
            index[(kn, fc[0], pc[0])] = ("fp_%s" % kn, i)
            call = "p%d(mode%s)" % (i, "" if carg is None else ", " + carg)
            W += [ind + "%s fid == %d:" % ("if" if i == 0 else "elif", i), ind + ind + (call if rdecl is None else "r = " + call)]
        W += [ind + "pend = c32_take_pending()", ind + "return ('ok', %s, pend)" % out, ""]
        L += W
    return "\n".join(L) + "\n", index


CPP_CLASSES = ["bad_alloc", "bad_cast", "bad_typeid", "domain_error", "invalid_argument", "ios_failure",
               "out_of_range", "overflow_error", "range_error", "underflow_error", "std_other", "non_std"]
CPP_SRC = r'''# cython: language_level=3
# distutils: language = c++
cdef extern from *:
    """
    #include <stdexcept>
    #include <new>
    #include <typeinfo>
    #include <ios>
    struct c32_myexc : public std::exception { const char* what() const noexcept { return "mine"; } };
    static void c32_throw(int which) {
        switch (which) {
        case 1: throw std::bad_alloc();
        case 2: throw std::bad_cast();
        case 3: throw std::bad_typeid();
        case 4: throw std::domain_error("dom");
        case 5: throw std::invalid_argument("inv");
        case 6: throw std::ios_base::failure("ios");
        case 7: throw std::out_of_range("oor");
        case 8: throw std::overflow_error("ovf");
        case 9: throw std::range_error("rng");
        case 10: throw std::underflow_error("unf");
        case 11: throw c32_myexc();
        case 12: throw 42;
        }
    }
    static int c32_t_int(int which, int val) { c32_throw(which); return val; }
    static void c32_t_void(int which) { c32_throw(which); }
    static void c32_set_zde(void) {
        PyGILState_STATE s = PyGILState_Ensure();
        PyErr_SetString(PyExc_ZeroDivisionError, "cpy");
        PyGILState_Release(s); }
    static int c32_t_py(int which, int val) {
        if (which == 13) { c32_set_zde(); return val; }
        if (which == 14) { c32_set_zde(); throw std::out_of_range("oor"); }
        c32_throw(which); return val; }
    static void c32_set_stale(void) { PyErr_SetString(PyExc_KeyError, "stale"); }
    static PyObject* c32_take_pending(void) {
        PyObject *t, *v, *tb, *r;
        if (!PyErr_Occurred()) { Py_RETURN_NONE; }
        PyErr_Fetch(&t, &v, &tb);
        r = PyObject_GetAttrString(t, "__name__");
        Py_XDECREF(t); Py_XDECREF(v); Py_XDECREF(tb);
        return r;
    }
    """
    int t_int_d "c32_t_int"(int which, int val) except +
    int t_int_dn "c32_t_int"(int which, int val) except + nogil
    void t_void_d "c32_t_void"(int which) except +
    void t_void_dn "c32_t_void"(int which) except + nogil
    int t_int_p "c32_t_int"(int which, int val) except +MemoryError
    int t_int_pn "c32_t_int"(int which, int val) except +MemoryError nogil
    int t_int_s "c32_t_py"(int which, int val) except +*
    int t_int_sn "c32_t_py"(int which, int val) except +* nogil
    void c32_set_stale() noexcept
    object c32_take_pending()

def cpp_int(str fn, int which, int val, bint ng, bint stale):
    cdef int r = 0
    if stale: c32_set_stale()
    if fn == "d":
        if ng:
            with nogil:
                r = t_int_dn(which, val)
        else:
            r = t_int_d(which, val)
    elif fn == "p":
        if ng:
            with nogil:
                r = t_int_pn(which, val)
        else:
            r = t_int_p(which, val)
    else:
        if ng:
            with nogil:
                r = t_int_sn(which, val)
        else:
            r = t_int_s(which, val)
    pend = c32_take_pending()
    return ('ok', r, pend)

def cpp_void(int which, bint ng, bint stale):
    if stale: c32_set_stale()
    if ng:
        with nogil:
            t_void_dn(which)
    else:
        t_void_d(which)
    pend = c32_take_pending()
    return ('ok', None, pend)

def c32_reached():
    return 0
'''

DRIVER = r'''
import sys, json
LOG = []
def _hook(u):
    LOG.append(type(u.exc_value).__name__ if u.exc_value is not None else repr(u.exc_type))
def _enc(r):
    if isinstance(r, float):
        return {"f": repr(r)}
    if isinstance(r, tuple):
        return [_enc(x) for x in r]
    return r
def _dec(k, v):
    if k == "d":
        return float(v)
    return v
def one(modname, fn, fid, mode, vk, v, stale, direct=False, extra=None):
    mod = sys.modules.get(modname)
    if mod is None:
        mod = __import__(modname)
    del LOG[:]
    old = sys.unraisablehook
    sys.unraisablehook = _hook
    olderr = sys.stderr
    try:
        sys.stderr = open("/dev/null", "w")
        try:
            if extra is not None:
                r = getattr(mod, fn)(*extra)
            elif direct:
                if vk == "v":
                    r = getattr(mod, fn)(mode)
                else:
                    a = float(v) if vk == "d" else {"a": v, "b": v + 1} if vk == "s" else v
                    r = getattr(mod, fn)(mode, a)
                if isinstance(r, dict):
                    r = (r["a"], r["b"])
                r = ("ok", r, None)
            else:
                r = getattr(mod, fn)(fid, mode, _dec(vk, v), stale)
            out = ["ok", _enc(r)]
        except BaseException as e:
            out = ["exc", type(e).__name__, str(e)[:80]]
    finally:
        sys.stderr = olderr
        sys.unraisablehook = old
    return [out, list(LOG), mod.c32_reached()]
def run(modname, fn, fid, mode, vk, v, stale, direct=False, extra=None):
    return json.dumps(one(modname, fn, fid, mode, vk, v, stale, direct, extra))
def batch(cases):
    return json.dumps([one(*c) for c in cases])
'''


# ----------------------------------------------------------------------------- declaration table
DECL_VARIANTS = [("plain", "0000"), ("legacy", "1000"), ("extern", "0100"), ("legext", "1100"), ("cclass", "0001"),
                 ("funcptr", "0001"), ("pxd", "0010")]
DUMP_SCRIPT = r'''
import sys, os, io, json, re
import pyload; pyload.install()
from Cython.Compiler import Main, Options, Errors
pyload.assert_sources()
spec = json.load(sys.stdin)
def compile_one(path, modname, legacy):
    directives = dict(Options.get_directive_defaults()); directives["language_level"] = 3
    directives["legacy_implicit_noexcept"] = bool(legacy)
    opts = Main.CompilationOptions(Main.default_options, compiler_directives=directives,
                                   output_file=os.path.splitext(path)[0] + ".c")
    ctx = Main.Context.from_options(opts)
    err = io.StringIO(); old = sys.stderr; sys.stderr = err
    try:
        try:
            res = Main.run_pipeline(path, opts, modname, ctx)
        except BaseException as e:
            return {"crash": repr(e)}
    finally:
        sys.stderr = old
    errs = []
    for m in re.finditer(r"^([\w.]+):(\d+):\d+: (.*)$", err.getvalue(), re.M):
        errs.append([m.group(1), int(m.group(2)), m.group(3)])
    rows = {}
    def show(scope):
        for name, e in list(scope.entries.items()):
            t = e.type
            if t.is_ptr and t.base_type.is_cfunction:
                t = t.base_type
            if getattr(t, "is_cfunction", 0):
                ev = t.exception_value
                pv = getattr(ev, "python_value", None)
                if isinstance(pv, float):
                    pv = {"f": repr(pv)}
                rows[name] = [None if ev is None else pv, None if ev is None else str(ev),
                              t.exception_check if t.exception_check == '+' else bool(t.exception_check)]
            if e.type.is_extension_type and e.type.scope is not None:
                show(e.type.scope)
    for mn, sc in ctx.modules.items():
        if mn.startswith("c32"):
            show(sc)
    return {"errors": errs, "rows": rows, "nerr": res.num_errors}
out = [compile_one(p, m, lg) for p, m, lg in spec["jobs"]]
print(json.dumps(out))
'''


def decl_name(variant, k, cl):
    return "d_%s_%s_%s" % (variant, k.name, cl[0])


def gen_decl_sources(skip=(), only=None, kinds=None):
    """-> {filename: text}, {decl name: (variant, flags, kind, clause)}; one declaration per line"""
    names = {}
    main = ["# cython: language_level=3", "from libc.math cimport NAN", "cimport c32_dpxd",
            'DEF nan = float("nan")', 'DEF infty = float("inf")',
            "cdef struct S:", "    int a", "    int b", "cdef enum E:", "    E_A = 0", "    E_B = 5", "    E_M = -1"]
    pxd = ["from libc.math cimport NAN", 'DEF nan = float("nan")', 'DEF infty = float("inf")',
           "cdef struct S:", "    int a", "    int b", "cdef enum E:", "    E_A = 0", "    E_B = 5", "    E_M = -1"]
    ext, cc, fpt = ["cdef extern from *:", "    pass"], ["cdef class C32C:", "    pass"], []
    plain = []
    for variant, flags in DECL_VARIANTS:
        for k in (kinds or KINDS):
            for cl in clauses_for(k, with_invalid=True):
                n = decl_name(variant, k, cl)
                if n in skip or (only is not None and n not in only):
                    continue
                if variant == "legacy" or variant == "legext":
                    continue      # same text, compiled with the directive (second job)
                names[n] = (variant, flags, k, cl)
                if variant == "plain":
                    plain.append("cdef %s %s(int a) %s: pass" % (k.ctype, n, cl[1]))
                elif variant == "extern":
                    ext.append("    %s %s(int a) %s" % (k.ctype, n, cl[1]))
                elif variant == "cclass":
                    cc.append("    cdef %s %s(self, int a) %s: pass" % (k.ctype, n, cl[1]))
                elif variant == "funcptr":
                    fpt.append("ctypedef %s (*%s)(int) %s" % (k.ctype, n, cl[1]))
                elif variant == "pxd":
                    pxd.append("cdef %s %s(int a) %s" % (k.ctype, n, cl[1]))
    text = "\n".join(main + plain + ext + cc + fpt) + "\n"
    return {"c32_decl.pyx": text, "c32_dpxd.pxd": "\n".join(pxd) + "\n"}, names


def dumped_spec_token(k, row):
    """compiler's (exception_value, exception_check) -> model spec token"""
    pv, cs, ck = row
    ckt = "+d" if ck == "+" else ("y" if ck else "n")
    if cs is None:
        return "-/" + ckt
    c = k.cls
    if c == "int":
        return "i:%d/%s" % (k.wrap(int(pv)), ckt)
    if c == "enum":
        v = {"E_A": 0, "E_B": 5, "E_M": -1}[re.sub(r".*_(E_\w)$", r"\1", str(pv))] if isinstance(pv, str) else int(pv)
        return "i:%d/%s" % (v, ckt)
    if c == "dbl":
        if isinstance(pv, dict):
            return "%s/%s" % (dtag(float(pv["f"])), ckt)
        if isinstance(pv, str):
            if pv == "NAN":
                return "d:nan~/%s" % ckt
            try:
                return "%s/%s" % (dtag(float(pv)), ckt)
            except ValueError:
                return "?%s" % pv
        return "%s/%s" % (dtag(float(pv)), ckt)
    if c == "ptr":
        return "p:%d/%s" % (int(pv), ckt)
    return "?%r/%s" % (pv, ckt)


def _bad_names(files, errors):
    bad = set()
    for fn, line, msg in errors:
        src = files.get(fn)
        if src is None:
            continue
        text = src.splitlines()[line - 1]
        m = re.search(r"\b(d_\w+)\(", text) or re.search(r"\(\*(d_\w+)\)", text)
        if m:
            bad.add(m.group(1))
    return bad


def _dump_once(workdir, sub, legacy, skip=(), only=None, kinds=None):
    wd = os.path.join(workdir, sub)
    os.makedirs(wd, exist_ok=True)
    files, names = gen_decl_sources(skip, only, kinds)
    for fn, tx in files.items():
        with open(os.path.join(wd, fn), "w") as f:
            f.write(tx)
    r = cybuild.run_script(DUMP_SCRIPT, wd, {"jobs": [[os.path.join(wd, "c32_decl.pyx"), "c32_decl", legacy]]},
                           name="dump_decl.py")
    if not r["json"]:
        raise RuntimeError("decl dump failed: " + r["err"][-800:])
    res = r["json"][0]
    if "crash" in res:
        raise RuntimeError("decl dump crashed: " + res["crash"])
    return files, names, res


def dump_decl_table(workdir, kinds=None):
    """the compiler's (exception_value, exception_check) of every declaration; the rejected ones ('ERR') are found
    from the error positions.  The declarations expected to be rejected are compiled in a module of their own (each
    must draw an error); if the big module still has errors the offending lines are removed and it is recompiled."""
    import concurrent.futures as cf
    os.makedirs(workdir, exist_ok=True)
    _, allnames = gen_decl_sources((), None, kinds)
    guess_bad = {n for n, (_, _, k, cl) in allnames.items() if cl[0].startswith("bad")}

    def good(legacy):
        skip = set(guess_bad)
        for rnd in range(4):
            files, names, res = _dump_once(workdir, "good%d" % legacy, legacy, skip, None, kinds)
            bad = _bad_names(files, res["errors"])
            if not bad:
                return skip, res
            skip |= bad
        raise RuntimeError("declaration dump did not converge")

    def rejected():
        # every declaration in this module must be reported; those that are not are re-dumped as accepted
        files, names, res = _dump_once(workdir, "bad", False, (), guess_bad, kinds)
        return _bad_names(files, res["errors"])
    with cf.ThreadPoolExecutor(max_workers=3) as ex:
        f0, f1, fb = ex.submit(good, False), ex.submit(good, True), ex.submit(rejected)
        (skip0, res0), (skip1, res1), really_bad = f0.result(), f1.result(), fb.result()
    rows = []
    for legacy, skip, res in ((False, skip0, res0), (True, skip1, res1)):
        for n, (variant, flags, k, cl) in allnames.items():
            if legacy:
                flags = "1" + flags[1:]
                variant = {"plain": "legacy", "extern": "legext"}.get(variant, variant + "+legacy")
            if n in skip:
                rows.append((variant, flags, k, cl, "ERR" if (n in really_bad or n not in guess_bad) else "ACCEPTED?"))
            elif n in res["rows"]:
                rows.append((variant, flags, k, cl, dumped_spec_token(k, res["rows"][n])))
            else:
                rows.append((variant, flags, k, cl, "MISSING"))
    return rows


# --- Coq rendering of the table
def coq_z(v):
    return "(%d)" % v if v < 0 else "%d" % v


def coq_cval(tok):
    p = tok.split(":")
    if p[0] == "i":
        return "(VInt %s)" % coq_z(int(p[1]))
    if p[0] == "p":
        return "(VPtr %s)" % coq_z(int(p[1]))
    if p[0] == "d":
        if p[1] == "nan":
            return "(VDbl DNaN)"
        if p[1] == "-0":
            return "(VDbl DNegZero)"
        return "(VDbl (DNum %s))" % coq_z(int(p[1]))
    raise ValueError(tok)


def coq_sent(tok):
    op = tok.endswith("~")
    return "(Sent %s %s)" % (coq_cval(tok.rstrip("~")), "true" if op else "false")


def coq_kind(k):
    if k.cls == "int":
        return "(KInt %d %s)" % (k.w, "true" if k.sg else "false")
    return {"enum": "KEnum", "dbl": "KFloat", "ptr": "KPtr", "void": "KVoid", "struct": "KStruct", "obj": "KObject"}[k.cls]


def coq_clause(tok):
    if tok in ("none", "noexcept", "star"):
        return {"none": "CNone", "noexcept": "CNoexcept", "star": "CStar"}[tok]
    if tok.startswith("exq="):
        return "(CExceptQ %s)" % coq_sent(tok[4:])
    return "(CExcept %s)" % coq_sent(tok[3:])


def coq_result(tok):
    if tok == "ERR":
        return "None"
    a, b = tok.split("/")
    ev = "None" if a == "-" else "(Some %s)" % coq_sent(a)
    ck = {"n": "ChkNo", "y": "ChkYes", "+d": "(ChkPlus HDefault)"}[b]
    return "(Some {| ev := %s; ec := %s |})" % (ev, ck)


def coq_flags(f):
    b = ["true" if c == "1" else "false" for c in f]
    return "{| legacy := %s; extern := %s; in_pxd := %s; cclass_or_ptr := %s |}" % tuple(b)


def pre_coq(ctx):
    rows = dump_decl_table(os.path.join(ctx.workdir, "decl"), decl_kinds(ctx.tier))
    ctx._c32_rows = rows
    good = [r for r in rows if r[4] != "MISSING" and not r[4].startswith("?")]
    uniq = []
    seen = set()
    for variant, flags, k, cl, res in good:
        key = (flags, coq_kind(k), cl[2], res)
        if key not in seen:
            seen.add(key)
            uniq.append("(%s, %s, %s, %s)" % (coq_flags(flags), coq_kind(k), coq_clause(cl[2]), coq_result(res)))
    txt = ("(* generated by props/C32.py from the running compiler: CFuncType.exception_value/exception_check of\n"
           "   every declaration (clause x return kind x declaration context); None = rejected with an error *)\n"
           "From Coq Require Import ZArith List Bool.\nFrom CyVerif Require Import Model.M_ExcSpec.\n"
           "Import ListNotations.\nOpen Scope Z_scope.\n"
           "Definition decl_rows : list (dflags * rkind * clause * option fspec) := [\n  %s ].\n" % ";\n  ".join(uniq))
    p = os.path.join(framework.COQ, "theories", "Gen", "Gen_ExcSpec.v")
    os.makedirs(os.path.dirname(p), exist_ok=True)
    if not os.path.exists(p) or open(p).read() != txt:
        with open(p, "w") as f:
            f.write(txt)


# ----------------------------------------------------------------------------- oracle (documented semantics)
def c_equal(k, a, b):
    """C  a == b  at the return type (python values)"""
    if k.cls == "int":
        return k.wrap(int(a)) == k.wrap(int(b))
    if k.cls == "dbl":
        return float(a) == float(b)
    return a == b


def sentinel_of_clause(k, cl):
    """documented sentinel (python value), None if the clause has none"""
    t = cl[2]
    if "=" not in t:
        return None
    v = t.split("=", 1)[1].rstrip("~")
    p = v.split(":")
    if p[0] in ("i", "p"):
        return int(p[1])
    if p[1] == "nan":
        return float("nan")
    return {dtag(2.5): 2.5, dtag(float("inf")): float("inf")}.get(v, None) if v in (dtag(2.5), dtag(float("inf"))) else float(p[1])


def oracle(k, cl, legacy, mode, val, stale, via=None):
    """User guide 'Error return values'.  -> ('exc', name) | ('ok', value, unraisable list) | None (outside the
    documented contract: an exception was already pending at the call, or an 'except v' body returned v)."""
    if stale:
        return None
    kind = cl[0]
    form = ("noexcept" if kind == "noexc" else "star" if kind == "star" else "default" if kind == "none"
            else "exq" if cl[2].startswith("exq=") else "ex")
    if k.cls == "obj":
        form = "object"                       # "Exceptions on such functions are implicitly propagated by returning NULL"
    elif form == "default":
        form = "noexcept" if legacy else "propagate"
    raises = mode in (1, 4)
    exc = "ValueError" if mode == 1 else "TypeError"
    if raises:
        if form == "noexcept":
            # "print a warning message but not allow the exception to propagate further"; default value returned
            dv = k.default()
            return ("ok", "ANY" if k.cls == "struct" else dv, [exc])
        return ("exc", exc)
    rv = k.default() if mode == 3 else val
    if mode == 3 and k.cls == "struct":
        rv = "ANY"
    if form == "ex":
        s = sentinel_of_clause(k, cl)
        if rv != "ANY" and (c_equal(k, rv, s) or (k.cls == "dbl" and s != s and float(rv) != float(rv))):
            return None                       # "you should never explicitly or implicitly return that value"
    return ("ok", rv, [])


# ----------------------------------------------------------------------------- running
def model_expect(k, m_line):
    """model observation line -> comparable python-level expectation"""
    p = m_line.split()
    err, val = p[0] == "E", p[1]
    pend = p[2][5:]
    unr = [] if p[3][4:] == "-" else [EXC_NAME.get(int(x), x) for x in p[3][4:].split(",")]
    viol = int(p[5][5:])
    return {"err": err, "val": val, "pend": None if pend == "-" else EXC_NAME.get(int(pend), pend), "unr": unr,
            "viol": viol, "gil": p[4][4:]}


def parse_obs(k, res):
    """driver result -> dict(kind='ok'|'exc'|'crash', val token, pend, unr, reached)"""
    if "e" in res:
        return {"kind": "crash" if res["e"] in ("CRASH",) else "harness:" + res["e"], "m": res.get("m", "")}
    o = json.loads(ast.literal_eval(res["r"])) if isinstance(res.get("r"), str) else res
    return decode_obs(k, o)


def decode_obs(k, o):
    out, log, reached = o
    d = {"unr": log, "reached": reached}
    if out[0] == "exc":
        d.update(kind="exc", exc=out[1], msg=out[2])
    else:
        tag, r, pend = out[1]
        if isinstance(r, dict):
            r = float(r["f"])
        d.update(kind="ok", raw=r, val=k.otok(r), pend=pend)
    return d


def mode_body(k, mode, val):
    if mode == 1:
        return "raise=%d" % EXC_ID["ValueError"]
    if mode == 4:
        return "raise=%d" % EXC_ID["TypeError"]
    if mode == 3:
        if k.cls == "struct":
            return "ret=undef"
        if k.cls == "void":
            return "ret=u"
        return "ret=" + k.vtok(k.default())
    return "ret=" + k.vtok(val)


def agree(k, exp, obs, check_val=True):
    """model expectation vs observation"""
    if obs["kind"].startswith("harness"):
        return False
    if exp["err"]:
        if exp["pend"] is None:
            return obs["kind"] == "crash" or (obs["kind"] == "exc" and obs["exc"] == "SystemError")
        return obs["kind"] == "exc" and obs["exc"] == exp["pend"] and obs["unr"] == exp["unr"]
    if obs["kind"] != "ok":
        return False
    if obs["unr"] != exp["unr"] or obs["pend"] != exp["pend"]:
        return False
    if check_val and exp["val"] != "undef" and obs["val"] != exp["val"]:
        return False
    return True


def oracle_agree(k, orc, obs):
    if orc[0] == "exc":
        return obs["kind"] == "exc" and obs["exc"] == orc[1] and obs["unr"] == []
    if obs["kind"] != "ok" or obs["pend"] is not None or obs["unr"] != orc[2]:
        return False
    if orc[1] == "ANY":
        return True
    return obs["val"] == k.vtok(orc[1])


def classify(k, cl, flv, caller, mode, stale):
    return "wrong_outcome/%s/%s" % (cl[0] if not cl[0].startswith("ex") else ("exq" if "q" in cl[0] else "ex"),
                                    "raise" if mode in (1, 4) else "return")


def decl_kinds(tier):
    if tier == "quick":
        return [KBY[n] for n in ("int", "uint", "uchar", "double", "intp", "void", "S", "E", "object")]
    return KINDS


def func_list(tier):
    quick = tier == "quick"
    kinds = ["int", "uint", "double", "intp", "void", "S", "E", "object"] if quick else [k.name for k in KINDS]
    L = []
    for kn in kinds:
        k = KBY[kn]
        for cl in clauses_for(k):
            for flv in ("plain", "nogil", "withgil"):
                if k.cls == "obj" and flv == "nogil":
                    continue
                if quick and flv == "withgil" and kn not in ("int", "void"):
                    continue
                if quick and flv == "nogil" and kn not in ("int", "double", "void", "intp", "S"):
                    continue
                L.append((k, cl, flv, False))
            if kn in (("int", "void", "object") if quick else ("int", "double", "void", "object", "S")):
                L.append((k, cl, "plain", True))
    return L


def split_modules(funcs, n):
    mods = [[] for _ in range(n)]
    for i, f in enumerate(funcs):
        mods[i % n].append(f)
    return mods


def run(ctx):
    import time
    T0 = time.time()
    def tick(what):
        if os.environ.get("C32_TIMING"):
            print("[C32 %.1fs] %s" % (time.time() - T0, what), flush=True)
    ctx._tick = tick
    quick = ctx.tier == "quick"
    model = ctx.model("excspec")
    wd = ctx.workdir
    with open(os.path.join(wd, "c32_drv.py"), "w") as f:
        f.write(DRIVER)

    # ---- 1. declaration table: compiler vs model (also proved over Gen_ExcSpec.v by vm_compute)
    rows = getattr(ctx, "_c32_rows", None) or dump_decl_table(os.path.join(wd, "decl"), decl_kinds(ctx.tier))
    mq = ["norm %s %s %s" % (flags, k.tok, cl[2]) for _, flags, k, cl, _ in rows]
    mres = model.batch(mq)
    spec_of = {}
    for (variant, flags, k, cl, res), q, m in zip(rows, mq, mres):
        ctx.case("decl/%s/%s" % (variant, "rejected" if res == "ERR" else "accepted"),
                 {"variant": variant, "kind": k.name, "clause": cl[1]}, sig=("decl", variant, flags, k.name, cl[0]))
        if m != res:
            ctx.corr_break("excspec:normalise", {"variant": variant, "flags": flags, "kind": k.name, "clause": cl[1]}, res, m)
        spec_of[(flags, k.name, cl[0])] = m
        # documented defaults (user guide): int/float/pointer -> except? -1/-1/NULL, void/struct -> except *,
        # extern -> noexcept, objects always propagate via NULL
        if cl[0] == "none" and variant in ("plain", "extern"):
            want = {"plain": {"int": "i:%d/y" % k.wrap(-1) if k.cls == "int" else None, "dbl": "d:-1/y", "ptr": "p:0/y",
                              "void": "-/y", "struct": "-/y", "enum": "-/y", "obj": "-/n"}[k.cls],
                    "extern": "-/n"}[variant]
            if res != want:
                ctx.fail("default_spec/%s" % variant, {"kind": k.name, "variant": variant}, res, want)

    tick("decl table done")
    # ---- 2. run-time modules
    funcs = func_list(ctx.tier)
    nmod = 8 if quick else 12
    mods = split_modules(funcs, nmod)
    leg_funcs = [(KBY[kn], cl, flv, False) for kn in (("int", "double", "void", "object") if quick else ("int", "double", "void", "object", "intp", "S", "E"))
                 for cl in clauses_for(KBY[kn]) if cl[0] in ("none", "noexc", "star", "exqm1", "exm1")
                 for flv in (("plain", "nogil") if kn in ("int", "void") else ("plain",))]
    O0 = ["-O0"]
    srcs = [gen_module(m) for m in mods]
    leg_src, leg_index = gen_module(leg_funcs, legacy=True)
    specs = [dict(name="c32_m%d" % i, source=src, workdir=wd, cflags=O0) for i, (src, _) in enumerate(srcs)]
    specs.append(dict(name="c32_leg", source=leg_src, workdir=wd, cflags=O0))
    # function pointers: compatibility from the compiler (errors of a probe module), then the compatible pairs
    fp_all = [(KBY[kn], fc, pc) for kn in FP_KINDS for fc in fp_clauses(KBY[kn]) for pc in fp_clauses(KBY[kn])]
    compat = probe_fp_compat(ctx, fp_all)
    fp_ok = [p for p in fp_all if compat[(p[0].name, p[1][0], p[2][0])]]
    fp_src, fp_index = gen_fp_module(fp_ok)
    specs.append(dict(name="c32_fp", source=fp_src, workdir=wd, cflags=O0))
    specs.append(dict(name="c32_cpp", source=CPP_SRC, workdir=wd, cplus=True, cflags=O0))
    # value level: return type x sentinel spelling modules + the compiler's own exception values (thread)
    vmods, vcallers = C32_value.plan_modules(not quick)
    vthread, vbox = C32_value.start_dump(cybuild, wd, vmods)
    for vm in vmods:
        specs.append(dict(name=vm["name"], source=vm["source"], workdir=wd, cflags=O0))
    tick("fp probe done")
    built = cybuild.build_many(specs, jobs=min(len(specs), 14))
    vthread.join()
    tick("built")
    for (so, err), spn in zip(built, specs):
        if err is not None:
            ctx.corr_break("build " + spn["name"], spn["name"], str(err)[:1500], "module builds")
            return

    # compat table vs model
    cq = []
    for k, fc, pc in fp_all:
        fs = spec_of[("0000", k.name, fc[0])]
        ps = spec_of[("0001", k.name, pc[0])]
        cq.append("compat %s %s" % (fs, ps))
    for (k, fc, pc), m in zip(fp_all, model.batch(cq)):
        got = compat[(k.name, fc[0], pc[0])]
        ctx.case("fpcompat/%s" % ("ok" if got else "rejected"), {"kind": k.name, "func": fc[1], "ptr": pc[1]},
                 sig=("compat", k.name, fc[0], pc[0]))
        if (m == "1") != got:
            ctx.corr_break("excspec:exc_compatible", {"kind": k.name, "func": fc[1], "ptr": pc[1]}, got, m)

    cases = []   # dict(mod, fn, k, cl, flv, caller, mode, val, stale, legacy, fspec, pspec, cn)
    def add_cases(modname, index, k, cl, flv, cp, legacy, callers):
        flags = "1000" if legacy else "0000"
        fs = spec_of[(flags, k.name, cl[0])]
        f = fname(k, cl, flv, cp)
        vals = k.values(not quick)
        plan = []
        for v in vals:
            plan.append((0, v, 0)); plan.append((0, v, 1))
        v0 = vals[0]
        plan += [(1, v0, 0), (2, v0, 0), (2, vals[-1], 0), (3, v0, 0), (3, v0, 1), (4, v0, 0), (4, v0, 1)]
        for caller in callers:
            dn, fid = (f, 0) if caller == "direct" else index[(f, caller)]
            for mode, v, stale in plan:
                cases.append(dict(mod=modname, fn=dn, fid=fid, callee=f, k=k, cl=cl, flv=flv, caller=caller, mode=mode,
                                  val=v, stale=stale, legacy=legacy, fspec=fs, pspec=fs, cp=cp))
    for i, m in enumerate(mods):
        for k, cl, flv, cp in m:
            add_cases("c32_m%d" % i, srcs[i][1], k, cl, flv, cp, False, callers_of(k, flv))
            if cp:
                add_cases("c32_m%d" % i, srcs[i][1], k, cl, flv, cp, False, ["direct"])
    for k, cl, flv, cp in leg_funcs:
        add_cases("c32_leg", leg_index, k, cl, flv, cp, True, ["py"] + (["ng"] if flv != "plain" else []))
    # function pointer cases
    for k, fc, pc in fp_ok:
        fs = spec_of[("0000", k.name, fc[0])]
        ps = spec_of[("0001", k.name, pc[0])]
        vals = k.values(False)
        plan = [(0, v, s) for v in vals for s in (0, 1)] + [(1, vals[0], 0), (3, vals[0], 0), (4, vals[0], 1)]
        for mode, v, stale in plan:
            dn, fid = fp_index[(k.name, fc[0], pc[0])]
            cases.append(dict(mod="c32_fp", fn=dn, fid=fid, callee="%s via %s" % (fname(k, fc, "plain"), pc[1] or "(no clause)"),
                              k=k, cl=fc, pcl=pc, flv="plain",
                              caller="fp", mode=mode, val=v, stale=stale, legacy=False, fspec=fs, pspec=ps, cp=False))
    run_cases(ctx, model, cases)
    tick("cases done")
    run_cpp(ctx, model)
    tick("cpp done")
    C32_value.run_value(ctx, model, cybuild, vmods, vcallers, vbox, EXC_ID, EXC_NAME, dtag, model_expect)
    tick("value level done")
    if os.environ.get("C32_DEBUG"):
        with open(os.environ["C32_DEBUG"], "w") as f:
            json.dump({"fails": ctx.prop_failures, "breaks": ctx.corr_breaks, "known": ctx.known_hits}, f, indent=1, default=str)


def probe_fp_compat(ctx, fp_all):
    """which 'cdef <ptr type> p = <function>' assignments the compiler accepts (one assignment per line)"""
    wd = os.path.join(ctx.workdir, "fpprobe")
    os.makedirs(wd, exist_ok=True)
    L = ["# cython: language_level=3", "from libc.math cimport NAN", 'DEF nan = float("nan")', 'DEF infty = float("inf")']
    seen = set()
    for k, fc, pc in fp_all:
        if (k.name, fc[0]) not in seen:
            seen.add((k.name, fc[0]))
            L.append("cdef %s %s(%s) %s: pass" % (k.ctype, fname(k, fc, "plain"), sig_args(k), fc[1]))
    for kn in sorted({p[0].name for p in fp_all}):
        L += gen_fp_typedefs(KBY[kn])
    line_of = {}
    for i, (k, fc, pc) in enumerate(fp_all):
        L.append("cdef %s c32_v%d = %s" % (fp_type_name(k, pc), i, fname(k, fc, "plain")))
        line_of[len(L)] = (k.name, fc[0], pc[0])
    with open(os.path.join(wd, "c32_fpprobe.pyx"), "w") as f:
        f.write("\n".join(L) + "\n")
    r = cybuild.run_script(DUMP_SCRIPT, wd, {"jobs": [[os.path.join(wd, "c32_fpprobe.pyx"), "c32_fpprobe", False]]},
                           name="dump_fp.py")
    if not r["json"]:
        raise RuntimeError("fp probe failed: " + r["err"][-800:])
    res = r["json"][0]
    compat = {key: True for key in line_of.values()}
    for fn, line, msg in res.get("errors", []):
        if line in line_of and "Cannot assign type" in msg:
            compat[line_of[line]] = False
        else:
            raise RuntimeError("fp probe: unexpected error %s:%s %s" % (fn, line, msg))
    return compat


def run_cases(ctx, model, cases):
    quick = ctx.tier == "quick"
    wd = ctx.workdir
    # model queries
    mq, dq = [], []
    for c in cases:
        k = c["k"]
        cn = "1" if c["caller"] in ("ng",) else "0"
        body = mode_body(k, c["mode"], c["val"])
        pend = str(EXC_ID["KeyError"]) if c["stale"] else "-"
        mq.append("obs %s %s %s %s %s %s %s" % (c["pspec"], c["fspec"], k.tok, c["flv"], cn, body, pend))
    mres = model.batch(mq)
    # the C-caller chain needs a second model step: outer call of cc_ (void, except *), itself possibly nogil
    exps = []
    q2, idx2 = [], []
    for c, m in zip(cases, mres):
        e = model_expect(c["k"], m)
        exps.append(e)
        if c["caller"] in ("pycc", "pyccn") and not (e["err"] and e["pend"] is None):
            if c["k"].cls == "obj":
                ospec, okind = "-/n", "O"
            else:
                ospec, okind = "-/y", "V"
            if e["err"]:
                body = "raise=%d" % EXC_ID[e["pend"]]
                pend = str(EXC_ID[e["pend"]])
            else:
                body = "ret=" + ("u" if okind == "V" else e["val"])
                pend = "-" if e["pend"] is None else str(EXC_ID[e["pend"]])
            flv = "nogil" if c["caller"] == "pyccn" else "plain"
            cn = "1" if c["caller"] == "pyccn" else "0"
            q2.append("obs %s %s %s %s %s %s %s" % (ospec, ospec, okind, flv, cn, body, pend))
            idx2.append(len(exps) - 1)
    for i, m in zip(idx2, model.batch(q2)):
        inner = exps[i]
        outer = model_expect(None, m)
        outer["unr"] = inner["unr"] + outer["unr"]
        outer["viol"] += inner["viol"]
        outer["reached"] = 0 if inner["err"] else 1
        if not outer["err"] and cases[i]["k"].cls != "obj":
            outer["val"] = inner["val"]
        exps[i] = outer
    # run: contract-violating / crash-prone cases one by one (sampled), the rest in batches
    risky = [i for i, e in enumerate(exps) if e["err"] and e["pend"] is None]
    rs = set(risky)
    safe = [i for i in range(len(cases)) if i not in rs]
    nrisky = 8 if quick else 40
    risky_run = sorted(ctx.rng.sample(risky, min(nrisky, len(risky))))

    def argv(c):
        k = c["k"]
        vk = {"dbl": "d", "struct": "s", "void": "v"}.get(k.cls, "x")
        direct = c["caller"] == "direct"
        return [c["mod"], c["fn"], c["fid"], c["mode"], vk, c["val"], c["stale"], direct]
    obs = [None] * len(cases)
    B = 400
    calls, owners = [], []
    chunk, chunk_idx = [], []
    for i in safe:
        c = cases[i]
        if c["caller"] == "direct" and c["stale"]:
            continue              # a Python caller cannot have an exception pending
        chunk.append(argv(c)); chunk_idx.append(i)
        if len(chunk) == B:
            calls.append(["c32_drv.batch", [chunk]]); owners.append(chunk_idx); chunk, chunk_idx = [], []
    if chunk:
        calls.append(["c32_drv.batch", [chunk]]); owners.append(chunk_idx)
    for i in risky_run:
        c = cases[i]
        calls.append(["c32_drv.run", argv(c)]); owners.append([i])
    setup = "import c32_drv"
    res = cybuild.call_cases(wd, calls, setup=setup, alarm=120, timeout=1500, max_crashes=200)
    redo = []
    for (fexpr, args), own, r in zip(calls, owners, res):
        if fexpr.endswith("batch"):
            if "e" in r:
                redo += own
                continue
            lst = json.loads(ast.literal_eval(r["r"]))
            for i, o in zip(own, lst):
                obs[i] = decode_obs(cases[i]["k"], o)
        else:
            i = own[0]
            obs[i] = parse_obs(cases[i]["k"], r)
    if redo:
        # a batch died: rerun its members one by one to find the culprit
        calls2 = [["c32_drv.run", argv(cases[i])] for i in redo]
        own2 = list(redo)
        for i, r in zip(own2, cybuild.call_cases(wd, calls2, setup=setup, alarm=60, timeout=1500)):
            obs[i] = parse_obs(cases[i]["k"], r)
    # compare
    for i, c in enumerate(cases):
        o = obs[i]
        if o is None:
            continue
        k, e = c["k"], exps[i]
        inp = {"module": c["mod"], "func": c["fn"], "fid": c["fid"], "callee": c["callee"], "mode": c["mode"], "val": c["val"], "stale": c["stale"],
               "spec": c["cl"][1] or "(default)", "flavour": c["flv"], "caller": c["caller"], "legacy": c["legacy"]}
        body = "raise" if c["mode"] in (1, 4) else "fall" if c["mode"] == 3 else "handled" if c["mode"] == 2 else "ret"
        stratum = "%s/%s/%s/%s%s" % (c["caller"], k.cls, c["cl"][0], body, "+stale" if c["stale"] else "")
        ctx.case(stratum, inp, sig=(c["mod"], c["fn"], c["fid"], c["mode"], str(c["val"]), c["stale"]))
        ok_model = agree(k, e, o) if c["caller"] != "direct" else agree_direct(k, e, o)
        if e["viol"] != 0:
            ctx.corr_break("excspec:gil", inp, "ran", "model predicts thread-state access without the GIL: " + mq[i])
        if "reached" in e and o.get("kind") != "crash" and o.get("reached") != e["reached"]:
            ok_model = False
        if not ok_model:
            ctx.corr_break("excspec:observe", inp, _short_obs(o), {kk: e[kk] for kk in ("err", "val", "pend", "unr") } | ({"reached": e["reached"]} if "reached" in e else {}))
        orc = oracle(k, c["cl"], c["legacy"], c["mode"], c["val"], c["stale"])
        if orc is not None:
            good = oracle_agree(k, orc, o) if c["caller"] != "direct" else oracle_agree_direct(k, orc, o)
            if not good:
                ctx.fail(classify(k, c["cl"], c["flv"], c["caller"], c["mode"], c["stale"]), inp, _short_obs(o), list(orc),
                         note="model: %s" % mres[i])


def _short_obs(o):
    return {kk: vv for kk, vv in o.items() if kk in ("kind", "exc", "val", "pend", "unr", "reached", "m", "raw")}


def agree_direct(k, e, o):
    if e["err"]:
        if e["pend"] is None:
            return o["kind"] in ("crash", "exc")
        return o["kind"] == "exc" and o["exc"] == e["pend"] and o["unr"] == e["unr"]
    return o["kind"] == "ok" and o["unr"] == e["unr"] and (e["val"] == "undef" or o["val"] == e["val"])


def oracle_agree_direct(k, orc, o):
    if orc[0] == "exc":
        return o["kind"] == "exc" and o["exc"] == orc[1] and o["unr"] == []
    if o["kind"] != "ok" or o["unr"] != orc[2]:
        return False
    return orc[1] == "ANY" or o["val"] == k.vtok(orc[1])


def run_cpp(ctx, model):
    wd = ctx.workdir
    kint = KBY["int"]
    cases, mq = [], []
    for fn, h in (("d", "+d"), ("p", "+p%d" % EXC_ID["MemoryError"]), ("s", "+s")):
        for which in list(range(0, 13)) + ([13, 14] if fn == "s" else []):
            for ng in (0, 1):
                for stale in ((0, 1) if which in (0, 7, 12) else (0,)):
                    body = ("ret=i:5" if which == 0 else "setret=%d,i:5" % EXC_ID["ZeroDivisionError"] if which == 13
                            else "throw=out_of_range" if which == 14 else "throw=" + CPP_CLASSES[which - 1])
                    pend = "-" if not stale else str(EXC_ID["KeyError"])
                    if which == 14:
                        pend = str(EXC_ID["ZeroDivisionError"])       # the C++ code set it before throwing
                    cases.append(("cpp_int", [fn, which, 5, ng, stale], fn, which, ng, stale))
                    mq.append("obs -/%s -/%s I:32:1 plain %d %s %s" % (h, h, ng, body, pend))
    for which in range(0, 13):
        for ng in (0, 1):
            body = "ret=u" if which == 0 else "throw=" + CPP_CLASSES[which - 1]
            cases.append(("cpp_void", [which, ng, 0], "dv", which, ng, 0))
            mq.append("obs -/+d -/+d V plain %d %s -" % (ng, body))
    mres = model.batch(mq)
    calls = [["c32_drv.run", ["c32_cpp", c[0], 0, 0, "x", 0, 0, False, c[1]]] for c in cases]
    res = cybuild.call_cases(wd, calls, setup="import c32_drv", alarm=30)
    # documented mapping (user guide, wrapping C++: "Exceptions" table)
    DOC = {"bad_alloc": "MemoryError", "bad_cast": "TypeError", "bad_typeid": "TypeError", "domain_error": "ValueError",
           "invalid_argument": "ValueError", "ios_failure": "OSError", "out_of_range": "IndexError",
           "overflow_error": "OverflowError", "range_error": "ArithmeticError", "underflow_error": "ArithmeticError",
           "std_other": "RuntimeError", "non_std": "RuntimeError"}
    for c, m, r in zip(cases, mres, res):
        fnname, args, fn, which, ng, stale = c
        k = kint if fnname == "cpp_int" else KBY["void"]
        o = parse_obs(k, r)
        e = model_expect(k, m)
        inp = {"module": "c32_cpp", "func": fnname, "args": args}
        ctx.case("cpp/%s/%s%s%s" % (fn, "ret" if which == 0 else "throw" if which < 13 else "pyerr", "/nogil" if ng else "",
                                    "+stale" if stale else ""), inp, sig=("cpp", fnname, tuple(args)))
        if e["viol"] != 0 or not agree(k, e, o):
            ctx.corr_break("excspec:cpp", inp, _short_obs(o), {kk: e[kk] for kk in ("err", "val", "pend", "unr", "viol")})
        if stale:
            continue
        if which == 0:
            want = ("ok", 5 if fnname == "cpp_int" else None, [])
        elif which == 13:
            want = ("exc", "ZeroDivisionError")
        elif which == 14:
            want = ("exc", "ZeroDivisionError")      # "let the latest Python exn pass through"
        else:
            want = ("exc", "MemoryError" if fn == "p" else DOC[CPP_CLASSES[which - 1]])
        if not oracle_agree(k, want, o):
            ctx.fail("cpp_translation/%s" % fn, inp, _short_obs(o), list(want), note="model: " + m)


def replay(ctx, obj):
    print("replay: run ./check C32 (the failing input is a generated function of the module named in the input):")
    print(json.dumps(obj.get("input"), indent=1))
