"""C25 — compiled functions report faithful names and signatures (DESIGN 7/C25, finding F22)."""
import os, json, ast, inspect
import cybuild, framework

TITLE = "Compiled functions report faithful names and signatures"
EXTRACTS = ["ExprPrint", "CodeDescr", "ArgList"]
RULE = ("random default-value expression trees (names, negative/hex/float/imaginary numbers, str/bytes with escapes, "
        "unary/binary/**/comparison chains/and/or/not/conditional/lambda, tuple/list/set/dict displays, attribute/subscript/"
        "call), every operator shape pair and a hand-written list, each placed as a default in module, method, nested and "
        "keyword-only positions of one module compiled with embedsignature+binding; distinct by printed source; random scope "
        "forests (def/class/lambda, global declarations) for qualified names; str/bytes literals over Latin-1 for repr; "
        "code objects (props/C25_codeobj.py): modules mixing every function kind that gets a code object (def, method, "
        "static/class method, nested def, lambda, generator, coroutine, async generator - at module level, in classes, "
        "nested and in cdef classes - cpdef, generator expressions, auto-generated pickle helpers) in which the function "
        "holding the module-wide maximum of each description field (argcount, posonly, kwonly, nlocals, first line) is of "
        "each kind in turn, at values 2^k-1, 2^k, 2^k+1, with random *args/**kwargs, default suffixes and keyword-only "
        "default subsets; distinct by (module, function); "
        "embedded-signature layout (props/C25_arglist.py): signature shapes enumerated over positional-only 0..2 x "
        "positional-or-keyword 0..2 x (no star | bare * | *args) x keyword-only 0..2 x (**kwargs or not), self positional-only "
        "or not, defaults on suffixes / keyword-only subsets, annotations, return annotation and docstring (none / one "
        "line / indented multi-line) rotating, for def functions, methods, class/static methods of Python and cdef classes, "
        "__init__ of both, cpdef functions and methods, cdef-class properties, under each embedsignature.format (c, python, "
        "clinic): EVERY shape through EmbedSignature._fmt_arglist/_fmt_signature on synthetic argument nodes (with and "
        "without hide_self), and through generated modules whose docstrings are read from the generated C (quick: every "
        "shape once per format on rotating hosts; thorough: every shape on every host) and, for gcc-built modules, at "
        "run time (__doc__, __text_signature__, inspect.signature); distinct by (format, host, shape)")
EXPLANATION = ("theorems: for every well-formed expression tree the repaired ExpressionWriter's token list is read back to the "
               "same tree by an independent recursive-descent reader of Python's expression grammar (any sufficient fuel); the "
               "generated precedence table equals Python's documented levels (finite); the current printer is refuted by "
               "computed witnesses for each F22 class; the qualified name assigned by the (repaired) transform equals the "
               "language rule for every scope forest, the current one is refuted for global-declared nested defs; "
               "for every module (list of functions of all kinds) and every function in it, the six numbers of its "
               "code-object description survive the module-wide bit-field struct (widths = bit lengths of the maxima, "
               "generator expressions alone left out of the argument maxima), also as a packed bit string, and "
               "inspect._signature_from_function applied to the resulting code object, __defaults__ and __kwdefaults__ "
               "returns exactly the declared parameter list (names, kinds, defaults); the variant that leaves all "
               "generators out of the maxima is refuted; "
               "for every source signature (any numbers of positional-only / positional-or-keyword / keyword-only "
               "parameters, *args, **kwargs) the token list EmbedSignature._fmt_arglist builds (arguments, then the star "
               "marker inserted at npargs+npoargs, then '/' at npoargs, then **kwargs) equals the canonical rendering "
               "(inspect.Signature.__str__ layout) and is read back by the Python parameter-list grammar as exactly the "
               "source parameters (names, order, kinds); the variant inserting '/' first with the same indices is refuted "
               "by witness; with a hidden self (format c constructor line) the code as it is is refuted (markers one slot "
               "late) and proved on the complement (self not positional-only, no keyword-only parameters), the repaired "
               "variant is proved for all signatures. "
               "partial: tokenisation of the rendered text and str/bytes repr are tested against CPython (ast, repr), "
               "not proved; slices, keyword/star call arguments, comprehensions, f-strings and annotations are only "
               "compared differentially; CythonFunction.c getters and the C bit-field / PyCode_New layer are differential "
               "only (struct widths and initialisers are read from the generated C and compared with the model; code "
               "object fields, signature, defaults are compared model / compiled module / CPython); the text of one "
               "formatted argument (_fmt_arg: annotation / default / C type per format), the Class. prefix, $self/$type, "
               "the return annotation and the docstring merge (_embed_signature, inspect.cleandoc) are abstract in the "
               "layout model and compared differentially (generated C docstring / run time vs CPython's parser on the "
               "source header).")
TRUSTED = ["CPython ast.parse / inspect.signature / repr as oracles",
           "the lexical layer: rendered text -> tokens (names are identifiers, number texts are literals)",
           "str.isprintable for code points >= 256 (generator uses known printable ones)",
           "ConstantFolding/parser deliver the tree the generator intends (checked through the printed text itself)",
           "C semantics of unsigned bit-fields (value mod 2^width) and gcc's struct layout; PyCode_NewWithPosOnlyArgs",
           "inspect._signature_from_function of CPython 3.12 as transcribed in M_CodeDescr.sig_of_code "
           "(Signature validation errors not modelled)",
           "Python list.insert(i, x) = firstn i ++ x :: skipn i for i >= 0 (M_ArgList.insert); the Python parameter-list "
           "grammar as transcribed in M_ArgList.read_sig (compared with CPython's parser on every generated skeleton)",
           "docstrings are read from PyDoc_STRVAR / PyDoc_STR literals of the generated C (checked against __doc__ at run "
           "time for the gcc-built modules)"]
ASSUMPTIONS = ["CPython 3.12 qualname rule (PEP 709 inlined comprehensions) as the language rule",
               "lambda/genexpr __name__ are outside the property (def functions)"]

# which variant of the code the tree under test has (flip both to "1" after the proposed fixes are applied)
FX_PRINT = os.environ.get("C25_FX_PRINT", "1") == "1"
FX_QUAL = os.environ.get("C25_FX_QUAL", "1") == "1"

GEN_SCRIPT = r'''
import sys, json
import pyload; pyload.install()
from Cython.CodeWriter import ExpressionWriter as W
pyload.assert_sources()
print(json.dumps({"binop": sorted(W.binop_precedence.items()), "unop": sorted(W.unop_precedence.items()),
                  "test": getattr(W, "test_precedence", None), "atom": getattr(W, "atom_precedence", None)}))
'''


def pre_coq(ctx):
    r = cybuild.run_script(GEN_SCRIPT, os.path.join(ctx.workdir, "gen"))
    d = r["json"]
    if not d:
        raise RuntimeError("cannot dump ExpressionWriter tables: %s" % r["err"][-2000:])
    ctx._c25_tables = d

    def tbl(rows):
        return ";\n  ".join("([%s], %d%%nat)" % ("; ".join(str(ord(c)) for c in k), v) for k, v in rows)
    txt = ("(* generated by props/C25.py from the running code: Cython.CodeWriter.ExpressionWriter tables *)\n"
           "From Coq Require Import List NArith.\nImport ListNotations.\nOpen Scope N_scope.\n"
           "Definition gen_binop_prec : list (list N * nat) := [\n  %s ].\n"
           "Definition gen_unop_prec : list (list N * nat) := [\n  %s ].\n"
           "Definition gen_test_prec : nat := %d%%nat.\nDefinition gen_atom_prec : nat := %d%%nat.\n"
           % (tbl(d["binop"]), tbl(d["unop"]), d["test"] if d["test"] is not None else 0,
              d["atom"] if d["atom"] is not None else 13))
    p = os.path.join(framework.COQ, "theories", "Gen", "Gen_Prec.v")
    os.makedirs(os.path.dirname(p), exist_ok=True)
    if not os.path.exists(p) or open(p).read() != txt:
        with open(p, "w") as f:
            f.write(txt)


# ------------------------------------------------------------------ expression trees
# tree = tuple: ("n", name) ("num", kind, neg, text) ("s", str) ("b", bytes) ("T",) ("F",) ("N",) ("E",)
# ("u", op, e) ("not", e) ("bin", op, a, b) ("cmp", a, [(op, e), ...]) ("bool", op, a, b) ("cond", t, c, f)
# ("tuple", [..]) ("list", [..]) ("set", [..]) ("dict", [(k, v)..]) ("attr", e, name) ("sub", e, i) ("call", f, [..])
# ("lam", [names], body)
BIN = {"add": "+", "sub": "-", "mul": "*", "matmul": "@", "div": "/", "floordiv": "//", "mod": "%", "lshift": "<<",
       "rshift": ">>", "and": "&", "or": "|", "xor": "^", "pow": "**"}
BINP = {"or": 5, "xor": 6, "and": 7, "lshift": 8, "rshift": 8, "add": 9, "sub": 9, "mul": 10, "matmul": 10, "div": 10,
        "floordiv": 10, "mod": 10, "pow": 12}
CMP = {"lt": "<", "le": "<=", "gt": ">", "ge": ">=", "eq": "==", "ne": "!=", "in": "in", "notin": "not in", "is": "is",
       "isnot": "is not"}
UN = {"neg": "-", "pos": "+", "inv": "~"}
NAMES = ["a", "b", "c", "d", "e", "x", "y", "z"]
STRS = ["", "x", "it's", 'say "hi"', "both ' and \"", "tab\there", "nl\n", "back\\slash", "nul\x00", "\x7f\x1f",
        "caf\xe9", "nbsp\xa0", "shy\xad", "€", "\U0001f600", "\x80\x9f", "a" * 30]
BYTS = [b"", b"x", b"it's", b'q"', b"'\"", b"\x00\xff\x7f", b"\t\n\r\\", bytes(range(0x20, 0x30))]
NUMS = [("i", "0"), ("i", "1"), ("i", "42"), ("i", "0x1f"), ("i", "123456789012345678901234567890"), ("f", "1.5"),
        ("f", "1e5"), ("f", "2."), ("f", ".5"), ("j", "2j"), ("j", "1.5j")]


def prec(e):
    k = e[0]
    if k == "bin":
        return BINP[e[1]]
    if k == "cmp":
        return 4
    if k == "bool":
        return 1 if e[1] == "or" else 2
    if k == "not":
        return 3
    if k == "u":
        return 11
    if k == "num" and e[2]:
        return 11
    if k in ("cond", "lam"):
        return 0
    return 13


def neg_ok(k, txt):
    """-0x1f is folded to the decimal text -31 and -0 to 0: the printer never sees them"""
    return not (k == "i" and (txt.startswith("0x") or txt == "0" or len(txt) > 9))   # big results are re-spelled in hex


def is_lit(e):
    return e[0] in ("num", "s", "b", "T", "F", "N", "E")


def gen_atom(rng, lit_ok):
    r = rng.random()
    if not lit_ok or r < 0.55:
        return ("n", rng.choice(NAMES))
    if r < 0.75:
        k, txt = rng.choice(NUMS)
        return ("num", k, rng.random() < 0.45 and neg_ok(k, txt), txt)
    if r < 0.87:
        return ("s", rng.choice(STRS))
    if r < 0.93:
        return ("b", rng.choice(BYTS))
    return rng.choice([("T",), ("F",), ("N",), ("E",)])


def objecty(e):
    """Cython gives these Python object type (C-typed bases cannot be indexed/called: compile error)"""
    k = e[0]
    if k in ("n", "attr", "sub", "call", "tuple", "list", "dict", "set", "s", "b"):
        return True
    if k == "bin":
        return objecty(e[2]) or objecty(e[3])
    if k == "u":
        return objecty(e[2])
    if k == "cond":
        return objecty(e[1]) and objecty(e[3])
    if k == "bool":
        return objecty(e[2]) and objecty(e[3])
    return False


def gen_obj(rng, d, extra=lambda e: False):
    for _ in range(8):
        e = gen(rng, d, True)
        if objecty(e) or extra(e):
            return e
    return ("n", rng.choice(NAMES))


def constlike(e):
    return is_lit(e) or e[0] in ("tuple", "list", "set", "dict", "lam")


def gen_test(rng, d):
    """operand of not / and / or / condition: nothing ConstantFolding or the parser rewrites"""
    for _ in range(8):
        e = gen(rng, d, False)
        if not constlike(e):
            return e
    return ("n", rng.choice(NAMES))


def gen(rng, depth, lit_ok=True):
    """lit_ok=False where a literal could be constant-folded away with its sibling"""
    if depth <= 0 or rng.random() < 0.12:
        return gen_atom(rng, lit_ok)
    r = rng.random()
    d = depth - 1
    if r < 0.22:
        op = rng.choice(list(BIN))
        a = gen(rng, d, True)
        b = gen(rng, d, not is_lit(a))
        if op == "mod" and a[0] in ("s", "b"):
            pass
        return ("bin", op, a, b)
    if r < 0.30:
        return ("u", rng.choice(list(UN)), gen(rng, d, False))
    if r < 0.35:
        x = gen_test(rng, d)
        if x[0] == "cmp" and len(x[2]) == 1 and x[2][0][0] in ("in", "notin", "is", "isnot"):
            x = ("cmp", x[1], [("lt", x[2][0][1])])        # the parser turns  not (a in b)  into  a not in b
        return ("not", x)
    if r < 0.45:
        a = gen(rng, d, False)
        n = 1 if rng.random() < 0.7 else rng.randrange(2, 4)
        chain, prev = [], a
        for _ in range(n):
            x = gen(rng, d, not constlike(prev))      # two adjacent constants are compared at compile time
            chain.append((rng.choice(list(CMP)), x))
            prev = x
        return ("cmp", a, chain)
    if r < 0.53:
        return ("bool", rng.choice(["and", "or"]), gen_test(rng, d), gen_test(rng, d))
    if r < 0.60:
        return ("cond", gen(rng, d, True), gen_test(rng, d), gen(rng, d, True))
    if r < 0.68:
        return (rng.choice(["tuple", "list"]), [gen(rng, d, True) for _ in range(rng.choice([0, 1, 1, 2, 3]))])
    if r < 0.71:
        return ("set", [gen(rng, d, True) for _ in range(rng.choice([1, 2, 3]))])
    if r < 0.75:
        return ("dict", [(gen(rng, d, True), gen(rng, d, True)) for _ in range(rng.choice([0, 1, 2]))])
    if r < 0.82:
        return ("attr", gen_obj(rng, d), rng.choice(["real", "p", "q"]))    # (literal).real is folded: hand list only
    if r < 0.89:
        return ("sub", gen_obj(rng, d), gen(rng, d, True))
    if r < 0.95:
        return ("call", gen_obj(rng, d), [gen(rng, d, True) for _ in range(rng.choice([0, 1, 2]))])
    return ("lam", [rng.choice(["q", "r", "s"])][:rng.choice([0, 1])] + (["w"] if rng.random() < 0.3 else []), gen(rng, d, True))


def src(e):
    """fully parenthesised source text denoting exactly this tree"""
    k = e[0]
    if k == "n":
        return e[1]
    if k == "num":
        return "(-%s)" % e[3] if e[2] else e[3]
    if k == "s":
        return repr(e[1])
    if k == "b":
        return repr(e[1])
    if k in ("T", "F", "N", "E"):
        return {"T": "True", "F": "False", "N": "None", "E": "..."}[k]
    if k == "u":
        return "(%s%s)" % (UN[e[1]], src(e[2]))
    if k == "not":
        return "(not %s)" % src(e[1])
    if k == "bin":
        return "(%s %s %s)" % (src(e[2]), BIN[e[1]], src(e[3]))
    if k == "cmp":
        return "(%s %s)" % (src(e[1]), " ".join("%s %s" % (CMP[o], src(x)) for o, x in e[2]))
    if k == "bool":
        return "(%s %s %s)" % (src(e[2]), e[1], src(e[3]))
    if k == "cond":
        return "(%s if %s else %s)" % (src(e[1]), src(e[2]), src(e[3]))
    if k == "tuple":
        return "(%s%s)" % (", ".join(src(x) for x in e[1]), "," if len(e[1]) == 1 else "")
    if k == "list":
        return "[%s]" % ", ".join(src(x) for x in e[1])
    if k == "set":
        return "{%s}" % ", ".join(src(x) for x in e[1])
    if k == "dict":
        return "{%s}" % ", ".join("%s: %s" % (src(a), src(b)) for a, b in e[1])
    if k == "attr":
        return "(%s).%s" % (src(e[1]), e[2])
    if k == "sub":
        return "(%s)[%s]" % (src(e[1]), src(e[2]))
    if k == "call":
        return "(%s)(%s)" % (src(e[1]), ", ".join(src(x) for x in e[2]))
    if k == "lam":
        return "(lambda %s: %s)" % (", ".join(e[1]), src(e[2]))
    raise ValueError(k)


def is_flattened_in_test(e):
    """x in [a, b] / x not in (a,) / x in {a}: FlattenInListTransform (which runs before EmbedSignature) rewrites an
    uncascaded in-test against a non-empty display into temps and ==-tests, a node the printer has no visitor for"""
    return (isinstance(e, tuple) and e and e[0] == "cmp" and len(e[2]) == 1 and e[2][0][0] in ("in", "notin")
            and e[2][0][1][0] in ("tuple", "list", "set") and len(e[2][0][1][1]) >= 1)


def is_placeholder(e):
    return isinstance(e, tuple) and bool(e) and (e[0] == "lam" or is_flattened_in_test(e))


def elide_placeholders(e):
    """the tree with every node the printer writes as the placeholder atom "..." (allow_unknown_nodes) replaced by
    the Ellipsis atom, which is what that text denotes"""
    if isinstance(e, tuple):
        if is_placeholder(e):
            return ("E",)
        return tuple(elide_placeholders(x) for x in e)
    if isinstance(e, list):
        return [elide_placeholders(x) for x in e]
    return e


def cps(s):
    if isinstance(s, bytes):
        return ",".join(str(c) for c in s) or "-"
    return ",".join(str(ord(c)) for c in s) or "-"


def words(e):
    k = e[0]
    if FX_PRINT and is_flattened_in_test(e):
        return ["E"]     # see the "lam" case below: the printer sees a node it writes as "..."
    if k == "n":
        return ["n", cps(e[1])]
    if k == "num":
        if e[1] == "j" and e[2]:
            return ["u", "neg", "j", "0", cps(e[3])]      # ConstantFolding does not fold  -2j
        return [e[1], "1" if e[2] else "0", cps(e[3])]
    if k == "s":
        return ["s", cps(e[1])]
    if k == "b":
        return ["b", cps(e[1])]
    if k in ("T", "F", "N", "E"):
        return [k]
    if k == "u":
        return ["u", e[1]] + words(e[2])
    if k == "not":
        return ["not"] + words(e[1])
    if k == "bin":
        return ["bin", e[1]] + words(e[2]) + words(e[3])
    if k == "cmp":
        o, b = e[2][0]
        out = ["cmp"] + words(e[1]) + [o] + words(b) + [str(len(e[2]) - 1)]
        for o, x in e[2][1:]:
            out += [o] + words(x)
        return out
    if k == "bool":
        return ["bool", e[1]] + words(e[2]) + words(e[3])
    if k == "cond":
        return ["cond"] + words(e[1]) + words(e[2]) + words(e[3])
    if k in ("tuple", "list", "set"):
        out = [k, str(len(e[1]))]
        for x in e[1]:
            out += words(x)
        return out
    if k == "dict":
        out = ["dict", str(len(e[1]))]
        for a, b in e[1]:
            out += words(a) + words(b)
        return out
    if k == "attr":
        return ["attr"] + words(e[1]) + [cps(e[2])]
    if k == "sub":
        return ["sub"] + words(e[1]) + words(e[2])
    if k == "call":
        out = ["call"] + words(e[1]) + [str(len(e[2]))]
        for x in e[2]:
            out += words(x)
        return out
    if k == "lam":
        if FX_PRINT:
            # The repaired printer keeps the placeholder: an expression it has no visitor for (a lambda)
            # is written as the atom "..." (allow_unknown_nodes; the repository's own embedsignature tests
            # fix that text), so what the printer sees at this position is the Ellipsis atom.
            return ["E"]
        return ["lam", str(len(e[1]))] + [cps(p) for p in e[1]] + words(e[2])
    raise ValueError(k)


def children(e):
    k = e[0]
    if k in ("u",):
        return [("operand", e[2])]
    if k == "not":
        return [("operand", e[1])]
    if k == "bin":
        return [("left", e[2]), ("right", e[3])]
    if k == "cmp":
        return [("operand", e[1])] + [("operand", x) for _, x in e[2]]
    if k == "bool":
        return [("left", e[2]), ("right", e[3])]
    if k == "cond":
        return [("operand", e[1]), ("operand", e[2]), ("free", e[3])]
    if k in ("tuple", "list", "set"):
        return [("free", x) for x in e[1]]
    if k == "dict":
        return [("free", x) for kv in e[1] for x in kv]
    if k == "attr":
        return [("base", e[1])]
    if k == "sub":
        return [("base", e[1]), ("free", e[2])]
    if k == "call":
        return [("base", e[1])] + [("free", x) for x in e[2]]
    if k == "lam":
        return [("free", e[2])]
    return []


def walk(e):
    yield e
    for _, c in children(e):
        for x in walk(c):
            yield x


def classify(e):
    """finding class from the shape of the input tree (fixed priority order)"""
    nodes = list(walk(e))
    if any(n[0] == "bin" and n[1] == "mul" and n[2][0] in ("list", "tuple") for n in nodes):
        return "sequence_repeat_printed_as_element"
    if any(n[0] == "lam" for n in nodes):
        return "lambda_default_printed_as_ellipsis"
    if any(n[0] == "cmp" and len(n[2]) > 1 for n in nodes):
        return "comparison_cascade_dropped"
    if any(n[0] == "tuple" and len(n[1]) == 1 for n in nodes):
        return "single_element_tuple_comma_dropped"
    for n in nodes:
        for role, c in children(n):
            if c[0] == "cond" and role != "free":
                return "conditional_expression_operand_unparenthesised"
    for n in nodes:
        if n[0] == "attr" and n[1][0] == "num" and n[1][1] == "i":
            return "int_literal_attribute_unparenthesised"
    for n in nodes:
        for role, c in children(n):
            if c[0] == "num" and c[2] and (role == "base" or (n[0] == "bin" and n[1] == "pow" and role == "left")):
                return "negative_literal_operand_unparenthesised"
    for n in nodes:
        for role, c in children(n):
            if role == "base" and prec(c) < 13:
                return "postfix_base_unparenthesised"
    for n in nodes:
        for role, c in children(n):
            if n[0] == "bin" and n[1] != "pow" and role == "right" and prec(c) == prec(n):
                return "same_precedence_operand_unparenthesised"
            if n[0] == "bin" and n[1] == "pow" and role == "left" and prec(c) == 12:
                return "same_precedence_operand_unparenthesised"
            if n[0] == "cmp" and c[0] == "cmp":
                return "same_precedence_operand_unparenthesised"
    return "print_mismatch_unclassified"


def benign_bool_nesting(e):
    return any(n[0] == "bool" and n[2][0] == "bool" and n[2][1] == n[1] for n in walk(e))


class Norm(ast.NodeTransformer):
    @staticmethod
    def _simple(n):
        # ExprNode.try_is_simple(): names, constants and attribute chains on them
        while isinstance(n, ast.Attribute):
            n = n.value
        return isinstance(n, (ast.Name, ast.Constant))

    """the oracle's notion of 'denotes the same expression': closed constant subtrees are evaluated
    (ConstantFolding is allowed to do that), same-operator BoolOp nesting is flattened (and/or are
    associative, evaluation order included), not (a is b) == a is not b."""
    def generic_visit(self, node):
        node = super().generic_visit(node)
        if isinstance(node, ast.BoolOp):
            vals = []
            for v in node.values:
                if isinstance(v, ast.BoolOp) and type(v.op) is type(node.op):
                    vals.extend(v.values)
                else:
                    vals.append(v)
            # a constant left operand decides or disappears (ConstantFolding does this)
            is_and = isinstance(node.op, ast.And)
            while len(vals) > 1 and isinstance(vals[0], ast.Constant):
                if bool(vals[0].value) == is_and:
                    vals = vals[1:]
                else:
                    vals = vals[:1]
            if len(vals) == 1:
                return vals[0]
            node.values = vals
        if (isinstance(node, ast.UnaryOp) and isinstance(node.op, ast.Not) and isinstance(node.operand, ast.Compare)
                and len(node.operand.ops) == 1 and isinstance(node.operand.ops[0], (ast.In, ast.NotIn, ast.Is, ast.IsNot))):
            flip = {ast.In: ast.NotIn, ast.NotIn: ast.In, ast.Is: ast.IsNot, ast.IsNot: ast.Is}
            node.operand.ops = [flip[type(node.operand.ops[0])]()]
            return node.operand
        if (isinstance(node, ast.Compare) and len(node.ops) == 1 and isinstance(node.ops[0], (ast.In, ast.NotIn))
                and isinstance(node.comparators[0], (ast.Tuple, ast.List)) and not node.comparators[0].elts
                and self._simple(node.left)):
            # x in () with a side-effect free x is decided at compile time (FlattenInListTransform): same value
            return ast.copy_location(ast.Constant(value=isinstance(node.ops[0], ast.NotIn)), node)
        if (isinstance(node, ast.BinOp) and isinstance(node.op, ast.Mult) and isinstance(node.left, (ast.List, ast.Tuple))
                and not node.left.elts):
            # [] * n is folded to [] by ConstantFolding._calculate_constant_seq (that it also drops the evaluation
            # of n is an evaluation-order matter, C20, not a printing one)
            return node.left
        if isinstance(node, ast.IfExp) and isinstance(node.test, ast.Constant):
            return node.body if node.test.value else node.orelse
        if isinstance(node, (ast.BinOp, ast.UnaryOp, ast.Compare, ast.BoolOp, ast.IfExp, ast.Subscript)):
            if all(isinstance(c, (ast.Constant, ast.operator, ast.unaryop, ast.cmpop, ast.boolop, ast.expr_context))
                   for c in ast.iter_child_nodes(node)):
                try:
                    v = eval(compile(ast.Expression(body=node), "<c>", "eval"), {}, {})
                    return ast.copy_location(ast.Constant(value=v), node)
                except Exception:
                    return node
        return node


def norm_dump(text):
    import warnings
    with warnings.catch_warnings():
        warnings.simplefilter("ignore")          # SyntaxWarning for 'x'[1.5] etc. in generated text
        tree = ast.parse(text.strip(), mode="eval")
        tree = ast.fix_missing_locations(Norm().visit(tree))
    return ast.dump(tree)


ABSORB = '''
class _V:
    def __init__(s, n="v"): s.n = n
    def __repr__(s): return s.n
    def __hash__(s): return 1
    def __bool__(s): return True
    def __call__(s, *a, **k): return _V("%s(%s)" % (s.n, ",".join(map(repr, a))))
    def __getattr__(s, n):
        if n.startswith("__") and n.endswith("__"): raise AttributeError(n)
        return _V("%s.%s" % (s.n, n))
    def __getitem__(s, i):
        if isinstance(i, bool): i = int(i)      # a C-typed (bint) index arrives as int
        return _V("%s[%r]" % (s.n, i))
    def __iter__(s): return iter(())
    def __index__(s): return 1
def _mk():
    def mk2(sym, swap):
        def op(s, o, *r):
            return _V("(%r%s%r)" % ((o, sym, s) if swap else (s, sym, o)))
        return op
    for n, sym in (("add", "+"), ("sub", "-"), ("mul", "*"), ("truediv", "/"), ("floordiv", "//"), ("mod", "%"),
                   ("pow", "**"), ("matmul", "@"), ("lshift", "<<"), ("rshift", ">>"), ("and", "&"), ("or", "|"),
                   ("xor", "^")):
        setattr(_V, "__%s__" % n, mk2(sym, False)); setattr(_V, "__r%s__" % n, mk2(sym, True))
    for n, sym in (("lt", "<"), ("le", "<="), ("gt", ">"), ("ge", ">="), ("eq", "=="), ("ne", "!="), ("contains", " in ")):
        setattr(_V, "__%s__" % n, mk2(sym, n == "contains"))
    for n, sym in (("neg", "-"), ("pos", "+"), ("invert", "~")):
        setattr(_V, "__%s__" % n, (lambda sym: lambda s: _V("(%s%r)" % (sym, s)))(sym))
    _V.__hash__ = lambda s: 1
_mk()
a, b, c, d, e, x, y, z = [_V(n) for n in "abcdexyz"]
'''

PLACEMENTS = ["module", "method", "nested", "kwonly", "cmethod"]


def sig_module(exprs):
    """one module: every expression as a default value in several scopes/parameter kinds"""
    L = [ABSORB]
    idx = []     # (fname accessor expr, expression index, placement, expected name, expected qualname, head)
    body_cls, body_cdef = ["class K:", "    '''class doc'''"], ["class CK:", "    pass"]
    nested = ["def outer():", "    fs = {}"]
    for i, e in enumerate(exprs):
        s = src(e)
        pl = PLACEMENTS[i % len(PLACEMENTS)]
        # a default is evaluated when the def statement runs; expressions that raise there (a list times a
        # dict ...) leave the name bound to None and are skipped on both sides
        if pl == "module":
            L += ["try:", "    def f%d(p=%s):" % (i, s), "        '''doc of f%d\n\n        second line'''" % i, "        return p",
                  "except Exception: f%d = None" % i]
            idx.append(("f%d" % i, i, pl, "f%d" % i, "f%d" % i, "f%d(p=" % i))
        elif pl == "method":
            body_cls += ["    try:", "        def m%d(self, u, p=%s, *rest):" % (i, s), "            return p",
                         "    except Exception: m%d = None" % i]
            idx.append(("K.m%d" % i, i, pl, "m%d" % i, "K.m%d" % i, "K.m%d(self, u, p=" % i))
        elif pl == "cmethod":
            body_cdef += ["    try:", "        @staticmethod", "        def s%d(u, /, p=%s, **kw):" % (i, s), "            return p",
                          "    except Exception: s%d = None" % i]
            idx.append(("CK.s%d" % i, i, pl, "s%d" % i, "CK.s%d" % i, "CK.s%d(u, /, p=" % i))
        elif pl == "nested":
            nested += ["    try:", "        def n%d(p=%s): return p" % (i, s), "        fs[%d] = n%d" % (i, i),
                       "    except Exception: fs[%d] = None" % i]
            idx.append(("_N[%d]" % i, i, pl, "n%d" % i, "outer.<locals>.n%d" % i, "n%d(p=" % i))
        else:
            L += ["try:", "    def k%d(u, *, p=%s, q=None):" % (i, s), "        return p", "except Exception: k%d = None" % i]
            idx.append(("k%d" % i, i, pl, "k%d" % i, "k%d" % i, "k%d(u, *, p=" % i))
    L += body_cls + body_cdef + nested + ["    return fs", "_N = outer()"]
    L += ['''
def _collect(names):
    import inspect, re
    import builtins
    def repr(o):
        # function reprs: drop the address; a lambda's qualified name is outside the property
        return re.sub(r"<(?:cy)?function (?:[^ ]*\\.)?([^ .]+) at 0x[0-9a-f]+>", r"<function \\1>", builtins.repr(o))
    out = []
    g = globals()
    for acc in names:
        f = eval(acc, g)
        if f is None:
            out.append(None)
            continue
        try:
            sig = inspect.signature(f)
            ps = [(p.name, str(p.kind), "<empty>" if p.default is p.empty else repr(p.default)) for p in sig.parameters.values()]
        except Exception as ex:
            ps = "ERR " + type(ex).__name__
        out.append({"name": getattr(f, "__name__", None), "qualname": getattr(f, "__qualname__", None),
                    "module": getattr(f, "__module__", None), "doc": getattr(f, "__doc__", None),
                    "defaults": repr(getattr(f, "__defaults__", None)), "kwdefaults": repr(getattr(f, "__kwdefaults__", None)),
                    "params": ps})
    import json
    return json.dumps(out)
''']
    return "\n".join(L) + "\n", idx


FIXED_SRC = '''from __future__ import annotations   # language_level=3 keeps annotations as strings (PEP 563)
import functools
def plain(a, b=1, *args, c, d=2, **kw):
    """plain doc"""
    return a
def posonly(a, b=(-1), /, c=-2.5, *, d="x\\n'"):
    return a
def noargs(): pass
def annotated(a: int, b: "str" = "s") -> float:
    """annotated doc

    more"""
    return 1.0
class C:
    """C doc"""
    def meth(self, x=[1, (2, 3), {4: 5}]):
        "meth doc"
        def inner(y=x): return y
        return inner
    @staticmethod
    def st(x=b"\\x00\\xff"): return x
    @classmethod
    def cm(cls, x=None): return x
    @property
    def pr(self):
        "pr doc"
        return 1
    class Inner:
        def deep(self, *, k=1.5e10): return k
def deco(f):
    @functools.wraps(f)
    def w(*a, **k): return f(*a, **k)
    return w
@deco
def wrapped(q=3): return q
def outer_g():
    global gdef
    def gdef(v=0):
        def gin(): pass
        return gin
    return gdef
_g = outer_g()
def _fixed_objs():
    return {"plain": plain, "posonly": posonly, "noargs": noargs, "annotated": annotated, "C.meth": C.meth,
            "inner": C().meth(), "C.st": C.st, "C.cm": C.cm, "C.pr": C.pr.fget, "deep": C.Inner.deep,
            "wrapped": wrapped, "gdef": _g, "gin": _g()}
def _fixed_collect():
    import inspect
    out = {}
    for k, f in _fixed_objs().items():
        f = getattr(f, "__func__", f)
        try:
            sig = inspect.signature(f)
            ps = [(p.name, str(p.kind), "<empty>" if p.default is p.empty else repr(p.default)) for p in sig.parameters.values()]
        except Exception as ex:
            ps = "ERR " + type(ex).__name__
        out[k] = {"name": f.__name__, "qualname": f.__qualname__, "module": f.__module__, "doc": f.__doc__,
                  "defaults": repr(f.__defaults__), "kwdefaults": repr(f.__kwdefaults__), "params": ps,
                  "annotations": repr(sorted(getattr(f, "__annotations__", {}).items()))}
    import json
    return json.dumps(out)
'''

# ------------------------------------------------------------------ scope forests
def gen_scope(rng, depth, counter, parent_kind):
    counter[0] += 1
    n = counter[0]
    if parent_kind == "L":
        kind = "L"
    else:
        kind = rng.choice(["F", "F", "C", "L"] if depth > 0 else ["F", "L"])
    glob = (kind in ("F", "C")) and parent_kind == "F" and rng.random() < 0.3
    nch = 0 if depth <= 0 else rng.choice([0, 1, 1, 2, 3] if kind != "L" else [0, 0, 1])
    ch = [gen_scope(rng, depth - 1, counter, kind) for _ in range(nch)]
    name = {"F": "f", "C": "K", "L": "l"}[kind] + str(n)
    return {"k": kind, "name": name, "glob": glob, "id": n, "ch": ch}


def scope_words(s):
    out = [s["k"], cps(s["name"]) if s["k"] != "L" else "-", "1" if s["glob"] else "0", str(len(s["ch"]))]
    for c in s["ch"]:
        out += scope_words(c)
    return out


def scope_src(s, ind):
    pad = "    " * ind
    L = []
    if s["k"] == "L":
        inner = ", ".join("_reg(%d, %s)" % (c["id"], lam_src(c)) for c in s["ch"])
        L += [pad + "%s = %s" % (s["name"], lam_src(s)), pad + "_reg(%d, %s); %s()" % (s["id"], s["name"], s["name"])]
        return L
    if s["glob"]:
        L.append(pad + "global %s" % s["name"])
    if s["k"] == "F":
        L.append(pad + "def %s():" % s["name"])
        L.append(pad + "    pass")
        for c in s["ch"]:
            L += scope_src(c, ind + 1)
        L.append(pad + "_reg(%d, %s); %s()" % (s["id"], s["name"], s["name"]))
    else:
        L.append(pad + "class %s:" % s["name"])
        L.append(pad + "    pass")
        for c in s["ch"]:
            L += scope_src(c, ind + 1)
        L.append(pad + "_reg(%d, %s)" % (s["id"], s["name"]))
    return L


def lam_src(s):
    if not s["ch"]:
        return "(lambda: 0)"
    return "(lambda: [%s])" % ", ".join("_regc(%d, %s)" % (c["id"], lam_src(c)) for c in s["ch"])


def scope_ids(s):
    out = [s]
    for c in s["ch"]:
        out += scope_ids(c)
    return out


QUAL_HEAD = '''
_R = {}
def _reg(i, o):
    _R[i] = (getattr(o, "__qualname__", None), getattr(o, "__name__", None), getattr(o, "__module__", None))
def _regc(i, o):
    _reg(i, o); o(); return o
'''


def run(ctx):
    # code objects (props/C25_codeobj.py): translated, built, introspected and pushed through the model in a
    # background thread; accounted at the end
    import threading, traceback
    from props import C25_codeobj as codeobj
    coW = {}
    cmodel = ctx.model("codedescr")

    def co_thread():
        try:
            coW.update(codeobj.work(ctx.tier, ctx.seed, ctx.workdir, cmodel))
        except Exception:
            coW["error"] = "worker raised: " + traceback.format_exc()[-1500:]
    ct = threading.Thread(target=co_thread)
    only = os.environ.get("C25_ONLY", "")            # development switch: C25_ONLY=arglist|codeobj|main runs one part
    if os.environ.get("C25_NO_CODEOBJ") != "1" and only in ("", "codeobj"):      # development switch (timing of the other parts only)
        ct.start()
    # layout of the embedded parameter list (props/C25_arglist.py): same arrangement
    from props import C25_arglist as arglist
    alW = {}
    amodel = ctx.model("arglist")

    def al_thread():
        try:
            alW.update(arglist.work(ctx.tier, ctx.seed, ctx.workdir, amodel))
        except Exception:
            alW["error"] = "worker raised: " + traceback.format_exc()[-1500:]
    at = threading.Thread(target=al_thread)
    if only in ("", "arglist"):
        at.start()
    try:
        if only in ("", "main"):
            run_main(ctx)
    finally:
        if at.ident is not None:
            at.join()
            arglist.account(ctx, alW)
        if ct.ident is not None:
            ct.join()
            codeobj.account(ctx, coW)


def run_main(ctx):
    quick = ctx.tier == "quick"
    rng = ctx.rng
    model = ctx.model("exprprint")
    fxp = "1" if FX_PRINT else "0"
    fxq = "1" if FX_QUAL else "0"

    # ---------------- 0. precedence table as dumped (the Coq theorem C25_prec_table_is_python's is the obligation)
    tables = getattr(ctx, "_c25_tables", None)
    if tables:
        doc = {"or": 1, "and": 2, "in": 4, "not_in": 4, "is": 4, "is_not": 4, "<": 4, "<=": 4, ">": 4, ">=": 4, "!=": 4, "==": 4,
               "|": 5, "^": 6, "&": 7, "<<": 8, ">>": 8, "+": 9, "-": 9, "*": 10, "@": 10, "/": 10, "//": 10, "%": 10, "**": 12}
        for k, v in tables["binop"]:
            ctx.case("prec_table/binop", {"op": k}, sig=("b", k))
            if doc.get(k) != v:
                ctx.fail("precedence_table_differs_from_python", {"op": k}, v, doc.get(k))
        for k, v in tables["unop"]:
            ctx.case("prec_table/unop", {"op": k}, sig=("u", k))
            if {"not": 3, "!": 3, "+": 11, "-": 11, "~": 11}.get(k) != v:
                ctx.fail("precedence_table_differs_from_python", {"op": k}, v, "python level")

    # ---------------- 1. str/bytes repr model vs CPython repr (what visit_UnicodeNode/BytesNode call)
    pool = [chr(c) for c in list(range(0, 256))] + ["€", "Ā", "\U0001f600", "中"]
    lits = list(STRS) + ["".join(rng.choice(pool) for _ in range(rng.randrange(0, 12))) for _ in range(150 if quick else 2000)]
    blits = list(BYTS) + [bytes(rng.randrange(256) for _ in range(rng.randrange(0, 12))) for _ in range(100 if quick else 1500)]
    res = model.batch(["repr s %s" % cps(s) for s in lits] + ["repr b %s" % cps(s) for s in blits])
    for s, m in zip(lits + blits, res):
        ctx.case("repr/%s" % ("bytes" if isinstance(s, bytes) else "str"), {"lit": repr(s)}, sig=s)
        got = cps(repr(s))
        if m != got:
            ctx.corr_break("repr", {"lit": repr(s)}, got, m)

    # ---------------- 2. default-value expressions through embedsignature
    hand = []
    A, B_, C_ = ("n", "a"), ("n", "b"), ("n", "c")
    ops_all = [("bin", o) for o in BIN] + [("cmp", o) for o in ("lt", "in", "isnot")] + [("bool", "and"), ("bool", "or")]

    def mk(shape, l, r):
        if shape[0] == "bin":
            return ("bin", shape[1], l, r)
        if shape[0] == "cmp":
            return ("cmp", l, [(shape[1], r)])
        return ("bool", shape[1], l, r)
    inner_shapes = ops_all + [("u", "neg"), ("u", "inv"), ("not",), ("cond",), ("lam",), ("negnum",)]

    def mk_inner(sh):
        if sh[0] == "u":
            return ("u", sh[1], B_)
        if sh[0] == "not":
            return ("not", B_)
        if sh[0] == "cond":
            return ("cond", B_, C_, ("n", "d"))
        if sh[0] == "lam":
            return ("lam", ["q"], B_)
        if sh[0] == "negnum":
            return ("num", "i", True, "1")
        return mk(sh, B_, C_)
    outer_list = ops_all if not quick else [s for s in ops_all if s[1] in ("sub", "mul", "pow", "or", "lshift", "lt", "and")]
    for osh in outer_list:
        for ish in inner_shapes:
            if osh[0] == "bool" and ish == ("negnum",):
                continue          # a constant operand of and/or is folded away before the printer runs
            if quick and ish[0] in ("bin", "cmp", "bool") and ish[1] not in ("sub", "mul", "pow", "xor", "lt", "or", "and", "add"):
                continue
            hand.append(mk(osh, mk_inner(ish), A))
            hand.append(mk(osh, A, mk_inner(ish)))
    for ish in inner_shapes:
        i = mk_inner(ish)
        if objecty(i):
            hand += [("attr", i, "p"), ("sub", i, A), ("call", i, [A])]
        elif i[0] == "num":
            hand += [("attr", i, "real")]
        if not (ish[0] == "cmp" and ish[1] in ("in", "isnot")) and ish != ("lam",) and ish != ("negnum",):
            hand += [("not", i)]
        if ish != ("negnum",):
            hand += [("u", "neg", i), ("cond", A, i, C_)]
        hand += [("cond", i, A, C_), ("cond", A, C_, i), ("tuple", [i]), ("list", [i, A]),
                 ("sub", A, i), ("call", A, [i]), ("dict", [(i, i)]), ("lam", [], i), ("sub", A, ("tuple", [i])),
                 ("sub", A, ("tuple", [i, A])), ("bin", "mul", A, ("call", ("n", "x"), [i]))]
    hand += [("bin", "mul", ("list", [A]), B_), ("bin", "mul", ("list", [("num", "i", False, "0")]), ("num", "i", False, "42")),
             ("bin", "mul", ("tuple", [A, B_]), C_), ("bin", "mul", C_, ("list", [A])),
             ("bin", "mul", ("list", [A, B_]), ("bin", "add", A, B_)), ("bin", "pow", A, ("bin", "mul", ("list", [B_]), C_)),
             ("sub", A, ("bin", "mul", ("tuple", [A, B_]), C_))]
    hand += [("cmp", A, [("lt", B_), ("gt", C_), ("eq", ("n", "d"))]), ("cmp", ("cmp", A, [("lt", B_)]), [("lt", C_)]),
             ("tuple", []), ("sub", A, ("tuple", [])), ("set", [A]), ("dict", []), ("attr", ("num", "i", False, "1"), "real"),
             ("attr", ("num", "f", False, "1.5"), "real"), ("attr", ("num", "i", True, "1"), "real"),
             ("bin", "pow", ("num", "f", True, "1.5"), A), ("bin", "pow", A, ("num", "i", True, "2")),
             ("bin", "pow", ("bin", "pow", A, B_), C_), ("bin", "pow", A, ("bin", "pow", B_, C_)),
             ("u", "neg", ("u", "neg", A)), ("u", "neg", ("bin", "pow", A, B_)),
             ("bin", "pow", ("u", "neg", A), B_), ("bin", "pow", A, ("u", "neg", B_))]
    hand += [("s", s) for s in STRS] + [("b", s) for s in BYTS] + [("num", k, g, t_) for k, t_ in NUMS for g in (False, True) if not g or neg_ok(k, t_)]
    n_rand = 70 if quick else 1500
    if quick:
        hand = [e for i, e in enumerate(hand) if i % 4 == rng.randrange(4) or i % 4 == 0]
    # always: in-tests against displays (rewritten by FlattenInListTransform before the printer runs; a cascade or an
    # empty display is not) and 'not' applied to a cascade (folded by ConstantFolding before the printer runs)
    D_ = ("n", "d")
    hand += [("cmp", A, [("in", ("list", [B_, C_]))]), ("cmp", A, [("notin", ("tuple", [B_]))]),
             ("cmp", A, [("in", ("set", [B_, C_]))]), ("cmp", A, [("in", ("tuple", []))]), ("cmp", A, [("notin", ("list", []))]),
             ("cmp", A, [("lt", B_), ("in", ("list", [C_, D_]))]), ("cmp", A, [("in", ("list", [B_])), ("lt", C_)]),
             ("bin", "add", ("cmp", A, [("in", ("list", [B_]))]), C_), ("cmp", A, [("eq", ("cmp", B_, [("notin", ("list", [C_]))]))]),
             ("cmp", ("attr", A, "real"), [("in", ("tuple", []))]),
             ("not", ("cmp", A, [("isnot", B_), ("eq", C_)])), ("not", ("cmp", A, [("in", ("list", [B_])), ("lt", C_)])),
             ("not", ("cmp", A, [("is", B_), ("is", C_)])), ("not", ("cmp", A, [("notin", ("tuple", [B_, C_])), ("ge", D_)]))]
    exprs, seen = [], set()
    for e in hand + [gen(rng, rng.choice([2, 3, 3, 4])) for _ in range(n_rand)]:
        s = src(e)
        if s in seen or len(s) > 300:
            continue
        seen.add(s)
        exprs.append(e)
    import re as _re
    chunk = 150 if quick else 400
    groups = [exprs[i:i + chunk] for i in range(0, len(exprs), chunk)]

    def mkspec(tag, g):
        text, idx = sig_module(g)
        return dict(name="c25_sig%s" % tag, source=text, workdir=os.path.join(ctx.workdir, "sig%s" % tag),
                    directives={"binding": True, "embedsignature": True}, cflags=["-O0"]), (g, idx, text)

    stats = {"rejected": 0, "other": 0, "total": len(exprs)}

    def evaluate(g, idx, text, spec):
        wd = spec["workdir"]
        names = [a for a, *_ in idx]
        r = cybuild.call_cases(wd, [["%s._collect" % spec["name"], [names]]], setup="import %s" % spec["name"], alarm=120)[0]
        # CPython defining the same functions
        with open(os.path.join(wd, "py_%s.py" % spec["name"]), "w") as fh:
            fh.write(text)
        pr = cybuild.run_script("import json, sys\nsrc = open('py_%s.py').read()\ng = {'__name__': 'py_%s'}\n"
                                "exec(compile(src, 'py_%s.py', 'exec'), g)\nprint(g['_collect'](json.load(sys.stdin)))\n"
                                % ((spec["name"],) * 3), wd, stdin_obj=names, name="pydrv.py")
        if "r" not in r or not pr or pr["json"] is None:
            return "collect: %s | %s" % (str(r)[:300], (pr or {}).get("err", "")[-300:])
        cy = json.loads(ast.literal_eval(r["r"]))
        py = json.loads(pr["json"]) if isinstance(pr["json"], str) else pr["json"]
        mres = model.batch(["print %s %s" % (fxp, " ".join(words(g[i]))) for _, i, *_ in idx])
        for (acc, i, pl, ename, equal, head), c, p, m in zip(idx, cy, py, mres):
            e = g[i]
            s = src(e)
            inp = {"default": s, "placement": pl, "function": acc}
            if c is None or p is None:
                if (c is None) != (p is None):
                    # evaluation of the default expression itself differs (operator semantics on C-typed
                    # operands): not a names/signatures question, recorded only
                    ctx.note("default expression evaluates differently (compiled %s, CPython %s): %s"
                             % ("raises" if c is None else "ok", "raises" if p is None else "ok", s))
                ctx.count("sig/raises_at_definition", 1)
                continue
            ctx.case("sig/%s/%s" % (pl, e[0]), inp, sig=(s, pl))
            # --- function attributes vs CPython (binding=True)
            if (c["name"], c["qualname"]) != (p["name"], p["qualname"]) or c["module"] != spec["name"]:
                ctx.fail("function_name_attributes_differ", inp, [c["name"], c["qualname"], c["module"]],
                         [p["name"], p["qualname"], spec["name"]])
            pparams = [tuple(x) for x in p["params"]] if isinstance(p["params"], list) else p["params"]
            cparams = [tuple(x) for x in c["params"]] if isinstance(c["params"], list) else c["params"]
            shape = lambda ps: [(x[0], x[1], x[2] == "<empty>") for x in ps] if isinstance(ps, list) else ps
            if shape(cparams) != shape(pparams):
                ctx.fail("inspect_signature_differs", inp, cparams, pparams)
            elif cparams != pparams or c["defaults"] != p["defaults"] or c["kwdefaults"] != p["kwdefaults"]:
                # the default VALUE differs.  Where the expression has C-typed parts (number/bool literals, not,
                # comparisons, conditional: C arithmetic and type unification, other properties) this is
                # evaluation semantics, recorded only; on pure object expressions it is a violation
                if any(n[0] in ("num", "T", "F", "N", "E", "not", "cmp", "cond", "bool") for n in walk(e)):
                    ctx.note("default value differs through C-typed evaluation: %s -> %s vs %s" % (s, c["defaults"] + c["kwdefaults"], p["defaults"] + p["kwdefaults"]))
                else:
                    ctx.fail("inspect_signature_differs", inp, [cparams, c["defaults"], c["kwdefaults"]],
                             [pparams, p["defaults"], p["kwdefaults"]])
            # inspect.signature must report exactly what the function object holds
            dvals = [x[2] for x in cparams if x[2] != "<empty>"] if isinstance(cparams, list) else []
            held = c["defaults"] + c["kwdefaults"]
            if any(v not in held for v in dvals):
                ctx.fail("inspect_signature_differs", inp, cparams, held)
            # --- embedded signature
            doc = c["doc"] or ""
            first = doc.split("\n\n", 1)[0] if pl == "module" else doc
            if pl == "module":
                exp_rest = inspect.cleandoc(p["doc"])
                if doc.split("\n\n", 1)[1:] != [exp_rest]:
                    ctx.fail("embedded_docstring_body_differs", inp, doc, exp_rest)
            if m.startswith("!ERR"):
                ctx.corr_break("model error", inp, first, m)
                continue
            if pl == "nested":
                # EmbedSignature stores the text on the def's entry, which inner functions do not use:
                # no signature is embedded (nothing to be unfaithful); only the attributes above are judged
                if c["doc"] is not None:
                    ctx.corr_break("nested function got a docstring", inp, c["doc"], None)
                continue
            mtext_cps, mstat, mwf, _ = m.split()
            mtext = "".join(chr(int(x)) for x in mtext_cps.split(",")) if mtext_cps != "-" else ""
            if not first.startswith(head):
                ctx.corr_break("signature head", inp, first, head)
                continue
            tail = {"module": ")", "method": ", *rest)", "cmethod": ", **kw)", "nested": ")", "kwonly": ", q=None)"}[pl]
            if not first.endswith(tail):
                ctx.corr_break("signature tail", inp, first, tail)
                continue
            got = first[len(head):len(first) - len(tail)]
            folded = False
            if got != mtext:
                # ConstantFolding / the parser may have rewritten a tree with constants before the printer saw it
                # ('x'[0], 1 < 2 < a, -0x1f ...): then the printed text still denotes the source expression
                try:
                    folded = (any(is_lit(n) or (n[0] == "cmp" and any(o in ("in", "notin") and x[0] in ("tuple", "list") and not x[1]
                                                                       for o, x in n[2]))
                                  or (n[0] == "bin" and n[1] == "mul" and n[2][0] in ("list", "tuple") and not n[2][1])
                                  for n in walk(e))
                              and norm_dump(got) == norm_dump(s))
                except Exception:
                    folded = False
                if folded:
                    ctx.count("sig/folded_before_printing", 1)
                else:
                    ctx.corr_break("print(%s)" % fxp, inp, got, mtext)
            if mwf != "1":
                ctx.corr_break("generator produced a tree outside wf", inp, got, mwf)
            # oracle 1: the whole first line parses as a def header with the same parameter list
            try:
                strip = lambda t: t.split(".", 1)[1] if pl in ("method", "cmethod") else t
                hdr = ast.parse("def %s: pass" % strip(first)).body[0]
                want = ast.parse("def %s%s%s: pass" % (strip(head), s, tail)).body[0]
                same_params = ([a.arg for a in hdr.args.posonlyargs + hdr.args.args + hdr.args.kwonlyargs] ==
                               [a.arg for a in want.args.posonlyargs + want.args.args + want.args.kwonlyargs]
                               and len(hdr.args.defaults) == len(want.args.defaults)
                               and len(hdr.args.kw_defaults) == len(want.args.kw_defaults))
                same = same_params and norm_dump(got) == norm_dump(s)
                why = "ast differs"
            except SyntaxError as ex:
                same, why = False, "SyntaxError"
            except Exception as ex:   # evaluation trouble in the normaliser
                same, why = False, type(ex).__name__
            if not same:
                klass = classify(e)
                if any(is_placeholder(n) for n in walk(e)):
                    # the placeholder "..." accounts only for the node it stands for: everything around it must
                    # still be printed faithfully, otherwise the failure belongs to the class of the surrounding tree
                    e2 = elide_placeholders(e)
                    try:
                        around_ok = norm_dump(got) == norm_dump(src(e2))
                    except Exception:
                        around_ok = False
                    if around_ok:
                        klass = ("lambda_default_printed_as_ellipsis" if any(n[0] == "lam" for n in walk(e))
                                 else "in_display_test_printed_as_ellipsis")
                    else:
                        klass = classify(e2)
                ctx.fail(klass, inp, got, "text that parses to the same expression as the source default (%s)" % why)
            # the Gallina reader must agree with CPython's parser on the printed text
            if got == mtext and not (FX_PRINT and any(is_placeholder(n) for n in walk(e))):
                lexical = why == "SyntaxError" and classify(e) == "int_literal_attribute_unparenthesised"
                # ("1.real" fails in the tokeniser, below the token list the reader works on: TRUSTED lexical layer)
                if mstat == "OK" and not same and not lexical:
                    ctx.corr_break("reparse says same, ast says different", inp, got, mstat)
                if mstat != "OK" and same and not benign_bool_nesting(e):
                    ctx.corr_break("reparse says different, ast says same", inp, got, mstat)
                if mstat == "OOF":
                    ctx.corr_break("reparse out of fuel", inp, got, mstat)

        return None

    def handle(g, tag, prebuilt=None):
        """build + evaluate one module; expressions Cython rejects statically (C-typed operands of @, indexing a
        bint ...) are dropped by line; a module that trips an unrelated compiler defect (compiler crash, invalid
        C, crash on import) is bisected and the offending chunk (<= 25 expressions) is left out and reported"""
        spec, meta = mkspec(tag, g)
        so, err = prebuilt if prebuilt is not None else cybuild.build_many([spec], jobs=1)[0]
        for _ in range(6):
            if err is None or getattr(err, "stage", "") != "cython-error":
                break
            lines = meta[2].split("\n")
            bad = set()
            for m in _re.finditer(r"\.pyx:(\d+):\d+:", err.detail):
                ln = lines[int(m.group(1)) - 1] if int(m.group(1)) - 1 < len(lines) else ""
                mm = _re.search(r"def [a-z](\d+)\(", ln)
                if mm:
                    bad.add(int(mm.group(1)))
            if not bad:
                break
            stats["rejected"] += len(bad)
            g = [e for i, e in enumerate(g) if i not in bad]
            spec, meta = mkspec(tag, g)
            so, err = cybuild.build_many([spec], jobs=1)[0]
        why = ("build: " + str(err)[:400]) if err is not None else evaluate(meta[0], meta[1], meta[2], spec)
        if why is None:
            return
        if len(g) <= 25:
            stats["other"] += len(g)
            ctx.note("module %s left out (%d expressions, unrelated compiler trouble): %s" % (spec["name"], len(g), why[:300]))
            return
        h = len(g) // 2
        handle(g[:h], tag + "a")
        handle(g[h:], tag + "b")

    first = [mkspec(str(gi), g)[0] for gi, g in enumerate(groups)]
    built = cybuild.build_many(first, jobs=4)
    for gi, g in enumerate(groups):
        handle(g, str(gi), prebuilt=built[gi])
    ctx.extra["expressions_rejected_statically_and_dropped"] = stats["rejected"]
    ctx.extra["expressions_left_out_for_unrelated_compiler_trouble"] = stats["other"]
    if stats["rejected"] + stats["other"] > 0.25 * stats["total"]:
        ctx.corr_break("too many generated modules do not build/run", "sig modules", stats, "at most 25% dropped")
    # ---------------- 3. hand-written functions: attributes vs CPython, binding=True, no embedsignature
    wd = os.path.join(ctx.workdir, "fixed")
    try:
        cybuild.build("c25_fixed", FIXED_SRC, wd, directives={"binding": True}, cflags=["-O0"])
        r = cybuild.call_cases(wd, [["c25_fixed._fixed_collect", []]], setup="import c25_fixed", alarm=60)[0]
        open(os.path.join(wd, "py_fixed.py"), "w").write(FIXED_SRC)
        pr = cybuild.run_script("import json\nimport py_fixed\nprint(py_fixed._fixed_collect())\n", wd, name="pydrv.py")
        cy, py = json.loads(ast.literal_eval(r["r"])), pr["json"]
        for k in sorted(py):
            for attr in ("name", "qualname", "doc", "defaults", "kwdefaults", "params", "annotations"):
                inp = {"function": k, "attribute": attr}
                ctx.case("fixed/%s" % attr, inp, sig=(k, attr))
                cv, pv = cy[k][attr], py[k][attr]
                if isinstance(pv, list):
                    pv, cv = [tuple(x) for x in pv], [tuple(x) for x in cv] if isinstance(cv, list) else cv
                if cv != pv:
                    klass = ("global_declared_nested_def_qualname" if (k in ("gdef", "gin") and attr == "qualname")
                             else "function_attribute_differs")
                    ctx.fail(klass, inp, cv, pv)
            if cy[k]["module"] != "c25_fixed":
                ctx.fail("function_attribute_differs", {"function": k, "attribute": "module"}, cy[k]["module"], "c25_fixed")
    except cybuild.BuildError as ex:
        ctx.corr_break("build c25_fixed", "c25_fixed", str(ex)[:1500], "module builds")

    # ---------------- 4. qualified names of random scope forests
    nforest = 12 if quick else 120
    forests = []
    for _ in range(nforest):
        counter = [0]
        forests.append([gen_scope(rng, rng.choice([2, 3, 3, 4]), counter, None) for _ in range(rng.choice([1, 2, 3]))])
    for fi, forest in enumerate(forests):
        for s in forest:
            for n in scope_ids(s):
                n["name"] = n["name"] + "_%d" % fi
                n["id"] = fi * 1000 + n["id"]
    text = QUAL_HEAD
    for forest in forests:
        for s in forest:
            text += "\n".join(scope_src(s, 0)) + "\n"
    text += "def _all():\n    import json\n    return json.dumps(_R)\n"
    wd = os.path.join(ctx.workdir, "qual")
    try:
        cybuild.build("c25_qual", text, wd, directives={"binding": True}, cflags=["-O0"])
    except cybuild.BuildError as ex:
        ctx.corr_break("build c25_qual", "c25_qual", str(ex)[:1500], "module builds")
        return
    r = cybuild.call_cases(wd, [["c25_qual._all", []]], setup="import c25_qual", alarm=60)[0]
    open(os.path.join(wd, "py_qual.py"), "w").write(text)
    pr = cybuild.run_script("import py_qual\nprint(py_qual._all())\n", wd, name="pydrv.py")
    if "r" not in r or pr["json"] is None:
        ctx.corr_break("collect c25_qual", "c25_qual", str(r)[:800], pr["err"][-800:])
        return
    cy = {int(k): v for k, v in json.loads(ast.literal_eval(r["r"])).items()}
    py = {int(k): v for k, v in pr["json"].items()}
    mres = model.batch(["qual %s %d %s" % (fxq, len(f), " ".join(w for s in f for w in scope_words(s))) for f in forests])
    for forest, m in zip(forests, mres):
        if m.startswith("!ERR"):
            ctx.corr_break("qual model error", "forest", "", m)
            continue
        mcy, mrule = [x.split(";") for x in m.split()]
        nodes = [n for s in forest for n in scope_ids(s)]
        parents = {}
        for n in nodes:
            for c in n["ch"]:
                parents[c["id"]] = n
        for n, qc, qr in zip(nodes, mcy, mrule):
            inp = {"scope": n["name"], "kind": n["k"], "global": n["glob"],
                   "parent": parents[n["id"]]["name"] if n["id"] in parents else None}
            ctx.case("qualname/%s/%s" % (n["k"], "global" if n["glob"] else "plain"), inp, sig=n["id"])
            got, want = cy.get(n["id"]), py.get(n["id"])
            if got is None or want is None:
                ctx.corr_break("scope not registered", inp, got, want)
                continue
            if got[0] != qc:
                ctx.corr_break("qualname(%s)" % fxq, inp, got[0], qc)
            if want[0] != qr:
                ctx.corr_break("language rule vs CPython", inp, want[0], qr)
            if got[0] != want[0]:
                under_glob_def = False
                p = n
                while p is not None:
                    if p["k"] == "F" and p["glob"]:
                        under_glob_def = True
                    p = parents.get(p["id"])
                ctx.fail("global_declared_nested_def_qualname" if under_glob_def else "qualname_differs", inp, got[0], want[0])
            if n["k"] != "L" and (got[1] != want[1] or got[2] != "c25_qual"):
                ctx.fail("function_name_attributes_differ", inp, got[1:], [want[1], "c25_qual"])
