"""C24 - Argument binding matches CPython for every signature and call (DESIGN 7/C24)."""
import json, os, re
import cybuild

TITLE = "Argument binding matches CPython for every signature and call"
EXTRACTS = ["ArgBind"]
RULE = ("generated signatures (hand-picked shapes + PRNG: up to 4 [quick] / 6 [thorough] parameters of each kind "
        "(positional-only, positional-or-keyword, keyword-only, each with/without defaults), *args, **kwargs used/unused) "
        "x call shapes (number of positionals 0..max+2; keyword subsets over declared, positional-only, already-filled and "
        "unknown names) x key kinds (interned, runtime-built equal str, str subclass, non-str) x call styles (f(*a, **d), "
        "literal keywords, functools.partial) x call paths (def, Python-class bound method, cdef-class method, cpdef, "
        "tp_init/tp_call special methods); a case is distinct by (build, target, positional count, keyword list with kinds, "
        "style); non-trivial = at least one parameter bound or one TypeError branch taken")
EXPLANATION = ("theorems (all signatures, all calls with pairwise distinct keys, abstract values): the model of the generated "
               "wrapper (switch on the positional count, ParseKeywords, required-argument loops, star-arg copy code, "
               "METH_NOARGS/METH_O entry points) binds exactly as CPython's initialize_locals - same value or default per "
               "parameter, same *args tuple, same **kwargs content and order - or both raise TypeError; the kwnames-tuple "
               "loop and CPython's loop are each proved equal to one reference loop including the error kind; the "
               "distinct-keys hypothesis is shown necessary. Correspondence: compiled functions vs the same-signature "
               "pure-Python functions under CPython (property oracle) vs the extracted model (tie: bound values and WHICH "
               "error the generated code raises; bind_py's error kind is also tied to CPython's message). "
               "both kwds-dict loops are proved equal to the reference loop up to the error kind: __Pyx_ParseKeywordDictToDict "
               "(pop-loop characterisation + exact duplicate test) and __Pyx_ParseKeywordDict (its counting early exit "
               "'extracted < nkw' by a pigeonhole argument: distinct names hit by keys are at most as many as the keys, and "
               "exactly as many iff every key matches a name at or after 'first'); hence C24_bind_eq, the FULL statement for "
               "all four conventions with no obligation left. partial only in what is modelled: the call-path plumbing of CythonFunction.c/CPython (vectorcall -> wrapper, functools.partial, "
               "method binding) is only tested.")
TRUSTED = ["CPython's callers hand a vectorcall callee a kwnames tuple of pairwise distinct str keys (PEP 590; "
           "_PyStack_UnpackDict raises TypeError for non-str keys) and dict keys are pairwise distinct",
           "str-subclass keys use str's __eq__/__hash__",
           "bind_py is a transcription of Python/ceval.c initialize_locals (3.12); tied to CPython by the run",
           "gcc as a conforming C compiler for the generated module"]
ASSUMPTIONS = ["CPython 3.12, CYTHON_VECTORCALL default and =0", "object-typed parameters (no C type conversion)"]

NAMES = {}
for _i, _n in enumerate(["self", "pa", "pb", "pc", "pd", "pe", "pf", "qa", "qb", "qc", "qd", "qe", "qf",
                         "ka", "kb", "kc", "kd", "ke", "kf", "za", "zb", "args", "kw"]):
    NAMES[_n] = _i
PO = ["pa", "pb", "pc", "pd", "pe", "pf"]
PK = ["qa", "qb", "qc", "qd", "qe", "qf"]
KO = ["ka", "kb", "kc", "kd", "ke", "kf"]


def defval(name):
    return -1000 - NAMES[name]


def mk_sig(npo, npk, ndef, star, ko_flags, ss, used=True):
    """ndef trailing positional defaults; ko_flags: list of has-default flags"""
    names = PO[:npo] + PK[:npk]
    n = len(names)
    flags = [i >= n - ndef for i in range(n)]
    return dict(po=list(zip(names[:npo], flags[:npo])), pk=list(zip(names[npo:], flags[npo:])), star=star,
                ko=list(zip(KO[:len(ko_flags)], ko_flags)), ss=ss, used=(used if ss else False))


CORE = [
    mk_sig(0, 0, 0, False, [], False), mk_sig(0, 1, 0, False, [], False), mk_sig(0, 1, 1, False, [], False),
    mk_sig(0, 2, 0, False, [], False), mk_sig(0, 3, 2, False, [], False), mk_sig(1, 0, 0, False, [], False),
    mk_sig(2, 0, 1, False, [], False), mk_sig(1, 2, 1, False, [], False), mk_sig(2, 2, 3, False, [], False),
    mk_sig(0, 0, 0, True, [], False), mk_sig(0, 0, 0, False, [], True), mk_sig(0, 0, 0, True, [], True),
    mk_sig(0, 0, 0, False, [], True, used=False), mk_sig(0, 0, 0, True, [False], False),
    mk_sig(0, 0, 0, True, [True, False], True), mk_sig(0, 0, 0, True, [False, True], True, used=False),
    mk_sig(0, 2, 1, True, [], False), mk_sig(0, 2, 0, False, [False], False), mk_sig(0, 2, 1, False, [True, False], False),
    mk_sig(0, 1, 0, False, [], True), mk_sig(0, 2, 1, False, [], True, used=False), mk_sig(1, 0, 0, False, [], True),
    mk_sig(2, 0, 1, False, [], True), mk_sig(1, 1, 0, True, [False, True], True), mk_sig(2, 2, 2, True, [True, False, True], True),
    mk_sig(1, 2, 1, True, [False], True, used=False), mk_sig(0, 0, 0, False, [False, True], False),
    mk_sig(0, 0, 0, False, [True], True), mk_sig(3, 1, 4, False, [True], False), mk_sig(0, 4, 2, True, [False, False], False),
]


def gen_sigs(rng, quick):
    sigs = list(CORE)
    mk = 4 if quick else 6
    seen = {json.dumps(s, sort_keys=True) for s in sigs}
    want = 36 if quick else 150
    while len(sigs) < want:
        npo = rng.choice([0, 0, 1, 2, rng.randrange(mk + 1)])
        npk = rng.choice([0, 1, 2, 3, rng.randrange(mk + 1)])
        ndef = rng.randrange(npo + npk + 1)
        nko = rng.choice([0, 0, 1, 2, rng.randrange(mk + 1)])
        s = mk_sig(npo, npk, ndef, rng.random() < 0.4, [rng.random() < 0.5 for _ in range(nko)],
                   rng.random() < 0.45, used=rng.random() < 0.7)
        k = json.dumps(s, sort_keys=True)
        if k not in seen:
            seen.add(k); sigs.append(s)
    return sigs


def sig_text(s, self_first=False):
    parts = ["self"] if self_first else []
    parts += ["%s=%d" % (n, defval(n)) if d else n for n, d in s["po"]]
    if s["po"]:
        parts.append("/")
    parts += ["%s=%d" % (n, defval(n)) if d else n for n, d in s["pk"]]
    if s["star"]:
        parts.append("*args")
    elif s["ko"]:
        parts.append("*")
    parts += ["%s=%d" % (n, defval(n)) if d else n for n, d in s["ko"]]
    if s["ss"]:
        parts.append("**kw")
    return ", ".join(parts)


def ret_text(s):
    names = [n for n, _ in s["po"] + s["pk"] + s["ko"]]
    return "((%s), %s, %s)" % ("".join(n + ", " for n in names), "args" if s["star"] else "None",
                                "kw" if s["ss"] and s["used"] else "None")


def cpdef_ok(s):
    return not s["po"] and not s["star"] and not s["ss"] and not s["ko"] and len(s["pk"]) >= 1


def gen_module(sigs, targets, cy):
    """source text; cy=False gives the pure-Python twin (same signatures)."""
    L = ["# cython: language_level=3, auto_pickle=False" if cy else "# pure-Python twin", ""]
    for i, s in enumerate(sigs):
        t = targets[i]
        if "f" in t:
            L += ["def f%d(%s):" % (i, sig_text(s)), "    return " + ret_text(s), ""]
        if "cp" in t:
            L += ["%s cp%d(%s):" % ("cpdef" if cy else "def", i, sig_text(s)), "    return " + ret_text(s), ""]
    L += ["class PM:"]
    for i, s in enumerate(sigs):
        if "pm" in targets[i]:
            L += ["    def pm%d(%s):" % (i, sig_text(s, True)), "        return " + ret_text(s)]
    L += ["    def zz_unused(self): pass", ""]
    L += ["cdef class CM:" if cy else "class CM:"]
    for i, s in enumerate(sigs):
        if "cm" in targets[i]:
            L += ["    def cm%d(%s):" % (i, sig_text(s, True)), "        return " + ret_text(s)]
    L += ["    def zz_unused(self): pass", ""]
    for i, s in enumerate(sigs):
        if "ci" in targets[i]:
            L += ["cdef class CI%d:" % i if cy else "class CI%d:" % i]
            if cy:
                L += ["    cdef public object r"]
            L += ["    def __init__(%s):" % sig_text(s, True), "        self.r = " + ret_text(s), ""]
        if "cc" in targets[i]:
            L += ["cdef class CC%d:" % i if cy else "class CC%d:" % i,
                  "    def __call__(%s):" % sig_text(s, True), "        return " + ret_text(s), ""]
    return "\n".join(L) + "\n"


DRIVER = r'''
import sys, json, functools, importlib
spec = json.load(sys.stdin)
class S(str):
    pass
NONSTR = {"n1": 1, "nb": b"qa", "nt": ("qa",), "nn": None, "nf": 2.5}
def mkkey(name, kind):
    if kind == "I":
        return sys.intern(name)
    if kind == "E":
        k = "".join([name[:1], name[1:]])
        assert k is not sys.intern(name) or len(name) < 2
        return k
    if kind == "S":
        return S(name)
    return NONSTR[name]
def target(mod, t):
    kind = t.rstrip("0123456789")
    if kind in ("f", "cp"):
        return getattr(mod, t)
    if kind == "pm":
        return getattr(mod.PM(), t)
    if kind == "cm":
        return getattr(mod.CM(), t)
    if kind == "ci":
        cls = getattr(mod, "CI" + t[2:])
        return lambda *a, **k: cls(*a, **k).r
    if kind == "cc":
        return getattr(mod, "CC" + t[2:])()
    raise KeyError(t)
LAM = {}
def docall(fn, args, keys, vals, style):
    if style == "ex":
        return fn(*args, **dict(zip(keys, vals)))
    if style == "kw":
        src = "lambda fn, a, v: fn(*a, %s)" % ", ".join("%s=v[%d]" % (k, j) for j, k in enumerate(keys))
        lam = LAM.get(src)
        if lam is None:
            lam = LAM[src] = eval(src)
        return lam(fn, args, vals)
    if style == "partial":
        h = len(args) // 2
        g = (len(keys) + 1) // 2
        p = functools.partial(fn, *args[:h], **dict(zip(keys[:g], vals[:g])))
        return p(*args[h:], **dict(zip(keys[g:], vals[g:])))
    if style == "exdict":     # a dict subclass / mapping source for **
        import collections
        return fn(*args, **collections.OrderedDict(zip(keys, vals)))
    raise KeyError(style)
def enc(res, keys):
    ps, st, kw = res
    out = {"p": list(ps), "s": None if st is None else list(st), "k": None}
    if kw is not None:
        if type(kw) is not dict:
            return {"bad": "kwargs type %s" % type(kw).__name__}
        items = []
        for k, v in kw.items():
            idx = [j for j, k0 in enumerate(keys) if k0 is k]
            items.append([idx[0] if idx else -1, v])
        out["k"] = items
    if st is not None and type(st) is not tuple:
        return {"bad": "star type %s" % type(st).__name__}
    return out
def run(mod, c):
    t, base, npos, kws, style = c
    try:
        fn = target(mod, t)
    except Exception as e:
        return {"harness": repr(e)}
    args = tuple(base + i for i in range(npos))
    keys = [mkkey(n, k) for n, k, _ in kws]
    vals = [v for _, _, v in kws]
    try:
        r = docall(fn, args, keys, vals, style)
    except BaseException as e:
        return {"e": type(e).__name__, "m": str(e)[:200]}
    try:
        return enc(r, keys)
    except Exception as e:
        return {"bad": repr(e)}
cy = importlib.import_module(spec["cy"])
py = importlib.import_module(spec["py"])
for i, c in enumerate(spec["cases"]):
    if i < spec.get("start", 0):
        continue
    print(json.dumps({"b": i}), flush=True)
    print(json.dumps({"i": i, "r": [run(cy, c), run(py, c)]}), flush=True)
print(json.dumps({"done": 1}), flush=True)
'''


def run_driver(ctx, modname, cases):
    """one result pair per case; a crash of the interpreter is an observed outcome of the case that had begun"""
    results = [None] * len(cases)
    start = 0
    crashes = 0
    while start < len(cases):
        res = cybuild.run_script(DRIVER, ctx.workdir, {"cy": modname, "py": modname + "_py", "cases": cases, "start": start},
                                 timeout=900, name="drv_%s.py" % modname)
        begun = None
        done = False
        for line in (res["out"] or "").splitlines():
            try:
                d = json.loads(line)
            except Exception:
                continue
            if "b" in d:
                begun = d["b"]
            elif "i" in d:
                results[d["i"]] = d["r"]; begun = None
            elif "done" in d:
                done = True
        if done:
            break
        if begun is None:
            return None, (res["err"] or res["out"])[-1500:]
        results[begun] = [{"e": "CRASH", "m": "interpreter died rc=%s" % res["rc"]}, {"e": "SKIPPED", "m": ""}]
        crashes += 1
        start = begun + 1
        if crashes > 25:
            for i in range(start, len(cases)):
                results[i] = [{"e": "CRASH", "m": "too many crashes"}, {"e": "SKIPPED", "m": ""}]
            break
    return results, None



def cy_kind(msg):
    for pat, k in [("positional argument", "ArgTuple"), ("multiple values", "Multiple"),
                   ("unexpected keyword", "Unexpected"), ("keywords must be strings", "NonStr"),
                   ("needs keyword-only argument", "KwRequired"), ("takes no arguments", "NoArgs"),
                   ("takes exactly one argument", "ArgTuple"),
                   ("takes no keyword arguments", "NoArgs")]:
        if pat in msg:
            return k
    return "?" + msg[:60]


def py_kind(msg):
    for pat, k in [("required positional argument", "MissingPos"), ("required keyword-only", "MissingKw"),
                   ("positional argument", "TooMany"), ("multiple values", "Multiple"),
                   ("unexpected keyword", "Unexpected"), ("positional-only arguments passed as keyword", "Unexpected"),
                   ("keywords must be strings", "NonStr")]:
        if pat in msg:
            return k
    return "?" + msg[:60]


def model_sig(s, kind):
    """model signature words; a Python-class method has 'self' as an ordinary leading parameter"""
    po = list(s["po"]); pk = list(s["pk"])
    if kind == "pm":
        if po:
            po = [("self", False)] + po
        else:
            pk = [("self", False)] + pk
    f = lambda l: ",".join("%d:%d" % (NAMES[n], d) for n, d in l) or "-"
    return "%s %s %d %s %d %d" % (f(po), f(pk), s["star"], f(s["ko"]), s["ss"], s["used"])


def gen_calls(s, rng, n_random, kind):
    """call shapes for one signature: list of (npos, [(name, kind, value)], style)"""
    po = [n for n, _ in s["po"]]; pk = [n for n, _ in s["pk"]]; ko = [n for n, _ in s["ko"]]
    maxpos = len(po) + len(pk)
    shapes = []
    tops = maxpos + (3 if s["star"] else 2)
    for npos in range(tops):
        shapes.append((npos, [], "ex"))
    allkw = pk + ko
    # everything by keyword, interned and not
    for kd in "IES":
        shapes.append((len(po), [(n, kd) for n in allkw], "ex"))
        shapes.append((0, [(n, kd) for n in allkw], "ex"))
    shapes.append((len(po), [(n, "I") for n in reversed(allkw)], "kw"))
    pool = allkw + po + ["za", "zb"] + (["self"] if kind == "pm" else [])
    for _ in range(n_random):
        npos = rng.randrange(tops)
        r = rng.random()
        if r < 0.25:
            cand = [n for n in pk[max(0, npos - len(po)):] + ko]      # plausible: only unfilled names
            ks = [n for n in cand if rng.random() < 0.7]
        else:
            ks = [n for n in pool if rng.random() < (0.5 if n in allkw else 0.15)]
        rng.shuffle(ks)
        mode = rng.random()
        if mode < 0.3:
            kws = [(n, "I") for n in ks]
        else:
            kws = [(n, rng.choice("IIEES")) for n in ks]
        if rng.random() < 0.08:
            kws.insert(rng.randrange(len(kws) + 1), (rng.choice(["n1", "nb", "nt", "nn", "nf"]), "N"))
        allI = all(k == "I" for _, k in kws)
        style = rng.choice(["ex", "ex", "kw", "partial"] if allI and kws else ["ex", "ex", "ex", "partial", "exdict"])
        shapes.append((npos, kws, style))
    out = []
    seen = set()
    for npos, kws, style in shapes:
        kws = [(n, k, 200 + j) for j, (n, k) in enumerate(kws)]
        key = (npos, tuple(kws), style)
        if key not in seen:
            seen.add(key); out.append((npos, kws, style))
    return out


def model_kws(kws):
    nid = {"n1": 101, "nb": 102, "nt": 103, "nn": 104, "nf": 105}
    return ",".join("%d:%s:%d" % (nid[n] if k == "N" else NAMES[n], k, v) for n, k, v in kws) or "-"


def parse_model(line, drop_self):
    """-> ('B', params list, star, kw) or ('E', kind)"""
    w = line.split()
    if w[0] == "E":
        return ("E", w[1])
    ps = []
    if w[1] != "-":
        for it in w[1].split(","):
            n, a = it.split("=")
            ps.append((int(n), a))
    if drop_self:
        assert ps and ps[0][0] == NAMES["self"], line
        if ps[0][1] != "G100":
            return ("E", "self-not-bound:" + ps[0][1])
        ps = ps[1:]
    vals = [(int(a[1:]) if a[0] == "G" else (-1000 - n if a == "D" else "UNBOUND")) for n, a in ps]
    st = None if w[2] == "none" else ([] if w[2] == "S-" else [int(x) for x in w[2][1:].split(",")])
    kw = None if w[3] == "none" else ([] if w[3] == "K-" else
                                      [[int(x.split("=")[1]) - 200, int(x.split("=")[1])] for x in w[3][1:].split(",")])
    return ("B", vals, st, kw)


def canon_impl(r, kindf):
    if "e" in r:
        return ("E", r["e"], kindf(r.get("m", "")))
    if "bad" in r or "harness" in r:
        return ("X", json.dumps(r))
    return ("B", r["p"], r["s"], r["k"])


def meth_flags(c_text):
    """PyMethodDef name -> 'T' | 'D' | 'N' from the generated C"""
    out = {}
    for m in re.finditer(r'\{"(\w+)", \(PyCFunction\)[^\n]*?, ((?:__Pyx_)?METH_[A-Z_|]+), ', c_text):
        fl = m.group(2)
        out[m.group(1)] = "N" if "NOARGS" in fl else ("T" if "FASTCALL" in fl else ("O" if fl == "METH_O" else "D"))
    return out


def features(s, kind, npos, kws):
    po = [n for n, _ in s["po"]]; pk = [n for n, _ in s["pk"]]; ko = [n for n, _ in s["ko"]]
    f = []
    names = [n for n, _, _ in kws]
    if any(k == "N" for _, k, _ in kws): f.append("nonstr")
    if npos > len(po) + len(pk): f.append("excess_pos")
    if any(n in pk[:max(0, npos - len(po))] for n in names): f.append("kw_for_filled")
    if any(n in po for n in names): f.append("kw_for_posonly")
    if any(n in ("za", "zb", "self") for n in names): f.append("unknown_kw")
    if any(k == "S" for _, k, _ in kws): f.append("strsub")
    if any(k == "E" for _, k, _ in kws): f.append("noninterned")
    if kws and not f: f.append("kw")
    if not kws: f.append("pos_only_call")
    return f


def classify(s, kind, pathc, npos, kws):
    return "%s_%s_%s" % (kind, pathc, features(s, kind, npos, kws)[0])


BUILDS = {
    "default": dict(),
    "novec": dict(macros=["CYTHON_VECTORCALL=0"]),
    "noaak": dict(directives={"always_allow_keywords": False}),
}


def targets_for(sigs, quick):
    ts = []
    rot = ["pm", "cm", "ci", "cc"]
    for i, s in enumerate(sigs):
        t = ["f"]
        if quick:
            t += [rot[(i + i // 4) % 4]]
        else:
            t += rot
        if cpdef_ok(s):
            t.append("cp")
        ts.append(sorted(set(t)))
    return ts


def run_build(ctx, bname, sigs, targets, n_random, nchunks):
    quick = ctx.tier == "quick"
    bopt = BUILDS[bname]
    chunks = [list(range(len(sigs)))[i::nchunks] for i in range(nchunks)]
    specs = []
    for ci, idxs in enumerate(chunks):
        sub = [sigs[i] for i in idxs]; subt = [targets[i] for i in idxs]
        name = "c24_%s_%d" % (bname, ci)
        specs.append(dict(name=name, source=gen_module(sub, subt, True), workdir=ctx.workdir,
                          cflags=["-O0"] if quick else ["-O1"], **bopt))
        with open(os.path.join(ctx.workdir, name + "_py.py"), "w") as f:
            f.write(gen_module(sub, subt, False))
    built = cybuild.build_many(specs, jobs=min(8, nchunks))
    model = ctx.model("argbind")
    for ci, ((so, err), sp) in enumerate(zip(built, specs)):
        if err is not None:
            ctx.corr_break("build " + sp["name"], sp["name"], str(err)[:1500], "module builds")
            continue
        flags = meth_flags(open(os.path.join(ctx.workdir, sp["name"] + ".c")).read())
        idxs = chunks[ci]
        cases = []; meta = []
        for li, gi in enumerate(idxs):
            s = sigs[gi]
            for kind in targets[gi]:
                t = "%s%d" % (kind, li)
                calls = gen_calls(s, ctx.rng, n_random if kind == "f" else max(6, n_random // 3), kind)
                if kind in ("ci", "cc"):
                    pathc = "D"
                else:
                    pathc = flags.get(t)
                    if pathc is None:
                        ctx.corr_break("methoddef", t, "no PyMethodDef found in C", "PyMethodDef entry")
                        continue
                if bname == "novec" and pathc == "T":
                    pathc = "D"
                single_po = (len(s["po"]) == 1 and not s["po"][0][1] and not s["pk"] and not s["ko"]
                             and not s["star"] and not s["ss"] and kind != "pm")
                if pathc == "O" and not single_po:
                    pathc = "T"    # METH_O by directive (always_allow_keywords=False): positional calls only, below
                nparams = len(s["po"]) + len(s["pk"]) + len(s["ko"])
                for npos, kws, style in calls:
                    if bname == "noaak" and kind in ("f", "pm", "cm", "cp") and kws \
                            and nparams <= 1 and not s["star"] and not s["ss"]:
                        continue   # METH_O/METH_NOARGS by directive: keywords documented as rejected
                    base = 101 if kind == "pm" else 100
                    cases.append([t, base, npos, kws, style])
                    meta.append((gi, kind, pathc))
        results, derr = run_driver(ctx, sp["name"], cases)
        if results is None:
            ctx.corr_break("driver " + sp["name"], sp["name"], derr, "driver output")
            continue
        mq = []
        for c, (gi, kind, pathc) in zip(cases, meta):
            t, base, npos, kws, style = c
            pc = pathc
            sg = model_sig(sigs[gi], kind)
            np_ = npos + (1 if kind == "pm" else 0)
            # callee entered through CPython's vectorcall machinery (which rejects non-str keys itself): everything
            # except a CyFunction without vectorcall slot (METH_VARARGS / CYTHON_VECTORCALL=0) and tp_call instances
            vc = 0 if (kind == "cc" or (kind in ("f", "cp") and (pathc == "D" or bname == "novec"))) else 1
            mq.append("call%d %s %s %d %s" % (vc, pc, sg, np_, model_kws(kws)))
            mq.append("callpy %s %s %d %s" % (pc, sg, np_, model_kws(kws)))
        mres = model.batch(mq)
        for j, (c, (gi, kind, pathc), (rc, rp)) in enumerate(zip(cases, meta, results)):
            t, base, npos, kws, style = c
            s = sigs[gi]
            inp = {"build": bname, "sig": s, "kind": kind, "path": pathc, "npos": npos, "kws": kws, "style": style}
            mc_line, mp_line = mres[2 * j], mres[2 * j + 1]
            if mc_line.startswith("!") or "!wf" in mc_line:
                ctx.corr_break("model-input", inp, "n/a", mc_line)
                continue
            # METH_NOARGS wrappers of zero-parameter methods behave as the NOARGS branch of the model
            mc = parse_model(mc_line, kind == "pm")
            mp = parse_model(mp_line, kind == "pm")
            if s["ss"] and not s["used"]:      # the body does not read kwargs: not observable (erase)
                mc = mc[:3] + (None,) if mc[0] == "B" else mc
                mp = mp[:3] + (None,) if mp[0] == "B" else mp
            ic = canon_impl(rc, cy_kind)
            ip = canon_impl(rp, py_kind)
            feats = features(s, kind, npos, kws)
            stratum = "%s/%s/%s/%s/%s" % (bname, kind, pathc, style, mc[1] if mc[0] == "E" else "bound")
            ctx.case(stratum, inp, sig=(bname, json.dumps(s, sort_keys=True), kind, npos, json.dumps(kws), style))
            if ic[0] == "E" and ic[1] == "CRASH":
                ctx.fail(classify(s, kind, pathc, npos, kws), inp, ic, mp, note="interpreter crashed in the compiled call")
                continue
            # (1) oracle model vs CPython (ties bind_py to the interpreter)
            if ip[0] == "X" or ip[0] != mp[0] or (ip[0] == "B" and tuple(ip[1:]) != tuple(mp[1:])) or \
                    (ip[0] == "E" and (ip[1] != "TypeError" or not kinds_agree(ip[2], mp[1], style, kws))):
                ctx.corr_break("bind_py vs CPython", inp, ip, mp)
            # (2) implementation vs property oracle
            ok = (ic[0] == "B" and ip[0] == "B" and tuple(ic[1:]) == tuple(ip[1:])) or \
                 (ic[0] == "E" and ip[0] == "E" and ic[1] == "TypeError" and ip[1] == "TypeError")
            if not ok:
                ctx.fail(classify(s, kind, pathc, npos, kws), inp, ic, ip, note="model: %s" % mc_line)
            # (3) implementation vs model of the generated code (values and WHICH error)
            same = (ic[0] == mc[0] == "B" and tuple(ic[1:]) == tuple(mc[1:])) or \
                   (ic[0] == mc[0] == "E" and ic[1] == "TypeError" and kinds_agree(ic[2], mc[1], style, kws, pathc))
            if not same:
                ctx.corr_break("bind_cy vs compiled", inp, ic, mc)


def kinds_agree(impl_kind, model_kind, style, kws, pathc=""):
    if impl_kind == model_kind:
        return True
    if pathc == "O" and {impl_kind, model_kind} <= {"ArgTuple", "NoArgs"}:
        return True      # METH_O: CPython's method descriptors test the count first, CyFunction the keywords
    # functools.partial is itself a vectorcall callee: its caller rejects non-str keys first
    return style == "partial" and impl_kind == "NonStr" and any(k == "N" for _, k, _ in kws)


def run(ctx):
    quick = ctx.tier == "quick"
    sigs = gen_sigs(ctx.rng, quick)
    targets = targets_for(sigs, quick)
    run_build(ctx, "default", sigs, targets, 22 if quick else 60, 4 if quick else 12)
    if not quick:
        run_build(ctx, "novec", sigs, targets, 40, 10)
        run_build(ctx, "noaak", sigs, targets, 25, 10)
    else:
        # a slice of the dict-only build also in the quick tier
        sub = [sigs[i] for i in (4, 8, 13, 14, 18, 20, 23, 24, 28, 29)]
        run_build(ctx, "novec", sub, [["f"], ["cm"]] * (len(sub) // 2), 18, 2)
    ctx.extra["signatures"] = len(sigs)


def replay(ctx, obj):
    inp = obj["input"]
    s = inp["sig"]; kind = inp["kind"]
    bname = inp.get("build", "default")
    name = "c24_replay"
    cybuild.build(name, gen_module([s], [[kind]], True), ctx.workdir, **BUILDS[bname])
    with open(os.path.join(ctx.workdir, name + "_py.py"), "w") as f:
        f.write(gen_module([s], [[kind]], False))
    base = 101 if kind == "pm" else 100
    case = ["%s0" % kind, base, inp["npos"], inp["kws"], inp["style"]]
    results, derr = run_driver(ctx, name, [case])
    print("replayed:", json.dumps(inp), "->", results or derr, "expected", obj.get("expected"))
