"""C26 — global and builtin lookups always see the current binding (DESIGN 7/C26)."""
import os, json
import cybuild

TITLE = "Global and builtin lookups always see the current binding"
EXTRACTS = ["GlobalCache"]
RULE = ("histories (length <= 10 quick, <= 14 thorough) over {assign / delete a module global from inside and outside the "
        "module, shadow / restore a builtin through the module namespace, mutate the builtins module, read a name at one "
        "of two call sites}; each history replayed on the compiled module (default build, forced dict-version cache build, "
        "cache_builtins=False build), on CPython executing the same source, and on the extracted model; distinct by history")
EXPLANATION = ("theorems: for every history the version-cached lookup equals the plain lookup and both return the binding "
               "current at each read (module dict, then builtins, else NameError), by the invariant 'cache version = dict "
               "version -> cached value = dict entry'. On CPython 3.12 CYTHON_USE_DICT_VERSIONS defaults to 0, so the default "
               "build contains only the plain lookup; the cache code is exercised by a build with -DCYTHON_USE_DICT_VERSIONS=1.")
TRUSTED = ["CPython's ma_version_tag contract (every mutation gives the dict a tag no dict had before), part of the dict model",
           "CPython executing the same module source as the oracle"]
ASSUMPTIONS = ["builtins named in the source without any assignment are bound at import when cache_builtins=True (documented)"]

NAMES = ["ga", "gb", "len", "abs", "zork"]
SRC_LINES = ["# cython: language_level=3"]
for n in ["ga", "gb", "len", "abs"]:
    SRC_LINES += ["def set_%s(v):" % n, "    global %s" % n, "    %s = v" % n,
                  "def del_%s():" % n, "    global %s" % n, "    del %s" % n]
for n in NAMES:
    SRC_LINES += ["def read_%s():" % n, "    return %s" % n, "def read2_%s():" % n, "    x = %s" % n, "    return x"]
SRC = "\n".join(SRC_LINES) + "\n"
SRC_NOCACHE = SRC + "def read_max():\n    return max\ndef read2_max():\n    x = max\n    return x\n"

DRIVER = r'''
import sys, json, builtins, types, importlib
spec = json.load(sys.stdin)
kind = spec["kind"]
out = []
orig = {n: getattr(builtins, n) for n in ("len", "abs", "max")}
def canon(v):
    for n, f in orig.items():
        if v is f:
            return "builtin:" + n
    return v
for hist in spec["histories"]:
    # fresh module per history
    if kind == "cpython":
        mod = types.ModuleType("m"); exec(compile(spec["src"], "m.py", "exec"), mod.__dict__)
    else:
        for k in list(sys.modules):
            if k == spec["modname"]:
                del sys.modules[k]
        mod = importlib.import_module(spec["modname"])
        # a C extension module is a singleton: reset the names we use
        for n in ("ga", "gb", "len", "abs", "zork", "max"):
            mod.__dict__.pop(n, None)
    for n in ("ga", "gb", "zork"):
        if hasattr(builtins, n): delattr(builtins, n)
    for n, f in orig.items():
        setattr(builtins, n, f)
    res = []
    for op in hist:
        try:
            if op[0] == "set_in":   getattr(mod, "set_" + op[1])(op[2])
            elif op[0] == "del_in":
                try: getattr(mod, "del_" + op[1])()
                except (NameError, AttributeError): pass   # (compiled code raises AttributeError here: noted for C01)
            elif op[0] == "set_out": setattr(mod, op[1], op[2])
            elif op[0] == "del_out": mod.__dict__.pop(op[1], None)
            elif op[0] == "set_b":  setattr(builtins, op[1], op[2])
            elif op[0] == "del_b":
                if hasattr(builtins, op[1]): delattr(builtins, op[1])
            elif op[0] == "read":
                try: res.append(canon(getattr(mod, ("read_" if op[2] == 0 else "read2_") + op[1])()))
                except NameError: res.append("NameError")
        except Exception as e:
            res.append("EXC:" + type(e).__name__)
    for n in ("ga", "gb", "zork"):
        if hasattr(builtins, n): delattr(builtins, n)
    for n, f in orig.items():
        setattr(builtins, n, f)
    out.append(res)
print(json.dumps(out))
'''


def gen_history(rng, length, names, allow_builtin_module):
    h = []
    v = 100
    for _ in range(length):
        n = rng.choice(names)
        r = rng.random()
        v += 1
        if r < 0.40:
            h.append(["read", n, rng.randrange(2)])
        elif r < 0.55 and n != "zork" and n != "max":
            h.append(["set_in", n, v])
        elif r < 0.65 and n != "zork" and n != "max":
            h.append(["del_in", n])
        elif r < 0.75:
            h.append(["set_out", n, v])
        elif r < 0.85:
            h.append(["del_out", n])
        elif allow_builtin_module and r < 0.93:
            h.append(["set_b", n, v])
        elif allow_builtin_module:
            h.append(["del_b", n])
        else:
            h.append(["read", n, rng.randrange(2)])
    # always end with reads of every name at both sites
    for n in names:
        h.append(["read", n, 0]); h.append(["read", n, 1])
    return h


def to_model(hist, names):
    """model line: names -> ints, call sites: 2 per name; builtins len/abs/max preset"""
    idx = {n: i + 1 for i, n in enumerate(names)}
    nm = ",".join("%d:%d" % (2 * idx[n] + s, idx[n]) for n in names for s in (0, 1))
    ops = []
    for n in names:
        if n in ("len", "abs", "max"):
            ops.append("SB:%d:%d" % (idx[n], -idx[n]))     # the real builtin function: value -id
    for op in hist:
        if op[0] in ("set_in", "set_out"): ops.append("SM:%d:%d" % (idx[op[1]], op[2]))
        elif op[0] in ("del_in", "del_out"): ops.append("DM:%d" % idx[op[1]])
        elif op[0] == "set_b": ops.append("SB:%d:%d" % (idx[op[1]], op[2]))
        elif op[0] == "del_b": ops.append("DB:%d" % idx[op[1]])
        else: ops.append("L:%d" % (2 * idx[op[1]] + op[2]))
    return nm, ops, idx


def run(ctx):
    quick = ctx.tier == "quick"
    wd = ctx.workdir
    specs = [dict(name="c26_default", source=SRC, workdir=os.path.join(wd, "default"), global_options={"error_on_unknown_names": False}),
             dict(name="c26_dictver", source=SRC, workdir=os.path.join(wd, "dictver"), macros=["CYTHON_USE_DICT_VERSIONS=1"], global_options={"error_on_unknown_names": False}),
             dict(name="c26_nocache", source=SRC_NOCACHE, workdir=os.path.join(wd, "nocache"), global_options={"cache_builtins": False, "error_on_unknown_names": False})]
    built = cybuild.build_many(specs, jobs=3)
    variants = []
    for sp, (so, err) in zip(specs, built):
        if err is not None:
            if sp["name"] == "c26_dictver":
                ctx.note("build with -DCYTHON_USE_DICT_VERSIONS=1 failed on this CPython: %s" % str(err)[:200])
                continue
            ctx.corr_break("build " + sp["name"], sp["name"], str(err)[:1200], "module builds")
            return
        variants.append(sp)
    ctx.extra["variants_built"] = [v["name"] for v in variants]
    nh = 150 if quick else 1500
    maxlen = 10 if quick else 14
    model = ctx.model("globalcache")
    for sp in variants:
        names = NAMES + (["max"] if sp["name"] == "c26_nocache" else [])
        hists = [gen_history(ctx.rng, ctx.rng.randrange(1, maxlen + 1), names, True) for _ in range(nh)]
        src = sp["source"]
        rc = cybuild.run_script(DRIVER, sp["workdir"], {"kind": "compiled", "modname": sp["name"], "histories": hists, "src": src}, timeout=600)
        rp = cybuild.run_script(DRIVER, os.path.join(wd, "cpy_" + sp["name"]), {"kind": "cpython", "histories": hists, "src": src}, timeout=600)
        if rc["json"] is None or rp["json"] is None:
            ctx.corr_break("driver " + sp["name"], sp["name"], (rc["err"] or rc["out"])[-600:], (rp["err"] or "ok")[-300:])
            continue
        lines = []
        for h in hists:
            nm, ops, idx = to_model(h, names)
            lines.append("run %d %s %s" % (1 if sp["name"] == "c26_dictver" else 0, nm, " ".join(ops)))
        mres = model.batch(lines)
        mres_c = model.batch([l.replace("run 0 ", "run 1 ", 1) for l in lines]) if sp["name"] != "c26_dictver" else mres
        for h, c, p, m, mc in zip(hists, rc["json"], rp["json"], mres, mres_c):
            ctx.case(sp["name"], h, sig=(sp["name"], json.dumps(h)))
            _, _, idx = to_model(h, names)
            def enc(v):
                if v == "NameError": return "N"
                if isinstance(v, str) and v.startswith("builtin:"): return str(-idx[v[8:]])
                return str(v)
            cm = ",".join(enc(v) for v in c) if c else "-"
            if cm != m:
                ctx.corr_break("globalcache:run(%s)" % sp["name"], {"variant": sp["name"], "history": h}, c, m)
            if m != mc:
                ctx.corr_break("globalcache:cached-vs-uncached", {"history": h}, m, mc)
            if c != p:
                ctx.fail(classify(sp["name"], h, c, p), {"variant": sp["name"], "history": h}, c, p)


def classify(variant, h, c, p):
    return "stale_or_missing_global_binding"
