"""C25, embedded-signature layout part: helper of props/C25.py.

EmbedSignature._fmt_arglist / _fmt_signature / _embed_signature (Cython/Compiler/AutoDocTransforms.py) lay out the
text that embedsignature=True puts in front of a docstring: formatted arguments in order, the markers '/', '*',
'*args', '**kwargs' inserted at computed indices, 'Class.' prefix / hidden self (format c), '$self' / '$type' and the
'--' separator (format clinic), annotations and the return annotation (formats c / python), then the original
docstring (inspect.cleandoc).  Signature SHAPES are enumerated: positional-only 0..2 x positional-or-keyword 0..2 x
(no star | bare * | *args) x keyword-only 0..2 x (**kwargs or not) (+ self positional-only or not for methods), with
defaults on suffixes, annotations and docstrings rotating, for def functions, methods, classmethods, staticmethods of
Python and cdef classes, __init__ of both, cpdef functions/methods, under each embedsignature.format.

 1. direct:   EmbedSignature._fmt_arglist called on synthetic argument nodes for EVERY shape  (cheap, all tiers)
 2. pipeline: generated modules translated by the compiler under test, docstrings read from the generated C
              (PyDoc_STRVAR / PyDoc_STR); some modules are also built with gcc and __doc__ / __text_signature__ /
              inspect.signature read at run time (format clinic needs binding=False)
 each compared three ways: implementation vs the extracted Gallina model (m_arglist: tie), implementation vs the
 oracle (CPython's ast parser on the embedded line vs on the source header; inspect.Signature.__str__ for the marker
 layout; inspect.signature through __text_signature__ for clinic).

work() runs in a background thread of props/C25.py; account() reports in the main thread."""
import os, re, ast, json, inspect, time
import concurrent.futures as cf
import cybuild

FX_HIDDEN = os.environ.get("C25_FX_HIDDEN", "1") == "1"    # flip to "1" after applying
#   proposed_fixes/C25-c_format_init_hidden_self_shifts_markers.diff (the model then runs the repaired variant)
FORMATS = ["c", "python", "clinic"]
DEFAULTS = ["1", "-2", "'s'", "None", "(1, 2)", "[3]", "2.5", "b'x'"]
DOCS = [None, "one line doc", "first line\n\n        indented second\n          deeper third\n    "]
DEF_HOSTS = ["func", "meth", "cmeth", "smeth", "init", "cdef_meth", "cdef_cmeth", "cdef_smeth", "cdef_init",
             "typed_func", "gen_func", "coro_func", "typed_cdef_meth"]
# typed_*: def with C-typed / builtin-typed arguments (_fmt_arg / _fmt_type: 'int a' in format c, 'a: int' in format
# python, bare name in clinic); gen_func / coro_func: generator and coroutine functions (DefNode subclasses)
TYPED = ("typed_func", "typed_cdef_meth")
DTYPES = [None, "int", "double", "str", "list", "long", "object"]
PYNAME = {"int": "int", "double": "float", "str": "str", "list": "list", "long": "int"}
TDEFAULT = {"int": "3", "double": "2.5", "str": "None", "list": "None", "long": "-7"}
FIRST = {"meth": "self", "cmeth": "cls", "init": "self", "cdef_meth": "self", "cdef_cmeth": "cls", "cdef_init": "self",
         "cpdef_meth": "self", "typed_cdef_meth": "self"}
CTYPES = [None, "int", "double", "str", "long"]


# ------------------------------------------------------------------ shapes
def all_shapes():
    out = []
    for npo in range(3):
        for np_ in range(3):
            for star, nkw in (("none", 0), ("bare", 1), ("bare", 2), ("args", 0), ("args", 1), ("args", 2)):
                for kw in (False, True):
                    out.append({"npo": npo, "np": np_, "star": star, "nkw": nkw, "kw": kw})
    return out


def shape_key(s, self_po=False):
    return "po%d_pk%d_%s_ko%d_%s%s" % (s["npo"], s["np"], s["star"], s["nkw"], "kw" if s["kw"] else "nokw",
                                       "_selfpo" if self_po else "")


def mkfunc(idx, host, shape, self_po=False):
    """one function: parameter records from the shape; defaults on a suffix of the positional parameters and on a
    rotating subset of the keyword-only ones, annotations and docstring rotating with idx"""
    first = FIRST.get(host)
    if first and shape["npo"] > 0:
        self_po = True          # def m(self, a0, /, ...): self is positional-only too
    if not first:
        self_po = False
    po = ["a%d" % i for i in range(shape["npo"])]
    pk = ["b%d" % i for i in range(shape["np"])]
    ko = ["k%d" % i for i in range(shape["nkw"])]
    npos = len(po) + len(pk)
    ndef = idx % (npos + 1)
    komask = (idx // 2) % (1 << len(ko)) if ko else 0
    params = []
    for j, n in enumerate(po + pk):
        params.append({"name": n, "kind": "po" if j < len(po) else "pk",
                       "default": DEFAULTS[(idx + j) % len(DEFAULTS)] if j >= npos - ndef else None,
                       "ann": ["Tag", "'x.y'"][(idx + j) % 2] if (idx + j) % 3 == 0 else None})
    for j, n in enumerate(ko):
        params.append({"name": n, "kind": "ko", "default": DEFAULTS[(idx + j + 3) % len(DEFAULTS)] if (komask >> j) & 1 else None,
                       "ann": "Tag" if (idx + j) % 4 == 1 else None})
    if host in TYPED:
        for j, p in enumerate(params):
            ct = DTYPES[(idx + 2 * j) % len(DTYPES)]
            if p["ann"] is None and ct:
                p["ctype"] = ct
                if p["default"] is not None and ct in TDEFAULT:
                    p["default"] = TDEFAULT[ct]
    return {"idx": idx, "host": host, "shape": shape, "self_po": self_po, "first": first, "params": params,
            "va": {"name": "va", "ann": "Tag" if idx % 5 == 0 else None} if shape["star"] == "args" else None,
            "kw": {"name": "kws", "ann": "Tag" if idx % 7 == 0 else None} if shape["kw"] else None,
            "ret": "Ret" if idx % 4 == 0 else None, "doc": DOCS[idx % 3], "name": "zq%dx" % idx, "cls": None}


def mkcpdef(idx, host, np_):
    params = []
    ndef = idx % (np_ + 1)
    for j in range(np_):
        params.append({"name": "b%d" % j, "kind": "pk", "ctype": CTYPES[(idx + j) % len(CTYPES)],
                       "default": None, "ann": None})
        if j >= np_ - ndef:
            ct = params[-1]["ctype"]
            params[-1]["default"] = {None: DEFAULTS[(idx + j) % len(DEFAULTS)], "int": "3", "double": "2.5", "str": "None",
                                     "long": "-7"}[ct]
    return {"idx": idx, "host": host, "shape": {"npo": 0, "np": np_, "star": "none", "nkw": 0, "kw": False}, "self_po": False,
            "first": FIRST.get(host), "params": params, "va": None, "kw": None, "ret": None,
            "rtype": [None, "int", "double"][idx % 3], "doc": DOCS[idx % 3], "name": "zq%dx" % idx, "cls": None}


def p_src(p, with_ann=True, ctype=False):
    t = p["name"]
    if ctype and p.get("ctype"):
        t = p["ctype"] + " " + t
    if with_ann and p.get("ann"):
        t += ": " + p["ann"]
        if p.get("default") is not None:
            t += " = " + p["default"]
    elif p.get("default") is not None:
        t += "=" + p["default"]
    return t


def header(f, hide_first=False, with_ann=True, ctype=False):
    """the parameter list as Python source (the oracle side parses this with CPython's parser)"""
    po = [p_src(p, with_ann, ctype) for p in f["params"] if p["kind"] == "po"]
    pk = [p_src(p, with_ann, ctype) for p in f["params"] if p["kind"] == "pk"]
    ko = [p_src(p, with_ann, ctype) for p in f["params"] if p["kind"] == "ko"]
    if f["first"] and not hide_first:
        if f["self_po"]:
            po = [f["first"]] + po
        else:
            pk = [f["first"]] + pk
    L = po + (["/"] if po else []) + pk
    if f["va"]:
        L.append("*" + p_src(f["va"], with_ann))
    elif ko:
        L.append("*")
    L += ko
    if f["kw"]:
        L.append("**" + p_src(f["kw"], with_ann))
    return ", ".join(L)


def pyx_header(f):
    """as written in the .pyx: a lone positional-only self is  (self, /, ...)"""
    return header(f, ctype=True)


# ------------------------------------------------------------------ oracle: CPython's parser
def parse_params(text, ret=None):
    """'(a, /, b=1, *, c)' -> [(name, kind, default dump, annotation dump)], return-annotation dump; SyntaxError raises"""
    fn = ast.parse("def f(%s)%s: pass" % (text, (" -> " + ret) if ret else "")).body[0]
    return sig_of_ast(fn)


def sig_of_ast(fn):
    a = fn.args
    out = []
    pos = a.posonlyargs + a.args
    dflt = [None] * (len(pos) - len(a.defaults)) + list(a.defaults)
    d = lambda n: None if n is None else ast.dump(n)
    for i, x in enumerate(pos):
        out.append((x.arg, "po" if i < len(a.posonlyargs) else "pk", d(dflt[i]), d(x.annotation)))
    if a.vararg:
        out.append((a.vararg.arg, "va", None, d(a.vararg.annotation)))
    for x, dv in zip(a.kwonlyargs, a.kw_defaults):
        out.append((x.arg, "ko", d(dv), d(x.annotation)))
    if a.kwarg:
        out.append((a.kwarg.arg, "kw", None, d(a.kwarg.annotation)))
    return out, d(fn.returns)


def split_top(text):
    """split a parameter list at top-level ', '"""
    out, depth, cur, q = [], 0, "", None
    i = 0
    while i < len(text):
        ch = text[i]
        if q:
            cur += ch
            if ch == "\\":
                cur += text[i + 1]; i += 1
            elif ch == q:
                q = None
        elif ch in "'\"":
            q = ch; cur += ch
        elif ch in "([{":
            depth += 1; cur += ch
        elif ch in ")]}":
            depth -= 1; cur += ch
        elif ch == "," and depth == 0:
            out.append(cur.strip()); cur = ""
        else:
            cur += ch
        i += 1
    if cur.strip():
        out.append(cur.strip())
    return out


TYPE_WORD = re.compile(r"^(?:int|double|str|long|float|object|unicode|list) (?=[A-Za-z_])")


def toks_of_items(items, first=None):
    """implementation strings -> the model's token alphabet ($self / $type of format clinic stand for the first argument)"""
    out = []
    for it in items:
        if it == "/":
            out.append("/")
        elif it == "*":
            out.append("*")
        elif it.startswith("**"):
            out.append("K:" + re.match(r"\w+", it[2:]).group(0))
        elif it.startswith("*"):
            out.append("V:" + re.match(r"\w+", it[1:]).group(0))
        else:
            it = TYPE_WORD.sub("", it)
            n = re.match(r"\$?\w+", it).group(0)
            out.append("A:" + (first if n in ("$self", "$type") and first else n))
    return ",".join(out) if out else "-"


def oracle_tokens(f, hide_first):
    """inspect.Signature.__str__ of the source parameters (names only): the canonical marker layout"""
    P = inspect.Parameter
    ps = []
    if f["first"] and not hide_first:
        ps.append(P(f["first"], P.POSITIONAL_ONLY if f["self_po"] else P.POSITIONAL_OR_KEYWORD))
    K = {"po": P.POSITIONAL_ONLY, "pk": P.POSITIONAL_OR_KEYWORD, "ko": P.KEYWORD_ONLY}
    pos = [P(p["name"], K[p["kind"]]) for p in f["params"] if p["kind"] != "ko"]
    kos = [P(p["name"], K[p["kind"]]) for p in f["params"] if p["kind"] == "ko"]
    ps += pos
    if f["va"]:
        ps.append(P(f["va"]["name"], P.VAR_POSITIONAL))
    ps += kos
    if f["kw"]:
        ps.append(P(f["kw"]["name"], P.VAR_KEYWORD))
    text = str(inspect.Signature(ps))
    return toks_of_items(split_top(text[1:-1]))


def model_line(f, hide):
    """fmt <order> <fix> <hide> npo np nk pargs kargs args  - the counts as visit_DefNode computes them"""
    first = f["first"]
    npo = sum(1 for p in f["params"] if p["kind"] == "po") + (1 if first and f["self_po"] else 0)
    np_ = sum(1 for p in f["params"] if p["kind"] == "pk") + (1 if first and not f["self_po"] else 0)
    nk = sum(1 for p in f["params"] if p["kind"] == "ko")
    args = (["%d:%s" % (1 if f["host"].startswith(("cdef_", "cpdef_", "typed_cdef_")) and first == "self" else 0, first)] if first else []) \
        + ["0:" + p["name"] for p in f["params"]]
    return "fmt 0 %d %d %d %d %d %s %s %s" % (1 if FX_HIDDEN else 0, 1 if hide else 0, npo, np_, nk,
                                               f["va"]["name"] if f["va"] else "-", f["kw"]["name"] if f["kw"] else "-",
                                               ",".join(args) if args else "-")


def classify(f, fmt, hide):
    if hide and f["first"] and (f["self_po"] or f["shape"]["nkw"] > 0):
        return "c_format_init_hidden_self_shifts_markers"
    return "embedded_signature_layout_differs"


def describe(f, fmt):
    return {"format": fmt, "host": f["host"], "def": "%s(%s)%s" % (f["name"] if f["host"] not in ("init", "cdef_init") else "__init__",
                                                                   pyx_header(f), (" -> " + f["ret"]) if f.get("ret") else ""),
            "class": f.get("cls"), "docstring": f["doc"]}


# ------------------------------------------------------------------ 1. direct calls
DIRECT = r'''
import sys, json
import pyload; pyload.install()
from Cython.Compiler.AutoDocTransforms import EmbedSignature
from Cython.Compiler import PyrexTypes, ExprNodes
from Cython.Compiler.StringEncoding import EncodedString
pyload.assert_sources()
POS = ("direct.pyx", 1, 0)
class Entry: pass
class AnnotationNode:           # dispatched by class name to AnnotationWriter.visit_AnnotationNode
    def __init__(self, text):
        self.string = ExprNodes.UnicodeNode(POS, value=EncodedString(text))
class Arg:
    def __init__(self, name, default=None, ann=None, is_self=False, is_type=False):
        self.name, self.annotation = name, (AnnotationNode(ann) if ann else None)
        self.default = ExprNodes.IntNode(POS, value=default) if default is not None else None
        self.is_self_arg, self.is_type_arg = is_self, is_type
        self.type = PyrexTypes.py_object_type
        self.entry = Entry(); self.entry.is_self_arg = is_self
out = []
for case in json.load(sys.stdin):
    t = EmbedSignature(None)
    t.current_directives = {"embedsignature.format": case["fmt"], "binding": True, "c_string_type": "bytes"}
    t._setup_format()
    args = [Arg(*a) for a in case["args"]]
    pargs = Arg(*case["pargs"]) if case["pargs"] else None
    kargs = Arg(*case["kargs"]) if case["kargs"] else None
    try:
        r = t._fmt_arglist(args, case["npo"], case["np"], pargs, case["nk"], kargs, hide_self=case["hide"])
        s = t._fmt_signature(case["cls"], case["fname"], args, case["npo"], case["np"], pargs, case["nk"], kargs,
                             return_expr=(AnnotationNode(case["ret"]) if case["ret"] else None), hide_self=case["hide"])
        out.append({"list": r, "sig": s})
    except Exception as e:
        out.append({"error": "%s: %s" % (type(e).__name__, e)})
print(json.dumps(out))
'''


def direct_cases():
    cases = []
    idx = 0
    for s in all_shapes():
        for host, hides in (("func", [False]), ("cdef_meth", [False]), ("cdef_cmeth", [False]), ("cdef_init", [True])):
            for self_po in ((False, True) if FIRST.get(host) and s["npo"] == 0 else (False,)):
                for hide in hides:
                    fmts = ["c"] if hide else FORMATS         # hide_self is only ever set for format c
                    for fmt in fmts:
                        idx += 1
                        f = mkfunc(idx, host, s, self_po)
                        for p in f["params"]:                  # direct defaults are integer literal nodes
                            if p["default"] is not None:
                                p["default"] = str(idx % 9)
                            if p["ann"]:
                                p["ann"] = "Tag"
                        f["cls"] = "K" if f["first"] else None
                        cases.append((f, fmt, hide))
    return cases


def direct_job(f, fmt, hide):
    first = f["first"]
    args = []
    if first:
        args.append([first, None, None, first == "self", first == "cls"])
    for p in f["params"]:
        args.append([p["name"], p["default"], p["ann"], False, False])
    npo = sum(1 for p in f["params"] if p["kind"] == "po") + (1 if first and f["self_po"] else 0)
    nk = sum(1 for p in f["params"] if p["kind"] == "ko")
    return {"fmt": fmt, "args": args, "npo": npo, "np": len(args) - npo - nk, "nk": nk, "hide": hide,
            "pargs": [f["va"]["name"], None, f["va"]["ann"]] if f["va"] else None,
            "kargs": [f["kw"]["name"], None, f["kw"]["ann"]] if f["kw"] else None,
            "cls": None if hide or not first else "K", "fname": "K" if hide else f["name"], "ret": f["ret"]}


# ------------------------------------------------------------------ 2. generated modules
def plan(tier, fmt_i):
    """[(host, func)] for one format"""
    shapes = all_shapes()
    funcs = []
    idx = 1000 * fmt_i
    variants = []          # (shape, self_po)
    for s in shapes:
        variants.append((s, False))
    selfpo_variants = [(s, True) for s in shapes if s["npo"] == 0]
    if tier == "quick":
        # every shape once per format, hosts rotating (a different host per format); the self-positional-only
        # variants on the method hosts; constructor classes are expensive (one class each): a boundary selection
        rot = [h for h in DEF_HOSTS if h not in ("init", "cdef_init")]      # 13 hosts, coprime with the periods of the shape enumeration
        for i, (s, _) in enumerate(variants):
            idx += 1
            funcs.append(mkfunc(idx, rot[(i + 2 * fmt_i) % len(rot)], s))
        mrot = ["meth", "cdef_meth", "cmeth", "cdef_cmeth"]
        for i, (s, _) in enumerate(selfpo_variants):
            if i % 3 == fmt_i:
                idx += 1
                funcs.append(mkfunc(idx, mrot[i % len(mrot)], s, True))
        sel = [(s, sp) for (s, sp) in variants + selfpo_variants
               if s["npo"] in (0, 1) and s["np"] in (0, 2) and s["nkw"] in (0, 1) and (s["kw"] or s["star"] != "none")]
        for i, (s, sp) in enumerate(sel):
            if i % 2 == fmt_i % 2 or fmt_i == 0:
                idx += 1
                funcs.append(mkfunc(idx, "cdef_init" if (i + fmt_i) % 3 else "init", s, sp))
    else:
        for host in DEF_HOSTS:
            for (s, sp) in variants + (selfpo_variants if FIRST.get(host) else []):
                idx += 1
                funcs.append(mkfunc(idx, host, s, sp))
    for host in ("cpdef_func", "cpdef_meth"):
        for np_ in range(4):
            for rep in range(1 if tier == "quick" else 4):
                idx += 1
                funcs.append(mkcpdef(idx, host, np_))
    return funcs


def doc_lines(doc, pad):
    if doc is None:
        return []
    return [pad + '"""' + doc + '"""']


def render(modname, fmt, funcs, binding):
    L = ["# cython: language_level=3, binding=%s, embedsignature=True, embedsignature.format=%s, auto_pickle=False"
         % (binding, fmt), "import cython"]
    py_cls, cdef_cls = [], []
    for f in funcs:
        h = f["host"]
        body = ["pass"] if f["doc"] is None else []
        ret = (" -> " + f["ret"]) if f.get("ret") else ""
        if h in ("func", "typed_func", "gen_func", "coro_func"):
            if h == "gen_func":
                body = ["yield 1"]
            L += ["%sdef %s(%s)%s:" % ("async " if h == "coro_func" else "", f["name"], pyx_header(f), ret)] \
                + doc_lines(f["doc"], "    ") + ["    " + b for b in body]
        elif h == "cpdef_func":
            L += ["cpdef %s%s(%s):" % ((f["rtype"] + " ") if f["rtype"] else "", f["name"], pyx_header(f))] \
                + doc_lines(f["doc"], "    ") + ["    return 0"]
        elif h in ("init", "cdef_init"):
            f["cls"] = "ZK%dx" % f["idx"]
            cdoc = "class doc of %s" % f["cls"] if f["idx"] % 2 else None
            f["clsdoc"] = cdoc
            if h == "cdef_init" and f["doc"] is None:
                f["doc"] = "init doc"     # a cdef-class __init__ without a docstring has no __doc__ slot to embed into
            L += ["%sclass %s:" % ("cdef " if h == "cdef_init" else "", f["cls"])] + doc_lines(cdoc, "    ")
            L += ["    def __init__(%s)%s:" % (pyx_header(f), ret)] + doc_lines(f["doc"], "        ") \
                + ["        " + b for b in (["pass"] if f["doc"] is None else [])]
        else:
            tgt = cdef_cls if h.startswith(("cdef_", "cpdef_", "typed_cdef_")) else py_cls
            f["cls"] = "ZC0x" if tgt is cdef_cls else "ZP0x"
            deco = {"cmeth": "@classmethod", "smeth": "@staticmethod", "cdef_cmeth": "@classmethod",
                    "cdef_smeth": "@staticmethod"}.get(h)
            if deco:
                tgt.append("    " + deco)
            if h == "cpdef_meth":
                tgt += ["    cpdef %s%s(%s):" % ((f["rtype"] + " ") if f["rtype"] else "", f["name"], pyx_header(f))] \
                    + doc_lines(f["doc"], "        ") + ["        return 0"]
            else:
                tgt += ["    def %s(%s)%s:" % (f["name"], pyx_header(f), ret)] + doc_lines(f["doc"], "        ") \
                    + ["        " + b for b in body]
    L += ["class ZP0x:", "    '''P doc'''"] + (py_cls or ["    pass"])
    L += ["cdef class ZC0x:", "    '''C doc'''", "    cdef public int pub", "    cdef public object pubo",
          "    @property", "    def prop(self) -> Tag:", "        '''prop doc'''", "        return 1"] + cdef_cls
    return "\n".join(L) + "\n"


TRANSLATE = r'''
import sys, json, io, os
import pyload; pyload.install()
from Cython.Compiler import Main, Options, Errors
pyload.assert_sources()
out = {}
for name, src in json.load(sys.stdin):
    c = os.path.splitext(src)[0] + ".c"
    if os.path.exists(c): os.unlink(c)
    opts = Main.CompilationOptions(Main.default_options, output_file=c)
    err, old = io.StringIO(), sys.stderr
    try:
        sys.stderr = err
        try:
            r = Main.compile(src, opts)
            ok = r.num_errors == 0 and os.path.exists(c)
        finally:
            sys.stderr = old
        out[name] = {"ok": ok, "err": "\n".join(l for l in err.getvalue().splitlines() if "warning" not in l and l.strip())[-3000:]}
    except BaseException as e:
        out[name] = {"ok": False, "err": "CRASH %s: %s" % (type(e).__name__, e)}
print(json.dumps(out))
'''

RUNTIME = r'''
import sys, json, inspect, importlib
job = json.load(sys.stdin)
mod = importlib.import_module(job["name"])
out = {}
for key, acc, want_sig in job["accs"]:
    try:
        o = mod
        for a in acc:
            o = getattr(o, a)
        r = {"doc": getattr(o, "__doc__", None), "ts": getattr(o, "__text_signature__", None)}
        if want_sig:
            try:
                sg = inspect.signature(o)
                r["sig"] = [[p.name, p.kind.name, None if p.default is p.empty else repr(p.default)] for p in sg.parameters.values()]
            except Exception as e:
                r["sig"] = "ERR %s: %s" % (type(e).__name__, e)
        out[key] = r
    except Exception as e:
        out[key] = {"error": "%s: %s" % (type(e).__name__, e)}
print(json.dumps(out))
'''

RE_STRVAR = re.compile(r'PyDoc_STRVAR\((\w+),\s*((?:"(?:[^"\\]|\\.)*"\s*)+)\);')
RE_STR = re.compile(r'PyDoc_STR\(((?:"(?:[^"\\]|\\.)*"\s*)+)\)')


def c_unescape(lit):
    """the value of a sequence of C string literals"""
    out = []
    for part in re.findall(r'"((?:[^"\\]|\\.)*)"', lit):
        i = 0
        while i < len(part):
            ch = part[i]
            if ch != "\\":
                out.append(ch); i += 1; continue
            nx = part[i + 1]
            if nx in "01234567":
                m = re.match(r"[0-7]{1,3}", part[i + 1:])
                out.append(chr(int(m.group(0), 8))); i += 1 + len(m.group(0))
            elif nx == "x":
                m = re.match(r"[0-9a-fA-F]+", part[i + 2:])
                out.append(chr(int(m.group(0), 16) & 0xff)); i += 2 + len(m.group(0))
            else:
                out.append({"n": "\n", "t": "\t", "r": "\r", "\\": "\\", '"': '"', "'": "'", "?": "?", "a": "\a", "b": "\b",
                            "f": "\f", "v": "\v"}.get(nx, nx)); i += 2
    return "".join(out).encode("latin-1", "replace").decode("utf-8", "replace")


def docs_from_c(path):
    text = open(path, encoding="utf-8", errors="replace").read()
    named, anon = {}, []
    for m in RE_STRVAR.finditer(text):
        named[m.group(1)] = c_unescape(m.group(2))
    for m in RE_STR.finditer(text):
        anon.append(c_unescape(m.group(1)))
    return named, anon


def find_doc(f, named, anon, fmt):
    """the docstring(s) carrying the embedded signature of f: {"func": text or None, "classdoc": text or None}"""
    out = {"func": None, "classdoc": None}
    if f["host"] in ("init", "cdef_init"):
        for k, v in named.items():
            if k.endswith(f["cls"] + "___init__"):
                out["func"] = v
        for v in anon:
            if v.startswith(f["cls"] + "(") or v == f.get("clsdoc"):
                out["classdoc"] = v
    else:
        for k, v in named.items():
            if k.endswith(f["name"]):
                out["func"] = v
    return out


def build_modules(tier, wd):
    mods = []
    for fi, fmt in enumerate(FORMATS):
        funcs = plan(tier, fi)
        binding = fmt != "clinic"        # with binding=True format clinic embeds nothing (_embed_signature returns node_doc)
        if tier == "quick":
            groups = [funcs]
        else:
            byhost = {}
            for f in funcs:
                byhost.setdefault(f["host"].replace("cpdef_meth", "cpdef_func"), []).append(f)
            groups = list(byhost.values())
        for gi, g in enumerate(groups):
            name = "c25al_%s_%d" % (fmt, gi)
            src = os.path.join(wd, name + ".pyx")
            open(src, "w").write(render(name, fmt, g, binding))
            if tier == "quick":
                full = fmt == "clinic"
            else:
                full = fmt == "clinic" or g[0]["host"] in ("func", "cdef_meth", "cdef_init", "cpdef_func", "typed_func", "gen_func")
            mods.append({"name": name, "fmt": fmt, "funcs": g, "src": src, "binding": binding, "full": full})
    return mods


def work(tier, seed, workdir, model):
    t0 = time.time()
    wd = os.path.join(workdir, "arglist")
    os.makedirs(wd, exist_ok=True)
    W = {"tier": tier}
    # ---- 1. direct (its own process, next to the translations)
    cases = direct_cases()
    dpool = cf.ThreadPoolExecutor(max_workers=1)
    dfut = dpool.submit(cybuild.run_script, DIRECT, wd, [direct_job(f, fmt, hide) for f, fmt, hide in cases], 1800, None, None,
                        "direct.py")
    t1 = time.time()
    # ---- 2. modules: translate (one warmed compiler process per chunk), gcc for the "full" ones
    mods = build_modules(tier, wd)
    csize = 3 if tier == "quick" else 4
    chunks = [mods[i:i + csize] for i in range(0, len(mods), csize)]

    def tr(ci):
        ch = chunks[ci]
        rr = cybuild.run_script(TRANSLATE, wd, stdin_obj=[[m["name"], m["src"]] for m in ch], name="tr%d.py" % ci, timeout=3000)
        return rr["json"] if isinstance(rr["json"], dict) else {m["name"]: {"ok": False, "err": "translate worker died: " + rr["err"][-1500:]}
                                                                 for m in ch}

    def one(m, res):
        m["translate"] = res.get(m["name"], {"ok": False, "err": "no result"})
        if not m["translate"]["ok"]:
            return
        c = os.path.join(wd, m["name"] + ".c")
        m["named"], m["anon"] = docs_from_c(c)
        if m["full"]:
            rc, err = cybuild.cc(c, os.path.join(wd, m["name"] + cybuild.EXT), ["-O0"])
            m["cc"] = None if rc == 0 else err[-1500:]
            if rc == 0:
                accs = []
                for f in m["funcs"]:
                    key = str(f["idx"])
                    if f["host"] in ("init", "cdef_init"):
                        accs.append([key, [f["cls"], "__init__"], False])
                        accs.append([key + "c", [f["cls"]], False])
                    elif f["cls"]:
                        accs.append([key, [f["cls"], f["name"]], m["fmt"] == "clinic"])
                    else:
                        accs.append([key, [f["name"]], m["fmt"] == "clinic"])
                rr = cybuild.run_script(RUNTIME, wd, stdin_obj={"name": m["name"], "accs": accs}, name="rt_%s.py" % m["name"],
                                        timeout=1200)
                m["runtime"] = rr["json"] if isinstance(rr["json"], dict) else {"crash": "rc=%s %s" % (rr["rc"], rr["err"][-800:])}

    with cf.ThreadPoolExecutor(max_workers=2 if tier == "quick" else 4) as ptr, \
            cf.ThreadPoolExecutor(max_workers=2 if tier == "quick" else 6) as pcc:
        futs = {ptr.submit(tr, ci): ci for ci in range(len(chunks))}
        ccf = []
        for fu in cf.as_completed(futs):
            res = fu.result()
            for m in chunks[futs[fu]]:
                ccf.append(pcc.submit(one, m, res))
        for fu in ccf:
            fu.result()
    r = dfut.result()
    dpool.shutdown()
    if not isinstance(r["json"], list) or len(r["json"]) != len(cases):
        W["error"] = "direct worker: rc=%s %s" % (r["rc"], r["err"][-1500:])
        return W
    W["direct"] = list(zip(cases, r["json"], model.batch([model_line(f, hide) for f, fmt, hide in cases])))
    for m in mods:
        hide = lambda f: m["fmt"] == "c" and f["host"] == "cdef_init"
        m["model"] = model.batch([model_line(f, hide(f)) for f in m["funcs"]])
    W["mods"] = mods
    W["times"] = [t1 - t0, time.time() - t1]
    return W


# ------------------------------------------------------------------ accounting (main thread)
def expected_first_line_name(f, fmt):
    h = f["host"]
    if h == "cdef_init" and fmt == "c":
        return f["cls"]
    n = "__init__" if h in ("init", "cdef_init") else f["name"]
    if fmt == "c" and f["cls"]:
        return f["cls"] + "." + n
    return n


def expected_sig(f, fmt, hide):
    """the source parameter list through CPython's parser, adjusted to what the format is documented to show"""
    g = f
    if fmt == "python" and f["host"] in TYPED:
        g = dict(f, params=[dict(p, ann=PYNAME[p["ctype"]]) if p.get("ctype") in PYNAME else p for p in f["params"]])
    want, ret = parse_params(header(g, hide_first=hide), f.get("ret"))
    if fmt == "clinic":
        want, ret = [(n, k, d, None) for n, k, d, a in want], None
    return want, ret


def check_line(ctx, f, fmt, hide, line, mtoks, stratum):
    """one embedded first line: tie against the model tokens, oracles: canonical marker layout and CPython's parser"""
    inp = describe(f, fmt)
    inp["embedded"] = line
    klass = classify(f, fmt, hide)
    if "(" not in line or ")" not in line:
        ctx.fail(klass, inp, line, "name(parameters)")
        return
    name, rest = line[:line.index("(")], line[line.index("("):]
    wname = expected_first_line_name(f, fmt)
    if name != wname:
        ctx.fail("embedded_signature_name_differs", inp, name, wname)
    close = rest.rindex(")")
    params, tail = rest[1:close], rest[close + 1:]
    items = split_top(params)
    itoks = toks_of_items(items, f["first"])
    if mtoks is not None:
        mt = mtoks.split(" ")[0]
        if mt != itoks:
            ctx.corr_break("fmt_arglist tokens (%s)" % stratum, inp, itoks, mt)
    otoks = oracle_tokens(f, hide)
    bad = itoks != otoks
    # CPython's parser on the embedded line
    ptext = ", ".join(TYPE_WORD.sub("", it) for it in items) if f["host"].startswith("cpdef") or (f["host"] in TYPED and fmt == "c") else params
    if fmt == "clinic" and f["first"]:
        ptext = re.sub(r"^\$(self|type)\b", f["first"], ptext)
    if fmt == "clinic" and tail:
        ctx.fail("embedded_signature_layout_differs", inp, line, "no text after ')' in format clinic")
    cpdef = f["host"].startswith("cpdef")
    try:
        got, gret = parse_params(ptext, tail[4:] if tail.startswith(" -> ") else None)
        want, wret = expected_sig(f, fmt, hide)
        if cpdef:       # C argument / return types are shown as types or derived annotations: names, kinds, defaults judged
            got, want, gret, wret = [x[:3] for x in got], [x[:3] for x in want], None, None
        elif tail and not tail.startswith(" -> "):
            bad = True
        if got != want or gret != wret:
            bad = True
            why = "parses to %s -> %s" % (got, gret)
        else:
            why = "marker layout %s" % itoks
    except SyntaxError:
        bad, why = True, "SyntaxError"
        want, wret = expected_sig(f, fmt, hide)
    if bad:
        ctx.fail(klass, inp, line + "   [" + why + "]", "text parsing to %s -> %s (layout %s)" % (want, wret, otoks))


def account(ctx, W):
    if W.get("error"):
        ctx.corr_break("embedded-signature layout part did not run", "props/C25_arglist.py", W["error"], "runs")
        return
    # ---- 1. direct
    for (f, fmt, hide), r, m in W["direct"]:
        inp = describe(f, fmt)
        inp["hide_self"] = hide
        ctx.case("arglist_direct/%s/%s%s" % (fmt, f["host"], "/hide_self" if hide else ""), inp,
                 sig=("d", fmt, f["host"], hide, shape_key(f["shape"], f["self_po"])))
        if "error" in r:
            ctx.corr_break("_fmt_arglist raised", inp, r["error"], "a list")
            continue
        if m.startswith("!ERR"):
            ctx.corr_break("arglist model error", inp, r["list"], m)
            continue
        itoks = toks_of_items(r["list"], f["first"])
        mt, mread = m.split(" ", 1)
        if itoks != mt:
            ctx.corr_break("_fmt_arglist vs model", inp, itoks, mt)
        if ", ".join(r["list"]) not in r["sig"]:
            ctx.corr_break("_fmt_signature does not join _fmt_arglist", inp, r["sig"], r["list"])
        # the model's own reader (Python parameter grammar on tokens) must agree with CPython's parser on the
        # names-and-markers skeleton of the implementation's list
        skel = ", ".join(t if t in "/*" else {"A": "", "V": "*", "K": "**"}[t[0]] + t[2:] for t in mt.split(",")) if mt != "-" else ""
        try:
            ps, _ = parse_params(skel)
            g = lambda k: ",".join(n for n, kk, _, _ in ps if kk == k) or "-"
            pread = " ".join([g("po"), g("pk"), g("va"), g("ko"), g("kw")])
        except SyntaxError:
            pread = "NONE"
        if pread != mread:
            ctx.corr_break("model reader vs CPython parser", inp, pread, mread)
        check_line(ctx, f, fmt, hide, r["sig"], None, "direct")
    # ---- 2. modules
    ctx.note("embedded-signature layout: direct %d cases %.0fs; %d modules (%d built with gcc) %.0fs" % (
        len(W["direct"]), W["times"][0], len(W["mods"]), sum(1 for m in W["mods"] if m["full"]), W["times"][1]))
    for m in W["mods"]:
        fmt = m["fmt"]
        if not m["translate"]["ok"]:
            ctx.corr_break("translate %s" % m["name"], m["name"], m["translate"]["err"][-1500:], "module translates")
            continue
        if m["full"] and m.get("cc") is not None:
            ctx.corr_break("gcc %s" % m["name"], m["name"], m["cc"], "module compiles")
        rt = m.get("runtime")
        if rt is not None and "crash" in rt:
            ctx.corr_break("import %s" % m["name"], m["name"], rt["crash"], "module imports")
            rt = None
        for f, mo in zip(m["funcs"], m["model"]):
            hide = fmt == "c" and f["host"] == "cdef_init"
            inp = describe(f, fmt)
            ctx.case("arglist_module/%s/%s" % (fmt, f["host"]), inp, sig=("m", fmt, f["host"], shape_key(f["shape"], f["self_po"]), f["idx"]))
            d = find_doc(f, m["named"], m["anon"], fmt)
            doc = d["classdoc"] if hide else d["func"]
            if doc is None:
                ctx.corr_break("no docstring found in the generated C", inp, None, "a docstring with the embedded signature")
                continue
            if mo.startswith("!ERR"):
                ctx.corr_break("arglist model error", inp, doc, mo)
                continue
            # docstring merge: signature line, separator, inspect.cleandoc of the original
            orig = f.get("clsdoc") if hide else f["doc"]
            sep = "\n--\n\n" if fmt == "clinic" else "\n\n"
            line = doc.split("\n", 1)[0]
            want_rest = (sep + inspect.cleandoc(orig)) if orig else ("\n--\n\n" if fmt == "clinic" else "")
            if doc[len(line):] != want_rest:
                ctx.fail("embedded_docstring_body_differs", inp, doc, line + want_rest)
            check_line(ctx, f, fmt, hide, line, mo, "module")
            if hide and d["func"] is not None and d["func"] != inspect.cleandoc(f["doc"]) and d["func"] != f["doc"]:
                ctx.fail("embedded_docstring_body_differs", inp, d["func"], f["doc"], note="__init__ docstring in format c")
            # run time
            if rt is None:
                continue
            key = str(f["idx"]) + ("c" if hide else "")
            o = rt.get(key)
            if not o or "error" in o:
                ctx.corr_break("run-time lookup", inp, o, "the function object")
                continue
            ctx.count("arglist_runtime/%s/%s" % (fmt, f["host"]), 1)
            if fmt != "clinic":
                if o["doc"] != doc:
                    ctx.corr_break("docstring in C vs __doc__ at run time", inp, o["doc"], doc)
                continue
            if f["host"] in ("init", "cdef_init"):
                continue      # slot wrappers carry no __text_signature__ of their own
            if f["host"] in ("meth", "cmeth", "smeth"):
                # functions in Python class bodies are CyFunctions whatever 'binding' says: the clinic text stays in
                # __doc__ (nothing interprets it); inspect.signature below goes through the code object
                if o["doc"] != doc:
                    ctx.corr_break("docstring in C vs __doc__ at run time", inp, o["doc"], doc)
            else:
                ts_want = line[line.index("("):]
                if o["ts"] != ts_want:
                    ctx.corr_break("__text_signature__ vs first docstring line", inp, o["ts"], ts_want)
                rest_want = doc[len(line) + len("\n--\n\n"):] or None
                if o["doc"] != rest_want:
                    ctx.corr_break("__doc__ after the clinic signature", inp, o["doc"], rest_want)
            want, _ = expected_sig(f, fmt, False)
            kn = {"po": "POSITIONAL_ONLY", "pk": "POSITIONAL_OR_KEYWORD", "va": "VAR_POSITIONAL", "ko": "KEYWORD_ONLY", "kw": "VAR_KEYWORD"}
            dsrc = {p["name"]: p["default"] for p in f["params"]}
            wl = [[n, kn[k], None if dsrc.get(n) is None else repr(ast.literal_eval(dsrc[n]))] for n, k, dd, a in want]
            got = o.get("sig")
            if isinstance(got, list) and f["first"]:
                # CPython shows $self/$type of a builtin as a positional-only parameter or drops the bound one
                wl = wl[1:]
                if len(got) == len(wl) + 1:
                    got = got[1:]
            if got != wl:
                ctx.fail(classify(f, fmt, False), inp, got, wl, note="inspect.signature through __text_signature__")
        # properties of the cdef class: 'name: type' line in front of the docstring (formats c / python; none in clinic)
        pw = {"c": ["ZC0x.prop: Tag\n\nprop doc", "pub: 'int'", "pubo: object"],
              "python": ["prop: Tag\n\nprop doc", "pub: int"], "clinic": ["prop doc"]}[fmt]
        for w in pw:
            inp = {"format": fmt, "property": w.split(":")[0], "module": m["name"]}
            ctx.case("arglist_module/%s/property" % fmt, inp, sig=("p", fmt, w, m["name"]))
            if w not in m["anon"]:
                ctx.fail("embedded_property_doc_differs", inp, [a for a in m["anon"] if "pub" in a or "prop" in a], w)
