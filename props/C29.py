"""C29 - automatic pickling of extension types round-trips (DESIGN 7/C29)."""
import base64, hashlib, json, os, re, sys, time
import cybuild

_T0 = [time.time()]


def tick(what):
    if os.environ.get("C29_DEBUG"):
        sys.stderr.write("[C29 %6.1fs] %s\n" % (time.time() - _T0[0], what))


def debug_dump(ctx):
    if os.environ.get("C29_DEBUG"):
        with open(os.environ["C29_DEBUG"], "w") as f:
            json.dump({"fails": ctx.prop_failures, "breaks": ctx.corr_breaks,
                       "known": getattr(ctx, "known_hits", {})}, f, indent=1, default=str)

TITLE = "Automatic pickling of extension types round-trips"
EXTRACTS = ["Pickle"]
RULE = ("generated families of cdef classes (inheritance depth 0..2; 0..5 attributes per class drawn from 30 "
        "C/object types incl. private names, C arrays, structs, pointers, char*; optional cdef __dict__/"
        "__weakref__, __cinit__, user __reduce__/__reduce_ex__/__getstate__, auto_pickle None/True/False; plus "
        "a Python subclass with __dict__) x generated attribute values (boundaries, nan, cycles) x pickle "
        "protocols 0-5, copy.copy, copy.deepcopy; crafted states; modules rebuilt with a changed member list "
        "(added/removed/renamed/reordered/moved-to-base members and a 28-bit checksum collision pair). "
        "In the quick tier the refusing feature of each forced family is pinned to a BASE level (root of a depth-2/3 "
        "chain or middle of a depth-3 chain). CHAIN SWEEP: class trees over 22 level kinds (no member / int / object / "
        "typed / C array / __cinit__ with and without members / __reduce__ / __reduce_ex__ / __getstate__ / pointer / "
        "function pointer / struct with pointer / struct / char* / auto_pickle True, False / struct+True / "
        "__cinit__+True / __dict__ / __weakref__): every kind alone, ALL ordered (base, class) pairs, depth 3 with each "
        "kind at the root and in the middle under plain levels x leaf auto_pickle None/True/False, random triples "
        "(60 quick, 3500 thorough), plus subclasses of bases cimported from another module; the real "
        "AnalyseDeclarationsTransform is run on them (pipeline cut after it) and the injected methods are read back. "
        "distinct by (class layout, values, operation) / chain path; non-trivial = at least one attribute or refusal rule")
EXPLANATION = ("theorems (all layouts, all values, any depth): load(reduce o) rebuilds o attribute-wise incl. "
               "inherited members and __dict__; the state tuple is the name-sorted member list on both sides and "
               "is invariant under re-ordering/moving declarations; a checksum outside the accepted set raises "
               "PickleError; the eligibility decision equals the documented rule (for a module without stray "
               "module-level __cinit__/__reduce__ names). partial: 'different layout => error' is NOT provable "
               "(28-bit truncated digest; a concrete colliding pair is exhibited and replayed); conversion of "
               "C values and pickling of the attribute values themselves are section hypotheses; user-written "
               "__reduce__/__getstate__ and CPython's default reduce are outside the model (tested only). "
               "Round 2: the while-loop over the base-class chain is modelled as written (walk/decide_walk with a scope "
               "selector per lookup) and proved equal to the declarative decision for chains of any depth; the real "
               "methods are injected iff no level has __cinit__/__reduce__/an unconvertible member (level-wise chain rule); "
               "the variant that looks __cinit__ up in node.scope only is characterised for every chain and refuted; "
               "cimported bases (pxd_view) hide their __cinit__ - finding cimported_base_cinit_not_seen.")
TRUSTED = ["pickle/copy apply a reduce value as obj = f(*args); obj.__setstate__(state) and transport attribute "
           "values faithfully (CPython contract)",
           "C <-> Python conversion of one attribute value round-trips (from_py (to_py v) = v), section hypothesis",
           "hash = first 7 hex digits of sha256/sha1/md5 of the space-joined names: uninterpreted function, "
           "instantiated by hashlib in the correspondence run",
           "Class.__new__(type) subtype check and type creation by CPython",
           "gcc as a conforming C compiler for the generated module"]
ASSUMPTIONS = ["attribute names are unique along the inheritance chain (a subclass may re-declare a base "
               "attribute; then only the most derived one is visible to the generated code)",
               "CPython 3.12, LP64"]

FX = {"lookup": os.environ.get("C29_FX_LOOKUP", "1"),   # module-level __cinit__/__reduce__ ignored
      "ptr": os.environ.get("C29_FX_PTR", "1"),         # pointer members are not picklable
      "pad": os.environ.get("C29_FX_PAD", "1")}         # checksum padding repaired


def flags():
    return FX["lookup"] + FX["ptr"] + FX["pad"]


# --------------------------------------------------------------------------- types and values
CHARP = ["b'a char* value that is long enough not to be cached anywhere 0123456789'",
         "b'second value \\xff\\x01 of the char pointer attribute ......................'"]
# key: (C declaration type, kind, public?, [value sources; first = default after __new__])
TYPES = {
    "int": ("int", "c100", True, ["0", "7", "-2147483648", "2147483647"]),
    "long": ("long", "c100", True, ["0", "-9223372036854775808", "9223372036854775807", "12345"]),
    "short": ("short", "c100", True, ["0", "-32768", "32767"]),
    "uchar": ("unsigned char", "c100", True, ["0", "255", "17"]),
    "schar": ("signed char", "c100", True, ["0", "-128", "127"]),
    "char": ("char", "c100", True, ["0", "65", "127"]),
    "uint": ("unsigned int", "c100", True, ["0", "4294967295"]),
    "ulonglong": ("unsigned long long", "c100", True, ["0", "18446744073709551615", "1"]),
    "ssize_t": ("Py_ssize_t", "c100", True, ["0", "-1", "9223372036854775807"]),
    "size_t": ("size_t", "c100", True, ["0", "18446744073709551615"]),
    "bint": ("bint", "c100", True, ["False", "True"]),
    "ucs4": ("Py_UCS4", "c100", True, ["'\\x00'", "'a'", "'\\U0001f600'", "'\\u20ac'"]),
    "float": ("float", "c100", True, ["0.0", "-0.0", "1.5", "float('inf')", "float('nan')", "-3.25"]),
    "double": ("double", "c100", True, ["0.0", "0.1", "-0.0", "1e308", "float('nan')", "5e-324", "float('-inf')"]),
    "longdouble": ("long double", "c100", True, ["0.0", "0.5", "-2.0"]),
    "dcomplex": ("double complex", "c100", True, ["0j", "(1+2j)", "complex(-0.0, float('inf'))"]),
    "fcomplex": ("float complex", "c100", True, ["0j", "(1.5-2j)"]),
    "arr3": ("int", "c100", True, ["[0, 0, 0]", "[1, 2, 3]", "[-1, 0, 2147483647]"]),
    "enum": ("Color", "c100", True, ["0", "2", "1"]),
    "struct": ("S", "c110", True, ["{'a': 0, 'b': 0.0}", "{'a': 3, 'b': 2.5}", "{'a': -1, 'b': float('inf')}"]),
    "structp": ("SP", "c010", False, []),
    "intp": ("int*", "c001", False, []),
    "voidp": ("void*", "c001", False, []),
    "funcp": ("FP", "c001", False, []),
    "charp": ("char*", "c101", False, CHARP),
    "object": ("object", "o", True, ["None", "5", "'str'", "[1, [2, 3]]", "{'k': (1, 2)}", "2**70", "3.5", "b'by'",
                                     "[SELF]", "Leaf(3)", "()", "False", "''"]),
    "str": ("str", "o", True, ["None", "'h\\xe9llo'", "''"]),
    "bytes": ("bytes", "o", True, ["None", "b'\\x00\\xff'"]),
    "list": ("list", "o", True, ["None", "[1, 2]", "[]"]),
    "dict": ("dict", "o", True, ["None", "{'a': [1]}", "{}"]),
    "tuple": ("tuple", "o", True, ["None", "(1, 'x')"]),
    "set": ("set", "o", True, ["None", "{1, 2}"]),
    "leaf": ("Leaf", "o", True, ["None", "Leaf(3)", "Leaf(-1)"]),
}
COMMON = ["int", "long", "double", "object", "object", "str", "list", "bint", "float", "short", "uchar", "ssize_t"]
NAMES = ["a", "b", "B", "_x", "__p", "z9", "Z", "aa", "a_", "a0", "ab", "x", "y", "o", "__q", "A", "_", "m1", "m10",
         "m2", "ké", "val", "Val", "data", "n"]
DICTKEYS = ["k", "attr", "x2", "ü"]
DICTVALS = ["1", "'v'", "[1, 2]", "None", "2.5"]

HEADER = """# cython: language_level=3
cimport cython
cdef struct S:
    int a
    double b
cdef struct SP:
    int* p
cdef enum Color:
    RED, GREEN, BLUE
ctypedef void (*FP)()
cdef bytes _B0 = %s
cdef bytes _B1 = %s
USER_CALLS = [0]
cdef class Leaf:
    cdef public int v
    def __init__(self, v=0): self.v = v
def _c29_names(o):
    for t in type(o).__mro__:
        if t.__name__ in _C29_ATTRS:
            return _C29_ATTRS[t.__name__]
    return []
def _c29_state(o):
    USER_CALLS[0] += 1
    st = {n: getattr(o, n) for n in _c29_names(o)}
    d = getattr(o, '__dict__', None)
    if d:
        st['__dict__'] = dict(d)
    return st
def _c29_apply(o, st):
    for n, v in st.items():
        if n == '__dict__':
            o.__dict__.update(v)
        else:
            setattr(o, n, v)
def _c29_rebuild(t, st):
    o = t.__new__(t)
    _c29_apply(o, st)
    return o
""" % (CHARP[0], CHARP[1])


class Cls:
    def __init__(self, name, base, members, cinit=False, reduce="", getstate=False, auto=None,
                 cdict=False, weakref=False):
        self.name, self.base, self.members = name, base, members
        self.cinit, self.reduce, self.getstate, self.auto = cinit, reduce, getstate, auto
        self.cdict, self.weakref = cdict, weakref

    def chain(self):
        c, out = self, []
        while c is not None:
            out.append(c)
            c = c.base
        return out

    def entry_name(self, n):
        if n.startswith("__") and not n.endswith("__"):
            return "_" + self.name.lstrip("_") + n
        return n

    def all_members(self):
        """(entry name, type key) for the class and its bases - transcribed from the documentation:
        all attributes of the class and its bases, ordered by name"""
        out = []
        for c in self.chain():
            out += [(c.entry_name(n), t) for n, t in c.members]
        return sorted(out, key=lambda e: e[0])

    def source(self):
        L = []
        if self.auto is not None:
            L.append("@cython.auto_pickle(%s)" % self.auto)
        L.append("cdef class %s%s:" % (self.name, "(%s)" % self.base.name if self.base else ""))
        body = []
        if self.cdict:
            body.append("cdef dict __dict__")
        if self.weakref:
            body.append("cdef object __weakref__")
        for n, t in self.members:
            decl, kind, pub, _ = TYPES[t]
            if t == "arr3":
                body.append("cdef public int %s[3]" % n)
            else:
                body.append("cdef %s%s %s" % ("public " if pub else "", decl, n))
            if t == "charp":
                body += ["def _set_%s(self, int i):" % n,
                         "    if i == 0: self.%s = _B0" % n,
                         "    else: self.%s = _B1" % n,
                         "def _get_%s(self):" % n,
                         "    return None if self.%s is NULL else <bytes>self.%s" % (n, n)]
        if self.cinit:
            body += ["def __cinit__(self):", "    pass"]
        if self.reduce == "__reduce__":
            body += ["def __reduce__(self):", "    return (_c29_rebuild, (type(self), _c29_state(self)))"]
        elif self.reduce == "__reduce_ex__":
            body += ["def __reduce_ex__(self, proto):", "    return (_c29_rebuild, (type(self), _c29_state(self)))"]
        if self.getstate:
            body += ["def __getstate__(self):", "    return _c29_state(self)",
                     "def __setstate__(self, st):", "    _c29_apply(self, st)"]
        if not body:
            body = ["pass"]
        return "\n".join(L + ["    " + b for b in body]) + "\n"

    def source_pxd(self):
        """declaration part for a .pxd (attributes only: methods cannot be declared there)"""
        L = ["cdef class %s%s:" % (self.name, "(%s)" % self.base.name if self.base else "")]
        body = []
        if self.cdict:
            body.append("cdef dict __dict__")
        if self.weakref:
            body.append("cdef object __weakref__")
        for n, t in self.members:
            decl, kind, pub, _ = TYPES[t]
            body.append("cdef public int %s[3]" % n if t == "arr3" else "cdef %s%s %s" % ("public " if pub else "", decl, n))
        return "\n".join(L + ["    " + b for b in (body or ["pass"])]) + "\n"

    def source_impl(self):
        """implementation part for the .pyx that has the matching .pxd"""
        keep, self.members, cd, wr = self.members, [], self.cdict, self.weakref
        self.cdict = self.weakref = False
        try:
            return self.source()
        finally:
            self.members, self.cdict, self.weakref = keep, cd, wr

    # -- model encoding
    def enc(self, idx):
        ms = []
        if self.cdict:
            ms.append("%s:o" % encname("__dict__"))
        if self.weakref:
            ms.append("%s:o" % encname("__weakref__"))
        for n, t in self.members:
            ms.append("%s:%s" % (encname(self.entry_name(n)), TYPES[t][1]))
        au = {None: "n", True: "t", False: "f"}[self.auto]
        return "%d;%d;%d;%d;%d;%s;%s" % (idx, self.cinit, bool(self.reduce), self.getstate, self.getstate, au,
                                         ",".join(ms) or "-")


def encname(n):
    return ".".join(str(ord(ch)) for ch in n)


def decname(s):
    return "" if s == "_" else "".join(chr(int(x)) for x in s.split("."))


def enc_hier(c, ids):
    return "/".join(k.enc(ids[k.name]) for k in c.chain())


def has_dict(c, pysub):
    return pysub or any(k.cdict for k in c.chain())


# --------------------------------------------------------------------------- the documented rule (oracle)
def doc_rule(c):
    """'RT' must round-trip, 'TE' must raise TypeError, 'ANY' round-trip or TypeError (user methods /
    auto_pickle(False): the documentation promises nothing but a silent loss is still a violation)"""
    ch = c.chain()
    if any(k.reduce or k.getstate for k in ch):
        return "ANY"
    if c.auto is False:
        return "ANY"        # CPython's default reduce decides (an attribute-less type is picklable)
    return doc_rule_static(c)


def nonpick(t):
    """not convertible to/from a Python object (repaired rule: nor any pointer, whose target pickle cannot own)"""
    k = TYPES[t][1]
    return k in ("c000", "c010", "c001") or (FX["ptr"] == "1" and k != "o" and k[3] == "1")


def doc_rule_static(c):
    ch = c.chain()
    if any(k.reduce for k in ch) or c.auto is False:
        return "NONE"
    if any(k.cinit for k in ch):
        return "TE"
    ms = c.all_members()
    if any(nonpick(t) for _, t in ms):
        return "TE"
    if any(TYPES[t][1][2:3] == "1" for _, t in ms if TYPES[t][1] != "o") and c.auto is not True:
        return "TE"
    return "RT"


def checksums_of(names, avail=("sha256", "sha1", "md5")):
    s = " ".join(names).encode("utf-8")
    return [int(getattr(hashlib, a)(s).hexdigest()[:7], 16) for a in avail]


def hash_table(name_lists):
    ent = []
    seen = set()
    for names in name_lists:
        key = "+".join(encname(n) if n else "_" for n in names)
        if key in seen:
            continue
        seen.add(key)
        for i, v in enumerate(checksums_of(names)):
            ent.append("%d~%s~%d" % (i, key, v))
    return "|".join(ent) or "-"


# --------------------------------------------------------------------------- generation
def gen_family(rng, fam_no, force=None):
    """a chain root -> child -> grandchild with unique attribute names.  force = feature name, or
    (feature, depth, level that carries the feature) to pin the position of the feature in the chain"""
    depth = rng.choice([1, 1, 2, 2, 3])
    pool = rng.sample(NAMES, len(NAMES))
    pinned = None
    if isinstance(force, (tuple, list)):
        force, depth, pinned = force[0], force[1], force[2]
    feat = force or rng.choice(["plain"] * 8 + ["cinit", "ptr", "struct", "structT", "off", "reduce", "reduce_ex",
                                              "getstate", "charp", "structp", "offroot"])
    classes, base = [], None
    special_at = 0 if feat == "getstate" else rng.randrange(depth)
    if pinned is not None:
        special_at = pinned
    for d in range(depth):
        nm = rng.randrange(0, 5) if d else rng.randrange(0, 6)
        members = []
        for _ in range(nm):
            n = pool.pop()
            t = rng.choice(COMMON) if rng.random() < 0.6 else rng.choice(
                [k for k in TYPES if TYPES[k][1] in ("o", "c100")])
            members.append((n, t))
        c = Cls("K%d_%d" % (fam_no, d), base, members)
        if rng.random() < 0.2:
            c.cdict = not any(k.cdict for k in c.chain()[1:])
        if rng.random() < 0.08 and not any(k.weakref for k in c.chain()[1:]):
            c.weakref = True
        if d == special_at:
            if feat == "cinit":
                c.cinit = True
            elif feat == "ptr":
                members.append((pool.pop(), rng.choice(["intp", "voidp", "funcp"])))
            elif feat == "structp":
                members.append((pool.pop(), "structp"))
            elif feat == "struct":
                members.append((pool.pop(), "struct"))
            elif feat == "structT":
                members.append((pool.pop(), "struct"))
            elif feat == "off":
                c.auto = False
                if not members:
                    members.append((pool.pop(), "int"))
            elif feat == "offroot":
                c.auto = False
            elif feat in ("reduce", "reduce_ex"):
                c.reduce = "__" + feat + "__"
            elif feat == "getstate":
                c.getstate = True
            elif feat == "charp":
                members.append((pool.pop().strip("_") + "cp", "charp"))
        if feat == "structT" and d >= special_at:
            c.auto = True          # every class that sees the struct member must force it
        if feat == "offroot" and d == 0:
            c.auto = False
        rng.shuffle(members)
        classes.append(c)
        base = c
    return feat, classes


def gen_module(rng, modno, nfam, forced=()):
    fams = []
    for i in range(nfam):
        fams.append(gen_family(rng, i, forced[i] if i < len(forced) else None))
    return "c29_m%d" % modno, fams


def module_source(fams, extra_header=""):
    attrs = {"Leaf": ["v"]}
    src = [HEADER, extra_header]
    for _, classes in fams:
        for c in classes:
            src.append(c.source())
            attrs[c.name] = [n for n, t in c.all_members() if TYPES[t][2]]
    src.append("_C29_ATTRS = %r\n" % attrs)
    return "\n".join(src)


# --------------------------------------------------------------------------- worker (runs the real code)
WORKER = r'''
import sys, os, json, pickle, copy, importlib, base64, signal
sys.path.insert(0, os.getcwd())
spec = json.load(sys.stdin)
MODS = {}
def getmod(n):
    if n not in MODS:
        MODS[n] = importlib.import_module(n)
    return MODS[n]
ATTRS = {}
def attr_names(t):
    for k in t.__mro__:
        if k.__name__ in ATTRS:
            return ATTRS[k.__name__]
    return None
def canon(v, seen=()):
    for i, s in enumerate(seen):
        if s is v:
            return "<cycle%d>" % i
    if v is None or isinstance(v, (bool, int, str, bytes)):
        return repr(v)
    if isinstance(v, float):
        return "f:" + (v.hex() if v == v else "nan")
    if isinstance(v, complex):
        return "c:%s,%s" % (canon(v.real), canon(v.imag))
    s2 = seen + (v,)
    if isinstance(v, (list, tuple)):
        return type(v).__name__ + "[" + ",".join(canon(x, s2) for x in v) + "]"
    if isinstance(v, (set, frozenset)):
        return "set{" + ",".join(sorted(canon(x, s2) for x in v)) + "}"
    if isinstance(v, dict):
        return "dict{" + ",".join(sorted(canon(k, s2) + ":" + canon(x, s2) for k, x in v.items())) + "}"
    names = attr_names(type(v))
    if names is not None:
        return "I:%s(%s)" % (type(v).__name__, ",".join("%s=%s" % (n, canon(getattr(v, n), s2)) for n in names))
    return "?" + repr(v)
def get_attr(o, a):
    n, how = a[0], a[1]
    if how == "attr":
        return getattr(o, n)
    return getattr(o, "_get_" + n)()
def snap(o, attrs, root=None):
    out = {}
    root = o if root is None else root
    if any(a[1] == "meth" for a in attrs):
        junk = [bytes([65 + i % 20]) * n for i in range(40) for n in (70, 71, 72, 73)]
    for a in attrs:
        if a[1] == "none":
            continue
        try:
            out[a[0]] = canon(get_attr(o, a), (root,))
        except BaseException as e:
            out[a[0]] = "!EXC " + type(e).__name__
    d = getattr(o, "__dict__", None)
    return out, (None if d is None else "%d|%s" % (len(d), canon(d, (root,))))
PYSUB = {}
DFLT = {}
def get_class(job):
    m = getmod(job["mod"])
    ATTRS.update(m._C29_ATTRS)
    cls = getattr(m, job["cls"])
    if job.get("pysub"):
        key = (job["mod"], job["cls"])
        if key not in PYSUB:
            nm = "Py_%s_%s" % (job["mod"], job["cls"])
            T = type(nm, (cls,), {})
            T.__module__ = "__main__"; T.__qualname__ = nm
            sys.modules["__main__"].__dict__[nm] = T
            PYSUB[key] = T
        return m, PYSUB[key]
    return m, cls
def build(job):
    m, cls = get_class(job)
    o = cls()
    env = {"Leaf": m.Leaf, "SELF": o}
    want = {}
    for a in job["attrs"]:
        n, how, src = a[0], a[1], a[2]
        if how == "none" or src is None:
            continue
        v = eval(src, env)
        if how == "attr":
            setattr(o, n, v)
        else:
            getattr(o, "_set_" + n)(job["charp"].index(src))
        want[n] = canon(v, (o,))
    for k, src in (job.get("dict") or {}).items():
        setattr(o, k, eval(src, env))
    for n, src in (job.get("defaults") or {}).items():
        DFLT[n] = canon(eval(src, env))
    return m, cls, o, want
def exc_of(e):
    return {"exc": type(e).__name__, "msg": str(e)[:300], "mro": [t.__name__ for t in type(e).__mro__]}
def info(m, cls, o):
    d = {}
    base = cls.__mro__[1] if cls.__module__ == "__main__" else cls
    d["has_rc"] = "__reduce_cython__" in base.__dict__
    r = base.__dict__.get("__reduce__")
    d["red"] = getattr(r, "__name__", None) if r is not None else None
    s = base.__dict__.get("__setstate__")
    d["sst"] = getattr(s, "__name__", None) if s is not None else None
    try:
        rv = o.__reduce_ex__(2)
        f = rv[0]
        d["rv"] = {"f": getattr(f, "__name__", "?"), "type_ok": (rv[1][0] is type(o)) if len(rv) > 1 and rv[1] else None,
                   "chk": rv[1][1] if len(rv[1]) > 1 and isinstance(rv[1][1], int) else None,
                   "arg": None if len(rv[1]) < 3 or rv[1][2] is None else [canon(x, (o,)) for x in rv[1][2]],
                   "state": None if len(rv) < 3 or rv[2] is None else
                            ([canon(x, (o,)) for x in rv[2]] if isinstance(rv[2], tuple) else "?" + canon(rv[2], (o,)))}
        if d["rv"]["f"].startswith("__pyx_unpickle_"):
            try:
                f(type(o), 1, None)
                d["perr"] = "no error"
            except BaseException as e:
                d["perr"] = exc_of(e)
    except BaseException as e:
        d["rv"] = exc_of(e)
    return d
def do_op(o, op):
    if op == "copy":
        return copy.copy(o)
    if op == "deepcopy":
        return copy.deepcopy(o)
    return pickle.loads(pickle.dumps(o, int(op[1:])))
def run_job(job):
    kind = job["kind"]
    if kind == "rt":
        m, cls, o, want = build(job)
        before, bdict = snap(o, job["attrs"])
        res = {"want": want, "before": before, "bdict": bdict, "info": info(m, cls, o), "ops": {},
               "dflt": dict(DFLT)}
        DFLT.clear()
        for op in job["ops"]:
            u0 = m.USER_CALLS[0]
            try:
                o2 = do_op(o, op)
                after, adict = snap(o2, job["attrs"], o if op == "copy" else None)
                res["ops"][op] = {"after": after, "adict": adict, "type_ok": type(o2) is type(o),
                                  "distinct": o2 is not o, "user": m.USER_CALLS[0] - u0}
            except BaseException as e:
                res["ops"][op] = exc_of(e)
        return res
    if kind == "unp":        # call __pyx_unpickle_<owner>(cls, chk, state) with a crafted state
        m, cls = get_class(job)
        env = {"Leaf": m.Leaf}
        f = getattr(m, "__pyx_unpickle_" + job["owner"])
        st = None if job["state"] is None else tuple(eval(s, env) for s in job["state"])
        try:
            o2 = f(cls, job["chk"], st)
            after, adict = snap(o2, job["attrs"])
            return {"after": after, "adict": adict}
        except BaseException as e:
            return exc_of(e)
    if kind == "dump":       # layout change, writing side
        m, cls, o, want = build(job)
        out = {}
        for p in job["protos"]:
            try:
                out[str(p)] = base64.b64encode(pickle.dumps(o, p)).decode()
            except BaseException as e:
                out[str(p)] = exc_of(e)
        before, bdict = snap(o, job["attrs"])
        return {"pickles": out, "before": before, "bdict": bdict}
    if kind == "loadp":      # layout change, reading side
        m, cls = get_class(job)
        out = {}
        for p, b in job["pickles"].items():
            try:
                o2 = pickle.loads(base64.b64decode(b))
                after, adict = snap(o2, job["attrs"])
                out[p] = {"after": after, "adict": adict, "cls": type(o2).__name__}
            except BaseException as e:
                out[p] = exc_of(e)
        return out
    return {"exc": "BADJOB"}
jobs = spec["jobs"]
for i in range(spec.get("start", 0), len(jobs)):
    sys.stdout.write(json.dumps({"i": i, "begin": 1}) + "\n"); sys.stdout.flush()
    signal.alarm(20)
    try:
        r = run_job(jobs[i])
    except BaseException as e:
        r = {"exc": "HARNESS:" + type(e).__name__, "msg": str(e)[:300]}
    signal.alarm(0)
    sys.stdout.write(json.dumps({"i": i, "r": r}) + "\n"); sys.stdout.flush()
'''


def run_jobs(workdir, jobs, tag="w"):
    """run jobs in a fresh interpreter in workdir; a crash marks the job that had begun and resumes"""
    results = [None] * len(jobs)
    start, crashes = 0, 0
    while start < len(jobs):
        r = cybuild.run_script(WORKER, workdir, {"jobs": jobs, "start": start}, timeout=1500,
                               name="c29_worker_%s.py" % tag)
        begun = None
        for line in (r["out"] or "").splitlines():
            try:
                d = json.loads(line)
            except Exception:
                continue
            if "begin" in d:
                begun = d["i"]
            elif "i" in d:
                results[d["i"]] = d["r"]
                begun = None if begun == d["i"] else begun
        if r["rc"] == 0 and all(x is not None for x in results[start:]):
            break
        if begun is None:
            for i in range(start, len(jobs)):
                if results[i] is None:
                    results[i] = {"exc": "WORKER", "msg": "rc=%s %s" % (r["rc"], (r["err"] or "")[-300:])}
            break
        results[begun] = {"exc": "CRASH", "msg": "rc=%s" % r["rc"]}
        start = begun + 1
        crashes += 1
        if crashes > 60:
            for i in range(start, len(jobs)):
                if results[i] is None:
                    results[i] = {"exc": "WORKER", "msg": "too many crashes"}
            break
    return results


# --------------------------------------------------------------------------- helpers for the model side
class Values:
    """token table: token 0 is reserved (falsy atom), token i>0 = i-th distinct source"""
    def __init__(self):
        self.srcs, self.idx = [], {}

    def tok(self, src):
        if src not in self.idx:
            self.srcs.append(src)
            self.idx[src] = len(self.srcs)
        return self.idx[src]


def job_attrs(c, values_for):
    """[[python name, access, source]] for every member of the class and its bases"""
    out = []
    for n, t in c.all_members():
        how = "attr" if TYPES[t][2] else ("meth" if t == "charp" else "none")
        out.append([n, how, values_for.get(n)])
    return out


def model_slots(c, vals, values_for):
    out = []
    for n, t in c.all_members():
        src = values_for.get(n)
        if TYPES[t][1] == "o":
            out.append("%s=o%s" % (encname(n), "N" if src in (None, "None") else "A%d" % vals.tok(src)))
        elif src is None:
            out.append("%s=c0" % encname(n))
        else:
            out.append("%s=c%d" % (encname(n), vals.tok(src)))
    return ",".join(out) or "-"


def model_dict(c, pysub, vals, dct):
    if not has_dict(c, pysub):
        return "!"
    if not dct:
        return "-"
    return ",".join("%d:%d" % (vals.tok(repr(k)), vals.tok(v)) for k, v in dct.items())


def pick_values(rng, c, mode):
    vf = {}
    for n, t in c.all_members():
        vs = TYPES[t][3]
        if not vs:
            continue
        if mode == "default":
            vf[n] = vs[0]
        elif mode == "allnone":
            vf[n] = vs[0] if TYPES[t][1] == "o" else rng.choice(vs)
        else:
            # a user __reduce__ that passes the state as constructor argument cannot express cycles
            vf[n] = rng.choice(vs if doc_rule(c) != "ANY" else [v for v in vs if "SELF" not in v])
    return vf


def classify(c, env_quirk=False):
    ch = c.chain()
    if env_quirk:
        return "module_level_name_disables_autopickle"
    if any(t == "charp" for _, t in c.all_members()):
        return "char_ptr_member_not_preserved"
    for i, k in enumerate(ch):
        if k.auto is False and k.members and any(doc_rule_static(b) == "RT" for b in ch[i + 1:]):
            return "autopickle_off_subclass_drops_members"
    return "roundtrip_violation"


REASON_MSG = [("cinit", "no default __reduce__ due to non-trivial __cinit__"),
              ("nonpy", "cannot be converted to a Python object for pickling"),
              ("struct", "must be explicitly requested with @auto_pickle(True)")]


def parse_perr(msg):
    m = re.match(r"Incompatible checksums \((0x[0-9a-f]+) vs \(([^)]*)\) = \((.*)\)\)$", msg)
    if not m:
        return None
    return [int(x, 16) for x in m.group(2).split(", ")], ([] if m.group(3) == "" else m.group(3).split(", "))


# --------------------------------------------------------------------------- main correspondence
def run(ctx):
    quick = ctx.tier == "quick"
    rng = ctx.rng
    model = ctx.model("pickle")
    fl = flags()
    nmod, nfam = (2, 11) if quick else (14, 18)
    forced_all = ["cinit", "ptr", "struct", "structT", "off", "reduce", "reduce_ex", "getstate", "charp",
                  "structp", "offroot", "off"]
    # quick tier: the position of the feature in the chain is pinned so that every refusal rule is met
    # through a BASE class (root of a depth-2/3 chain, middle of a depth-3 chain) and not only through the
    # class's own scope; the thorough tier adds the same pins to its random draw
    pinned_all = [("cinit", 2, 0), ("ptr", 3, 1), ("struct", 2, 0), ("structT", 3, 0), ("off", 2, 1), ("reduce", 2, 0),
                  ("reduce_ex", 3, 1), ("getstate", 2, 0), ("charp", 2, 0), ("structp", 3, 0), ("offroot", 2, 0),
                  ("cinit", 3, 1)]
    mods = []
    for i in range(nmod):
        forced = pinned_all[i * 6:(i + 1) * 6] if quick else (rng.sample(pinned_all, 4) + rng.sample(forced_all, 6))
        mods.append(gen_module(rng, i, nfam, forced))
    specs = [dict(name=mn, source=module_source(fams), workdir=ctx.workdir, cflags=["-O0"]) for mn, fams in mods]
    # module-level names that shadow class method lookups (lookup() walks into the module scope)
    envmods = [("c29_envc", "__cinit__ = None\n", "10"), ("c29_envr", "def __reduce__():\n    pass\n", "01")]
    envfam = {}
    for mn, hdr, envbits in envmods:
        fam = [("plain", [Cls("E0", None, [("a", "int"), ("o", "object")])])]
        fam[0][1].append(Cls("E1", fam[0][1][0], [("b", "double")]))
        envfam[mn] = (fam, envbits)
        specs.append(dict(name=mn, source=module_source(fam, hdr), workdir=ctx.workdir, cflags=["-O0"]))
    _T0[0] = time.time()
    lay_specs, lay_state = layout_prepare(ctx)
    specs += lay_specs
    specs.append(dict(name="c29_bt", source=BT_SOURCE, workdir=ctx.workdir, cflags=["-O0"]))
    chain_prep = chain_prepare(ctx)
    import concurrent.futures as cf
    with cf.ThreadPoolExecutor(max_workers=2) as ex:
        ct_future = ex.submit(compile_time_run, ctx)
        chain_future = ex.submit(chain_run, ctx, chain_prep)
        built = cybuild.build_many(specs, jobs=8)
        ct_out = ct_future.result()
        chain_out = chain_future.result()
    tick("built %d modules" % len(specs))
    for (so, err), sp in zip(built, specs):
        if err is not None:
            ctx.corr_break("build " + sp["name"], sp["name"], str(err)[:1500], "module builds")
            return
    allmods = [(mn, fams, "00") for mn, fams in mods] + [(mn, envfam[mn][0], envfam[mn][1]) for mn, _, _ in envmods]

    vals = Values()
    jobs, meta = [], []
    ops_all = ["p0", "p1", "p2", "p3", "p4", "p5", "copy", "deepcopy"]
    for mn, fams, envbits in allmods:
        for feat, classes in fams:
            ids = {c.name: i + 1 for i, c in enumerate(classes)}
            for c in classes:
                variants = [(False, "rand"), (False, "default"), (True, "rand")]
                if not quick:
                    variants += [(False, "rand"), (False, "allnone"), (True, "default"), (True, "rand")]
                for pysub, mode in variants:
                    vf = pick_values(rng, c, mode)
                    dct = {}
                    if has_dict(c, pysub) and (mode != "default"):
                        for k in rng.sample(DICTKEYS, rng.randrange(0, 3)):
                            dct[k] = rng.choice(DICTVALS)
                    jobs.append({"kind": "rt", "mod": mn, "cls": c.name, "pysub": pysub, "attrs": job_attrs(c, vf),
                                 "dict": dct, "ops": ops_all, "charp": CHARP,
                                 "defaults": {n: TYPES[t][3][0] for n, t in c.all_members()
                                              if TYPES[t][3] and t != "charp"}})
                    meta.append((mn, feat, c, ids, pysub, vf, dct, envbits))
    res = run_jobs(ctx.workdir, jobs, "rt")
    tick("ran %d rt jobs" % len(jobs))

    # ---- model queries
    q_dec, q_eff, q_red, q_rt = [], [], [], []
    for (mn, feat, c, ids, pysub, vf, dct, envbits) in meta:
        h = enc_hier(c, ids)
        names_lists = [[n for n, _ in k.all_members()] for k in c.chain()]
        ht = hash_table(names_lists)
        slots = model_slots(c, vals, vf)
        md = model_dict(c, pysub, vals, dct)
        q_dec.append("decide %s %s %s" % (fl, envbits, h))
        q_eff.append("eff %s %s %s" % (fl, envbits, h))
        q_red.append("reduce %s %s %s %s %d %s %s" % (fl, envbits, ht, h, pysub, slots, md))
        q_rt.append("rt %s %s 012 %s %s %d %s %s" % (fl, envbits, ht, h, pysub, slots, md))
    m_dec, m_eff, m_red, m_rt = (model.batch(q) for q in (q_dec, q_eff, q_red, q_rt))

    def tokcanon(tok, want_by_src):
        return want_by_src.get(vals.srcs[tok - 1]) if tok > 0 else None

    n_viol = 0
    for job, mt, r, d_m, e_m, r_m, rt_m in zip(jobs, meta, res, m_dec, m_eff, m_red, m_rt):
        (mn, feat, c, ids, pysub, vf, dct, envbits) = mt
        inp = {"module": mn, "class": c.name, "pysub": pysub, "values": vf, "dict": dct, "feature": feat,
               "source": "".join(k.source() for k in reversed(c.chain()))}
        rule = doc_rule(c)
        envq = envbits != "00"
        if "exc" in r and "ops" not in r:
            ctx.case("harness/" + r["exc"], inp, sig=(mn, c.name, pysub, str(vf)))
            ctx.fail(classify(c, envq) if r["exc"] == "CRASH" else "harness_error", inp, r, "a result")
            continue
        info = r["info"]
        src2canon = {}
        for n, src in vf.items():
            if n in r["want"]:
                src2canon[src] = r["want"][n]
        # ---------- tie 1: eligibility decision and member order
        obs_dec = None
        rv = info["rv"]
        if not info["has_rc"] and info["red"] != "__reduce_cython__":
            obs_dec = "N"
        elif "exc" in rv:
            reason = [k for k, t in REASON_MSG if t in rv.get("msg", "")]
            cul = re.findall(r"self\.([^\s,]+)", rv.get("msg", ""))
            obs_dec = "R %s %s" % (reason[0] if reason else "?", ",".join(encname(x) for x in cul) or "-")
        if obs_dec is not None:
            want_dec = d_m.replace(" CE", "")
            if info["has_rc"] and info["red"] != "__reduce_cython__":
                pass        # generated but not installed (__getstate__ present): decision visible only as has_rc
            elif obs_dec != want_dec:
                ctx.corr_break("pickle:decide", inp, obs_dec, d_m)
        # member order + checksums from the PickleError text of the owner's unpickle function
        perr = info.get("perr")
        if isinstance(perr, dict) and e_m.startswith("P "):
            _, owner_id, mnames = e_m.split(" / ")[0].split(" ")
            parsed = parse_perr(perr.get("msg", ""))
            owner = [k for k in c.chain() if ids[k.name] == int(owner_id)][0]
            exp_names = [n for n, _ in owner.all_members()]           # documented: sorted by name
            mod_names = [decname(x) for x in mnames.split(",")] if mnames != "-" else []
            if parsed is None or "PickleError" not in perr.get("mro", []):
                ctx.fail("bad_checksum_not_pickleerror", inp, perr, "pickle.PickleError")
            else:
                if parsed[1] != mod_names:
                    ctx.corr_break("pickle:member_order", inp, parsed[1], mod_names)
                if parsed[1] != exp_names:
                    ctx.fail("member_order_not_sorted", inp, parsed[1], exp_names)
                if parsed[0] != checksums_of(exp_names):
                    ctx.fail("checksum_mismatch_hashlib", inp, parsed[0], checksums_of(exp_names))
            if rv.get("f") != "__pyx_unpickle_" + owner.name:
                ctx.corr_break("pickle:owner", inp, rv.get("f"), owner.name)
        elif e_m.startswith("P ") != (isinstance(rv, dict) and str(rv.get("f", "")).startswith("__pyx_unpickle_")):
            ctx.corr_break("pickle:effective_reduce", inp, rv, e_m)
        # ---------- tie 2: the reduce value
        if r_m.startswith("V "):
            _, owner_id, chk, arg_s, st_s = r_m.split(" ")

            def dec_state(s):
                if s == "NONE":
                    return None
                if s == "-":
                    return []
                out = []
                for it in s.split(","):
                    if it == "N":
                        out.append("None")
                    elif it.startswith("A"):
                        out.append(tokcanon(int(it[1:]), src2canon))
                    else:
                        out.append("DICT")
                return out
            obs_arg = rv.get("arg")
            obs_st = rv.get("state")
            if isinstance(obs_st, list) and dct and has_dict(c, pysub):
                obs_st = obs_st[:-1] + ["DICT"]
            if "exc" in rv or rv.get("chk") != int(chk) or obs_arg != dec_state(arg_s) or obs_st != dec_state(st_s):
                ctx.corr_break("pickle:reduce", inp, rv, r_m)
        elif r_m.startswith("E TypeError"):
            if "exc" not in rv or rv["exc"] != "TypeError":
                ctx.corr_break("pickle:reduce", inp, rv, r_m)
        # ---------- per operation: property oracle + tie 3 (round trip result)
        for op in job["ops"]:
            o = r["ops"][op]
            stratum = "%s/%s/%s/%s" % (rule, feat, "pysub" if pysub else "cdef", op)
            ctx.case(stratum, inp, sig=(mn, c.name, pysub, op, json.dumps(vf, sort_keys=True), json.dumps(dct, sort_keys=True)))
            inp_op = dict(inp, op=op)
            if "exc" in o:
                is_te = "TypeError" in o.get("mro", [])
                if rule == "RT" or (rule == "ANY" and not is_te) or (rule == "TE" and not is_te):
                    n_viol += 1
                    ctx.fail(classify(c, envq), inp_op, o, "round trip" if rule == "RT" else "TypeError")
                if rt_m.startswith("O "):
                    if not (rule != "RT" and is_te) and "=dangling" not in rt_m:
                        ctx.corr_break("pickle:rt_raises", inp_op, o, rt_m)
                elif rt_m.startswith("E TypeError") and not is_te:
                    ctx.corr_break("pickle:rt_exc", inp_op, o, rt_m)
                continue
            same = (o["after"] == r["before"] and o["adict"] == r["bdict"] and o["type_ok"] and o["distinct"])
            if rule == "TE" or not same:
                n_viol += 1
                ctx.fail(classify(c, envq), inp_op, {"after": o["after"], "dict": o["adict"], "type_ok": o["type_ok"]},
                         {"before": r["before"], "dict": r["bdict"]} if rule != "TE" else "TypeError")
            if (c.chain()[0].reduce or any(k.reduce for k in c.chain())) and o.get("user", 0) < 1:
                ctx.fail("user_reduce_not_used", inp_op, o, "user __reduce__ called")
            # model result
            if rt_m.startswith("O "):
                _, slots_s, dict_s = rt_m.split(" ")
                mod_after = {}
                for it in ([] if slots_s == "-" else slots_s.split(",")):
                    k, v = it.split("=")
                    if v == "dangling":      # undefined content: anything observed is consistent
                        mod_after[decname(k)] = o["after"].get(decname(k))
                    elif v == "oN":
                        mod_after[decname(k)] = "None"
                    elif v.startswith("oA"):
                        mod_after[decname(k)] = tokcanon(int(v[2:]), src2canon)
                    elif v.startswith("c"):
                        mod_after[decname(k)] = (tokcanon(int(v[1:]), src2canon) if v != "c0"
                                                 else r["dflt"].get(decname(k)))
                acc = {a[0] for a in job["attrs"] if a[1] != "none"}
                mod_after = {k: v for k, v in mod_after.items() if k in acc}
                if mod_after != o["after"]:
                    ctx.corr_break("pickle:rt_value", inp_op, o["after"], mod_after)
                mdict = None if dict_s == "!" else len([] if dict_s == "-" else dict_s.split(","))
                odict = None if o["adict"] is None else int(o["adict"].split("|")[0])
                if mdict != odict:
                    ctx.corr_break("pickle:rt_dict", inp_op, o["adict"], dict_s)
            elif rt_m.startswith("E TypeError"):
                ctx.corr_break("pickle:rt_should_raise", inp_op, o, rt_m)
            # "E Other": user methods / CPython default - outside the model
    ctx.note("round-trip jobs: %d objects x %d operations" % (len(jobs), len(ops_all)))

    tick("round trips compared")
    crafted_states(ctx, model, allmods, vals, fl)
    tick("crafted done")
    layout_change(ctx, model, fl, lay_state)
    tick("layout done")
    compile_time(ctx, model, fl, ct_out)
    tick("compile-time done")
    chain_compare(ctx, model, fl, chain_prep, chain_out)
    tick("chain sweep done")
    builtin_bases(ctx)
    tick("builtin bases done")
    debug_dump(ctx)


# --------------------------------------------------------------------------- crafted states
def crafted_states(ctx, model, allmods, vals, fl):
    """direct calls of __pyx_unpickle_<C>: wrong checksum, short/long state, dict for a dict-less type"""
    rng = ctx.rng
    jobs, meta = [], []
    for mn, fams, envbits in allmods:
        if envbits != "00":
            continue
        for feat, classes in fams:
            ids = {c.name: i + 1 for i, c in enumerate(classes)}
            for c in classes:
                if doc_rule(c) != "RT" or any(t == "charp" for _, t in c.all_members()):
                    continue
                ms = c.all_members()
                full = [rng.choice(TYPES[t][3][:4] if t != "object" else ["None", "5", "'str'"]) for _, t in ms]
                names = [n for n, _ in ms]
                good = checksums_of(names)
                variants = [("ok", good[0], full), ("sha1", good[1], full), ("md5", good[2], full),
                            ("badchk", (good[0] + 1) % (1 << 28), full), ("none_state", good[0], None),
                            ("short", good[0], full[:-1]) if full else ("empty", good[0], []),
                            ("extra_dict", good[0], full + ["{'zz': 1}"]),
                            ("extra_emptydict", good[0], full + ["{}"]),
                            ("extra_nondict", good[0], full + ["[1]"]),
                            ("extra_two", good[0], full + ["{'zz': 1}", "7"])]
                for tag, chk, st in variants:
                    for pysub in (False, True):
                        jobs.append({"kind": "unp", "mod": mn, "cls": c.name, "pysub": pysub, "owner": c.name,
                                     "chk": chk, "state": st, "attrs": job_attrs(c, {})})
                        meta.append((mn, c, ids, pysub, tag, chk, st, names))
    if len(jobs) > 1500:
        keep = sorted(rng.sample(range(len(jobs)), 1500))
        jobs, meta = [jobs[i] for i in keep], [meta[i] for i in keep]
    res = run_jobs(ctx.workdir, jobs, "unp")
    qs = []
    for (mn, c, ids, pysub, tag, chk, st, names) in meta:
        if st is None:
            s = "NONE"
        else:
            items = []
            for i, src in enumerate(st):
                if src.startswith("{") and i >= len(names):
                    items.append("D<>" if src == "{}" else "D<%d:%d>" % (vals.tok("'zz'"), vals.tok("1")))
                else:
                    items.append("N" if src == "None" else "A%d" % vals.tok(src))
            s = ",".join(items) or "-"
        qs.append("unpickle %s 00 012 %s %s %d %d %s" % (fl, hash_table([names]), enc_hier(c, ids), pysub, chk, s))
    mres = model.batch(qs)
    ERRMAP = {"PickleError": "PickleError", "IndexError": "IndexError", "NoDictError": "AttributeError",
              "DictUpdateError": ("TypeError", "ValueError", "AttributeError")}
    for mt, r, m, q in zip(meta, res, mres, qs):
        (mn, c, ids, pysub, tag, chk, st, names) = mt
        inp = {"module": mn, "class": c.name, "pysub": pysub, "tag": tag, "chk": chk, "state": st,
               "source": "".join(k.source() for k in reversed(c.chain()))}
        ctx.case("crafted/%s/%s" % (tag, "pysub" if pysub else "cdef"), inp, sig=(mn, c.name, pysub, tag))
        # property oracle: a checksum outside the accepted set must raise PickleError; an accepted one with
        # a full-length state must assign positionally
        good = checksums_of(names)
        if chk not in good:
            if "PickleError" not in r.get("mro", []):
                ctx.fail("bad_checksum_accepted", inp, r, "PickleError")
        elif st is not None and len(st) >= len(names) and tag in ("ok", "sha1", "md5", "extra_emptydict"):
            if "exc" in r:
                ctx.fail("good_state_rejected", inp, r, "object")
        if m.startswith("E "):
            want = ERRMAP.get(m.split(" ")[1], m.split(" ")[1])
            want = want if isinstance(want, tuple) else (want,)
            if "exc" not in r or not any(w in r.get("mro", []) for w in want):
                ctx.corr_break("pickle:unpickle_error", inp, r, m)
        elif m.startswith("O "):
            if "exc" in r:
                ctx.corr_break("pickle:unpickle_ok", inp, r, m)
            else:
                mdict = m.split(" ")[2]
                if (mdict == "!") != (r["adict"] is None) or (mdict not in ("!", "-")) != (r["adict"] not in (None, "0|dict{}")):
                    ctx.corr_break("pickle:unpickle_dict", inp, r, m)


# --------------------------------------------------------------------------- layout change
def find_collision(limit=400000):
    """two different one-member layouts whose 28-bit sha256 prefixes coincide (birthday search)"""
    seen = {}
    for i in range(limit):
        n = "m%d" % i
        h = hashlib.sha256(n.encode()).hexdigest()[:7]
        if h in seen:
            return seen[h], n
        seen[h] = n
    return None


def layout_prepare(ctx):
    """the same module/class names built twice with different member lists; pickles written by build 1
    are loaded by build 2"""
    quick = ctx.tier == "quick"
    rng = ctx.rng
    col = find_collision()
    O = "object"
    # name: (v1 classes [(cls, base, members)], v2 classes)
    cases = {
        "same": ([("L0", None, [("a", O), ("b", "int")])], [("L0", None, [("a", O), ("b", "int")])]),
        "reordered": ([("L1", None, [("a", O), ("b", O), ("c", "int")])], [("L1", None, [("c", "int"), ("b", O), ("a", O)])]),
        "added": ([("L2", None, [("a", O), ("b", O)])], [("L2", None, [("a", O), ("b", O), ("c", O)])]),
        "removed": ([("L3", None, [("a", O), ("b", O)])], [("L3", None, [("a", O)])]),
        "renamed": ([("L4", None, [("a", O), ("b", O)])], [("L4", None, [("a", O), ("c", O)])]),
        "swapped_names": ([("L5", None, [("a", O), ("b", O)])], [("L5", None, [("b", O), ("aa", O)])]),
        "moved_to_base": ([("L6b", None, [("a", O)]), ("L6", "L6b", [("b", O), ("c", "int")])],
                          [("L6b", None, [("a", O), ("c", "int")]), ("L6", "L6b", [("b", O)])]),
        "base_added": ([("L7b", None, [("a", O)]), ("L7", "L7b", [("z", O)])],
                       [("L7b", None, [("a", O), ("m", O)]), ("L7", "L7b", [("z", O)])]),
        "case_changed": ([("L8", None, [("a", O), ("B", O)])], [("L8", None, [("A", O), ("b", O)])]),
        "dict_added": ([("L9", None, [("a", O)])], [("L9", None, [("a", O)])]),
    }
    if col:
        cases["collision"] = ([("LC", None, [(col[0], O)])], [("LC", None, [(col[1], O)])])
    if not quick:
        for i in range(12):
            names = rng.sample(["a", "b", "c", "d", "e", "f", "g", "B", "_z"], rng.randrange(1, 6))
            n2 = list(names)
            how = rng.choice(["shuffle", "add", "drop", "rename"])
            if how == "shuffle":
                rng.shuffle(n2)
            elif how == "add":
                n2.insert(rng.randrange(len(n2) + 1), "q%d" % i)
            elif how == "drop":
                n2.pop(rng.randrange(len(n2)))
            else:
                n2[rng.randrange(len(n2))] = "q%d" % i
            cases["rand%d_%s" % (i, how)] = ([("R%d" % i, None, [(n, O) for n in names])],
                                            [("R%d" % i, None, [(n, O) for n in n2])])

    def mk(version):
        fams, by = [], {}
        for tag, vv in cases.items():
            cl = []
            for nm, base, members in vv[version]:
                c = Cls(nm, by.get(base), list(members))
                if tag == "dict_added" and version == 1:
                    c.cdict = True
                by[nm] = c
                cl.append(c)
            fams.append((tag, cl))
        return fams
    f1, f2 = mk(0), mk(1)
    d1, d2 = os.path.join(ctx.workdir, "lay1"), os.path.join(ctx.workdir, "lay2")
    specs = [dict(name="c29_lay", source=module_source(f1), workdir=d1, cflags=["-O0"]),
             dict(name="c29_lay", source=module_source(f2), workdir=d2, cflags=["-O0"])]
    return specs, (f1, f2, d1, d2)


def layout_change(ctx, model, fl, state):
    quick = ctx.tier == "quick"
    O = "object"
    f1, f2, d1, d2 = state
    vals = Values()
    jobs1, meta = [], []
    for (tag, cl1), (_, cl2) in zip(f1, f2):
        c1, c2 = cl1[-1], cl2[-1]
        vf = {}
        for k, (n, t) in enumerate(c1.all_members()):
            vf[n] = ("'%s-value'" % n) if t == O else str(100 + k)
        jobs1.append({"kind": "dump", "mod": "c29_lay", "cls": c1.name, "pysub": False, "attrs": job_attrs(c1, vf),
                      "dict": {}, "protos": [0, 2, 5] if quick else [0, 1, 2, 3, 4, 5], "charp": CHARP})
        meta.append((tag, c1, c2, cl1, cl2, vf))
    r1 = run_jobs(d1, jobs1, "lay1")
    jobs2 = []
    for (tag, c1, c2, cl1, cl2, vf), r in zip(meta, r1):
        pk = {p: b for p, b in (r.get("pickles") or {}).items() if isinstance(b, str)}
        jobs2.append({"kind": "loadp", "mod": "c29_lay", "cls": c2.name, "pysub": False, "pickles": pk,
                      "attrs": job_attrs(c2, {})})
    r2 = run_jobs(d2, jobs2, "lay2")
    qs = []
    for (tag, c1, c2, cl1, cl2, vf) in meta:
        ids1 = {c.name: i + 1 for i, c in enumerate(cl1)}
        ids2 = {c.name: i + 1 for i, c in enumerate(cl2)}
        nl = [[n for n, _ in k.all_members()] for k in c1.chain() + c2.chain()]
        qs.append("cross %s 00 012 %s %s 0 %s ! %s 0" % (fl, hash_table(nl), enc_hier(c1, ids1),
                                                         model_slots(c1, vals, vf), enc_hier(c2, ids2)))
    mres = model.batch(qs)
    for (tag, c1, c2, cl1, cl2, vf), ra, rb, m in zip(meta, r1, r2, mres):
        old = [n for n, _ in c1.all_members()]
        new = [n for n, _ in c2.all_members()]
        inp = {"case": tag, "old_members": old, "new_members": new,
               "old_source": "".join(k.source() for k in cl1), "new_source": "".join(k.source() for k in cl2)}
        accepted = checksums_of(old)[0] in checksums_of(new)
        if "pickles" not in ra or "exc" in rb:
            ctx.fail("layout_harness", inp, [ra, rb], "pickles")
            continue
        for p, o in rb.items():
            ctx.case("layout/%s/p%s" % (tag, p), inp, sig=(tag, p))
            ip = dict(inp, proto=p)
            if not accepted:
                # property: raises instead of mis-assigning
                if "PickleError" not in o.get("mro", []):
                    ctx.fail("layout_change_not_detected", ip, o, "pickle.PickleError")
                if m != "E PickleError":
                    ctx.corr_break("pickle:cross", ip, o, m)
                continue
            # accepted checksum: positional assignment of the old state to the new sorted members
            exp = {}
            for k, n in enumerate(new):
                exp[n] = ra["before"].get(old[k]) if k < len(old) else None
            if "exc" in o:
                ctx.fail("layout_same_checksum_rejected", ip, o, exp)
                continue
            if old == new and o["after"] != ra["before"]:
                ctx.fail("layout_same_names_misassigned", ip, o["after"], ra["before"])
            if o["after"] != exp:
                ctx.corr_break("pickle:cross_positional", ip, o["after"], exp)
            if not m.startswith("O "):
                ctx.corr_break("pickle:cross", ip, o, m)
            if old != new:
                ctx.note("28-bit checksum collision replayed on the real code: a pickle of layout %r loads into "
                         "layout %r (checksum 0x%x) and its values land in the other attribute - the modelling "
                         "limit of 'different layout => error'" % (old, new, checksums_of(old)[0]))
                ctx.extra["checksum_collision_witness"] = {"old": old, "new": new, "checksum": checksums_of(old)[0]}


# --------------------------------------------------------------------------- compile-time behaviour
CT_SCRIPT = r'''
import sys, os, json, io, re
import pyload; pyload.install()
spec = json.load(sys.stdin)
import hashlib
REAL = {a: getattr(hashlib, a) for a in ("sha256", "sha1", "md5")}
from Cython.Compiler import Main, Options
pyload.assert_sources()
out = []
for i, (src, drop) in enumerate(spec["sources"]):
    for a, f in REAL.items():
        setattr(hashlib, a, f)
    for a in drop:
        def _missing(*args, _a=a, **kw):
            raise ValueError("unsupported hash type " + _a)
        setattr(hashlib, a, _missing)
    p = os.path.join(os.getcwd(), "ct%d.pyx" % i)
    open(p, "w").write(src)
    d = dict(Options.get_directive_defaults()); d["language_level"] = 3
    opts = Main.CompilationOptions(Main.default_options, compiler_directives=d, output_file=p[:-4] + ".c")
    err = io.StringIO(); old = sys.stderr; sys.stderr = err
    try:
        try:
            r = Main.compile(p, opts)
            n = r.num_errors
        finally:
            sys.stderr = old
        csrc = open(p[:-4] + ".c").read() if n == 0 and os.path.exists(p[:-4] + ".c") else ""
        m = re.search(r"__Pyx_CheckUnpickleChecksum\(__pyx_v___pyx_checksum, (0x[0-9a-f]+), (0x[0-9a-f]+), (0x[0-9a-f]+)", csrc)
        out.append({"errors": n, "msg": err.getvalue()[-600:], "chk": list(m.groups()) if m else None})
    except BaseException as e:
        out.append({"errors": -1, "msg": type(e).__name__ + ": " + str(e)[:300], "chk": None})
print(json.dumps(out))
'''

CT_FEATS = ["cinit", "ptr", "structp", "struct", "plain", "charp"]
CT_DROPS = [(["md5"], "01"), (["sha1", "md5"], "0"), (["sha1"], "02"), ([], "012")]


def ct_cases():
    fams = []
    for i, feat in enumerate(CT_FEATS):
        c = Cls("F%d" % i, None, [("a", "int")], auto=True)
        if feat == "cinit":
            c.cinit = True
        elif feat != "plain":
            c.members.append(("p", {"ptr": "intp"}.get(feat, feat)))
        fams.append((feat, c))
    plain = Cls("H0", None, [("a", "int"), ("b", "object")])
    return fams, plain


def compile_time_run(ctx):
    fams, plain = ct_cases()
    sources = [[HEADER + c.source() + "_C29_ATTRS = {}\n", []] for _, c in fams]
    sources += [["cimport cython\n" + plain.source(), drop] for drop, _ in CT_DROPS]
    return cybuild.run_script(CT_SCRIPT, os.path.join(ctx.workdir, "ct"), {"sources": sources}, name="c29_ct.py")


def compile_time(ctx, model, fl, r):
    """auto_pickle(True) on a class that cannot be pickled is a compile-time error; hashlib without md5/sha1
    (the case the source comments on) must still compile"""
    fams, plain = ct_cases()
    outs = r["json"] or []
    if len(outs) != len(fams) + len(CT_DROPS):
        ctx.corr_break("pickle:ct_script", "compile-time script", (r["err"] or "")[-500:], "results")
        return
    mres = model.batch(["decide %s 00 %s" % (fl, c.enc(1)) for _, c in fams])
    for (feat, c), o, m in zip(fams, outs, mres):
        inp = {"case": "auto_pickle(True)/" + feat, "source": c.source()}
        ctx.case("compile/forced/" + feat, inp, sig=("forced", feat))
        must_fail = doc_rule_static(c) == "TE"
        if must_fail != (o["errors"] != 0):
            ctx.fail("forced_autopickle_compile", inp, o, "compile error" if must_fail else "compiles")
        if m.endswith(" CE") != (o["errors"] != 0):
            ctx.corr_break("pickle:compile_error", inp, o, m)
    names = [n for n, _ in plain.all_members()]
    src = "cimport cython\n" + plain.source()
    for (drop, avail), o in zip(CT_DROPS, outs[len(fams):]):
        m = model.batch(["accepted %s %s %s %s" % (fl, avail, hash_table([names]), plain.enc(1))])[0]
        inp = {"case": "hashlib without " + (",".join(drop) or "nothing"), "source": src}
        ctx.case("compile/hash/" + avail, inp, sig=("hash", avail))
        algos = [a for a in ("sha256", "sha1", "md5") if a not in drop]
        if o["errors"] != 0:
            # property: an auto-picklable class must compile and pickle whatever algorithms exist
            ctx.fail("md5_unavailable_checksum_padding", inp, o, "compiles")
            if m != "COMPILE-ERROR":
                ctx.corr_break("pickle:accepted", inp, o, m)
        else:
            got = [int(x, 16) for x in o["chk"]] if o["chk"] else None
            want = checksums_of(names, algos)
            if got is None or got[:len(want)] != want or any(g not in want for g in got):
                ctx.fail("checksum_list_wrong", inp, o, want)
            if m == "COMPILE-ERROR" or got != [int(x) for x in m.split(",")]:
                ctx.corr_break("pickle:accepted", inp, o, m)



# --------------------------------------------------------------------------- inheritance-chain sweep
# Which methods does _inject_pickle_methods inject for a class, as a function of what EVERY level of its
# base-class chain declares?  The real transform is run on generated class trees (pipeline cut after
# AnalyseDeclarationsTransform: no C is generated, so thousands of classes cost seconds) and the injected
# __reduce_cython__ / __setstate_cython__ / __pyx_unpickle_<C> are read back from the tree.
CHAIN_SCRIPT = r"""
import sys, os, json
import pyload; pyload.install()
from Cython.Compiler import Main, Pipeline, Errors, Options, Nodes
from Cython.Compiler.ParseTreeTransforms import AnalyseDeclarationsTransform
from Cython.Compiler.Visitor import TreeVisitor
pyload.assert_sources()
spec = json.load(sys.stdin)

class Find(TreeVisitor):
    def __init__(self):
        super().__init__(); self.classes = []; self.unpicklers = {}
    def visit_Node(self, node):
        self.visitchildren(node)
    def visit_CClassDefNode(self, node):
        self.classes.append(node)
    def visit_DefNode(self, node):
        if node.name.startswith("__pyx_unpickle_"):
            self.unpicklers[node.name] = node

class FindIn(TreeVisitor):
    def __init__(self):
        super().__init__(); self.calls = []; self.tuples = []
    def visit_Node(self, node):
        self.visitchildren(node)
    def visit_SimpleCallNode(self, node):
        self.calls.append(node); self.visitchildren(node)
    def visit_TupleNode(self, node):
        self.tuples.append(node); self.visitchildren(node)

def defs_of(stat, name, out):
    if isinstance(stat, Nodes.StatListNode):
        for s in stat.stats:
            defs_of(s, name, out)
    elif isinstance(stat, Nodes.DefNode) and stat.name == name:
        out.append(stat)

def first_stat(body):
    while isinstance(body, Nodes.StatListNode) and body.stats:
        body = body.stats[0]
    return body

def method_shape(node, mname):
    ds = []
    defs_of(node.body, mname, ds)
    if not ds:
        return None
    st = first_stat(ds[0].body)
    if isinstance(st, Nodes.RaiseStatNode):
        return ["raise", getattr(st.exc_type, "name", "?"), str(getattr(st.exc_value, "value", "?"))]
    fi = FindIn(); fi.visit(ds[0].body)
    state = None
    for t in fi.tuples:
        if all(type(a).__name__ == "AttributeNode" and getattr(a.obj, "name", None) == "self" for a in t.args):
            state = [str(a.attribute) for a in t.args]
            break
    return ["real", state, [str(getattr(c.function, "name", "")) for c in fi.calls]]

def analyse(path, modname):
    d = dict(Options.get_directive_defaults()); d["language_level"] = 3
    opts = Main.CompilationOptions(Main.default_options, compiler_directives=d)
    context = Main.Context.from_options(opts)
    source = Main.setup_source_object(path, ".pyx", modname, opts, context)
    result = Main.create_default_resultobj(source, opts)
    pipe = Pipeline.create_pyx_pipeline(context, opts, result)
    k = [i for i, ph in enumerate(pipe) if isinstance(ph, AnalyseDeclarationsTransform)][0]
    context.setup_errors(opts, result)
    held = Errors.hold_errors()
    try:
        err, tree = Pipeline.run_pipeline(pipe[:k + 1], source)
    finally:
        Errors.release_errors(ignore=True)
    out = {"err": None if err is None else (type(err).__name__ + ": " + str(err))[:400],
           "errors": [[e.position[1] if e.position else None, str(e.message_only)] for e in held], "classes": {}}
    if tree is None or err is not None:
        return out
    f = Find(); f.visit(tree)
    for node in f.classes:
        sc = node.scope
        ent = {"line": node.pos[1],
               "has_rc": sc.lookup_here("__reduce_cython__") is not None,
               "has_ss": sc.lookup_here("__setstate_cython__") is not None,
               "rc": method_shape(node, "__reduce_cython__"), "ss": method_shape(node, "__setstate_cython__"),
               "unp": None}
        un = f.unpicklers.get("__pyx_unpickle_" + node.class_name)
        if un is not None:
            fi = FindIn(); fi.visit(un.body)
            for c in fi.calls:
                if getattr(c.function, "name", "") == "__Pyx_CheckUnpickleChecksum":
                    a = c.args
                    ent["unp"] = [[str(x.value) for x in a[1:4]], a[4].value.decode("utf-8") if isinstance(a[4].value, bytes)
                                  else str(a[4].value)]
            ent["unp_entry"] = tree.scope.lookup_here("__pyx_unpickle_" + node.class_name) is not None
        out["classes"][node.class_name] = ent
    return out

for fname, text in (spec.get("files") or {}).items():
    with open(os.path.join(os.getcwd(), fname), "w") as fh:
        fh.write(text)
res = []
for modname, src in spec["mods"]:
    path = os.path.join(os.getcwd(), modname + ".pyx")
    with open(path, "w") as fh:
        fh.write(src)
    try:
        res.append(analyse(path, modname))
    except BaseException as e:
        res.append({"err": "SCRIPT " + type(e).__name__ + ": " + str(e)[:400], "errors": [], "classes": {}})
print(json.dumps(res))
"""

CHAIN_HEADER = """# cython: language_level=3
cimport cython
cdef struct S:
    int a
    double b
cdef struct SP:
    int* p
ctypedef void (*FP)()
"""

# one level of a chain: (tag, member type keys, flags).  Every decision-relevant kind of declaration:
# none / convertible C and object members / C array / __cinit__ / user __reduce__ family / user __getstate__ /
# unconvertible members (pointer, function pointer, struct holding a pointer, char*) / struct /
# auto_pickle True, False / __dict__ / __weakref__
LEVELS = [
    ("empty", [], {}),
    ("int", ["int"], {}),
    ("obj", ["object"], {}),
    ("typed", ["double", "str", "list"], {}),
    ("arr", ["arr3", "ucs4"], {}),
    ("cinit", ["int"], {"cinit": True}),
    ("cinit0", [], {"cinit": True}),
    ("reduce", ["int"], {"reduce": "__reduce__"}),
    ("reduce_ex", [], {"reduce": "__reduce_ex__"}),
    ("getstate", ["object"], {"getstate": True}),
    ("ptr", ["intp"], {}),
    ("funcp", ["funcp", "int"], {}),
    ("structp", ["structp"], {}),
    ("struct", ["struct"], {}),
    ("charp", ["charp"], {}),
    ("autoT", ["int"], {"auto": True}),
    ("autoF", ["int"], {"auto": False}),
    ("autoF0", [], {"auto": False}),
    ("structT", ["struct", "object"], {"auto": True}),
    ("cinitT", ["int"], {"auto": True, "cinit": True}),
    ("dict", ["object"], {"cdict": True}),
    ("weakref", ["int"], {"weakref": True}),
]
CHAIN_LETTERS = "qazwsxedcrfvtgbyhnujm"


def chain_class(path, base):
    """the class for a path of LEVELS indices (root first); base = class of path[:-1]"""
    d = len(path) - 1
    tag, types, fl = LEVELS[path[-1]]
    members = []
    for j, t in enumerate(types):
        letter = CHAIN_LETTERS[(path[-1] * 3 + d * 5 + j * 7) % len(CHAIN_LETTERS)]
        members.append(("%s%d%s" % (letter, d, j or ""), t))
    c = Cls("T" + "_".join(str(i) for i in path), base, members, cinit=fl.get("cinit", False),
            reduce=fl.get("reduce", ""), getstate=fl.get("getstate", False), auto=fl.get("auto"),
            cdict=fl.get("cdict", False), weakref=fl.get("weakref", False))
    c.path = tuple(path)
    return c


def chain_paths(ctx):
    """paths of level indices, prefix-closed.  quick: every level kind alone, every ordered PAIR of kinds
    (depth 2: the feature in the base vs in the class), and depth 3 with each kind at the root / in the middle
    under plain levels and the three auto_pickle settings of the leaf, plus random triples.  thorough: a large
    random sample of all triples in addition."""
    rng = ctx.rng
    n = len(LEVELS)
    idx = {t[0]: i for i, t in enumerate(LEVELS)}
    paths = set()
    for a in range(n):
        paths.add((a,))
        for b in range(n):
            paths.add((a, b))
    leaves = [idx["obj"], idx["autoT"], idx["autoF"]]
    plain = [idx["int"], idx["empty"]]
    for v in range(n):
        for p in plain:
            for l in leaves:
                paths.add((v, p, l))
                paths.add((p, v, l))
                paths.add((p, p, v))
    nrand = 60 if ctx.tier == "quick" else 3500
    for _ in range(nrand):
        paths.add((rng.randrange(n), rng.randrange(n), rng.randrange(n)))

    def ok(path):
        for flag in ("cdict", "weakref"):
            if sum(1 for i in path if LEVELS[i][2].get(flag)) > 1:
                return False
        return True
    return sorted(p for p in paths if ok(p))


def chain_prepare(ctx):
    paths = chain_paths(ctx)
    by_path = {}
    for p in sorted(paths, key=lambda q: (len(q), q)):
        by_path[p] = chain_class(p, by_path.get(p[:-1]))
    # a class lives in the module of its root kind; a few root kinds per module
    per_mod = 4 if ctx.tier == "quick" else 2
    mods = {}
    for p in sorted(by_path, key=lambda q: (len(q), q)):
        mods.setdefault("c29_chain%d" % (p[0] // per_mod), []).append(by_path[p])
    out = []
    for mn in sorted(mods):
        src = CHAIN_HEADER + "\n".join(c.source() for c in mods[mn])
        out.append((mn, src, mods[mn]))
    xm = xmod_prepare(ctx)
    ctx.c29_xfiles = xm["files"]
    out += xm["mods"]
    return out


XB_KINDS = ["int", "obj", "cinit", "cinit0", "reduce", "ptr", "struct", "autoF", "getstate", "dict"]
XD_LEAVES = ["obj", "empty", "autoT", "autoF", "cinit", "struct", "reduce_ex"]
XHEADER_DECLS = """cdef struct S:
    int a
    double b
cdef struct SP:
    int* p
ctypedef void (*FP)()
"""


def xmod_prepare(ctx):
    """bases declared in c29_xbase.pxd / implemented in c29_xbase.pyx, subclasses in c29_xder.pyx which
    cimports them: the compiler of c29_xder sees of a base only what the .pxd holds (its attributes)"""
    idx = {t[0]: i for i, t in enumerate(LEVELS)}
    bases, ders = [], []
    for b in XB_KINDS:
        cb = chain_class((idx[b],), None)
        cb.name = "XB_" + b
        cb.external = True
        bases.append(cb)
        for l in XD_LEAVES:
            if LEVELS[idx[l]][2].get("cdict") and cb.cdict:
                continue
            cd = chain_class((idx[b], idx[l]), cb)
            cd.name = "XD_%s_%s" % (b, l)
            ders.append(cd)
            if l == "empty":
                for l2 in ("obj", "autoT"):
                    c3 = chain_class((idx[b], idx[l], idx[l2]), cd)
                    c3.name = "XD_%s_%s_%s" % (b, l, l2)
                    ders.append(c3)
    pxd = XHEADER_DECLS + "\n".join(c.source_pxd() for c in bases)
    pyx = "# cython: language_level=3\ncimport cython\n" + "\n".join(c.source_impl() for c in bases)
    der = ("# cython: language_level=3\ncimport cython\nfrom c29_xbase cimport S, SP, FP, %s\n" % ", ".join(c.name for c in bases)
           + "\n".join(c.source() for c in ders))
    return {"files": {"c29_xbase.pxd": pxd}, "mods": [("c29_xbase", pyx, bases), ("c29_xder", der, ders)]}


def pxd_view(c):
    """what the compiler of another module can see of a class: the chain with the methods of cimported levels
    hidden (model side: P_PickleChain.pxd_view)"""
    if c is None:
        return None
    b = pxd_view(c.base)
    if getattr(c, "external", False):
        v = Cls(c.name, b, c.members, auto=c.auto, cdict=c.cdict, weakref=c.weakref)
    else:
        v = Cls(c.name, b, c.members, cinit=c.cinit, reduce=c.reduce, getstate=c.getstate, auto=c.auto,
                cdict=c.cdict, weakref=c.weakref)
    return v


def chain_run(ctx, prep):
    return cybuild.run_script(CHAIN_SCRIPT, os.path.join(ctx.workdir, "chain"),
                              {"mods": [[mn, src] for mn, src, _ in prep], "files": getattr(ctx, "c29_xfiles", {})},
                              name="c29_chain.py", timeout=2400)


def chain_observed(ent, errors_at):
    """decision read back from the tree, in the notation of the model driver, or ('?', why)"""
    rc, ss = ent["rc"], ent["ss"]
    if rc is None and ss is None and not ent["has_rc"] and not ent["has_ss"] and ent["unp"] is None:
        return "N", None
    if rc is None or ss is None or not ent["has_rc"] or not ent["has_ss"]:
        return "?", "only one of __reduce_cython__/__setstate_cython__ injected"
    if rc[0] == "raise":
        if ss[0] != "raise" or ss[1:] != rc[1:] or rc[1] != "TypeError":
            return "?", "the two raising methods differ or do not raise TypeError"
        if ent["unp"] is not None:
            return "?", "raising methods together with an unpickle function"
        reason = [k for k, t in REASON_MSG if t in rc[2]]
        cul = re.findall(r"self\.([^\s,]+)", rc[2])
        return "R %s %s" % (reason[0] if len(reason) == 1 else "?", ",".join(cul) or "-"), rc[2]
    if ss[0] != "real" or ent["unp"] is None or not ent.get("unp_entry"):
        return "?", "real __reduce_cython__ without real __setstate_cython__ / unpickle function"
    names = [x for x in ent["unp"][1].split(", ") if x]
    if rc[1] is not None and rc[1] != names:
        return "?", "state tuple %r differs from the checksum member list %r" % (rc[1], names)
    return "P " + (",".join(names) or "-"), None


def chain_decode(s):
    """model driver notation -> readable names"""
    parts = s.split(" ")
    if parts[0] in ("R", "P") and parts[-1] != "-":
        parts[-1] = ",".join(decname(x) for x in parts[-1].split(","))
    return " ".join(parts)


def chain_compare(ctx, model, fl, prep, out):
    res = out["json"]
    if not isinstance(res, list) or len(res) != len(prep):
        ctx.corr_break("pickle:chain_script", "chain sweep script", (out["err"] or "")[-800:], "one result per module")
        return
    qd, qw, items = [], [], []
    for (mn, src, classes), r in zip(prep, res):
        if r.get("err"):
            ctx.corr_break("pickle:chain_module", {"module": mn, "source": src[:3000]}, r["err"], "analysed module")
            continue
        errs = {}
        for line, msg in r["errors"]:
            errs.setdefault(line, []).append(msg)
        lines = {ent["line"]: n for n, ent in r["classes"].items()}
        stray = [(l, m) for l, ms in errs.items() if l not in lines for m in ms]
        if stray:
            ctx.corr_break("pickle:chain_errors", {"module": mn}, stray[:5], "errors only at class definitions")
        for c in classes:
            ids = {k.name: i + 1 for i, k in enumerate(reversed(c.chain()))}
            # a class of another module sees its cimported bases through the .pxd only
            h = enc_hier(c if getattr(c, "external", False) else pxd_view(c), ids)
            qd.append("decide %s 00 %s" % (fl, h))
            qw.append("walk 0 %s 00 %s" % (fl, h))
            items.append((mn, c, r["classes"].get(c.name), errs))
    md, mw = model.batch(qd), model.batch(qw)
    nchk = 0
    variant_hits, variant_q = [], []
    for (mn, c, ent, errs), d_m, w_m in zip(items, md, mw):
        ch = c.chain()
        tags = [LEVELS[i][0] for i in c.path]
        inp = {"module": mn, "class": c.name, "levels_root_first": tags,
               "source": CHAIN_HEADER + "".join(k.source() for k in reversed(ch))}
        if any(getattr(k, "external", False) for k in ch[1:]):
            inp["cimported_levels"] = [k.name for k in ch if getattr(k, "external", False)]
        rule = doc_rule_static(c)                    # documented rule on the TRUE chain: RT / TE / NONE
        hidden = [] if getattr(c, "external", False) else [k for k in ch[1:] if getattr(k, "external", False)]
        hidden_cinit = any(k.cinit for k in hidden)
        hidden_reduce = any(k.reduce for k in hidden)
        ctx.case("chain%s/d%d/%s/%s" % ("x" if hidden else "", len(ch), rule, tags[-1] if len(ch) == 1 else
                                      "+".join(sorted(set(t for t in tags if t not in ("int", "empty", "obj"))) or ["plain"])),
                 inp, sig=("chain", c.path))
        if ent is None:
            ctx.corr_break("pickle:chain_class_missing", inp, None, d_m)
            continue
        obs, detail = chain_observed(ent, errs)
        ce_obs = bool(errs.get(ent["line"]))
        ce_mod = d_m.endswith(" CE")
        dec_mod = chain_decode(d_m[:-3] if ce_mod else d_m)
        # ---- property oracle (documentation + the source comments): kind of what is injected
        want_kind = {"RT": "P", "TE": "R", "NONE": "N"}[rule]
        if hidden_reduce and obs[0] == "P":
            pass    # documented in the source: a cimported base's __reduce__ is unknown at compile time, the real
                    # __reduce_cython__ is generated and __Pyx_setup_reduce leaves the inherited __reduce__ alone
        elif rule == "NONE" and c.auto is not False and obs[0] != "?":
            pass    # a user __reduce__/__reduce_ex__ in the chain: whatever is generated is never installed
                    # (__Pyx_setup_reduce); only the tie to the model below constrains the code here
        elif obs[0] != want_kind:
            ctx.fail("cimported_base_cinit_not_seen" if hidden_cinit else "autopickle_decision_violation",
                     inp, {"injected": obs, "detail": detail},
                     {"RT": "real __reduce_cython__/__setstate_cython__ (picklable)",
                      "TE": "TypeError-raising __reduce_cython__/__setstate_cython__",
                      "NONE": "nothing injected"}[rule],
                     note="a level of the base-class chain is not taken into account" if len(ch) > 1 else "")
        elif rule == "RT":
            exp_names = [n for n, _ in c.all_members()]
            if obs != "P " + (",".join(exp_names) or "-"):
                ctx.fail("member_order_not_sorted", inp, obs, exp_names)
            got = [int(x, 16) for x in ent["unp"][0]]
            if got != checksums_of(exp_names):
                ctx.fail("checksum_mismatch_hashlib", inp, got, checksums_of(exp_names))
            nchk += 1
        if (rule == "TE" and c.auto is True) != ce_obs:
            ctx.fail("cimported_base_cinit_not_seen" if hidden_cinit else "forced_autopickle_compile",
                     inp, {"errors": errs.get(ent["line"])},
                     "compile error" if (rule == "TE" and c.auto is True) else "no error")
        if ce_obs and obs[0] == "R" and detail not in errs.get(ent["line"], []):
            ctx.fail("forced_autopickle_compile", inp, errs.get(ent["line"]), detail)
        # ---- ties: declarative model and the loop model
        if obs != dec_mod or ce_obs != ce_mod:
            ctx.corr_break("pickle:chain_decide", inp, [obs, ce_obs], d_m)
            if len(variant_hits) < 40:
                variant_hits.append(c.name)
                variant_q.append((c.name, obs, "walk 1 %s 00 %s" % (fl, enc_hier(c, {k.name: i + 1 for i, k in enumerate(reversed(ch))})),
                                  "walk 2 %s 00 %s" % (fl, enc_hier(c, {k.name: i + 1 for i, k in enumerate(reversed(ch))}))))
        if w_m != (d_m[:-3] if ce_mod else d_m):
            ctx.corr_break("pickle:chain_walk", inp, w_m, d_m)
    if variant_q:
        # diagnosis: which mis-scoped variant of the loop (proved wrong in Prop/C29.v) the code behaves like
        r1 = model.batch([q[2] for q in variant_q])
        r2 = model.batch([q[3] for q in variant_q])
        n1 = sum(1 for q, a in zip(variant_q, r1) if chain_decode(a) == q[1])
        n2 = sum(1 for q, a in zip(variant_q, r2) if chain_decode(a) == q[1])
        ctx.note("chain sweep diagnosis: of %d mismatching classes %d behave like the variant that looks __cinit__ up "
                 "in node.scope only (C29_own_scope_variant_spec), %d like the variant that looks __reduce__ up in "
                 "node.scope only" % (len(variant_q), n1, n2))
    ctx.note("chain sweep: %d classes (depth 1..3 over %d level kinds) analysed by the real transform; %d member "
             "lists/checksums compared" % (len(items), len(LEVELS), nchk))
    ctx.extra.setdefault("exhaustive_domains", []).append(
        "C29 chain sweep: all %d level kinds x all %d ordered (base, class) pairs" % (len(LEVELS), len(LEVELS) ** 2))



# --------------------------------------------------------------------------- builtin base types
# cdef classes that inherit from a builtin type: base_type is a builtin whose scope has no var_entries and whose
# instance state (list items, dict items, exception args) is not an attribute.  Outside the Coq model (it has no
# notion of base-type content): implementation vs the property oracle only.
BT_SOURCE = """# cython: language_level=3
cdef class BtList(list):
    cdef public int a
    cdef public object o
cdef class BtDict(dict):
    cdef public object o
cdef class BtSet(set):
    cdef public int a
cdef class BtExc(Exception):
    cdef public int code
cdef class BtPlainList(list):
    pass
cdef class BtCtl:
    cdef public int a
    cdef public object o
"""
BT_SCRIPT = r"""
import sys, json, pickle, copy, c29_bt as m
def mk(name):
    if name == "BtList":
        o = m.BtList([1, [2], "x"]); o.a = 5; o.o = "obj"
    elif name == "BtDict":
        o = m.BtDict(k=[1], z=2); o.o = (1, 2)
    elif name == "BtSet":
        o = m.BtSet({1, 2, 3}); o.a = -7
    elif name == "BtExc":
        o = m.BtExc("msg", 2); o.code = 9
    elif name == "BtPlainList":
        o = m.BtPlainList([4, 5])
    else:
        o = m.BtCtl(); o.a = 11; o.o = [1]
    return o
def show(o):
    d = {"type": type(o).__name__}
    for n in ("a", "o", "code"):
        if hasattr(o, n):
            d[n] = repr(getattr(o, n))
    if isinstance(o, (list, dict)):
        d["content"] = repr(o.copy() if isinstance(o, dict) else list(o))
    elif isinstance(o, set):
        d["content"] = repr(sorted(o))
    elif isinstance(o, BaseException):
        d["content"] = repr(o.args)
    return d
out = []
for name in json.load(sys.stdin):
    o = mk(name)
    row = {"cls": name, "before": show(o), "ops": {}}
    for op in ("p0", "p1", "p2", "p3", "p4", "p5", "copy", "deepcopy"):
        try:
            n = copy.copy(o) if op == "copy" else copy.deepcopy(o) if op == "deepcopy" else pickle.loads(pickle.dumps(o, int(op[1:])))
            row["ops"][op] = show(n)
        except BaseException as e:
            row["ops"][op] = {"exc": type(e).__name__, "mro": [t.__name__ for t in type(e).__mro__], "msg": str(e)[:200]}
    out.append(row)
print(json.dumps(out))
"""
BT_CLASSES = ["BtList", "BtDict", "BtSet", "BtExc", "BtPlainList", "BtCtl"]


def builtin_bases(ctx):
    r = cybuild.run_script(BT_SCRIPT, ctx.workdir, BT_CLASSES, name="c29_bt_run.py", timeout=600)
    rows = r["json"]
    if not isinstance(rows, list):
        ctx.corr_break("pickle:builtin_base_script", "builtin base script", (r["err"] or "")[-600:], "results")
        return
    for row in rows:
        name = row["cls"]
        for op, after in row["ops"].items():
            inp = {"class": name, "op": op, "source": BT_SOURCE}
            ctx.case("builtin_base/%s/%s" % (name, op), inp, sig=("bt", name, op))
            if "exc" in after:
                if "TypeError" not in after.get("mro", []):
                    ctx.fail("builtin_base_roundtrip", inp, after, "round trip or TypeError")
                continue
            if after != row["before"]:
                klass = ("builtin_container_base_content_dropped" if name in ("BtList", "BtDict", "BtPlainList")
                         else "builtin_base_own_reduce_cdef_attribute_dropped" if name in ("BtExc", "BtSet") else "roundtrip_violation")
                ctx.fail(klass, inp, after, row["before"])


def replay(ctx, obj):
    print("replay: rerun ./check C29 with the same seed; input was:")
    print(json.dumps(obj.get("input"), indent=1)[:4000])
