"""C12 — Module string-table compression round-trips (DESIGN 7/C12)."""
import itertools, json, os, re, hashlib, time
import cybuild

TITLE = "Module string-table compression round-trips"
EXTRACTS = ["LZSS"]
RULE = ("byte strings: all strings of length 1..10 over {a,b}, 1..6 over 3 letters, 1..4 over 4 letters "
        "(exhaustive); periodic strings with every period 1..300; constructed repeats that place one match at "
        "every (end offset, length) boundary of the three back-reference encodings and of the window "
        "(end offsets 0,1,0x7E..0x81,0x27E..0x281,16510..16513, lengths 3,4,34,35,36,257,258,259,300); PRNG strings over "
        "alphabets of 2/4/16/256 symbols and identifier-like text (to 100 KiB in thorough); the real "
        "concat_bytes of generated modules. Distinct by the input bytes; non-trivial = non-empty input "
        "(each is compressed by the real LZSS.py and decompressed by the real C function behind guard pages)")
EXPLANATION = ("theorems: for EVERY non-empty byte string the model compressor succeeds (no IndexError), emits only "
               "bytes 0..255, and the bounds-checked model of __pyx_lzss_decompress run on its output with "
               "dst_len = len(data) returns exactly data, consumes exactly the compressed length and performs no "
               "out-of-range access of src or dst (memcpy source below destination); shown via a token-stream "
               "semantics: (a) packing/decoding is inverse for every valid token stream, (b) the match finder "
               "emits only valid references (hash-table invariant). The lzss branch is emitted only for "
               "inputs of >= 200 bytes, so the empty input (on which the C loop reads src[0]) never reaches "
               "the decompressor. Correspondence: extracted model compressor vs real LZSS.py byte-for-byte "
               "(and token-kind statistics), model decompressor vs the real C decompressor (guard pages, ASan "
               "in thorough), both vs decompress(compress(x)) == x, plus generated modules end to end.")
TRUSTED = ["two-phase (tokenize, pack) and suffix-carrying representation of the Python loop in M_LZSS.v "
           "(tied byte-for-byte to LZSS.py by the correspondence run)",
           "C semantics of __pyx_lzss_decompress transcribed by hand (uint32/size_t arithmetic cannot overflow "
           "for buffers below 2^32 bytes); memcpy on non-overlapping ranges = list copy",
           "gcc as a conforming C compiler; mmap/mprotect guard pages and AddressSanitizer as out-of-bounds detectors"]
ASSUMPTIONS = ["byte strings are lists of integers 0..255", "LP64; string tables below 2^32 bytes"]

GET_UTILITY = r'''
import pyload; pyload.install()
from Cython.Compiler.Code import UtilityCode
u = UtilityCode.load("DecompressString_LZSS", "StringTools.c")
pyload.assert_sources()
import json
print(json.dumps({"impl": u.impl}))
'''

C_WRAP = r'''
#include <sys/mman.h>
#include <unistd.h>
#include <string.h>
#include <stdlib.h>
#ifndef CYTHON_SMALL_CODE
  #define CYTHON_SMALL_CODE __attribute__((cold))
#endif
#ifndef __Pyx_PyBytes_AsWritableUString
  #define __Pyx_PyBytes_AsWritableUString(s) ((unsigned char*) PyBytes_AsString(s))
#endif
%s

/* raw decompressor with src ending at a PROT_NONE page, dst between PROT_NONE pages and ending
   at one; the slack before dst is filled with 0xA5 and checked afterwards.
   returns consumed, (size_t)-2 if the slack before dst was modified, (size_t)-3 on mmap failure */
static size_t c12_guarded(const unsigned char *src, size_t src_len, unsigned char *out, size_t dst_len) {
    size_t pg = (size_t) sysconf(_SC_PAGESIZE);
    size_t sp = (src_len + pg - 1) / pg + 1, dp = (dst_len + pg - 1) / pg + 1;
    unsigned char *sm = (unsigned char*) mmap(NULL, (sp + 1) * pg, PROT_READ|PROT_WRITE, MAP_PRIVATE|MAP_ANONYMOUS, -1, 0);
    unsigned char *dm = (unsigned char*) mmap(NULL, (dp + 2) * pg, PROT_READ|PROT_WRITE, MAP_PRIVATE|MAP_ANONYMOUS, -1, 0);
    if (sm == MAP_FAILED || dm == MAP_FAILED) return (size_t)-3;
    mprotect(sm + sp * pg, pg, PROT_NONE);
    mprotect(dm, pg, PROT_NONE);
    mprotect(dm + (dp + 1) * pg, pg, PROT_NONE);
    unsigned char *s = sm + sp * pg - src_len;
    unsigned char *dbase = dm + pg, *d = dm + (dp + 1) * pg - dst_len;
    memcpy(s, src, src_len);
    memset(dbase, 0xA5, (size_t)(d - dbase));
    size_t consumed = c12_lzss_decompress(s, d, dst_len);
    for (unsigned char *p = dbase; p < d; p++) if (*p != 0xA5) { consumed = (size_t)-2; break; }
    memcpy(out, d, dst_len);
    munmap(sm, (sp + 1) * pg); munmap(dm, (dp + 2) * pg);
    return consumed;
}
/* exact-size heap buffers (for AddressSanitizer) */
static size_t c12_heap(const unsigned char *src, size_t src_len, unsigned char *out, size_t dst_len) {
    unsigned char *s = (unsigned char*) malloc(src_len ? src_len : 1), *d = (unsigned char*) malloc(dst_len ? dst_len : 1);
    memcpy(s, src, src_len);
    size_t consumed = c12_lzss_decompress(s, d, dst_len);
    memcpy(out, d, dst_len);
    free(s); free(d);
    return consumed;
}
'''

PYX_WRAP = '''
from libc.stdlib cimport malloc, free
cdef extern from *:
    """%s"""
    object c12_DecompressString_LZSS(const char *s, size_t compressed_length, size_t uncompressed_length)
    size_t c12_guarded(const unsigned char *src, size_t src_len, unsigned char *out, size_t dst_len)
    size_t c12_heap(const unsigned char *src, size_t src_len, unsigned char *out, size_t dst_len)

def dec_raw(bytes src, size_t dst_len, bint heap):
    """-> (consumed, output bytes)"""
    cdef unsigned char* out = <unsigned char*> malloc(dst_len + 1)
    cdef size_t consumed
    try:
        if heap:
            consumed = c12_heap(<const unsigned char*> src, len(src), out, dst_len)
        else:
            consumed = c12_guarded(<const unsigned char*> src, len(src), out, dst_len)
        return (consumed, out[:dst_len])
    finally:
        free(out)

def dec_string(bytes src, size_t clen, size_t ulen):
    return c12_DecompressString_LZSS(<const char*> src, clen, ulen)
'''

# worker-side helper (setup text of call_cases): runs the real C code on case i
WORKER_SETUP = r'''
import json, c12_wrap
_C = json.load(open("c12_cases.json"))
DATA = [bytes.fromhex(x) for x in _C["data"]]
COMP = [None if x is None else bytes.fromhex(x) for x in _C["comp"]]
HEAP = bool(_C.get("heap"))
def _diff(a, b):
    if a == b: return -1
    for i, (x, y) in enumerate(zip(a, b)):
        if x != y: return i
    return min(len(a), len(b))
def chk(i):
    d, c = DATA[i], COMP[i]
    consumed, out = c12_wrap.dec_raw(c, len(d), HEAP)
    try:
        s = c12_wrap.dec_string(c, len(c), len(d))
        sres = _diff(s, d)
    except RuntimeError:
        sres = -9
    return [consumed, _diff(out, d), sres, out.hex() if len(out) <= 64 else out[:64].hex() + "..."]
'''

PY_COMPRESS = r'''
import pyload; pyload.install()
import sys, json, io, contextlib, re
import Cython.LZSS as L
pyload.assert_sources()
L.PRINT_STATS = True
res = []
for h in json.load(sys.stdin):
    buf = io.StringIO()
    try:
        with contextlib.redirect_stdout(buf):
            c = L.lzss_compress(bytes.fromhex(h))
        m = re.search(r"ENCODINGS: \[([0-9, ]+)\]", buf.getvalue())
        res.append({"c": c.hex(), "stats": [int(x) for x in m.group(1).split(",")] if m else None})
    except BaseException as e:
        res.append({"e": type(e).__name__, "m": str(e)[:200]})
print(json.dumps(res))
'''

# compile a module with the compiler under test, recording what the lzss entry of
# Code.compression_algorithms was given and returned
PY_E2E_COMPILE = r'''
import pyload; pyload.install()
import sys, json, os
from Cython.Compiler import Code, Main, Options
pyload.assert_sources()
spec = json.load(sys.stdin)
log = []
algos = []
for num, name, fn in Code.compression_algorithms:
    if name == "lzss" and fn is not None:
        def wrapped(data, _fn=fn):
            out = _fn(data)
            log.append([bytes(data).hex(), bytes(out).hex()])
            return out
        algos.append((num, name, wrapped))
    else:
        algos.append((num, name, fn))
Code.compression_algorithms[:] = algos
out = {}
for name in spec["names"]:
    del log[:]
    directives = dict(Options.get_directive_defaults()); directives["language_level"] = 3
    opts = Main.CompilationOptions(Main.default_options, compiler_directives=directives, output_file=name + ".c")
    r = Main.compile(name + ".pyx", opts)
    out[name] = {"errors": r.num_errors, "log": list(log)}
print(json.dumps(out))
'''


# ------------------------------------------------------------------------------- inputs
def rbytes(rng, n, k=256):
    if k == 256:
        return rng.randbytes(n) if hasattr(rng, "randbytes") else bytes(rng.getrandbits(8) for _ in range(n))
    return bytes(rng.randrange(k) for _ in range(n))


def textlike(rng, n):
    words = [bytes(rng.choice(b"abcdefghijklmnopqrstuvwxyz_") for _ in range(rng.randrange(3, 12)))
             for _ in range(rng.choice([20, 100, 400]))]
    out = bytearray()
    while len(out) < n:
        out += rng.choice(words) + rng.choice([b" ", b"_", b".", b""])
    return bytes(out[:n])


EOS = [0, 1, 2, 0x7E, 0x7F, 0x80, 0x81, 0x27E, 0x27F, 0x280, 0x281, 16510, 16511, 16512, 16513]
LENS = [3, 4, 34, 35, 36, 257, 258, 259, 300]


def boundary_case(rng, eo, length):
    """prefix . P . gap(eo bytes) . P . tail : the second P can be matched at end offset eo."""
    pat = rbytes(rng, length)
    return rbytes(rng, rng.randrange(0, 40)) + pat + rbytes(rng, eo) + pat + rbytes(rng, rng.randrange(0, 6))


def gen_inputs(ctx):
    rng, quick = ctx.rng, ctx.tier == "quick"
    cases = []      # (stratum, bytes)
    for alpha, maxlen in ((b"ab", 10), (b"abc", 6), (b"abcd", 4)):
        n = 0
        for ln in range(1, maxlen + 1):
            for t in itertools.product(alpha, repeat=ln):
                cases.append(("exhaustive/%d-letters" % len(alpha), bytes(t))); n += 1
        ctx.extra.setdefault("exhaustive_domains", []).append(
            "all %d strings of length 1..%d over %d letters" % (n, maxlen, len(alpha)))
    for p in range(1, 301):
        base = rbytes(rng, p, rng.choice([2, 256, 256]))
        total = rng.choice([p + 3, 2 * p + 1, 600, 900])
        cases.append(("periodic", (base * (total // p + 2))[:total]))
    for eo in EOS:
        for ln in LENS:
            if quick and eo > 16000 and ln not in (3, 4, 35, 258, 259):
                continue
            cases.append(("boundary/eo=%s" % (eo if eo < 16000 else "window"), boundary_case(rng, eo, ln)))
    # runs of one byte / two alternating bytes: overlapping candidates, maximal lengths
    for n in [1, 2, 3, 4, 5, 6, 7, 8, 9, 16, 17, 258, 259, 260, 261, 262, 516, 517, 519, 520, 1000, 4000]:
        cases.append(("runs", b"a" * n))
        cases.append(("runs", (b"ab" * n)[:n]))
    # number of tokens around multiples of 8 (flag byte boundary): n distinct literals
    for n in list(range(1, 34)) + [63, 64, 65]:
        cases.append(("flagbyte-boundary", bytes(range(n))))
        cases.append(("flagbyte-boundary", bytes(range(n)) + bytes(range(8))))
    sizes = [rng.randrange(1, 400) for _ in range(60)] + [rng.randrange(400, 6000) for _ in range(24)]
    if not quick:
        sizes += [rng.randrange(6000, 40000) for _ in range(24)] + [102400]
    for n in sizes:
        k = rng.choice([2, 4, 16, 256, 0, 0])
        if k == 2 and n > 20000:
            k = 4
        cases.append(("random/%s" % (k or "text"), textlike(rng, n) if k == 0 else rbytes(rng, n, k)))
    if not quick:
        cases.append(("random/text", textlike(rng, 102400)))
        cases.append(("random/256", rbytes(rng, 102400)))
        big = rbytes(rng, 17000)
        cases.append(("boundary/eo=window", big + big[:300] + big[100:700] + big[16000:] + big[:5]))
    return cases


def e2e_source(nstrings, rng):
    names = ["ident_%s_%d" % ("".join(rng.choice("abcdefgh") for _ in range(rng.randrange(2, 9))), i)
             for i in range(nstrings)]
    L = ["# cython: language_level=3", "def consts():", "    return ["]
    exp = []
    for i, nm in enumerate(names):
        if i % 3 == 0:
            v = nm + " value text é中 " * (i % 4)
            L.append("        %s," % ascii(v)); exp.append(v)
        elif i % 3 == 1:
            v = (nm.encode() + bytes([i % 256, 0, 255, (7 * i) % 256])) * (1 + i % 3)
            L.append("        %s," % ascii(v)); exp.append(v)
        else:
            L.append("        %s," % ascii(nm)); exp.append(nm)
    L += ["    ]", ""]
    return "\n".join(L), exp


def classify(data):
    return "lzss_roundtrip"


# ------------------------------------------------------------------------------- run
def build_wrapper(ctx, asan):
    r = cybuild.run_script(GET_UTILITY, ctx.workdir, name="get_utility.py")
    if not r["json"]:
        raise RuntimeError("cannot load DecompressString_LZSS utility code: " + r["err"][-500:])
    impl = "\n".join(l for l in r["json"]["impl"].splitlines() if l.strip())
    impl = impl.replace("__pyx_lzss_decompress", "c12_lzss_decompress").replace(
        "__Pyx_DecompressString_LZSS", "c12_DecompressString_LZSS")
    assert '"""' not in impl
    src = PYX_WRAP % (C_WRAP % impl).replace("\\", "\\\\")
    cflags = ["-O1"] + (["-fsanitize=address", "-fno-omit-frame-pointer", "-g"] if asan else [])
    return dict(name="c12_wrap", source=src, workdir=ctx.workdir, cflags=cflags,
                directives={"preliminary_late_includes_cy28": True})


def run_c(ctx, datas, comps, asan):
    """real C decompressor on every case with a compressed stream; -> list of result dicts"""
    idx = [i for i, c in enumerate(comps) if c is not None]
    wd = os.path.join(ctx.workdir, "asan") if asan else ctx.workdir
    with open(os.path.join(wd, "c12_cases.json"), "w") as f:
        json.dump({"data": [d.hex() for d in datas], "comp": [None if c is None else c.hex() for c in comps],
                   "heap": bool(asan)}, f)
    if asan:
        res = run_asan_worker(ctx, wd, idx)
    else:
        res = cybuild.call_cases(wd, [["chk", [i]] for i in idx], setup=WORKER_SETUP, alarm=60)
    for r in res:
        if r is not None and r.get("e") == "WORKER":
            if "too many crashes" in r.get("m", ""):
                r["e"] = "CRASH"          # the cases before it each killed the process
            else:
                raise RuntimeError("C12 worker (harness) failure: %s" % r.get("m"))
    out = [None] * len(datas)
    for i, r in zip(idx, res):
        out[i] = r
    return out


ASAN_WORKER = r'''
import sys, json
exec(open("c12_worker_setup.py").read())
start = int(sys.argv[1]); idx = json.load(open("c12_idx.json"))
for j in range(start, len(idx)):
    print(json.dumps({"begin": j}), flush=True)
    print(json.dumps({"j": j, "r": chk(idx[j])}), flush=True)
'''


def run_asan_worker(ctx, wd, idx):
    """callworker.py limits the address space, which AddressSanitizer cannot live with; this is the
    same loop without the limit (resumes after a case that aborts the process)"""
    with open(os.path.join(wd, "c12_worker_setup.py"), "w") as f:
        f.write(WORKER_SETUP)
    with open(os.path.join(wd, "c12_idx.json"), "w") as f:
        json.dump(idx, f)
    res = [None] * len(idx)
    start, crashes = 0, 0
    env = {"LD_PRELOAD": "/usr/lib/gcc/x86_64-linux-gnu/12/libasan.so",
           "ASAN_OPTIONS": "detect_leaks=0:abort_on_error=1"}
    while start < len(idx):
        r = cybuild.run_script(ASAN_WORKER, wd, name="c12_asan_worker.py", args=[str(start)], extra_env=env,
                               timeout=1500)
        begun = None
        for line in r["out"].splitlines():
            try:
                d = json.loads(line)
            except Exception:
                continue
            if "begin" in d:
                begun = d["begin"]
            elif "j" in d:
                v = d["r"]
                res[d["j"]] = {"r": [{"r": str(v[0])}, {"r": str(v[1])}, {"r": str(v[2])}, {"r": v[3]}]}
                begun = None
        if r["rc"] == 0 and all(x is not None for x in res[start:]):
            break
        if begun is None:
            raise RuntimeError("C12 ASan worker failed outside a case: rc=%s %s" % (r["rc"], r["err"][-500:]))
        res[begun] = {"e": "CRASH", "m": "asan/abort rc=%s %s" % (r["rc"], r["err"][-400:].replace("\n", " "))}
        start = begun + 1
        crashes += 1
        if crashes > 50:
            for j in range(start, len(idx)):
                res[j] = {"e": "CRASH", "m": "too many crashes"}
            break
    return res


def parse_chk(r):
    """-> ('ok', consumed, outdiff, strdiff, outhex) | ('exc', type, msg)"""
    if r is None:
        return ("none",)
    if "e" in r:
        return ("exc", r["e"], r.get("m", ""))
    v = r["r"]
    return ("ok", int(v[0]["r"]), int(v[1]["r"]), int(v[2]["r"]), v[3]["r"])


def _phase(ctx, name, t0):
    ctx.extra.setdefault("phase_seconds", {})
    ctx.extra["phase_seconds"][name] = round(ctx.extra["phase_seconds"].get(name, 0) + time.time() - t0, 1)
    return time.time()


def evaluate(ctx, cases, asan=False, label=""):
    datas = [d for _, d in cases]
    model = ctx.model("lzss")
    t0 = time.time()
    # real Python compressor
    pr = cybuild.run_script(PY_COMPRESS, ctx.workdir, [d.hex() for d in datas], name="py_compress.py", timeout=1500)
    if not pr["json"] or len(pr["json"]) != len(datas):
        ctx.corr_break("lzss:python-compressor-run", label, pr["err"][-800:], "one result per input")
        return
    pyres = pr["json"]
    t0 = _phase(ctx, "python_compressor", t0)
    comps = [bytes.fromhex(r["c"]) if "c" in r else None for r in pyres]
    # model: compressor (+ its own round trip), token statistics, decoder on the implementation's stream
    mrt = model.batch(["roundtrip " + (d.hex() or "-") for d in datas])
    mtk = model.batch(["tokens " + (d.hex() or "-") for d in datas])
    mdec = model.batch(["decompress %s %d" % ((c.hex() or "-") if c is not None else "-", len(d))
                        for d, c in zip(datas, comps)])
    t0 = _phase(ctx, "model", t0)
    cres = run_c(ctx, datas, comps, asan)
    t0 = _phase(ctx, "c_decompressor", t0)
    kinds = [0, 0, 0, 0]
    maxeo = maxlen = 0
    for (stratum, d), pyr, c, rt, tk, md, cr in zip(cases, pyres, comps, mrt, mtk, mdec, cres):
        inp = {"data_hex": d.hex() if len(d) <= 4096 else None, "len": len(d),
               "sha1": hashlib.sha1(d).hexdigest(), "stratum": stratum}
        if len(d) > 4096:
            inp["data_file"] = save_big(ctx, d)
        ctx.case(label + stratum, inp, sig=hashlib.sha1(d).digest())
        # --- compressor: implementation vs model
        if c is None:
            ctx.fail(classify(d), inp, {"python_compressor": pyr}, "compressed bytes",
                     note="model: %s" % rt[:80])
            continue
        w = rt.split()
        if w[0] != "R":
            ctx.corr_break("lzss:compress", inp, c.hex()[:200], rt[:200])
        else:
            mc = "" if w[1] == "-" else w[1]
            if mc != c.hex():
                ctx.corr_break("lzss:compress", inp, c.hex()[:400], mc[:400])
            elif w[2] != "1":
                # the model's own round trip failed although it is proved: broken proof/extraction tie
                ctx.corr_break("lzss:model-roundtrip", inp, "theorem C12_roundtrip", rt[-60:])
        t = tk.split()
        if t[0] == "T":
            st = pyr.get("stats")
            mk = [int(x) for x in t[1:5]]
            for j in range(4):
                kinds[j] += mk[j]
            maxeo, maxlen = max(maxeo, int(t[5])), max(maxlen, int(t[6]))
            if st is not None and [st[0] + st[4], st[1], st[2], st[3]] != mk:
                ctx.corr_break("lzss:token-kinds", inp, st, mk)
        # --- decompressor: implementation vs model (on the implementation's stream) vs oracle
        got = parse_chk(cr)
        if md.startswith("OK "):
            mw = md.split()
            m_out = b"" if mw[1] == "-" else bytes.fromhex(mw[1])
            m_view = (int(mw[2]), m_out == d)
        else:
            m_view = (md, False)          # model: out-of-bounds access on this stream
        if got[0] == "ok":
            c_view = (got[1], got[2] == -1)
            if not isinstance(m_view[0], str) and c_view != m_view:
                ctx.corr_break("lzss:decompress", inp, {"consumed": got[1], "first_diff": got[2], "out": got[4]},
                               md[:200])
            good = (got[1] == len(c) and got[2] == -1 and got[3] == -1)
        else:
            c_view = got
            good = False
            if not isinstance(m_view[0], str):
                ctx.corr_break("lzss:decompress", inp, got, md[:200])
        if not good:
            ctx.fail(classify(d), inp,
                     {"c_decompressor": got, "compressed": c.hex()[:400], "compressed_len": len(c)},
                     {"output": "== input", "consumed": len(c), "string_wrapper": "returns input"},
                     note="model decoder on this stream: %s" % md[:80])
    return kinds, maxeo, maxlen


OOB_STREAMS = [("0761", 3, "OOB_src_read"),            # literal 'a', then a literal read past the end of src
               ("000500", 8, "OOB_dst_ref"),           # back reference before anything was written
               ("07616263000000", 4, "OOB_dst_write")]  # 3 literals, then a 3-byte copy into a 4-byte dst


def oob_selftest(ctx, asan):
    """invalid streams (never produced by the compressor): the model reports an out-of-bounds access and
    the detector around the real C code (guard pages / ASan) must fire -- ties the OOB_* results of the
    model to the real code and shows that the detector is alive.  Not property cases."""
    model = ctx.model("lzss")
    mres = model.batch(["decompress %s %d" % (h, n) for h, n, _ in OOB_STREAMS])
    cres = run_c(ctx, [b"\0" * n for _, n, _ in OOB_STREAMS], [bytes.fromhex(h) for h, _, _ in OOB_STREAMS], asan)
    for (h, n, want), m, c in zip(OOB_STREAMS, mres, cres):
        got = parse_chk(c)
        if m != want or not (got[0] == "exc" and got[1] == "CRASH"):
            ctx.corr_break("lzss:oob-detector" + ("/asan" if asan else ""), {"src_hex": h, "dst_len": n}, got, m)
    ctx.extra.setdefault("oob_detector_selftest", []).append(
        "%s: %d invalid streams trapped" % ("asan" if asan else "guard-pages", len(OOB_STREAMS)))


def save_big(ctx, d):
    p = os.path.join(os.path.dirname(ctx.workdir), "replays")
    os.makedirs(p, exist_ok=True)
    f = os.path.join(p, "C12-input-%s.bin" % hashlib.sha1(d).hexdigest()[:12])
    if not os.path.exists(f):
        with open(f, "wb") as fh:
            fh.write(d)
    return f


def e2e_compile(ctx):
    """translate the two e2e modules once (logging the lzss_compress calls); -> (sources info, json|None, err)"""
    rng = ctx.rng
    big_src, big_exp = e2e_source(150, rng)
    small_src, small_exp = e2e_source(3, rng)
    for name, src in (("c12_big", big_src), ("c12_small", small_src)):
        with open(os.path.join(ctx.workdir, name + ".pyx"), "w") as f:
            f.write(src)
    r = cybuild.run_script(PY_E2E_COMPILE, ctx.workdir, {"names": ["c12_big", "c12_small"]}, name="e2e_compile.py")
    return {"c12_big": big_exp, "c12_small": small_exp}, r["json"], r["err"]


def run_e2e(ctx, exps, info, err):
    """generated modules: string table big enough for the lzss branch (built with the default
    CYTHON_COMPRESS_STRINGS and with 0), and a small one"""
    if not info or any(v["errors"] for v in info.values()):
        ctx.corr_break("lzss:e2e-compile", "e2e", (err or "")[-800:] + json.dumps(info)[:300], "modules translate")
        return []
    variants = [("c12_big", "default", None), ("c12_big", "0", ["CYTHON_COMPRESS_STRINGS=0"]),
                ("c12_small", "default", None)]
    if ctx.tier != "quick":
        variants += [("c12_big", "90", ["CYTHON_COMPRESS_STRINGS=90"]), ("c12_big", "1", ["CYTHON_COMPRESS_STRINGS=1"])]

    def cc_one(v):
        name, tag, macros = v
        d = os.path.join(ctx.workdir, "e2e_" + tag)
        os.makedirs(d, exist_ok=True)
        return cybuild.cc(os.path.join(ctx.workdir, name + ".c"), os.path.join(d, name + cybuild.EXT), macros=macros)
    import concurrent.futures as cf
    with cf.ThreadPoolExecutor(max_workers=len(variants)) as ex:
        ccres = list(ex.map(cc_one, variants))
    for v, (rc, cerr) in zip(variants, ccres):
        name, tag, macros = v
        inp = {"module": name, "CYTHON_COMPRESS_STRINGS": tag, "nstrings": len(exps[name])}
        ctx.case("e2e/%s/%s" % (name, tag), inp, sig=("e2e", name, tag))
        if rc != 0:
            ctx.corr_break("build e2e", inp, cerr[-1500:], "module builds")
            continue
        r = cybuild.call_cases(os.path.join(ctx.workdir, "e2e_" + tag), [["%s.consts" % name, []]],
                               setup="import %s" % name, alarm=30)[0]
        want = [repr(x) for x in exps[name]]
        got = [x["r"] for x in r["r"]] if "r" in r and isinstance(r["r"], list) else r
        if got != want:
            bad = [i for i, (a, b) in enumerate(zip(got, want)) if a != b][:3] if isinstance(got, list) else None
            ctx.fail("e2e_string_table", inp, {"result": got if not isinstance(got, list) else [got[i] for i in bad],
                                               "first_bad_index": bad},
                     {"expected": [want[i] for i in (bad or [])] or "the module's constants"})
    # what the compiler handed to / got from lzss_compress, and whether the branch was emitted
    extra = []
    model = ctx.model("lzss")
    for name, inf in info.items():
        ctext = open(os.path.join(ctx.workdir, name + ".c")).read()
        m = re.search(r"__Pyx_DecompressString_LZSS\(cstring, (\d+), (\d+)\)", ctext)
        for data_hex, comp_hex in inf["log"]:
            data = bytes.fromhex(data_hex)
            emitted_model = model.batch(["emitted " + (data_hex or "-")])[0]
            inp = {"module": name, "concat_bytes_len": len(data), "compressed_len": len(comp_hex) // 2}
            ctx.case("e2e/selection", inp, sig=("sel", name, data_hex[:40]))
            if (m is not None) != (emitted_model == "1"):
                ctx.corr_break("lzss:selection", inp, "lzss branch emitted: %s" % (m is not None), emitted_model)
            if m is not None:
                if (int(m.group(1)), int(m.group(2))) != (len(comp_hex) // 2, len(data)):
                    ctx.fail("e2e_length_arguments", inp, m.group(0), "(%d, %d)" % (len(comp_hex) // 2, len(data)))
                if len(data) < 200:
                    ctx.fail("e2e_selection_guard", inp, "lzss branch for %d bytes" % len(data), ">= 200 bytes")
            if data:
                extra.append(("stringtab", data))
    if not any("compression: lzss" in open(os.path.join(ctx.workdir, n + ".c")).read() for n in info):
        ctx.corr_break("lzss:coverage", "e2e", "no generated module took the lzss branch", "c12_big uses lzss")
    return extra


def run(ctx):
    asan = ctx.tier != "quick"
    t0 = time.time()
    import concurrent.futures as cf
    spec = build_wrapper(ctx, False)
    aspec = dict(spec, workdir=os.path.join(ctx.workdir, "asan"),
                 cflags=["-O1", "-fsanitize=address", "-fno-omit-frame-pointer", "-g"])
    with cf.ThreadPoolExecutor(max_workers=3) as ex:
        f_wrap = ex.submit(cybuild.build_many, [spec], 1)
        f_e2e = ex.submit(e2e_compile, ctx)
        f_asan = ex.submit(cybuild.build_many, [aspec], 1) if asan else None
        built = f_wrap.result()
        exps, info, err = f_e2e.result()
        asan_built = f_asan.result() if f_asan else None
    if built[0][1] is not None:
        ctx.corr_break("build c12_wrap", "c12_wrap", str(built[0][1])[:1500], "wrapper builds")
        return
    t0 = _phase(ctx, "translate+build_wrapper", t0)
    cases = gen_inputs(ctx)
    cases += run_e2e(ctx, exps, info, err)
    t0 = _phase(ctx, "e2e", t0)
    oob_selftest(ctx, False)
    kinds, maxeo, maxlen = evaluate(ctx, cases) or ([0] * 4, 0, 0)
    ctx.extra["token_kinds_exercised"] = {"literal": kinds[0], "ref7": kinds[1], "ref9": kinds[2], "ref14": kinds[3],
                                          "max_end_offset": maxeo, "max_length": maxlen}
    if min(kinds) == 0 or maxeo != 16511 or maxlen != 258:
        ctx.corr_break("lzss:coverage", "generators", "kinds=%s maxeo=%d maxlen=%d" % (kinds, maxeo, maxlen),
                       "every encoding, end offset 16511 and length 258 exercised")
    if asan:
        # same decompressor under AddressSanitizer with exact-size heap buffers
        if asan_built[0][1] is not None:
            ctx.note("ASan wrapper did not build: %s" % str(asan_built[0][1])[:300])
        else:
            oob_selftest(ctx, True)
            sub = [c for c in cases if len(c[1]) <= 20000]
            evaluate(ctx, sub, asan=True, label="asan/")


def replay(ctx, obj):
    inp = obj["input"]
    if inp.get("data_hex") is None and not inp.get("data_file"):
        print(json.dumps(obj, indent=1)); return
    d = bytes.fromhex(inp["data_hex"]) if inp.get("data_hex") is not None else open(inp["data_file"], "rb").read()
    built = cybuild.build_many([build_wrapper(ctx, False)], jobs=1)
    if built[0][1] is not None:
        print("wrapper build failed", built[0][1]); return
    evaluate(ctx, [(inp.get("stratum", "replay"), d)])
    print("replayed input of %d bytes; failures: %s; correspondence breaks: %s" % (
        len(d), json.dumps(ctx.prop_failures)[:1500], json.dumps(ctx.corr_breaks)[:1500]))
