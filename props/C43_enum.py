"""C43 helper (not a property): SYSTEMATIC enumeration of the grammar productions that props/C43_gen.py only samples.

For every construct below the productions are enumerated completely within a stated bound (e.g. every sequence of
argument kinds {positional, *iterable, keyword, **mapping} up to a length, in every place an argument list can stand);
CPython's own compile() decides which of the candidates are valid Python - the enumeration deliberately OVER-generates
(orders CPython rejects included) so that no legal ordering is left out by a mistake in a hand-written production.
Every kept snippet must be compiled by the compiler under test (props/C43.py: grouped into modules, a failing group is
bisected).  Every snippet uses only names bound by PRELUDE (or by itself) so that snippets can be concatenated.

enum_snippets(tier) -> list of (family, label, snippet)      (deterministic, no randomness)
arg_sequences(n)    -> all kind sequences up to length n, used by the parser-level correspondence too
"""
import itertools, warnings

PRELUDE = ('import os\n'
           'def f(*a, **k): return f\n'
           'a = b = c = d = x = y = z = w = n = v = 1\n'
           'l = [1, 2, 3]\n'
           'dd = {"a": 1}\n'
           'class K:\n    q = 0\n'
           'o = K()\n')

KINDS = "PSKD"          # positional, *iterable, keyword=value, **mapping
_KWNAMES = ["key", "sep", "end", "file", "kw5", "kw6", "kw7"]
_POSV = ["a", "b", "1", "x", "y", "z", "w"]
_STARV = ["l", "(a, b)", "[c]", "l", "l", "l", "l"]
_DSTARV = ["dd", "{'u': 1}", "dd", "dd", "dd", "dd", "dd"]


def arg_sequences(maxlen, minlen=0):
    for n in range(minlen, maxlen + 1):
        for t in itertools.product(KINDS, repeat=n):
            yield "".join(t)


def render_args(seq, tail=""):
    """source text of an argument list with the given kind sequence; tail: '' | ',' | 'for'"""
    out = []
    for i, k in enumerate(seq):
        if k == "P":
            out.append(_POSV[i % len(_POSV)])
        elif k == "S":
            out.append("*" + _STARV[i % len(_STARV)])
        elif k == "K":
            out.append("%s=%s" % (_KWNAMES[i % len(_KWNAMES)], _POSV[i % len(_POSV)]))
        else:
            out.append("**" + _DSTARV[i % len(_DSTARV)])
    s = ", ".join(out)
    if tail == ",":
        s += ","
    elif tail == "for":
        s += " for v in l"
    return s


def py_valid(src):
    with warnings.catch_warnings():
        warnings.simplefilter("ignore")
        try:
            compile(src, "<c43enum>", "exec", dont_inherit=True)
            return True
        except (SyntaxError, ValueError, OverflowError, MemoryError, RecursionError):
            return False


class _Out:
    def __init__(self):
        self.items = []
        self.n = 0

    def add(self, fam, snippet):
        self.n += 1
        self.items.append((fam, "%s_%d" % (fam, self.n), snippet.replace("{u}", str(self.n))))


# ------------------------------------------------------------------------------------------------ argument lists
def _call_args(out, thorough):
    top = 5 if thorough else 4
    for seq in arg_sequences(top):
        args = render_args(seq)
        out.add("callargs", "f(%s)" % args)
        if seq and len(seq) <= (4 if thorough else 3):
            out.add("callargs_comma", "f(%s)" % render_args(seq, ","))
        if len(seq) <= (4 if thorough else 3):
            out.add("classargs", "class C{u}(%s): pass" % args)
            out.add("decoargs", "@f(%s)\ndef d{u}(): pass" % args)
        if len(seq) <= (3 if thorough else 2):
            out.add("callargs_for", "f(%s)" % render_args(seq, "for"))
            out.add("callargs_ctx", "x = o.q(%s)(%s)" % (args, args))
            out.add("callargs_ctx", "x = l[f(%s)]" % args)
            out.add("callargs_ctx", "x = f(f(%s), k=f(%s))" % (args, args))
            out.add("callargs_ctx", "x = [f(%s) for v in l if f(%s)]" % (args, args))
            out.add("callargs_ctx", "x = lambda: f(%s)" % args)
            out.add("callargs_ctx", "x = f'{f(%s)}'" % args)
            out.add("callargs_ctx", "def g{u}():\n    return f(%s)" % args)
            out.add("callargs_ctx", "async def g{u}():\n    return await f(%s)" % args)
            out.add("classargs", "class C{u}(%s,): pass" % args)
            out.add("classargs", "def g{u}(l, dd):\n    class C(%s): pass\n    return C" % args)
    # values of each argument kind that are themselves special forms
    for v in ["lambda: 0", "a if b else c", "(y := 1)", "y := 1", "*l", "not a", "await a", "yield", "(yield)", "a for a in l",
              "(a for a in l)", "[*l]", "{**dd}", "a, b", "(a, b)", "...", "a or b", "lambda *a, **k: 0", "l[::2]", "f(*l, **dd)"]:
        for shape in ["f(%s)", "f(a, %s)", "f(%s, a)", "f(*%s)", "f(**%s)", "f(key=%s)", "f(key=%s, sep=a)", "f(*l, %s)", "f(a, *%s, **dd)"]:
            out.add("callargs_value", shape % v)
            out.add("callargs_value", "async def g{u}():\n    " + shape % v)
            out.add("callargs_value", "def g{u}():\n    " + shape % v)


# ------------------------------------------------------------------------------------------------ decorators
_DECO_EXPRS = ["f", "o.q", "os.path.join", "f()", "f(1)", "f(a, *l, key=b, **dd)", "f()()", "o.q()", "l[0]", "l[0](1)", "dd['a']",
               "(f)", "(lambda g: g)", "lambda g: g", "f if a else f", "f or f", "f and f", "not f", "-f", "~f", "a @ b", "a + b",
               "(y := f)", "y := f", "[f][0]", "{'a': f}['a']", "(f, f)[0]", "f'{a}'", "'s'.join", "1", "None", "...", "await f",
               "(yield)", "yield", "*l", "f,", "f, f", "a < b", "a < b < c", "f if a else f if b else f", "[g for g in l][0]",
               "(g for g in l)", "f(g for g in l)", "K", "K.q", "type(K)", "f\\\n(1)", "(\nf\n)"]


def _decorators(out, thorough):
    for e in _DECO_EXPRS:
        for tgt in ["def d{u}(): pass", "async def d{u}(): pass", "class D{u}: pass"]:
            out.add("decorator", "@%s\n%s" % (e, tgt))
        out.add("decorator", "class D{u}:\n    @%s\n    def m(self): pass" % e)
        out.add("decorator", "def g{u}():\n    @%s\n    def h(): pass\n    return h" % e)
        out.add("decorator", "async def g{u}():\n    @%s\n    def h(): pass\n    return h" % e)
    for n in (2, 3, 5):
        for tgt in ["def d{u}(): pass", "class D{u}: pass"]:
            out.add("decorator", "".join("@%s\n" % ["f", "o.q", "f(1)", "(lambda g: g)", "l[0]"][i % 5] for i in range(n)) + tgt)
    out.add("decorator", "class D{u}:\n    @staticmethod\n    def s(): pass\n    @classmethod\n    def c(cls): pass\n    @property\n    def p(self): return 1\n    @p.setter\n    def p(self, v): pass\n    @p.deleter\n    def p(self): pass")


# ------------------------------------------------------------------------------------------------ subscripts
_SLICES = [":", "a:", ":b", "a:b", "::", "a::", ":b:", "::c", "a:b:", "a::c", ":b:c", "a:b:c"]
_SUB_ELEMS = ["a", "-1", "..."] + _SLICES[:4] + ["a:b:c", "::c", "*l", "y := 1", "(y := 1)", "(a, b)", "lambda: 0", "a if b else c", "(y := 1):b", "None", "a:None", "*l[::2]"]


def _subscripts(out, thorough):
    ctxs = ["x = l[%s]", "l[%s] = 1", "del l[%s]", "l[%s] += 1", "x = o.q[%s][%s]", "for l[%s] in l: pass", "x = f(l[%s])"]
    for e in _SUB_ELEMS + _SLICES[4:]:
        for c in ctxs:
            out.add("subscript", c.replace("%s", e))
        out.add("subscript", "x = l[%s,]" % e)
        out.add("subscript", "l[%s,] = 1" % e)
    elems = _SUB_ELEMS if thorough else ["a", "...", ":", "a:b", "a:b:c", "*l", "y := 1", "(y := 1)"]
    for e1 in elems:
        for e2 in elems:
            out.add("subscript", "x = l[%s, %s]" % (e1, e2))
            if thorough or e1 in ("a", ":", "*l") or e2 in ("a", ":", "*l"):
                out.add("subscript", "l[%s, %s] = 1" % (e1, e2))
                out.add("subscript", "del l[%s, %s,]" % (e1, e2))
    small = ["a", ":", "a:b:c", "*l", "...", "(y := 1)"]
    for e1 in (small if thorough else ["a", ":", "*l"]):
        for e2 in (small if thorough else ["a", "a:b", "*l", "..."]):
            for e3 in (small if thorough else ["a", "::c", "*l"]):
                out.add("subscript", "x = l[%s, %s, %s]" % (e1, e2, e3))
    for e in ["a", "a:b", "*l", "a, b", "*l, a"]:     # annotations use subscripts too (PEP 646 star in def annotations)
        out.add("subscript", "def s{u}(p: K[%s] = 1, *r: K[%s]) -> K[%s]: pass" % (e, e, e))
        out.add("subscript", "xs{u}: K[%s] = 1" % e)
    out.add("subscript", "def s{u}(*r: *l): pass")


# ------------------------------------------------------------------------------------------------ parameter lists
def _param_lists(thorough):
    """(text of a parameter list with annotations, same without annotations) for every shape within the bound"""
    res = []
    rng_po = (0, 1, 2)
    rng_p = (0, 1, 2)
    rng_ko = (0, 1, 2)
    for n_po, n_p, star, n_ko, dstar in itertools.product(rng_po, rng_p, ("", "*", "*r"), rng_ko, (False, True)):
        npos = n_po + n_p
        if thorough:
            dvariants = [(nd, km) for nd in range(npos + 1) for km in range(1 << n_ko)]
        else:       # boundary choices: no defaults, one trailing default, all defaults; kw-only: none, first only, all
            dvariants = sorted({(nd, km) for nd in {0, min(1, npos), npos} for km in {0, 1 if n_ko else 0, (1 << n_ko) - 1}})
        for nd, km in dvariants:
            for ann in (False, True):
                for comma in ((False, True) if (thorough or (nd, km) == (0, 0)) else (False,)):
                    parts = []
                    for i in range(npos):
                        name = "p%d" % i
                        t = name + (": int" if ann else "")
                        if i >= npos - nd:
                            t += (" = %d" % i) if ann else ("=%d" % i)
                        parts.append(t)
                        if i == n_po - 1:
                            parts.append("/")
                    if star:
                        parts.append(star + (": int" if ann and star != "*" else ""))
                    for j in range(n_ko):
                        t = "k%d" % j + (": 'str'" if ann else "")
                        if km >> j & 1:
                            t += (" = None" if ann else "=None")
                        parts.append(t)
                    if dstar:
                        parts.append("**kw" + (": object" if ann else ""))
                    s = ", ".join(parts)
                    if comma and parts:
                        s += ","
                    res.append((s, ann))
    return list(dict.fromkeys(res))


def _parameters(out, thorough):
    for s, ann in _param_lists(thorough):
        out.add("params_def", "def pd{u}(%s)%s: pass" % (s, " -> int" if ann else ""))
        if not ann:
            out.add("params_lambda", "x = lambda %s: 0" % s if s else "x = lambda: 0")
    some = [s for s, ann in _param_lists(False) if not ann][::7]
    for s in some:
        out.add("params_ctx", "class P{u}:\n    def m(self%s): pass" % (", " + s if s and not s.startswith("/") else ""))
        out.add("params_ctx", "async def pa{u}(%s): pass" % s)
        out.add("params_ctx", "def pg{u}(%s): yield" % s)
        out.add("params_ctx", "def po{u}():\n    def inner(%s): return 0\n    return inner" % s)
        out.add("params_ctx", "x = f(lambda %s: 0, key=lambda %s: 0)" % (s, s))
    # invalid orders, defaults as special forms, annotations as special forms
    for s in ["a, a", "*, **k", "*", "/", "a, /, /", "a=1, b", "a=1, /, b", "*a, *b", "**k, a", "**k, *a", "*a, /", "a, *, /", "**k,", "*a,", "*, a,",
              "a, /, *, b", "a, /, b, *, c", "a=1, /, b=2, *, c, d=3, **k", "a, b=1, *r, c, d=2, **k", "a=lambda: 0", "a=(y := 1)", "a=y := 1",
              "a=[v for v in l]", "a=l[::2]", "a=f(*l, **dd)", "a=..., *, b=...", "a=a", "a=-1", "a=1 if b else 2", "(a, b)", "(a)", "a: int = 1, /",
              "a: 'int'", "a: int | None = None", "a: K.q", "a: l[0]", "a: f(1)", "a: (y := int)", "a: lambda: 0", "*a: int", "**k: int",
              "a: (yield)", "a: await b", "self, /, *, key", "match, case", "_", "__", "a, *_", "print=print", "type=type"]:
        out.add("params_special", "def ps{u}(%s): pass" % s)
        out.add("params_special", "x = lambda %s: 0" % s)
        out.add("params_special", "async def ps{u}(%s): pass" % s)
    for r in ["int", "'K'", "None", "l[0]", "f(1)", "(y := int)", "lambda: 0", "a if b else c", "a, b", "(a, b)", "*l", "...", "-1", "not a", "yield"]:
        out.add("params_special", "def pr{u}() -> %s: pass" % r)


# ------------------------------------------------------------------------------------------------ comprehensions
def _comprehensions(out, thorough):
    tg = ["v", "v, u", "(v, u)", "[v, u]", "*v, u", "v, *u", "(v, (u, t))", "v.q" if False else "o.q", "l[0]", "v,", "(v)", "*v,", "[*v]"]
    its = {"v": "l", "v, u": "[l[:2]]", "(v, u)": "[l[:2]]", "[v, u]": "[l[:2]]", "*v, u": "[l]", "v, *u": "[l]", "(v, (u, t))": "[(1, (2, 3))]",
           "o.q": "l", "l[0]": "l", "v,": "[[1]]", "(v)": "l", "*v,": "[l]", "[*v]": "[l]"}
    clauses = ["", " if v", " if v if w", " for t in l", " if v for t in l", " for t in l if t", " if v for t in l if t if w", " for t in l for s in l",
               " if (y := v)", " if not v", " if v or w", " if lambda: v" if False else " if (lambda: v)", " if v if w if a",
               " for t in l for s in l for r in l", " for t, s in [l[:2]]", " for t in l if t for s in l if s"]
    elems = {"[%s]": "v", "{%s}": "v", "(%s)": "v", "f(%s)": "v", "{%s: w %s}": None}
    for t in tg:
        for cl in (clauses if thorough or t in ("v", "v, u", "*v, u") else clauses[:4]):
            head = "for %s in %s%s" % (t, its[t], cl)
            out.add("comprehension", "x = [w %s]" % head)
            out.add("comprehension", "x = {w %s}" % head)
            out.add("comprehension", "x = (w %s)" % head)
            out.add("comprehension", "x = {w: w %s}" % head)
            out.add("comprehension", "x = f(w %s)" % head)
            out.add("comprehension_async", "async def ca{u}():\n    return [w async %s]" % head)
            out.add("comprehension_async", "async def ca{u}():\n    return {w: w async %s}" % head)
            out.add("comprehension_async", "async def ca{u}():\n    return (w async %s)" % head)
            out.add("comprehension_async", "async def ca{u}():\n    return [w %s async for r in l if r]" % head)
            out.add("comprehension_fn", "def cf{u}(l, w, y=0):\n    return [w %s], {w %s}, (w %s)" % (head, head, head))
    for el in ["v", "(v, w)", "v, w", "*v", "(y := v)", "y := v", "lambda: v", "v if v else w", "[u for u in l]", "[u for u in v]", "await v", "(yield v)",
               "f(*l, **dd)", "v.q" if False else "o.q", "l[v]", "not v", "v for v in l", "(v for v in l)", "f'{v}'", "**dd", "v: w", "...", "-v"]:
        for sh in ["x = [%s for v in l]", "x = {%s for v in l}", "x = (%s for v in l)", "x = {%s: %s for v in l}", "x = f(%s for v in l)",
                   "x = [w for v in l if %s]", "x = [w for v in %s]", "x = [w for u in l for v in %s]",
                   "async def ca{u}():\n    return [%s async for v in l]", "def cf{u}(l, w):\n    return [%s for v in l]"]:
            out.add("comprehension_elem", sh.replace("%s", el))
    # nested comprehensions, class-body and lambda scopes
    for s in ["x = [[u for u in v] for v in [l]]", "x = [u for v in [l] for u in v]", "x = [[w for u in l if u == v] for v in l]",
              "x = {v: {u: w for u in l} for v in l}", "x = [lambda: v for v in l]", "x = [(lambda v=v: v) for v in l]",
              "class Q{u}:\n    r = [v for v in l]\n    s = {v: v for v in l}\n    t = list(v for v in l)",
              "x = sum(v for v in l)", "x = sorted((v for v in l), key=lambda v: -v)", "x = any(v for v in l) and all(v for v in l)",
              "x = ((v, u) for v in l for u in l)", "x = list(((v for v in l)))", "x = [v for v in (u for u in l)]",
              "x = [v for v in [u for u in l]]", "x = [v for v in l if v in [u for u in l]]", "x = [(y := v) + y for v in l]",
              "def cf{u}():\n    return [(yy := v) for v in l], yy", "x = [v for v in l][0]", "x = [v for v in l][::2]", "x = {v for v in l} | {1}"]:
        out.add("comprehension_nested", s)


# ------------------------------------------------------------------------------------------------ assignment targets
_TARGETS = ["x", "o.q", "l[0]", "l[a:b]", "l[::2]", "(x)", "(o.q)", "(l[0])", "x, y", "(x, y)", "[x, y]", "x,", "(x,)", "[x]", "*x,", "[*x]", "(*x,)", "*x, y",
            "x, *y", "x, *y, z", "(x, *y)", "[x, *y, z]", "x, (y, z)", "x, [y, *z]", "(x, y), z", "[[x]]", "((x, y),)", "x, o.q, l[0]", "*o.q, l[0]",
            "*l[0], x", "x, (y, (z, (w,)))", "*(x), y" if False else "(*x, y), z", "x, *(y, z)", "*[x, y], z", "*x", "x, *y, *z", "()", "[]", "(), x", "[], []",
            "f()", "a + b", "-x", "x if a else y", "lambda: 0", "1", "None", "...", "f'{x}'", "x := 1", "(x := 1)", "await x", "*x, = y" if False else "x.real",
            "o.q.q", "l[0][1]", "f().q", "f()[0]", "f()[a:b]", "(f)().q", "l[0], = " if False else "l[0],", "x; y" if False else "(((x)))"]
_RHS = {0: "1", 1: "l", 2: "l"}


def _assignments(out, thorough):
    for t in _TARGETS:
        out.add("assign_target", "%s = l" % t)
        out.add("assign_target", "for %s in [l]: pass" % t)
        out.add("assign_target", "with f() as %s: pass" % t)
        out.add("assign_target", "with (f() as %s): pass" % t)
        out.add("assign_target", "x = [w for %s in [l]]" % t)
        out.add("assign_target", "del %s" % t)
        out.add("assign_target", "def at{u}(l):\n    %s = l" % t)
        out.add("assign_target", "async def at{u}(l):\n    async for %s in l: pass\n    async with l as %s: pass" % (t, t))
        out.add("assign_annotated", "%s: int = l" % t)
        out.add("assign_annotated", "%s: int" % t)
        out.add("assign_annotated", "def at{u}(l, o):\n    %s: int = l\n    %s: 'K'" % (t, t))
        out.add("assign_annotated", "class A{u}:\n    l = [0]\n    o = o\n    %s: int = l\n    %s: 'K'" % (t, t))
        for op in (["+=", "//=", "**=", ">>=", "@=", "|=", "-=", "*=", "/=", "%=", "<<=", "&=", "^="] if thorough or t in ("x", "o.q", "l[0]", "l[a:b]", "(x)") else ["+="]):
            out.add("assign_augmented", "%s %s 1" % (t, op))
    chain = ["x", "o.q", "l[0]", "x, y", "[x, *y]", "l[a:b]", "*x, y"]
    for t1 in chain:
        for t2 in chain:
            out.add("assign_chain", "%s = %s = l" % (t1, t2))
            if thorough or t1 == "x" or t2 == "x":
                for t3 in chain[:4]:
                    out.add("assign_chain", "%s = %s = %s = l" % (t1, t2, t3))
    for rhs in ["1", "1,", "1, 2", "*l,", "*l, 1", "1, *l", "*l, *l", "(yield)", "yield", "yield 1", "yield 1, 2", "yield *l, 1", "yield from l", "await x", "lambda: 0",
                "(y := 1)", "y := 1", "a if b else c", "x = 1" if False else "[*l, *l]", "{*l, *l}", "{**dd, **dd}", "{**dd, 'a': 1, **dd}", "*l", "**dd", "not a",
                "a < b < c", "a, b = c, d" if False else "a, (b, c)", "f(*l), *f(**dd)", "[*l][0]", "{*l}.pop", "(*l,)", "(*l)", "*(l)," , "*l[::2],", "*a or l,", "*a if b else l," if False else "*(a if b else l),"]:
        out.add("assign_rhs", "x = %s" % rhs)
        out.add("assign_rhs", "def ar{u}():\n    x = %s\n    return x" % rhs)
        out.add("assign_rhs", "def ar{u}():\n    return %s" % rhs)
        out.add("assign_rhs", "async def ar{u}():\n    x = y = %s\n    return x" % rhs)
        out.add("assign_rhs", "x, *y = %s" % rhs)
        out.add("assign_rhs", "x += %s" % rhs)
        out.add("assign_rhs", "xr{u}: K = %s" % rhs)
        out.add("assign_rhs", "for v in %s: pass" % rhs)
        out.add("assign_rhs", "x = l[%s]" % rhs)
    for a in ["int", "'int'", "K", "K.q", "l[0]", "f(1)", "int | None", "(y := int)", "lambda: 0", "a if b else c", "a, b", "(a, b)", "*l", "...", "None", "[int]",
              "f'{a}'", "not a", "{'a': int}"]:
        out.add("assign_annotation", "xa{u}: %s = 1" % a)
        out.add("assign_annotation", "xb{u}: %s" % a)
        out.add("assign_annotation", "def aa{u}(o):\n    v: %s = 1\n    o.q: %s\n    return v" % (a, a))
        out.add("assign_annotation", "class AA{u}:\n    v: %s = 1\n    u: %s" % (a, a))


# ------------------------------------------------------------------------------------------------ imports
def _imports(out, thorough):
    names = ["os", "os.path", "os as p", "os.path as p", "os, sys", "os.path, os as q, sys", "os.path as p, os.path as q", "xml.dom.minidom", "xml.dom.minidom as m",
             "os,", "(os)", "os as", "os.path as p.q", "*", "os.*", ".os", "os as match", "os as _"]
    stmts = ["import %s" % n_ for n_ in names]
    froms = ["path", "path as p", "path, sep", "path as p, sep as s", "path,", "(path)", "(path,)", "(path, sep)", "(path as p, sep as s,)", "(\n    path,\n    sep,\n)", "*",
             "(*)", "()", "path as", "path as p.q", "path.join", "(path as p),", "path as match, sep as case", "path as _"]
    mods = ["os", "os.path", "xml.dom.minidom", ".", "..", "...", "....", ".pkg", "..pkg.mod", "...pkg", ". pkg", ".. .pkg", "", "os.", ".os.", "__future__" if False else "collections"]
    for m in mods:
        for fr in froms:
            stmts.append("from %s import %s" % (m, fr))
    for s in stmts:
        star = s.endswith("import *")
        out.add("import", s)
        if not star:
            out.add("import_in_function", "def im{u}():\n    %s\n    return 0" % s)
        if thorough or stmts.index(s) % 4 == 0:
            out.add("import_conditional", "try:\n    %s\nexcept ImportError:\n    pass" % s)
            out.add("import_conditional", "if a:\n    %s\nelse:\n    %s" % (s, s))
            if not star:
                out.add("import_conditional", "class IM{u}:\n    %s" % s)
                out.add("import_conditional", "def im{u}():\n    for v in l:\n        with f():\n            try:\n                %s\n            finally:\n                %s" % (s, s))
                out.add("import_conditional", "async def im{u}():\n    %s" % s)
    for s in ["try:\n    import json\nexcept ImportError:\n    json = None", "try:\n    from os import path as pth\nexcept (ImportError, AttributeError):\n    pth = None\nelse:\n    pth = 1\nfinally:\n    pass",
              "if a:\n    import os.path as pth\nelif b:\n    from os import path as pth\nelse:\n    pth = None", "while a:\n    import os\n    break", "for v in l:\n    from os import sep\nelse:\n    import sys",
              "with f():\n    import os", "def im{u}():\n    global os\n    import os", "def im{u}():\n    global pth\n    from os import path as pth", "def im{u}():\n    import os\n    def inner():\n        nonlocal os\n        import os\n    return inner",
              "match a:\n    case 1:\n        import os\n    case _:\n        from os import path", "import os; import sys; from os import path; x = 1", "x = __import__('os')", "lambda: __import__('os')",
              "def im{u}():\n    from . import x\n    from .. import y as z\n    return x, z", "class IM{u}:\n    from os import path, sep\n    import sys as s"]:
        out.add("import_conditional", s)
    for fut in ["annotations", "annotations as ann", "division, print_function", "(absolute_import, unicode_literals,)", "generator_stop", "with_statement, nested_scopes, generators", "barry_as_FLUFL", "braces", "nosuch", "*"]:
        out.add("future_import!", "from __future__ import %s" % fut)


# ------------------------------------------------------------------------------------------------ with items
def _with_items(out, thorough):
    items = ["f()", "f() as x", "f() as o.q", "f() as l[0]", "f() as (x, y)", "f() as [x, *y]", "f() as (x)", "(f())", "(f()) as x", "(f() as x)", "f(), f()",
             "(y := f())", "(y := f()) as x", "y := f()", "f() as (*x, y)", "f() as *x", "f() as x.real", "a, b", "(a, b)", "(a, b) as x", "(a, b) as (x, y)", "*l", "lambda: 0",
             "f() if a else f()", "f() as x if a else y", "a as b as c", "await f()", "(yield)", "f() as (x, (y, z))", "f() as l[a:b]", "[a, b]", "[a, b] as x", "f'{a}'", "...", "a < b"]
    for n in (1, 2, 3):
        pool = items if n == 1 else (items[:12] if thorough else items[:6])
        for combo in itertools.product(pool, repeat=n) if n < 3 else itertools.product(pool[:4], repeat=3):
            seq = ", ".join(combo)
            out.add("with_items", "with %s: pass" % seq)
            out.add("with_items_paren", "with (%s): pass" % seq)
            out.add("with_items_paren", "with (%s,): pass" % seq)
            if n == 1 or thorough:
                out.add("with_items_paren", "with (\n    %s\n): pass" % ",\n    ".join(combo))
                out.add("with_items", "with %s,: pass" % seq)
                out.add("with_items_async", "async def wa{u}():\n    async with %s: pass" % seq)
                out.add("with_items_async", "async def wa{u}():\n    async with (%s): pass" % seq)
                out.add("with_items_async", "async def wa{u}():\n    async with (%s,): pass\n    with (%s,): pass" % (seq, seq))
                out.add("with_items", "def wf{u}():\n    with %s:\n        return 1" % seq)
                out.add("with_items_paren", "def wf{u}():\n    with (%s):\n        return 1" % seq)
    for s in ["with (f()) as x, (f()) as y: pass", "with (f()), (f()): pass", "with (f(), f()) as x: pass", "with (f() as x), f(): pass" , "with (f() as x), (f() as y): pass",
              "with ((f() as x)): pass", "with ((f())): pass", "with ((f(), f())): pass", "with (f() as x, f()): pass", "with (f(), f() as y): pass", "with (f())[0]: pass", "with (f()).q as x: pass",
              "with (f()) if a else f(): pass", "with (f(), f())[0] as x: pass", "with (a)(b) as x: pass", "with (a) + b as x: pass", "with (a, b)[0], c: pass", "with (a, b) as x, c: pass",
              "with (a as x), b: pass", "with f() as x, f() as x: pass", "with f() as x:\n    with f() as y: pass", "with(f()):pass", "with(f())as x:pass", "with(f()as x,f()as y):pass", "with(f()as x,):pass"]:
        out.add("with_items_paren", s)


# ------------------------------------------------------------------------------------------------ try / except
def _except_clauses(out, thorough):
    specs = ["", "ValueError", "ValueError as e", "(ValueError)", "(ValueError) as e", "(ValueError, TypeError)", "(ValueError, TypeError) as e", "(ValueError,)", "()", "os.error",
             "os.error as e", "f()", "f() as e", "(os.error, f())", "ValueError, TypeError", "ValueError, TypeError as e", "ValueError as o.q", "ValueError as (e)", "[ValueError]", "l[0]",
             "a or b", "a if b else c", "(y := ValueError)", "y := ValueError", "lambda: 0", "*l", "(*l,)", "(ValueError, *l)", "not a", "await a", "(yield)", "...", "None", "1", "'s'",
             "(ValueError, (TypeError, KeyError))", "ValueError as _", "ValueError as match"]
    for star in ("", "*"):
        for sp in specs:
            h = "except%s %s:" % (star, sp) if sp else "except%s:" % star
            out.add("except", "try: pass\n%s pass" % h)
            out.add("except_fn", "def ex{u}():\n    try:\n        return f()\n    %s\n        return 0" % h)
            out.add("except", "try: pass\n%s pass\nelse: pass" % h)
            out.add("except", "try: pass\n%s pass\nfinally: pass" % h)
            out.add("except", "try: pass\n%s pass\nelse: pass\nfinally: pass" % h)
        hs = ["except%s ValueError: pass" % star, "except%s TypeError as e: pass" % star, "except%s (KeyError, OSError): pass" % star, "except%s (IndexError,) as e: x = e" % star]
        for n in (2, 3, 4):
            out.add("except", "try: pass\n" + "\n".join(hs[:n]))
            out.add("except_fn", "def ex{u}():\n    try:\n        pass\n    " + "\n    ".join(hs[:n]) + "\n    else:\n        return 1\n    finally:\n        x = 2")
            if not star:
                out.add("except", "try: pass\n" + "\n".join(hs[:n]) + "\nexcept: pass")
                out.add("except", "try: pass\nexcept: pass\n" + "\n".join(hs[:n]))
        out.add("except_fn", "def ex{u}():\n    for v in l:\n        try:\n            f()\n        except%s ValueError:\n            continue\n        except%s TypeError:\n            break\n        except%s KeyError:\n            return 1" % (star, star, star))
        out.add("except_fn", "def ex{u}():\n    try:\n        f()\n    except%s ValueError as e:\n        raise\n    except%s TypeError as e:\n        raise e\n    except%s KeyError as e:\n        raise ValueError from e" % (star, star, star))
        out.add("except_fn", "def ex{u}():\n    try:\n        try:\n            f()\n        except%s ValueError:\n            f()\n        finally:\n            f()\n    except%s ValueError as e:\n        try:\n            f()\n        except%s TypeError as e:\n            pass\n        return e" % (star, star, star))
        out.add("except_fn", "async def ex{u}():\n    try:\n        await f()\n    except%s ValueError as e:\n        await f()\n    finally:\n        await f()" % star)
        out.add("except_fn", "def ex{u}():\n    try:\n        yield 1\n    except%s ValueError as e:\n        yield e\n    finally:\n        yield 2" % star)
    for s in ["try: pass\nexcept ValueError: pass\nexcept* TypeError: pass", "try: pass\nexcept* ValueError: pass\nexcept TypeError: pass", "try: pass\nfinally: pass", "try: pass\nelse: pass",
              "try: pass", "try: pass\nexcept ValueError: pass\nfinally: pass\nelse: pass", "try: pass\nfinally: pass\nexcept ValueError: pass",
              "def ex{u}():\n    try:\n        pass\n    except* ValueError:\n        return 1", "def ex{u}():\n    for v in l:\n        try:\n            pass\n        except* ValueError:\n            break"]:
        out.add("except", s)


# ------------------------------------------------------------------------------------------------ match patterns
_LEAF_PATS = ["1", "-1", "1.5", "-1.5", "1j", "-1j", "1+2j", "-1-2j", "1.5+2j", "1-2.5j", "0x1F", "'s'", "'s' 't'", "b's'", "b's' b't'", "rb's'", "f's'", "None", "True", "False", "_", "v",
              "o.q", "os.path.sep", "os.sep", "+1", "1+1", "1+v", "-v", "1j+1", "...", "__debug__", "match", "case", "(1)", "(v)", "(_)", "1 | 2", "v | 1", "1 | v", "_ | 1", "1 as v", "_ as v", "v as u",
              "1 as _", "(1 | 2) as v", "1 | 2 as v", "1 as v | 2", "*r", "*_", "**r"]
_CONTAINERS = ["[%s]", "(%s,)", "%s,", "[%s, %s]", "(%s, %s)", "%s, %s", "[%s, *r]", "[*r, %s]", "[%s, *_, %s]", "(*_, %s)", "%s, *r", "[*r, *s, %s]", "[[%s]]", "([%s],)", "{'a': %s}", "{'a': %s, 'b': %s}",
               "{'a': %s, **r}", "{**r, 'a': %s}", "{'a': %s, **_}", "{1: %s, o.q: %s, None: %s}", "{'a': %s,}", "{-1: %s, 1+2j: %s}", "{v: %s}", "{'a' 'b': %s}", "{b'a': %s}", "{'a': %s, 'a': %s}",
               "K(%s)", "K(%s,)", "K(q=%s)", "K(q=%s,)", "K(%s, q=%s)", "K(q=%s, r=%s)", "K(q=%s, %s)", "K(q=%s, q=%s)", "os.K(%s)", "o.q.K(q=%s)", "K(*r)", "K(**r)", "int(%s)", "str(%s)", "K(%s) as u", "(%s)", "((%s))",
               "%s | %s", "(%s | %s)", "[%s] | [%s, _]", "%s as u", "[%s as u, *r] as t", "{'a': [%s]}", "K(q=[%s, {'b': %s}])", "[]", "()", "{}", "K()", "[(), [], {}]"]


def _match_patterns(out, thorough):
    def case(pat, guard=""):
        return "match x:\n    case %s%s: pass" % (pat, guard)
    for p in _LEAF_PATS:
        out.add("match_pattern", case(p))
        out.add("match_pattern", "def mp{u}(x):\n    match x:\n        case %s: return 1\n        case _: return 0" % p)
        out.add("match_pattern", case(p, " if v"))
    leaves = _LEAF_PATS if thorough else ["1", "-1-2j", "'s'", "None", "_", "v", "o.q", "1 | 2", "1 as v", "*r", "(v)"]
    for c in _CONTAINERS:
        k = c.count("%s")
        if k == 0:
            out.add("match_pattern", case(c))
            continue
        for p in leaves:
            # distinct capture names per slot: a repeated capture is a SyntaxError
            ps = [p.replace("v", "v%d" % i) if "v" in p and p not in ("o.q",) and "v" != "" else p for i in range(k)]
            ps = [q if p != "*r" else "*r%d" % i for i, q in enumerate(ps)]
            out.add("match_pattern_nested", case(c % tuple(ps)))
    for subj in ["x", "x, y", "x,", "*l, x", "*l,", "(x, y)", "[x, y]", "(y := x)", "y := x", "f(x)", "x.real", "l[0]", "l[a:b]", "x if a else y", "lambda: 0", "not x", "-x", "x + y", "x < y", "await x", "(yield)",
                 "yield", "x for x in l", "(x for x in l)", "[v for v in l]", "...", "None", "1", "'s'", "f'{x}'", "{**dd}", "{*l}", "match", "case", "(match)", "match(x)" if False else "-match", "x, *l",
                 "*l", "**dd", "x: int", "x = 1"]:
        out.add("match_subject", "match %s:\n    case _: pass" % subj)
        out.add("match_subject", "def ms{u}(x, y, l):\n    match %s:\n        case [*_]: return 1\n        case _: return 0" % subj)
        out.add("match_subject", "async def ms{u}(x, y, l):\n    match %s:\n        case _: pass" % subj)
    for g in ["v", "(y := v)", "y := v", "v if a else w", "lambda: v", "v, w", "*l", "not v", "v < w < n", "await v", "(yield)", "[u for u in l]", "f(*l, **dd)", "v and w or n"]:
        out.add("match_guard", "match x:\n    case v if %s: pass\n    case _ if %s: pass" % (g, g))
        out.add("match_guard", "async def mg{u}(x):\n    match x:\n        case v if %s: pass" % g)
    for body in ["match x:\n    case 1: pass\n    case 2: pass\n    case _: pass", "match x:\n    case _: pass\n    case 1: pass", "match x:\n    case v: pass\n    case _: pass",
                 "match x:\n    case 1:\n        match y:\n            case 2: pass", "for v in l:\n    match v:\n        case 1: continue\n        case 2: break\n        case _: pass\nelse:\n    pass",
                 "match x:\n    case 1: x = 1; y = 2\n    case 2:\n        x = 1\n        y = 2", "match x:\n  case 1:\n        pass\n  case 2:\n   pass", "match x: case 1: pass", "match x:\n    pass", "match x:\n    case 1: pass\n    pass",
                 "match x:\n    case 1: pass\nelse: pass", "match (x):\n    case (1): pass", "match [x]:\n    case [1]: pass", "match {x}:\n    case _: pass", "match x:\n\n    # c\n    case 1:  # c\n        pass\n\n    case 2: pass",
                 "class MC{u}:\n    match x:\n        case 1: r = 1\n        case _: r = 2", "def mb{u}(x):\n    match x:\n        case [a, b] if a: return a\n        case {'k': a, **b}: return b\n        case K(q=a) | [a]: return a\n    return None",
                 "def mb{u}(x):\n    match x:\n        case a:\n            def g(): return a\n            return g", "def mb{u}(x):\n    match x:\n        case a:\n            return lambda: a",
                 "def mb{u}(x):\n    match x:\n        case a: yield a\n        case _: yield from x", "def mb{u}(x):\n    global gm{u}\n    match x:\n        case gm{u}: pass", "def mb{u}(x):\n    a = 0\n    def g():\n        nonlocal a\n        match x:\n            case a: pass\n    return g"]:
        out.add("match_statement", body)


# ------------------------------------------------------------------------------------------------ f-strings
def _fstrings(out, thorough):
    exprs = ["a", "a + b", "a!r" if False else "(a)", "a if b else c", "(lambda: a)", "lambda: a", "(y := a)", "y := a", "a != b", "a == b", "a <= b", "a[0]", "l[::2]", "l[a:b]", "dd['a']", 'dd["a"]', "{1: 2}[1]",
             " {1: 2}[1]", "{1, 2}", " {1, 2} ", "[v for v in l]", "{v for v in l}", " {v: v for v in l}", "(v for v in l)", "f(*l, **dd)", "f(key=a)", "o.q", "o.q.real", "a, b", "*l, a", "*l", "**dd", "a or b", "not a",
             "-a", "a ** b", "a @ b", "await a", "(yield)", "yield", "yield a", "'s'", '"s"', "'''s'''", "f'{a}'", 'f"{a}"', "f'{a!r:>{w}}'", "'\\n'", "a  # c", "a\n", "\na", "", " ", "a b", "a:", "!r", "a!", "a!x", "a!r!r",
             "...", "None", "1", "1.5", "1j", "0x1F", "1_000", "a.real", "1 .real", "1.real", "a is b", "a is not b", "a not in l", "x = 1", "a; b", "pass", "import os", "a\\\n", "a if b", "b'x'", "rb'\\d'", "r'\\d'"]
    convs = ["", "!r", "!s", "!a", "!R", "! r", "!rr"]
    specs = ["", ":", ":>10", ":{w}", ":{w}.{n}", ":>{w}", ":{w}{n}", ":{'>'}{w}", ":{w!r}", ":{w:{n}}", ":%Y-%m", "::", ":!r", ":}", ":{{}}", ":{", ": ", ":a:b", ":\\n", ":{w", ":{}", ":{ w }", ":{w=}", ":{lambda: 0}", ":{(lambda: 0)}", ":,.2f", ":#x", ":^+08_.3e"]
    for e in exprs:
        for q in ('f"{%s}"', "f'{%s}'", 'f"""{%s}"""', 'f"a{%s}b{%s}c"', 'rf"{%s}"', 'Rf"\\d{%s}"', 'f"{{{%s}}}"', 'f"{{%s}}"', 'f"{%s=}"', 'f"{ %s }"', 'f"{%s = }"', 'f"{%s!r}"', 'f"{%s:>10}"', 'f"{%s!s:{w}}"', 'f"{%s=!r:^{w}}"', 'f"{f"{%s}"}"',
                  "f'{f'{f'{%s}'}'}'", 'f"""{\n%s\n}"""', 'f"{%s}" f"{%s}"', '"s" f"{%s}" "t"', 'f"{%s}" rb"x"' if False else 'f"{%s}" r"\\d"', 'F"{%s}"', 'fR"{%s}"', 'f"{\n%s}"' if False else 'f"""{\n%s # c\n}"""'):
            out.add("fstring", "x = " + q.replace("%s", e))
        out.add("fstring_fn", 'def fs{u}(a, b, c, l, dd, w, n, o):\n    return f"{%s}", f"{%s!r:>{w}}"' % (e, e))
        out.add("fstring_fn", 'async def fs{u}(a, b, c, l, dd, w, n, o):\n    return f"{%s}", f"{%s=}"' % (e, e))
    for cv in convs:
        for sp in specs:
            out.add("fstring_spec", 'x = f"{a%s%s}"' % (cv, sp))
            out.add("fstring_spec", 'x = f"{a=%s%s}"' % (cv, sp))
            out.add("fstring_spec", 'x = f"{a + b %s%s}"' % (cv, sp))
            if thorough or cv in ("", "!r"):
                out.add("fstring_spec", "x = f'''{a%s%s}'''" % (cv, sp))
                out.add("fstring_spec", 'x = f"{f"{a%s%s}"%s%s}"' % (cv, sp, cv, sp))
    for lit in ["", "a", "{{", "}}", "{{}}", "{", "}", "{{{", "}}}", "{{{{", "\\n", "\\{", "\\}", "\\x41", "\\N{EM DASH}", "\\N{EM DASH}{a}", "{a}\\N{EM DASH}", "\\u00e9", "\\777", "\\400", "\\'", '\\"', "'", '"', "%s", "%", "#", "# c",
                "\\\n", "\n", "\t", "{a}{b}", "{a}{{b}}", "{{a}}{b}", "{a}}}", "{{{a}", "{a!r}{{", "{a:{{}}}" if False else "{a:>{w}}}}", "{a:}}}" if False else "{a:}}", "é{a}é", "\U0001F600{a}", "{a}\\", "\\{a}", "\\\\{a}", "\\N{a}", "{'{'}", "{'}'}", "{'{{'}",
                "{\"{\"}", "{'#'}", "{'\\\\'}", "{'\\n'}", "{'\\''}", "{\"\\\"\"}", "{'a' 'b'}", "{'a' f'{a}'}", "{f'{{'}", "{f'}}'}", "{f'{{{a}}}'}", "{f'{a}}}'}", "{f'{{a}}'}", "{a:{f'{w}'}}", "{a:{f'{{'}}}" if False else "{a:{w}}{{", "{a!r:{{>{w}}}" if False else "{a!r:x{w}x}"]:
        for pre in ("f", "rf", "F", "fr"):
            for q in ('"', "'", '"""', "'''"):
                if thorough or (pre in ("f", "rf") and q in ('"', "'''")):
                    out.add("fstring_literal", "x = %s%s%s%s" % (pre, q, lit, q))
    for depth in (2, 3, 4, 6):
        s = "a"
        for i in range(depth):
            s = 'f"{%s}"' % s
        out.add("fstring_nest", "x = " + s)
        s = "a"
        for i in range(depth):
            s = "f%s{%s:>{w}}%s" % (["'", '"', "'''", '"""'][i % 4], s, ["'", '"', "'''", '"""'][i % 4])
        out.add("fstring_nest", "x = " + s)
        s = "w"
        for i in range(depth):
            s = "{a:%s}" % s
        out.add("fstring_nest", "x = f'%s'" % s)


# ------------------------------------------------------------------------------------------------ global / nonlocal / del
def _scopes(out, thorough):
    binds = ["%s = 1", "%s += 1", "%s: int = 1", "%s: int", "del %s", "import %s", "import os as %s", "from os import %s", "from os import path as %s", "def %s(): pass", "class %s: pass", "for %s in l: pass",
             "with f() as %s: pass", "try: pass\n    except ValueError as %s: pass", "(%s := 1)", "x = [1 for v in l if (%s := v)]", "match x:\n        case %s: pass", "match x:\n        case [*%s]: pass",
             "match x:\n        case {**%s}: pass", "match x:\n        case 1 as %s: pass", "%s, y = l", "[*%s] = l", "async def %s(): pass", "x = %s", "x = lambda: %s", "x = [%s for v in l]", "%s()", "@f\n    def %s(): pass",
             "for %s, %s in l: pass" if False else "for %s in l:\n        break\n    else:\n        pass", "lambda %s: 0", "x = [%s for %s in l]"]
    for b in binds:
        name = "gs{u}"
        body = b.replace("%s", name)
        out.add("global", "def sg{u}():\n    global %s\n    %s" % (name, body))
        out.add("global", "gs{u} = 0\ndef sg{u}():\n    global gs{u}\n    %s" % body)
        out.add("global", "def sg{u}():\n    %s\n    global gs{u}" % body)
        out.add("global", "class SG{u}:\n    global gs{u}\n    %s" % body)
        out.add("global", "global gs{u}\n%s" % body.replace("\n    ", "\n"))
        out.add("nonlocal", "def sn{u}():\n    gs{u} = None\n    def inner():\n        nonlocal gs{u}\n        %s\n    return inner" % body.replace("\n", "\n    "))
        out.add("nonlocal", "def sn{u}():\n    gs{u} = None\n    class Inner:\n        nonlocal gs{u}\n        %s\n    return Inner" % body.replace("\n", "\n    "))
        out.add("nonlocal", "def sn{u}():\n    gs{u} = None\n    def inner():\n        def inner2():\n            nonlocal gs{u}\n            %s\n        return inner2\n    return inner" % body.replace("\n", "\n        "))
        out.add("nonlocal", "def sn{u}(gs{u}):\n    async def inner():\n        nonlocal gs{u}\n        %s\n    return inner" % body.replace("\n", "\n    "))
    for s in ["def sg{u}():\n    global ga{u}, gb{u}, gc{u}\n    ga{u} = gb{u} = gc{u} = 1", "def sg{u}():\n    global ga{u}\n    global gb{u}\n    global ga{u}\n    ga{u} = gb{u} = 1", "def sg{u}():\n    global ga{u},\n    ga{u} = 1",
              "def sg{u}():\n    global (ga{u})\n    ga{u} = 1", "def sg{u}():\n    global ga{u}; ga{u} = 1", "def sg{u}():\n    global\n", "def sg{u}():\n    global o.q", "def sg{u}(p):\n    global p", "def sg{u}():\n    nonlocal x",
              "nonlocal x", "class SG{u}:\n    nonlocal x", "def sg{u}():\n    v = 1\n    def i():\n        global v\n        v = 2\n    return i", "def sg{u}():\n    v = 1\n    def i():\n        nonlocal v\n        global v\n    return i",
              "def sg{u}():\n    a = b = 1\n    def i():\n        nonlocal a, b\n        a, b = b, a\n    return i", "def sg{u}():\n    global match, case, _\n    match = case = _ = 1", "def sg{u}():\n    global __class__\n    __class__ = 1",
              "def sg{u}():\n    global print\n    print = 1", "def sg{u}():\n    if a:\n        global gd{u}\n    gd{u} = 1", "def sg{u}():\n    for v in l:\n        global ge{u}\n        ge{u} = v", "def sg{u}():\n    try:\n        global gf{u}\n    finally:\n        gf{u} = 1",
              "def sg{u}():\n    def i():\n        global gg{u}\n    gg{u} = 1\n    return i", "def sg{u}():\n    gh{u} = 1\n    def i():\n        nonlocal gh{u}\n        del gh{u}\n    return i", "def sg{u}():\n    global gi{u}\n    del gi{u}",
              "async def sg{u}():\n    global gj{u}\n    gj{u} = await f()\n    async for gj{u} in f(): pass\n    async with f() as gj{u}: pass", "def sg{u}():\n    global gk{u}\n    gk{u} = yield\n    yield gk{u}",
              "x = lambda: [(yield)]" if False else "def sg{u}():\n    global gl{u}\n    return [gl{u} for gl{u} in l]" if False else "def sg{u}():\n    global gl{u}\n    return [gl{u} for v in l]"]:
        out.add("global", s)
    dels = ["x", "o.q", "l[0]", "l[a:b]", "l[::2]", "l[a, b]", "(x)", "(o.q)", "x, y", "(x, y)", "[x, y]", "x,", "(x,)", "[x]", "x, (y, [z, w])", "(x), (y)", "x, o.q, l[0]", "()", "[]", "((x, y), z)", "*x", "*x, y", "[*x]", "f()", "f().q", "f()[0]",
            "x + y", "-x", "1", "None", "...", "'s'", "f'{x}'", "lambda: 0", "(x := 1)", "x if a else y", "x.real", "l[0][1].q", "(l[0])[1]", "l[(y := 0)]", "l[lambda: 0]", "l[f(*l, **dd)]", "x;" , "x; del y", "(\n x,\n y,\n)", "[x, (y,)],", "x == y", "await x", "not x", "x, *y"]
    for d_ in dels:
        out.add("del", "del %s" % d_)
        out.add("del", "def dl{u}(x, y, z, w, o, l):\n    del %s" % d_)
        out.add("del", "class DL{u}:\n    x = y = z = w = 0\n    o = o\n    l = [0]\n    del %s" % d_)
        out.add("del", "async def dl{u}(x, y, z, w, o, l):\n    del %s\n    return 1" % d_)
        out.add("del", "def dl{u}(o, l):\n    x = y = z = w = 1\n    for v in l:\n        try:\n            del %s\n        finally:\n            pass" % d_)


# ------------------------------------------------------------------------------------------------ walrus / star positions
def _walrus(out, thorough):
    shapes = ["if %s: pass", "if a: pass\nelif %s: pass", "while %s: break", "x = %s", "x = (%s)", "x = [%s]", "x = [%s, 2]", "x = {%s}", "x = {%s, 2}", "x = (%s, 2)", "x = %s, 2", "x = {1: %s}", "x = {%s: 1}", "x = {(%s): 1}", "f(%s)", "f(a, %s)",
              "f(%s, a)", "f(key=%s)", "f(key=(%s))", "f(*%s)", "f(*(%s))", "f(**%s)", "x = l[%s]", "x = l[(%s)]", "x = l[%s, 1]", "x = l[1, %s]", "x = l[%s:]", "x = l[(%s):]", "x = l[:(%s)]", "x = l[::(%s)]", "l[%s] = 1", "del l[%s]", "l[%s] += 1",
              "x = f'{%s}'", "x = f'{(%s)}'", "x = f'{a:{(%s)}}'", "x = lambda: %s", "x = lambda: (%s)", "x = lambda a=%s: a", "x = lambda a=(%s): a", "assert %s", "assert (%s)", "assert a, %s", "assert a, (%s)", "def wl{u}():\n    return %s",
              "def wl{u}():\n    return (%s)", "def wl{u}():\n    yield %s", "def wl{u}():\n    yield (%s)", "def wl{u}():\n    x = yield (%s)", "async def wl{u}():\n    await (%s)", "async def wl{u}():\n    await %s", "def wl{u}(a=%s): pass", "def wl{u}(a=(%s)): pass",
              "def wl{u}(a: (%s) = 1): pass", "def wl{u}() -> (%s): pass", "@%s\ndef wl{u}(): pass", "@(%s)\ndef wl{u}(): pass", "with %s: pass", "with (%s): pass", "with (%s) as z: pass", "with (%s), f(): pass", "with f() as z, (%s): pass", "match %s:\n    case _: pass",
              "match (%s):\n    case _: pass", "match x:\n    case _ if %s: pass", "match x:\n    case _ if (%s): pass", "x = a if %s else b", "x = %s if a else b", "x = a if b else %s", "x = a if b else (%s)", "x = a and %s", "x = a and (%s)", "x = (%s) and a", "x = not %s", "x = not (%s)",
              "x = (%s) < b", "x = a < (%s)", "x = a < (%s) < c", "x = -(%s)", "x = (%s) + 1", "x = 1 + (%s)", "x = (%s).real", "x = (%s)(1)", "x = (%s)[0]", "x = [%s for v in l]", "x = [(%s) for v in l]", "x = [v for v in l if %s]", "x = [v for v in l if (%s)]",
              "x = [v for v in (%s)]", "x = [v for u in l for v in (%s)]", "x = {%s for v in l}", "x = {%s: v for v in l}", "x = {(%s): v for v in l}", "x = {v: (%s) for v in l}", "x = (%s for v in l)", "x = f(%s for v in l)", "for v in %s: pass", "for v in (%s): pass", "xw{u}: (%s) = 1",
              "xw{u}: int = %s", "xw{u}: int = (%s)", "x += %s", "x += (%s)", "raise %s", "raise (%s)", "raise (%s) from (%s)", "del %s", "%s", "(%s)", "((%s))", "x = y = %s", "x = y = (%s)", "x, y = %s, 1", "x, y = (%s), 1", "class W{u}(%s): pass", "class W{u}((%s)): pass",
              "class W{u}(metaclass=(%s)): pass", "class W{u}:\n    v = (%s)", "class W{u}:\n    def m(self):\n        return (%s)", "x = [*(%s)]", "x = {**(%s)}", "x = *(%s),", "try: pass\nexcept (%s): pass", "import os\nif (%s): pass", "print((%s), sep=(%s))"]
    for sh in shapes:
        out.add("walrus", sh.replace("%s", "yw := l"))
    for tgt in ["o.q", "l[0]", "(yw)", "yw, zw", "*yw", "yw.q", "match", "_", "__class__", "print"]:
        out.add("walrus_target", "x = (%s := 1)" % tgt)
        out.add("walrus_target", "def wt{u}():\n    return (%s := 1)" % tgt)
    for v in ["1", "l", "yw2 := 1", "(yw2 := 1)", "lambda: 0", "a if b else c", "a, b", "(a, b)", "*l", "yield", "(yield)", "await a", "not a", "a or b", "[v for v in l]", "f'{a}'"]:
        out.add("walrus_value", "x = (yw := %s)" % v)
        out.add("walrus_value", "def wv{u}():\n    return (yw := %s)" % v)
        out.add("walrus_value", "async def wv{u}():\n    if (yw := %s): return yw" % v)
    stars = ["return %s", "yield %s", "x = %s", "x += %s" , "for v in %s: pass", "x = l[%s]", "l[%s] = 1", "x = [%s]", "x = {%s}", "x = (%s)", "f(%s)", "print(%s)", "x = f'{%s}'", "assert %s", "raise %s", "del %s", "x = [v for v in %s]", "if %s: pass", "with %s: pass",
             "x = lambda: %s", "x = a if b else %s", "x: K = %s", "await %s", "x = yield %s", "yield from %s", "match %s:\n        case _: pass", "x = not %s", "x = -%s", "x = 1 + %s", "x = {1: %s}", "x = {%s: 1}", "x = (%s) + (1,)", "x = [%s][0]", "%s", "@f(%s)\n    def g(): pass", "class C(%s): pass"]
    for st in stars:
        for e in ["*l", "*l,", "*l, a", "a, *l", "*l, *l", "a, *l, b, *l", "(*l, a)", "*(l)", "*l[::2], a", "*a or l, b", "*(a or l), b", "*a if b else l, c", "*(yield), a", "*await a, b", "**dd", "*l, **dd", "* l", "*\\\n l,", "*[*l, *l],", "*{*l},", "*(*l, a),", "*l or l" , "*l < l,"]:
            out.add("star_expr", "async def se{u}(a, b, c, l, dd):\n    %s" % st.replace("%s", e))
            if "await" not in st and "await" not in e:
                out.add("star_expr", "def se{u}(a, b, c, l, dd):\n    %s" % st.replace("%s", e))


# ------------------------------------------------------------------------------------------------ class statements, misc statements
def _misc(out, thorough):
    for b in ["", "()", "(K)", "(K,)", "(K, object)" if False else "(K, dict)", "(*l)", "(*l,)", "(K, *l)", "(metaclass=type)", "(K, metaclass=type)", "(metaclass=type, *l)", "(K, metaclass=type, *l)", "(K, *l, metaclass=type, **dd)", "(**dd)", "(**dd, metaclass=type)",
              "(**dd, *l)", "(metaclass=type, K)", "(a=1, b=2)", "(K, a=1, **dd, b=2)", "(o.q)", "(l[0])", "(f())", "(f(K))", "(type('B', (), {}))", "(K if a else object)", "(lambda: 0)", "((K))", "(K for K in l)", "(yield)", "(await a)", "(not a)", "(K or object)",
              "(os.PathLike)", "(K)(K)", "(K):pass\nclass X(K)"]:
        out.add("class_header", "class CH{u}%s: pass" % b)
        out.add("class_header", "class CH{u}%s:\n    'doc'\n    q = 1\n    def m(self): return self.q" % b)
        out.add("class_header", "def ch{u}(K, l, dd, o, a):\n    class C%s: pass\n    return C" % b)
        out.add("class_header", "@f\n@f(1)\nclass CH{u}%s: pass" % b)
    for s in ["pass", "pass;", "pass; pass", ";", "x = 1;; y = 2", "break", "continue", "return", "return 1", "yield", "await a", "for v in l: break\nelse: continue" if False else "for v in l:\n    continue\nelse:\n    pass", "while a:\n    if b: break\n    else: continue\nelse:\n    pass",
              "if a: pass\nelif b: pass\nelif c: pass\nelse: pass", "if a:\n    if b:\n        pass\n    else:\n        pass\nelse:\n    pass", "if a: x = 1; y = 2\nelse: x = 2; y = 1", "while a: x = 1; break", "for v in l: x = v; continue", "for v, in [l]: pass", "for v in l,: pass",
              "for v in *l, a: pass", "for v in a, b: pass", "for (v) in l: pass", "for v in l if a else l: pass", "for v in lambda: 0: pass", "for v in (lambda: 0): pass", "for v in (yield): pass", "for in l: pass", "for v in: pass", "for v l: pass", "for v in l pass",
              "raise", "raise ValueError", "raise ValueError()", "raise ValueError from None", "raise ValueError from ValueError()", "raise ValueError, 1", "raise from a", "raise a from", "assert a", "assert a, 'm'", "assert a, b, c", "assert (a, 'm')", "assert", "assert a,",
              "print a", "exec 'x'", "print >>a, b", "x = `a`", "x = a <> b", "x = 1L" if False else "x = 0777", "x = ur's'", "x = b'\\xff' 's'", "x = 's' b's'", "x = f's' b's'", "def ms{u}():\n    x = 1\n    def ms{u}(): pass", "def ms{u}(): return\ndef ms{u}(): return 1",
              "class MS{u}: pass\nclass MS{u}: x = 1", "x = 1\ndef x(): pass\nclass x: pass\nx = 2", "if a: def f2(): pass", "if a:\npass", "if a:\n    pass\n  pass", "  x = 1", "x = 1\n  y = 2", "def ms{u}():\n\tif a:\n\t\treturn 1\n\treturn 2", "if a:\n    x = 1\n# c\n  # c\n    y = 2",
              "x = (1 +\n2)", "x = 1 + \\\n2", "x = [\n    1,\n\n    2,\n]  # c", "x = 1 # c \\\ny = 2", "\\\nx = 1", "x = 1 \\\n\ny = 2", "x = 1 \\", "x = 'a\\\nb'", "x = '''a\nb'''", "x = 'a\nb'", "x = (\n)", "x = {\n}", "x = [\n]", "\x0cx = 1", "x = 1\x0c", "if a:\n    x = 1\x0c\n    y = 2",
              "x = 1\r\ny = 2\r\n", "x = 1\ry = 2", "#!shebang\nx = 1", "# -*- coding: utf-8 -*-\nx = 'é'", "x = 'é'; é = 1; x = é", "ｘ = 1" if False else "\u00b5 = 1; x = \u03bc", "x\u00b7 = 1" if False else "x\u00b7y = 1", "\u2118 = 1", "x = 1 if a else 2 if b else 3", "x = lambda: lambda: lambda: 0",
              "x = a if b else lambda: 0", "x = lambda: a if b else c", "x = not not not a", "x = a or b and c or d", "x = a < b == c != d is e is not f in l not in l", "x = a | b ^ c & d << e >> f + g - a * b / c // d % e @ f", "x = -a ** -b ** -c", "x = (a, b)[0], (c, d)[1]",
              "x = a, b = c, d" if False else "x = y = a, b", "x = (a)(b)(c)", "x = a.b.c.d" if False else "x = o.q.real.imag", "x = l[0][0][0]" if False else "x = dd['a'].real", "x = [[[]]]", "x = {{}}" if False else "x = {(): {}}", "x = (((((a)))))", "x = [a, b,]", "x = (a, b,)", "x = {a, b,}", "x = {a: b,}",
              "x = f(a, b,)", "x = [a, b,,]", "x = (,)", "x = [,]", "x = {,}", "x = f(,)", "x = ()", "x = (),", "x = [()]", "x = {(), ()}", "x = ... if ... else ...", "x = await a", "x = yield", "return 1", "def ms{u}():\n    return\n    yield", "async def ms{u}():\n    yield 1\n    return",
              "async def ms{u}():\n    return 1\n    yield", "async def ms{u}():\n    yield from l", "async def ms{u}():\n    x = [await a for a in l]\n    y = {await a: await a for a in l}\n    z = (await a for a in l)\n    return x, y, z",
              "async def ms{u}():\n    async for v in l:\n        pass\n    else:\n        pass\n    async with f() as x, f() as y:\n        pass", "def ms{u}():\n    async for v in l: pass", "def ms{u}():\n    async with f(): pass", "def ms{u}():\n    await a", "def ms{u}():\n    x = [v async for v in l]",
              "async def ms{u}():\n    def g():\n        await a", "async def ms{u}():\n    x = lambda: await a", "async def ms{u}():\n    x = lambda: (yield)", "async def ms{u}():\n    class C:\n        await a", "def ms{u}():\n    class C:\n        yield 1", "def ms{u}():\n    class C:\n        return 1",
              "class MS{u}:\n    return 1", "class MS{u}:\n    yield 1", "x = [(yield) for v in l]", "def ms{u}():\n    x = [(yield v) for v in l]", "def ms{u}():\n    x = ((yield v) for v in l)", "def ms{u}():\n    x = [v for v in (yield)]", "def ms{u}():\n    x = lambda: (yield)\n    return x",
              "def ms{u}(a=(yield)): pass", "def ms{u}():\n    def g(a=(yield)): pass", "def ms{u}():\n    def g(a: (yield)): pass", "def ms{u}():\n    def g() -> (yield): pass", "def ms{u}():\n    class C((yield)): pass", "def ms{u}():\n    @(yield)\n    class C: pass",
              "def ms{u}():\n    yield\n    x = yield\n    y = (yield)\n    z = yield 1\n    yield (yield)\n    yield (yield 1)\n    yield from (yield)\n    return (yield)", "def ms{u}():\n    x = yield from l\n    y = yield from (yield from l)\n    yield from l, l" if False else "def ms{u}():\n    x = yield from l\n    y = yield from (yield from l)",
              "def ms{u}():\n    f((yield))\n    f((yield), (yield 1))\n    f(a=(yield))\n    f(*(yield))\n    f(**(yield))", "def ms{u}():\n    x = [(yield), (yield 1)]\n    y = {(yield): (yield)}\n    z = {(yield)}\n    w = ((yield), (yield))", "def ms{u}():\n    x = (yield) + (yield)\n    x = -(yield)\n    x = not (yield)\n    x = (yield) < (yield) < (yield)\n    x = (yield) if (yield) else (yield)",
              "def ms{u}():\n    x = l[(yield)]\n    x = l[(yield):(yield)]\n    l[(yield)] = (yield)\n    del l[(yield)]\n    (yield).q = 1\n    x = (yield).q\n    x = (yield)()", "def ms{u}():\n    with (yield) as x: pass\n    for v in (yield): pass\n    while (yield): pass\n    if (yield): pass\n    assert (yield), (yield)\n    raise (yield) from (yield)",
              "def ms{u}():\n    x = f'{(yield)}'\n    x = f'{(yield)!r:>{(yield)}}'", "def ms{u}():\n    x = yield 1, 2\n    x = yield *l, 1\n    x = yield 1,\n    yield (1, 2)\n    yield ()", "def ms{u}():\n    x += yield\n    x += yield 1\n    xi: int = yield\n    x = y = yield",
              "def ms{u}():\n    try:\n        yield\n    except (yield):\n        pass", "def ms{u}():\n    match (yield):\n        case _ if (yield): pass"]:
        out.add("statement", s)


_FAMS = [_call_args, _decorators, _subscripts, _parameters, _comprehensions, _assignments, _imports, _with_items, _except_clauses, _match_patterns, _fstrings, _scopes, _walrus, _misc]
_CACHE = {}


def enum_snippets(tier):
    """-> (valid, n_candidates, n_rejected_by_cpython): valid = list of (family, label, snippet, single source); a candidate is
    kept iff CPython compiles PRELUDE + snippet ('!' families: the snippet alone, it must be the first statement)"""
    if tier in _CACHE:
        return _CACHE[tier]
    out = _Out()
    for fam in _FAMS:
        fam(out, tier == "thorough" and fam is _call_args)
    valid, seen, nrej = [], set(), 0
    for fam, label, s in out.items:
        if s in seen:
            continue
        seen.add(s)
        alone = fam.endswith("!")
        src = (s + "\n") if alone else (PRELUDE + s + "\n")
        if py_valid(src):
            valid.append((fam.rstrip("!"), label, s, src, alone))
        else:
            nrej += 1
    _CACHE[tier] = (valid, len(seen), nrej)
    return _CACHE[tier]


def group_programs(valid, segregate, group=40):
    """-> (groups, singles): groups = [(label, source, [(label, family, single source)])] of snippets from one family concatenated
    after PRELUDE; singles = [(label, family, source)] for the snippets that segregate(single source) flags (inputs of registered
    finding families: they would make their whole group fail) and the ones that must stand alone"""
    rest, singles = [], []
    for fam, label, s, src, alone in valid:
        if alone or segregate(src):
            singles.append((label, fam, src))
        else:
            rest.append((label, fam, s, src))
    groups = []
    for i in range(0, len(rest), group):
        part = rest[i:i + group]
        src = PRELUDE + "".join(s + "\n" for _, _, s, _ in part)
        if not py_valid(src):       # an interaction between snippets (e.g. a global declaration after a use): keep them apart
            for label, fam, s, single in part:
                groups.append((label, single, [(label, fam, single)]))
            continue
        groups.append(("enum_%s_%d" % (part[0][1], i // group), src, [(label, fam, single) for label, fam, _, single in part]))
    return groups, singles


if __name__ == "__main__":
    import sys, collections
    for tier in ("quick", "thorough"):
        v, n, r = enum_snippets(tier)
        c = collections.Counter(x[0] for x in v)
        print(tier, "candidates", n, "valid", len(v), "rejected by CPython", r)
        print("  ", dict(c))
