"""C09 — Compile-time constants keep their exact Python values (DESIGN 7/C09)."""
import json, os, re, struct, sys
import cybuild
from props import C09_fold

TITLE = "Compile-time constants keep their exact Python values"
EXTRACTS = ["Consts", "ConstNames", "Fold"]

# ---- switches between the code as it is and the repaired code (proposed_fixes/C09-*.diff) ----
# KEY_FX / ABS_THRESHOLD / NEG_REPAIRED: repairs that are in the tree (92db38a9b, 02095f761); _REPAIRED=0 only
# to replay the check against an older tree (testing hook C09_REPAIRED=0 VERIF_REPO=<old tree>).
# FS_GUARD: after the orchestrator applies proposed_fixes/C09-frozenset_multiplied_tuple_merged.diff
# (make_dedup_key does not pool a frozenset with a multiplied tuple among its items) set the default of
# C09_FS_GUARD to "1".  Nothing else changes.
_REPAIRED = os.environ.get("C09_REPAIRED", "1") == "1"
KEY_FX = _REPAIRED          # leaf key carries the sign of a float            (make_dedup_key)
ABS_THRESHOLD = _REPAIRED   # hex text for abs(value) > 10**13                  (IntNode.generate_evaluation_code)
NEG_REPAIRED = _REPAIRED    # unop_node: hex text for abs(value) > 2**64        (ExprNodes.unop_node)
FS_GUARD = os.environ.get("C09_FS_GUARD", "1") == "1"    # frozenset key: multiplied tuples are not pooled

RULE = ("(a) direct calls: generated integer literal texts of every base/case/underscore placement/size "
        "(valid ones, their scanner-stripped form, legacy forms and random mutations) through "
        "Utils.str_to_number; integers across the 2^31, 2^63, 10^13, 10^4300 boundaries through "
        "IntNode.generate_evaluation_code, unop_node and to_base32; pairs of constant node trees (tuples, "
        "slices, frozensets, multipliers, nested) whose leaves are drawn from ==-confusable sets through "
        "make_dedup_key; literal operand pairs through ConstantFolding; event sequences (numeric-constant "
        "requests of int/long/float spellings at lengths 40..45 and far beyond the 42-character abbreviation, "
        "families that differ only inside / at the edges of the dropped middle, repeated keys, foreign "
        "unique_const_cname calls that pre-occupy names) through the real get_int_const / get_float_const / "
        "unique_const_cname / generate_num_constants on a bare GlobalState, the emitted #defines and "
        "initialisers interpreted (last #define wins). (b) generated modules whose functions "
        "return lists of constant expressions, compared by type+bits with the same text run by CPython. "
        "(c) one generated module (module level, an untyped function, a function with C-typed factors, a function "
        "never called for expressions CPython rejects): expression trees of the fold model's grammar -- tuple/list "
        "displays, repetition by every kind of factor (<= 0, 1, > 1, bool, run-time Python / C integer, non-number) on "
        "either side, nested products (merged / dropped / kept factors), starred literals with and without factor at "
        "every position and nested, '==' / 'or' / conditional expressions consuming them -- whose tree right after "
        "the ConstantFolding stage (node kinds, args, mult_factor, constant_result) is compared with the model and "
        "whose compiled value with CPython's and the model's; plus operator expressions over literal constants "
        "(arithmetic, shifts, comparisons and chains, in / not in, and / or / not, conditional expressions, "
        "slices / indices of constant sequences and strings, string repetition and %-formatting, set / dict displays "
        "with unpacking, starred call arguments) compared with CPython type-exactly. "
        "distinct by input text / node-pair / expression; non-trivial = valid literal or key-equal pair or "
        "folded expression")
EXPLANATION = ("theorems: str_to_number returns CPython's literal value on every scanner-stripped literal "
               "(any base, any size within CPython's own 4300-digit limit); the decimal/hex/base-32 emission "
               "round-trips every integer (repaired threshold) and every integer > -10^4300 (current), refuted "
               "below; equal constant-pool keys imply identical constants for make_dedup_key (float sign in the "
               "leaf key, frozenset key = first item key per value) when no frozenset item contains a "
               "multiplied tuple or with the proposed guard, refuted otherwise (and for the earlier key "
               "functions: float zero sign, frozenset element order); distinct (text, type) keys of numeric "
               "constants get distinct C names for every interleaving of requests and foreign "
               "unique_const_cname calls (new_num_const_cname: both sides of the 42-character abbreviation, "
               "int/long/float, negative), the uniqueness loop terminates with a fresh name, and every pooled "
               "int constant resolves through its #define and slot initialiser (generate_num_constants) to its "
               "own value; constant folding of int/bool operands re-reads to Python's value and class; "
               "ConstantFolding on sequence displays (Model/M_Fold.v: visit_SequenceNode, visit_MulNode, "
               "_calculate_constant_seq, '*' in visit_BinopNode, '==' / 'or' / conditional-expression consumers): for "
               "every display tree, every integer / bool / run-time factor and every environment the folded tree "
               "computes CPython's value (code as it is: display-only expressions; with the proposed repair: all), the "
               "stored constant results are the run-time values (repaired), refuted for the code as it is "
               "(multiplied_sequence_stale_constant) and for starred-literal inlining without the mult_factor test. "
               "partial: float literals/folding and the scanner/parser path are only run differentially "
               "against CPython, not proved; frozenset keys of string arguments are not modelled; float slots "
               "of the number table are only compared textually (value code).")
TRUSTED = ["Gallina definition of Python's tuple/list display, starred item, sequence repetition, ==, truth value "
           "(M_Fold.eval); tied to CPython on every generated model expression",
           "Gallina definition of CPython int(str, base) (PyLong_FromString) incl. the 4300-digit limit; tied to "
           "CPython's int() on every generated text",
           "Gallina definition of str(int)/hex(int); tied to CPython on every generated integer",
           "IEEE-754 equality on bit patterns (float_eq) and exact int/float comparison (float_as_int); tied to "
           "CPython == on the confusable scalars",
           "CPython evaluating the same expression text as the property oracle",
           "gcc as a conforming C compiler for the generated module",
           "the C preprocessor's redefinition rule (a later #define of the same name replaces the earlier one) as "
           "modelled by resolve; the interpreter of the emitted number-table code in the direct worker"]
ASSUMPTIONS = ["ASCII literal text (the lexicon admits nothing else in INT tokens)",
               "constant nodes are class-consistent: a node typed int/float/bool/str/bytes carries a "
               "constant_result of that class (wf_node); equal keys have equal hashes",
               "LP64, CPython 3.12 default int_max_str_digits = 4300",
               "spellings of pooled numeric constants contain no '_', 'g', 'l', 'L', a '+' only directly after e/E and "
               "no '.' directly after e/E (spell_ok): proved for the int texts (int_const_text_spell_ok), float texts "
               "are source literals with underscores stripped or repr() of a folded float; every generated spelling "
               "is checked against spell_ok by the model",
               "items of frozenset constants are hashable (scalars and tuples of such): wf_top2"]

M63 = 2 ** 63

# ------------------------------------------------------------------------------------------------
# generators
# ------------------------------------------------------------------------------------------------
DIG = {2: "01", 8: "01234567", 10: "0123456789", 16: "0123456789abcdefABCDEF"}
PFX = {2: ["0b", "0B"], 8: ["0o", "0O"], 16: ["0x", "0X"], 10: [""]}


def lit_text(rng, value, base, us):
    """a Python literal text for value >= 0 in the given base, random case, optional underscores"""
    if base == 10:
        d = str(value)
    else:
        d = {2: bin, 8: oct, 16: hex}[base](value)[2:]
        if base == 16:
            d = "".join(c.upper() if rng.random() < 0.5 else c for c in d)
        if rng.random() < 0.3:
            d = "0" * rng.randrange(1, 4) + d
    if us:
        out = []
        for i, c in enumerate(d):
            if i and rng.random() < 0.3:
                out.append("_")
            out.append(c)
        d = "".join(out)
        if base != 10 and rng.random() < 0.4:
            d = "_" + d
    return rng.choice(PFX[base]) + d


def interesting_ints(rng, n, maxbits):
    vals = {0, 1, 2, 7, 8, 9, 10, 15, 16, 255, 256, 2 ** 31 - 1, 2 ** 31, 2 ** 31 + 1, 2 ** 32, 2 ** 62, M63 - 1, M63,
            M63 + 1, 2 ** 64 - 1, 2 ** 64, 10 ** 13 - 1, 10 ** 13, 10 ** 13 + 1, 10 ** 18, 10 ** 19, 2 ** 127, 2 ** 128,
            10 ** 100, 2 ** 1000 - 1}
    while len(vals) < n:
        k = rng.choice([3, 8, 16, 31, 32, 33, 44, 62, 63, 64, 65, 70, 100, 200, rng.randrange(1, maxbits)])
        vals.add(rng.getrandbits(k))
    return sorted(vals)


def mutate(rng, s):
    alphabet = "0123456789abcdefABCDEFxXoObBlLuU_-+ \t\n.jJgGzZ"
    s = list(s)
    for _ in range(rng.randrange(1, 3)):
        r = rng.random()
        if r < 0.35 and s:
            s[rng.randrange(len(s))] = rng.choice(alphabet)
        elif r < 0.7:
            s.insert(rng.randrange(len(s) + 1), rng.choice(alphabet))
        elif s:
            del s[rng.randrange(len(s))]
    return "".join(s)


F_BITS = {"0.0": 0, "-0.0": 1 << 63, "1.0": 0x3FF0000000000000, "-1.0": 0xBFF0000000000000,
          "2.0": 0x4000000000000000, "0.5": 0x3FE0000000000000, "inf": 0x7FF0000000000000,
          "-inf": 0xFFF0000000000000, "nan": 0x7FF8000000000000, "1e300": struct.unpack("<Q", struct.pack("<d", 1e300))[0],
          "2^64": struct.unpack("<Q", struct.pack("<d", 2.0 ** 64))[0], "5e-324": 1}

# scalars grouped so that ==-equal but different constants meet often
CONFUSABLE = [
    [("int", ["i", 0]), ("float", ["f", F_BITS["0.0"]]), ("float", ["f", F_BITS["-0.0"]]), ("bool", ["b", 0])],
    [("int", ["i", 1]), ("float", ["f", F_BITS["1.0"]]), ("bool", ["b", 1])],
    [("int", ["i", -1]), ("float", ["f", F_BITS["-1.0"]])],
    [("int", ["i", 2]), ("float", ["f", F_BITS["2.0"]])],
    [("int", ["i", 2 ** 64]), ("float", ["f", F_BITS["2^64"]])],
    [("float", ["f", F_BITS["nan"]]), ("float", ["f", F_BITS["inf"]]), ("float", ["f", F_BITS["-inf"]])],
    [("float", ["f", F_BITS["0.5"]]), ("float", ["f", F_BITS["5e-324"]]), ("float", ["f", F_BITS["1e300"]])],
    [("str", ["s", [97]]), ("bytes", ["y", "61"]), ("str", ["s", []]), ("bytes", ["y", ""]), ("str", ["s", [97, 98]]),
     ("str", ["s", [0x20AC]])],
    [("obj", ["none"]), ("obj", ["ell"])],
]
ALL_LEAVES = [x for g in CONFUSABLE for x in g]


def rand_leaf(rng):
    ty, sc = rng.choice(ALL_LEAVES)
    if rng.random() < 0.08:
        ty = "obj"
    return ["L", ty, sc]


def rand_node(rng, depth, allow_slice=True):
    r = rng.random()
    if depth <= 0 or r < 0.55:
        return rand_leaf(rng)
    if r < 0.9 or not allow_slice:
        n = rng.choice([0, 1, 1, 2, 2, 3])
        mult = None
        lit = 1
        if rng.random() < 0.3:
            k = rng.choice([1, 2, 3])
            mult = rng.choice([["L", "c0", ["i", k]], ["L", "c3", ["i", k]], ["L", "int", ["i", k]], ["L", "c2", ["b", 1]]])
            if rng.random() < 0.25:
                lit = 0
        return ["Q", "tuple", lit, mult, [rand_node(rng, depth - 1, allow_slice) for _ in range(n)]]
    return ["S", "slice", rand_leaf(rng), rand_leaf(rng), rand_leaf(rng)]


def confuse(rng, node):
    """copy of node with some leaves replaced by an ==-confusable scalar / small structural changes"""
    if node[0] == "L":
        if rng.random() < 0.45:
            for g in CONFUSABLE:
                if any(node[2] == sc for _, sc in g):
                    ty, sc = rng.choice(g)
                    return ["L", node[1] if node[1] == "obj" else ty, sc]
        return node
    if node[0] == "Q":
        args = [confuse(rng, a) for a in node[4]]
        r = rng.random()
        if r < 0.08 and len(args) > 1:
            rng.shuffle(args)
        elif r < 0.12 and args:
            args = args[:-1]
        mult = node[3]
        if mult is not None and rng.random() < 0.15:
            mult = ["L", rng.choice(["c0", "c3", "int"]), ["i", rng.choice([1, 2, 3])]]
        return ["Q", node[1], node[2], mult, args]
    if node[0] == "S":
        return ["S", node[1]] + [confuse(rng, a) for a in node[2:]]
    return node


def rand_pair(rng):
    r = rng.random()
    if r < 0.55:
        n = rand_node(rng, 3)
        while n[0] != "Q":
            n = rand_node(rng, 3)
        m = confuse(rng, n)
        return ["TS", n], ["TS", m]
    if r < 0.75:
        n = ["S", "slice", rand_leaf(rng), rand_leaf(rng), rand_leaf(rng)]
        return ["TL", n], ["TL", confuse(rng, n)]
    k = rng.choice([1, 2, 2, 3, 4])
    args = [rand_node(rng, 1, allow_slice=False) for _ in range(k)]
    args = [a for a in args if a[0] == "L" or a[2] == 1] or [rand_leaf(rng)]
    if rng.random() < 0.2:
        # a multiplied tuple next to its written-out ==-twin: (x,) * k and (y, ..., y) with x == y
        leaf = rand_leaf(rng)
        kk = rng.choice([1, 2, 3])
        pair = [["Q", "tuple", 1, ["L", rng.choice(["c0", "c3", "int"]), ["i", kk]], [leaf]],
                ["Q", "tuple", 1, None, [twin_leaf(rng, leaf)] * kk]]
        rng.shuffle(pair)
        args = args + pair
        rng.shuffle(args)
    args2 = [confuse(rng, a) for a in args]
    if rng.random() < 0.5:
        rng.shuffle(args2)
    return ["TF", args], ["TF", args2]


def tok_scalar(sc):
    k = sc[0]
    if k in ("none", "ell"):
        return k
    if k == "i":
        return "i%d" % sc[1]
    if k == "b":
        return "b%d" % sc[1]
    if k == "f":
        return "f%d" % sc[1]
    if k == "s":
        return "s" + (",".join(str(c) for c in sc[1]) or "-")
    return "y" + (sc[1] or "-")


def tok_node(n):
    if n[0] == "L":
        return ["L", n[1], tok_scalar(n[2])]
    if n[0] == "Q":
        out = ["Q", n[1], str(n[2])] + (["N"] if n[3] is None else tok_node(n[3])) + [str(len(n[4]))]
        for a in n[4]:
            out += tok_node(a)
        return out
    if n[0] == "S":
        return ["S", n[1]] + tok_node(n[2]) + tok_node(n[3]) + tok_node(n[4])
    return ["O"]


def tok_top(t):
    if t[0] == "TF":
        out = ["TF", str(len(t[1]))]
        for a in t[1]:
            out += tok_node(a)
        return out
    return [t[0]] + tok_node(t[1])


def leaves_of(n):
    if n[0] == "L":
        return [n]
    if n[0] == "Q":
        return ([n[3]] if n[3] is not None else []) + [l for a in n[4] for l in leaves_of(a)]
    if n[0] == "S":
        return [l for a in n[2:] for l in leaves_of(a)]
    return []


def shape_of(n):
    if n[0] == "L":
        return "L"
    if n[0] == "Q":
        return ("Q", n[2], None if n[3] is None else tuple(n[3][2]), tuple(shape_of(a) for a in n[4]))
    return ("S",) + tuple(shape_of(a) for a in n[2:])


def is_fzero(sc):
    return sc[0] == "f" and sc[1] in (0, 1 << 63)


def classify_merge(t1, t2):
    """class of a wrongly shared pair of constants, from the input only"""
    a1 = t1[1] if t1[0] == "TF" else [t1[1]]
    a2 = t2[1] if t2[0] == "TF" else [t2[1]]
    if [shape_of(x) for x in a1] == [shape_of(x) for x in a2]:
        l1 = [l for x in a1 for l in leaves_of(x)]
        l2 = [l for x in a2 for l in leaves_of(x)]
        diff = [(p, q) for p, q in zip(l1, l2) if p != q]
        if diff and all(is_fzero(p[2]) and is_fzero(q[2]) and p[1] == q[1] for p, q in diff):
            return "float_zero_sign_merged"
    if t1[0] == "TF":
        if any(has_mult(x) for x in a1 + a2):
            return "frozenset_multiplied_tuple_merged"
        return "frozenset_order_merged"
    return "dedup_merged_other"


def has_mult(n):
    """a literal sequence with a multiplier somewhere in the node"""
    if n[0] == "Q":
        return (n[2] == 1 and n[3] is not None) or any(has_mult(a) for a in n[4])
    if n[0] == "S":
        return any(has_mult(a) for a in n[2:])
    return False


def twin_leaf(rng, leaf):
    """an ==-equal but different scalar, if the leaf has one"""
    for g in CONFUSABLE:
        if any(leaf[2] == sc for _, sc in g):
            others = [(ty, sc) for ty, sc in g if sc != leaf[2]]
            if others:
                ty, sc = rng.choice(others)
                return ["L", leaf[1] if leaf[1] == "obj" else ty, sc]
    return leaf


# ------------------------------------------------------------------------------------------------
# numeric-constant pool scenarios (names / #defines / slots): generator
# ------------------------------------------------------------------------------------------------
NAME_LIMIT, KEEP = 42, 18        # compared with the source and the model by check_name_consts


def slen(text, ty="i"):
    """length of the sanitised effective spelling (what new_num_const_cname measures)"""
    return len(text) + 3 * text.count("-") + (1 if ty == "l" else 0)


def vary(rng, text, positions, k, alphabet):
    """k distinct variants of text that differ from it only at the given character positions"""
    out, seen, tries = [], set(), 0
    while len(out) < k and tries < 50 * k:
        tries += 1
        t = list(text)
        for pos in positions:
            t[pos] = rng.choice(alphabet)
        t = "".join(t)
        if t not in seen:
            seen.add(t)
            out.append(t)
    return out


def hex_text(rng, nd, neg=False):
    d = rng.choice("123456789abcdef") + "".join(rng.choice("0123456789abcdef") for _ in range(nd - 1))
    return ("-" if neg else "") + "0x" + d


def dec_text(rng, nd, neg=False):
    d = rng.choice("123456789") + "".join(rng.choice("0123456789") for _ in range(nd - 1))
    return ("-" if neg else "") + d


def float_text(rng, total):
    """a float spelling of about `total` sanitised characters: digits . digits [e[+-]digits]"""
    exp = ""
    r = rng.random()
    if r < 0.6:
        exp = rng.choice("eE") + rng.choice(["", "+", "-"]) + "".join(rng.choice("0123456789") for _ in range(rng.choice([1, 2, 3, 3, 12, 19])))
    n = max(2, total - slen(exp) - 1)
    a = rng.randrange(1, n)
    return "".join(rng.choice("0123456789") for _ in range(a)) + "." + "".join(rng.choice("0123456789") for _ in range(n - a)) + exp


def sanitized(text, ty="i"):
    return (text + ("L" if ty == "l" else "")).replace(".", "_").replace("+", "_").replace("-", "neg_")


def family(rng, ty, base, k, where):
    """k spellings sharing everything with `base` except characters
       where = 'mid'  : strictly between the kept head and tail (same abbreviated name)
               'head' : the last kept head character          'head+1': the first dropped one
               'tail' : the first kept tail character         'tail-1': the last dropped one
       positions are taken in the sanitised text and mapped back (base has its '-' only in front
       or in the exponent, outside the varied zone)"""
    off = 3 if base.startswith("-") else 0          # '-' -> 'neg_' shifts positions by 3
    n = slen(base, ty)
    def back(i):
        return i - off
    lo, hi = KEEP, n - KEEP - 1                      # dropped zone [lo, hi] in sanitised positions
    if where == "mid":
        cand = list(range(lo, hi + 1))
        pos = rng.sample(cand, min(len(cand), rng.choice([1, 2, 5]))) if cand else []
    elif where == "head":
        pos = [KEEP - 1]
    elif where == "head+1":
        pos = [KEEP]
    elif where == "tail":
        pos = [n - KEEP]
    else:
        pos = [n - KEEP - 1]
    alphabet = "0123456789abcdef" if "x" in base[:3] else "0123456789"
    pos = [back(i) for i in pos if 0 <= back(i) < len(base) and base[back(i)] in alphabet]
    if not pos:
        return [base]
    return [base] + [t for t in vary(rng, base, pos, k, alphabet) if t != base and not t.lstrip("-").startswith("00")]


SMALL_INTS = [0, 1, -1, 5, 127, 128, -128, -129, 255, 32767, 32768, -32768, -32769, 2 ** 31 - 1, 2 ** 31, -2 ** 31,
              -2 ** 31 - 1, 10 ** 13, 10 ** 13 + 1, M63 - 1, -M63, M63, -M63 - 1, 2 ** 64, -2 ** 64]


def int_spelling(v):
    """what IntNode.generate_evaluation_code hands to get_py_int (repaired threshold or not: both
    spellings are legal pool keys)"""
    return hex(v) if abs(v) > 10 ** 13 else str(v)


def pool_scenarios(rng, quick):
    """list of (stratum, events); an event is ["R", ty, text] or ["U", sep, pre, post]"""
    S = []
    pint, pfloat = "__pyx_int_", "__pyx_float_"

    def fmt_of(ty, text):
        v = sanitized(text, ty)
        return [0, (pfloat if ty == "f" else pint) + "large", "_" + v[:KEEP] + "_xxx_" + v[-KEEP:]]

    def mix(events, n_small=4, n_float=2):
        ev = list(events)
        for v in rng.sample(SMALL_INTS, n_small):
            ev.insert(rng.randrange(len(ev) + 1), ["R", "i", int_spelling(v)])
        for _ in range(n_float):
            ev.insert(rng.randrange(len(ev) + 1), ["R", "f", float_text(rng, rng.choice([3, 5, 9, 20]))])
        return ev

    # 1. the length threshold, every kind of spelling, lengths 40..45 around "len(value) > 42"
    for ty, mk in [("i", lambda n: hex_text(rng, n - 2)), ("i", lambda n: hex_text(rng, n - 6, True)),
                   ("i", lambda n: dec_text(rng, n)), ("i", lambda n: dec_text(rng, n - 4, True)),
                   ("l", lambda n: hex_text(rng, n - 3)), ("l", lambda n: dec_text(rng, n - 1)),
                   ("f", lambda n: float_text(rng, n))]:
        for n in (40, 41, 42, 43, 44, 45):
            base = mk(n)
            if ty != "f":
                assert slen(base, ty) == n, (ty, base, n)
            ev = []
            for where in ("mid", "head", "head+1", "tail", "tail-1"):
                for t in family(rng, ty, base, 2, where):
                    ev.append(["R", ty, t])
            ev.append(["R", ty, base])                      # repeated key
            if ty == "l":
                ev.append(["R", "i", base])                 # the int key of the same text
                ev.append(["R", "i", base[:-1] if slen(base[:-1]) > 2 else base])
            S.append(("threshold/%s/len%d" % (ty, n), mix(ev)))
    # 2. many constants with one abbreviated name: counters 2..k (two-digit counters too)
    for k in ([3, 12] if quick else [2, 3, 5, 12, 25, 101]):
        for neg in (False, True):
            base = hex_text(rng, rng.choice([41, 50, 64, 200]), neg)
            ev = [["R", "i", t] for t in family(rng, "i", base, k, "mid")]
            S.append(("collide/hex%s/k%d" % ("-neg" if neg else "", k), mix(ev)))
    # 3. powers of two and shifted ones: same head and tail, different lengths
    ev = [["R", "i", hex(1 << b)] for b in (160, 164, 200, 204, 256, 512, 1024)]
    ev += [["R", "i", hex(-(1 << b))] for b in (148, 152, 200, 204, 256, 512)]
    ev += [["R", "l", hex(1 << b)] for b in (200, 256)]
    rng.shuffle(ev)
    S.append(("collide/powers-of-two", mix(ev)))
    # 4. floats with one abbreviated name (long literals), exponent signs in the kept tail
    for _ in range(2 if quick else 12):
        base = float_text(rng, rng.choice([43, 44, 50, 80]))
        ev = [["R", "f", t] for t in family(rng, "f", base, 4, "mid")]
        z = "0." + "0" * rng.choice([41, 45, 60])
        ev += [["R", "f", z + "15"], ["R", "f", z + "015"], ["R", "f", z + "0015"], ["R", "f", "-" + z + "15"],
               ["R", "f", z + "15e+300"], ["R", "f", z + "15e-300"], ["R", "f", z + "15e300"]]
        # an int and a float whose abbreviated parts agree (prefixes keep them apart)
        d = dec_text(rng, 50)
        ev += [["R", "i", d], ["R", "f", d[:30] + "." + d[31:]], ["R", "f", d[:29] + "." + d[30:]]]
        rng.shuffle(ev)
        S.append(("collide/float", mix(ev, n_float=3)))
    # 5. the registry is shared: foreign unique_const_cname calls before / between the requests,
    #    including ones that take the very names the requests would get (the loop has to skip them)
    for _ in range(6 if quick else 60):
        ty = rng.choice("iil")
        base = hex_text(rng, rng.choice([41, 48, 70]), rng.random() < 0.3)
        fam = family(rng, ty, base, rng.choice([2, 3, 4]), "mid")
        f = fmt_of(ty, base)
        ev = []
        pre = rng.sample([2, 3, 4, 5, ""], rng.choice([1, 2, 3]))
        for c in pre:                 # occupy "large<c>_A_xxx_B" as a name of its own
            ev.append(["U", 0, f[1] + str(c), f[2]])
        if rng.random() < 0.5:
            ev.append(["U"] + f)      # the same format as the request's
        for t in fam:
            ev.append(["R", ty, t])
            if rng.random() < 0.4:
                ev.append(["U", 1, rng.choice(["pyx_k", "n_s_x", "tuple", f[1] + f[2]]), ""])
            if rng.random() < 0.3:
                ev.append(["U"] + f)
        ev.append(["R", ty, fam[0]])
        S.append(("foreign-calls", mix(ev, 2, 1)))
    # 7. spellings that differ only in the characters new_num_const_cname replaces ('.', '+', '-'):
    #    v / -v, exponent signs, the position of the point -- short and abbreviated
    for _ in range(3 if quick else 20):
        ev = []
        for nd in (1, 3, 13, 39, 41, 60):
            d, h = dec_text(rng, nd), hex_text(rng, max(1, nd - 2))
            ev += [["R", "i", d], ["R", "i", "-" + d], ["R", "i", h], ["R", "i", "-" + h]]
            if rng.random() < 0.3:
                ev += [["R", "l", d], ["R", "l", "-" + d]]
        for nd in (1, 2, 6, 38, 41, 44, 60):
            m = dec_text(rng, nd)
            if nd > 1:
                cut = rng.randrange(1, nd)
                m = m[:cut] + "." + m[cut:]
            x = dec_text(rng, rng.choice([1, 2, 3]))
            for sg in ("", "-"):
                ev += [["R", "f", sg + m + "e" + x], ["R", "f", sg + m + "e+" + x], ["R", "f", sg + m + "e-" + x],
                       ["R", "f", sg + m + "E-" + x]]
            if "." in m:
                i = m.index(".")
                if 1 < i:
                    ev.append(["R", "f", m[:i - 1] + "." + m[i - 1] + m[i + 1:]])      # the point one place left
                ev.append(["R", "i", m.replace(".", "")])
        rng.shuffle(ev)
        S.append(("replaced-characters", ev))
    # 6. random pools
    for _ in range(10 if quick else 300):
        ev = []
        for _ in range(rng.randrange(2, 7)):
            ty = rng.choice("iiilf")
            n = rng.choice([5, 20, 41, 42, 43, 44, 60, 120])
            if ty == "f":
                base = float_text(rng, n)
            else:
                kind = rng.randrange(4)
                body = max(1, n - [2, 6, 0, 4][kind] - (1 if ty == "l" else 0))
                base = [lambda: hex_text(rng, body), lambda: hex_text(rng, body, True),
                        lambda: dec_text(rng, body), lambda: dec_text(rng, body, True)][kind]()
            where = rng.choice(["mid", "mid", "head", "head+1", "tail", "tail-1"])
            for t in family(rng, ty, base, rng.choice([1, 2, 3]), where):
                ev.append(["R", ty, t])
        rng.shuffle(ev)
        ev += [list(e) for e in rng.sample(ev, min(2, len(ev)))]
        S.append(("random", mix(ev, rng.choice([0, 3, 8]), rng.choice([0, 2]))))
    return S


def ev_tokens(ev):
    if ev[0] == "R":
        return ["R", ev[1], hexs(ev[2])]
    return ["U", str(int(ev[1])), hexs(ev[2]), hexs(ev[3])]


def classify_pool(events, i, j=None):
    """finding class from the input: which kinds of keys are involved"""
    tys = {events[i][1]} | ({events[j][1]} if j is not None else set())
    big = slen(events[i][2], events[i][1]) > NAME_LIMIT
    kind = "float" if tys == {"f"} else "int" if "f" not in tys else "mixed"
    return "num_const_%s_%s" % ("abbreviated" if big else "short", kind)


def check_pools(ctx, scen, impl, mlines, name_consts, mconsts):
    # constants of the naming function: source text vs model vs this generator
    w = mconsts.split()
    model_c = {"int": unhex(w[0]), "float": unhex(w[1]), "limit": [w[2]], "head": [w[3]], "tail": [w[3]]}
    ctx.case("names/constants", name_consts, sig=("nameconsts",))
    if name_consts != model_c or int(w[2]) != NAME_LIMIT or int(w[3]) != KEEP:
        ctx.corr_break("constnames:constants(new_num_const_cname source)", "prefixes, len(value) > N, value[:K], value[-K:]",
                       name_consts, model_c)
    for (stratum, events), imp, line in zip(scen, impl, mlines):
        inp = {"events": events}
        ctx.case("pool/" + stratum, inp, sig=("pool", json.dumps(events)))
        if "e" in imp:
            ctx.fail("num_const_pool_raises", inp, imp, "names and a number table")
            continue
        if not line.startswith("N "):
            ctx.corr_break("constnames:run_events", inp, imp["names"][:4], line[:200])
            continue
        if not line.endswith("ok=1"):
            ctx.corr_break("constnames:event_okb(generator left the spelling class)", inp, "generated", line[-40:])
        parts = [x.split() for x in line.split(" | ")]
        m_names = [unhex(h) for h in parts[0][1:]]
        m_layout = parts[1][1:]
        m_slots = parts[2][1:]
        m_vals = parts[3][1:]
        # ---- tie: names, layout, resolution
        if m_names != imp["names"]:
            k = next((i for i, (a, b) in enumerate(zip(m_names, imp["names"])) if a != b), None)
            ctx.corr_break("constnames:new_num_const_cname/unique_const_cname", inp,
                           {"event": k, "name": imp["names"][k] if k is not None else imp["names"]},
                           m_names[k] if k is not None else m_names)
        lay = []
        for (nm, slot), init in zip(imp["order"], imp["table"]):
            if init is None:
                lay.append("%s=?" % hexs(nm))
            elif init[0] == "F":
                lay.append("%s=F%s" % (hexs(nm), hexs(init[1])))
            elif init[0] == "C":
                lay.append("%s=C%d:%d" % (hexs(nm), init[1], int(init[2], 16)))
            elif init[0] == "X":
                lay.append("%s=X%s" % (hexs(nm), hexs(init[1])))
            else:
                lay.append("%s=%s" % (hexs(nm), init))
        if [sl for _, sl in imp["order"]] != list(range(len(imp["order"]))):
            ctx.corr_break("constnames:layout(#define slot numbering)", inp, imp["order"][:6], "slots 0..n-1 in order")
        if lay != m_layout:
            k = next((i for i, (a, b) in enumerate(zip(lay, m_layout)) if a != b), min(len(lay), len(m_layout)))
            ctx.corr_break("constnames:layout(generate_num_constants)", inp,
                           {"slot": k, "impl": lay[k:k + 1], "n": len(lay)}, {"model": m_layout[k:k + 1], "n": len(m_layout)})
        if [("-" if x is None else str(x)) for x in imp["slots"]] != m_slots:
            ctx.corr_break("constnames:resolve(#define lookup)", inp, imp["slots"], m_slots)
        # ---- property: distinct keys never share a C name; a key keeps its name; every int
        #      constant reads, through its #define and slot initialiser, the value of its spelling
        seen = {}
        for i, (ev, nm) in enumerate(zip(events, imp["names"])):
            if ev[0] != "R":
                continue
            key = (ev[1], ev[2])
            for key2, (j, nm2) in seen.items():
                if (key2 == key) != (nm2 == nm):
                    ctx.fail(classify_pool(events, i, j), {"events": events, "first": j, "second": i},
                             {"names": [nm2, nm]}, "same name exactly for the same (text, type) key")
                    break
            seen.setdefault(key, (i, nm))
            if ev[1] != "f":
                want = int(ev[2], 0)          # the spellings are hex(v) / str(v) texts
                got = imp["values"][i]
                if want is not None and got != ["int", hex(want)]:
                    ctx.fail(classify_pool(events, i), {"events": events, "request": i, "text": ev[2]},
                             {"slot": imp["slots"][i], "value": got}, ["int", hex(want)],
                             note="value read through '#define %s numbertab[i]' (last definition) and the slot initialiser" % nm[:60])
                if want is not None and m_vals[i] != str(want):
                    ctx.corr_break("constnames:const_value", {"events": events, "request": i}, got, m_vals[i][:80])
            else:
                got = imp["values"][i]
                if got != ["F", ev[2]]:
                    ctx.fail(classify_pool(events, i), {"events": events, "request": i, "text": ev[2]},
                             {"slot": imp["slots"][i], "value": got}, ["F", ev[2]],
                             note="float slot initialiser must be the value code of this very constant")


def big_exprs(rng, quick):
    """constant expressions for ONE module: many large int / long float constants whose emitted
    spellings share their first and last 18 characters, on both sides of the 42-character limit"""
    E = []
    def add(st, t):
        E.append((st, t))
    for b in (144, 148, 152, 156, 160, 164, 200, 204, 256, 512, 1024):
        add("lit/big/pow2", "2**%d" % b)
        add("lit/big/pow2", "1 << %d" % (b + 4))
        add("lit/big/pow2", "-(2**%d)" % b)
        add("lit/big/pow2", "-(1 << %d)" % (b + 4))
        add("lit/big/pow2", str(1 << b))
        add("lit/big/pow2", "-0x1%s" % ("0" * (b // 4 + 2)))
    add("tuple/big", "(2**256, 2**512, -2**256, 2**256)")
    add("tuple/big", "(1 << 200, (1 << 204, 1 << 208), 1 << 200)")
    for nd, neg in [(39, 0), (40, 0), (41, 0), (42, 0), (35, 1), (36, 1), (37, 1), (38, 1), (64, 0), (64, 1), (300, 0)]:
        base = hex_text(rng, nd, bool(neg))
        for where in ("mid", "head", "head+1", "tail", "tail-1"):
            for t in family(rng, "i", base, 2 if quick else 4, where):
                v = int(t, 16)
                form = rng.choice(["hex", "dec", "oct", "fold"])
                txt = {"hex": t, "dec": str(v), "oct": ("-" if v < 0 else "") + oct(abs(v)),
                       "fold": "%s0x%x * 0x%x + 0x%x" % ("-" if v < 0 else "", abs(v) >> 8, 256, abs(v) & 255) if v > 0 else t}[form]
                add("lit/big/family-%s" % where, txt)
    # upstream tests/run/large_integer_T5290.py shape: decimal literals differing in the middle
    d = dec_text(rng, 120)
    for t in family(rng, "i", d, 3, "mid"):
        add("lit/big/decimal", t)
        add("lit/big/decimal", "-" + t)
    # long float literals
    z = "0." + "0" * 43
    for t in [z + "15", z + "015", z + "0015", "-" + z + "15", z + "15e+300", z + "15e-300", z + "15e300",
              "1." + "0" * 45 + "1e5", "1." + "0" * 46 + "1e5", "1." + "0" * 45 + "1e-5"]:
        add("fold/float/long-literal", t)
    f = "3." + dec_text(rng, 58)
    for t in family(rng, "f", f, 3, "mid"):
        add("fold/float/long-literal", t)
    # spellings that differ only in the characters the C name replaces
    for t in ["1e5", "1e+5", "1e-5", "-1e5", "-1e+5", "-1e-5", "2.5e3", "2.5e+3", "2.5e-3", "25e-3", "1.5", "15.0", "-1.5",
              "15", "-15", "1E-5", "1E+5"]:
        add("fold/float/replaced-characters", t)
    m = dec_text(rng, 50)
    for t in [m[:20] + "." + m[20:] + "e+9", m[:20] + "." + m[20:] + "e-9", m[:20] + "." + m[20:] + "e9",
              "-" + m[:20] + "." + m[20:] + "e-9", m, "-" + m]:
        add("fold/float/replaced-characters", t)
    # frozensets whose items are ==-equal tuples, one of them written with a multiplier, both orders
    for a, b in [("(1,) * 2", "(1.0, 1.0)"), ("(True,) * 2", "(1, 1)"), ("(0.0,) * 3", "(-0.0, -0.0, -0.0)"),
                 ("(1, 2) * 2", "(1.0, 2, 1, 2.0)")]:
        add("frozenset/mult", "frozenset((%s, %s))" % (a, b))
        add("frozenset/mult", "frozenset((%s, %s))" % (b, a))
        add("frozenset/mult", "frozenset((%s, %s, 5))" % (b, a))
    for t in ["frozenset((1, 2, 3))", "frozenset((3, 1, 2))", "frozenset((2, 1.0, 3, 1))", "frozenset((1, 3, 2, 1.0))",
              "frozenset(((1, 1), (1.0, 1.0)))", "frozenset(((1.0, 1.0), (1, 1)))"]:
        add("frozenset/order", t)
    return E


# ------------------------------------------------------------------------------------------------
# direct worker (pure-Python parts of the compiler, repo sources forced by pyload)
# ------------------------------------------------------------------------------------------------
DIRECT = r'''
import sys, json, struct, inspect, re, textwrap
import pyload; pyload.install()
from Cython import Utils
from Cython.Compiler import ExprNodes, PyrexTypes, Builtin, Optimize, Code
from Cython.Compiler.StringEncoding import EncodedString, bytes_literal
pyload.assert_sources()
spec = json.load(sys.stdin)
out = {}

def hx(v):
    return hex(v)

def guard(f, *a):
    try:
        r = f(*a)
    except BaseException as e:
        return {"e": type(e).__name__}
    if isinstance(r, bool):
        return {"v": hx(int(r)), "t": "bool"}
    if isinstance(r, int):
        return {"v": hx(r), "t": "int"}
    return {"v": r, "t": type(r).__name__}

def py_literal(s):
    # the property oracle: the value CPython's own compiler assigns to the literal text
    neg = s[:1] == "-"
    body = s[1:] if neg else s
    if not re.fullmatch(r"[0-9a-zA-Z_]+", body or " "):
        raise SyntaxError("not a token")
    v = eval(compile(body, "<lit>", "eval"), {}, {})
    if type(v) is not int:
        raise SyntaxError("not an int")
    return -v if neg else v

out["s2n"] = [guard(Utils.str_to_number, s) for s in spec["s2n"]]
out["lit"] = [guard(py_literal, s) for s in spec["lit"]]
out["pyint"] = [guard(int, s, b) for b, s in spec["pyint"]]

# ---- integer emission ----
class FakeCode:
    def get_py_int(self, text, longness):
        self.got = [text, longness]
        return "cname"

def const_text(text):
    n = ExprNodes.IntNode(None, value=text, type=Builtin.int_type)
    fc = FakeCode()
    n.generate_evaluation_code(fc)
    return fc.got[0]

def neg_text(text):
    n = ExprNodes.unop_node(None, "-", ExprNodes.IntNode(None, value=text))
    return n.value

src = inspect.getsource(Code.GlobalState.generate_num_constants)
m = re.search(r"^( *)def to_base32\(number\):\n(?:\1 +.*\n|\s*\n)+", src, re.M)
ns = {}
exec(textwrap.dedent(m.group(0)), ns)
def b32(v):
    return bytes(ns["to_base32"](v)).decode("ascii")

ints = [int(h, 16) for h in spec["ints"]]
out["str"] = [guard(str, v) for v in ints]
out["hex"] = [guard(hex, v) for v in ints]
out["ctext_dec"] = [guard(lambda v: const_text(str(v)), v) for v in ints]
out["ctext_hex"] = [guard(lambda v: const_text(hex(v)), v) for v in ints]
out["negtext"] = [guard(lambda v: neg_text(hex(v) if v > 10**30 else str(v)), v) for v in ints if v >= 0]
out["b32"] = [guard(b32, v) for v in ints]
out["b32dec"] = [guard(lambda v: int(b32(v), 32), v) for v in ints]
out["bitlen"] = [v.bit_length() for v in ints]

# ---- dedup keys ----
TY = {"obj": PyrexTypes.py_object_type, "int": Builtin.int_type, "float": Builtin.float_type,
      "bool": Builtin.bool_type, "str": Builtin.unicode_type, "bytes": Builtin.bytes_type,
      "tuple": Builtin.tuple_type, "list": Builtin.list_type, "slice": Builtin.slice_type,
      "frozenset": Builtin.frozenset_type, "c0": PyrexTypes.c_long_type, "c1": PyrexTypes.c_int_type,
      "c2": PyrexTypes.c_bint_type, "c3": PyrexTypes.c_py_ssize_t_type}

def scalar(sc):
    k = sc[0]
    if k == "none": return None
    if k == "ell": return Ellipsis
    if k == "i": return int(sc[1])
    if k == "b": return bool(sc[1])
    if k == "f": return struct.unpack("<d", struct.pack("<Q", sc[1]))[0]
    if k == "s": return "".join(map(chr, sc[1]))
    if k == "y": return bytes.fromhex(sc[1])

def node(n):
    if n[0] == "L":
        v = scalar(n[2]); ty = TY[n[1]]
        if v is None:
            x = ExprNodes.NoneNode(None)
        elif v is Ellipsis:
            x = ExprNodes.EllipsisNode(None)
        elif isinstance(v, bool):
            x = ExprNodes.BoolNode(None, value=v); x.type = ty
            return x
        elif isinstance(v, int):
            x = ExprNodes.IntNode(None, value=str(v), type=ty, constant_result=v)
        elif isinstance(v, float):
            x = ExprNodes.FloatNode(None, value=repr(v), type=ty, constant_result=v)
        elif isinstance(v, str):
            x = ExprNodes.UnicodeNode(None, value=EncodedString(v))
        else:
            bv = bytes_literal(v, "ascii"); x = ExprNodes.BytesNode(None, value=bv, constant_result=bv)
        x.type = ty
        return x
    if n[0] == "Q":
        x = ExprNodes.TupleNode(None, args=[node(a) for a in n[4]],
                                mult_factor=(node(n[3]) if n[3] is not None else None))
        x.type = TY[n[1]]; x.is_literal = bool(n[2])
        return x
    if n[0] == "S":
        x = ExprNodes.SliceNode(None, start=node(n[2]), stop=node(n[3]), step=node(n[4]))
        x.type = TY[n[1]]; x.is_literal = True
        return x

def top_key(t):
    # the three call sites: TupleNode.generate_operation_code, SliceNode.generate_result_code,
    # FrozenSetFromArrayNode._create_shared_frozenset_object
    if t[0] == "TS":
        x = node(t[1])
        return ExprNodes.make_dedup_key(x.type, [x.mult_factor if x.is_literal else None] + x.args)
    if t[0] == "TL":
        x = node(t[1])
        return ExprNodes.make_dedup_key(x.type, (x,))
    return ExprNodes.make_dedup_key(Builtin.frozenset_type, [node(a) for a in t[1]])

def value(n):
    if n[0] == "L":
        return scalar(n[2])
    if n[0] == "Q":
        v = tuple(value(a) for a in n[4])
        if n[2] and n[3] is not None:
            v = v * int(scalar(n[3][2]))
        return v
    return slice(value(n[2]), value(n[3]), value(n[4]))

def canon(v):
    if isinstance(v, float):
        return ("float", struct.pack("<d", v).hex())
    if isinstance(v, tuple):
        return ("tuple",) + tuple(canon(x) for x in v)
    if isinstance(v, frozenset):
        return ("frozenset",) + tuple(sorted(map(repr, map(canon, v))))
    if isinstance(v, slice):
        return ("slice", canon(v.start), canon(v.stop), canon(v.step))
    return (type(v).__name__, repr(v))

def top_value(t):
    if t[0] == "TF":
        return frozenset([value(a) for a in t[1]])
    return value(t[1])

res = []
for t1, t2 in spec["pairs"]:
    k1, k2 = top_key(t1), top_key(t2)
    if k1 is None or k2 is None:
        res.append({"nokey": 1}); continue
    res.append({"eq": bool(k1 == k2 and hash(k1) == hash(k2)), "eq_rev": bool(k2 == k1),
                "same": canon(top_value(t1)) == canon(top_value(t2))})
out["pairs"] = res

def pyeq(a, b):
    return bool(scalar(a) == scalar(b))
out["scalareq"] = [pyeq(a, b) for a, b in spec["scalareq"]]

# ---- constant folding ----
def lit(x):
    if x == "T": return ExprNodes.BoolNode(None, value=True)
    if x == "F": return ExprNodes.BoolNode(None, value=False)
    return ExprNodes.IntNode(None, value=str(int(x)))
def pyv(x):
    return True if x == "T" else False if x == "F" else int(x)
def show(n, orig):
    if n is orig:
        return {"k": "same"}
    if isinstance(n, ExprNodes.BoolNode):
        return {"k": "bool", "v": bool(n.value), "ty": str(n.type)}
    if isinstance(n, ExprNodes.IntNode):
        return {"k": "int", "text": n.value, "v": hx(Utils.str_to_number(n.value)), "cr": hx(n.constant_result),
                "ty": str(n.type)}
    if isinstance(n, ExprNodes.FloatNode):
        return {"k": "float", "text": n.value}
    return {"k": "node", "cls": type(n).__name__}
import operator
OPS = {"+": operator.add, "-": operator.sub, "*": operator.mul, "//": operator.floordiv, "%": operator.mod,
       "**": operator.pow, "<<": operator.lshift, ">>": operator.rshift, "&": operator.and_, "|": operator.or_,
       "^": operator.xor}
def fold2(op, a, b):
    n = ExprNodes.binop_node(None, op, lit(a), lit(b))
    r = Optimize.ConstantFolding()(n)
    return show(r, n)
def fold1(op, a):
    operand = lit(a)
    if op == "not":
        n = ExprNodes.NotNode(None, operand=operand)
    else:
        n = ExprNodes.unop_node(None, op, operand)
    r = Optimize.ConstantFolding()(n)
    d = show(r, n)
    if r is operand: d = {"k": "operand"}
    return d
def ev(f, *a):
    try:
        r = f(*a)
    except BaseException as e:
        return {"e": type(e).__name__}
    return {"t": type(r).__name__, "v": hx(int(r)) if isinstance(r, int) else repr(r)}
UN = {"+": operator.pos, "-": operator.neg, "~": operator.inv, "not": operator.not_}
out["fold2"] = [[guard(lambda: fold2(op, a, b)), ev(OPS[op], pyv(a), pyv(b))] for op, a, b in spec["fold2"]]
out["fold1"] = [[guard(lambda: fold1(op, a)), ev(UN[op], pyv(a))] for op, a in spec["fold1"]]
# ---- numeric-constant pool: names, #defines, slot initialisers (real GlobalState methods on a bare instance) ----
import collections
from Cython.Compiler import Naming
class _W:
    def __init__(s): s.lines = []
    def putln(s, t="", safe=False): s.lines.append(t)
    def put(s, t): s.lines.append(t)
    def error_goto_if_null(s, *a): return "GOTOIFNULL"
    def error_goto(s, *a): return "GOTO"
    def name_in_main_c_code_module_state(s, n): return n
class _G(Code.GlobalState):
    def __init__(s):
        s.parts = collections.defaultdict(_W)
        s.num_const_index = {}
        s.const_cnames_used = {}
        s.module_pos = None

def _cstr(text):
    # adjacent C string literals -> the characters (only \ooo escapes and plain ASCII occur here)
    body = "".join(re.findall(r'"((?:[^"\\]|\\.)*)"', text))
    return re.sub(r"\\([0-7]{3})", lambda m: chr(int(m.group(1), 8)), body)

def _access(expr, i, arrays):
    # (i < N ? ARR[i - K] : REST)  |  ARR[i - K]
    expr = expr.strip()
    m = re.fullmatch(r"\(i < (\d+) \? (\w+)\[i - (\d+)\] : (.*)\)", expr)
    if m:
        if i < int(m.group(1)):
            return m.group(2), arrays[m.group(2)][i - int(m.group(3))]
        return _access(m.group(4), i, arrays)
    m = re.fullmatch(r"(\w+)\[i - (\d+)\]", expr)
    return m.group(1), arrays[m.group(1)][i - int(m.group(2))]

def _interpret(g):
    """what the generated C does: slot -> initialiser, macro name -> slot (a later #define wins)"""
    tab = Naming.numbertab_cname
    defines, order = {}, []
    for ln in g.parts['constant_name_defines'].lines:
        m = re.fullmatch(r"#define (\w+) %s\[(\d+)\]" % re.escape(tab), ln)
        if not m:
            raise ValueError("define line %r" % ln)
        defines[m.group(1)] = int(m.group(2))
        order.append([m.group(1), int(m.group(2))])
    table, arrays, etypes = {}, {}, {}
    offset, count, cstring = 0, 0, None
    for ln in g.parts['init_constants'].lines:
        m = re.fullmatch(r"PyObject \*\*numbertab = %s(?: \+ (\d+))?;" % re.escape(tab), ln)
        if m:
            offset = int(m.group(1) or 0); arrays = {}; cstring = None
            continue
        m = re.fullmatch(r"(double|int\d+_t) const (\w+)\[\] = \{(.*)\};", ln)
        if m:
            arrays[m.group(2)] = m.group(3).split(","); etypes[m.group(2)] = m.group(1)
            continue
        m = re.fullmatch(r"const char\* c_constant = (.*);", ln, re.S)
        if m:
            cstring = _cstr(m.group(1)).split("\0")
            continue
        m = re.fullmatch(r"for \((?:int|Py_ssize_t) i = 0; i < (\d+); i\+\+\) \{", ln)
        if m:
            count = int(m.group(1))
            continue
        m = re.fullmatch(r"numbertab\[i\] = (\w+)\((.*)\);", ln)
        if m:
            func, arg = m.group(1), m.group(2)
            for i in range(count):
                if func == "PyFloat_FromDouble":
                    arr, v = _access(arg.replace("c_constants[i]", "c_constants[i - 0]"), i, arrays)
                    table[offset + i] = ["F", v]
                elif func in ("PyLong_FromLong", "PyLong_FromLongLong"):
                    arr, v = _access(arg, i, arrays)
                    bits = int(re.fullmatch(r"int(\d+)_t", etypes[arr]).group(1))
                    vv = int(v.rstrip("L"))
                    if not (-(1 << (bits - 1)) <= vv < (1 << (bits - 1))) or (func == "PyLong_FromLong" and bits > 32):
                        table[offset + i] = ["OVERFLOW", v, bits, func]
                    else:
                        table[offset + i] = ["C", bits // 8, hx(vv)]
                elif func == "PyLong_FromString" and arg == "c_constant, &end_pos, 32":
                    table[offset + i] = ["X", cstring[i]]
                else:
                    raise ValueError("init line %r" % ln)
    return defines, order, table

def pool_scenario(events):
    g = _G()
    names = []
    for ev in events:
        if ev[0] == "R":
            if ev[1] == "f":
                names.append(g.get_float_const(ev[2], ev[2]).cname)
            else:
                names.append(g.get_int_const(ev[2], "L" if ev[1] == "l" else "").cname)
        else:
            names.append(g.unique_const_cname(ev[2] + ("{sep}" if ev[1] else "") + "{counter}" + ev[3]))
    g.generate_num_constants()
    defines, order, table = _interpret(g)
    slots, values = [], []
    for ev, nm in zip(events, names):
        if ev[0] != "R":
            slots.append(None); values.append(None); continue
        i = defines.get(nm)
        slots.append(i)
        init = table.get(i)
        if init is None:
            values.append(["NOSLOT"])
        elif init[0] == "X":
            values.append(["int", hx(int(init[1], 32))])     # PyLong_FromString(.., 32)
        elif init[0] == "C":
            values.append(["int", init[2]])
        else:
            values.append(init)
    return {"names": names, "order": order, "table": [table.get(i) for i in range(len(table))],
            "slots": slots, "values": values}

def pool_guard(events):
    try:
        return pool_scenario(events)
    except BaseException as e:
        import traceback
        return {"e": type(e).__name__, "m": traceback.format_exc()[-600:]}
out["pools"] = [pool_guard(evs) for evs in spec.get("pools", [])]
_src = inspect.getsource(Code.GlobalState.new_num_const_cname)
out["name_consts"] = {"int": Naming.interned_prefixes['int'], "float": Naming.interned_prefixes['float'],
                      "limit": re.findall(r"len\(value\) > (\d+)", _src),
                      "head": re.findall(r"value\[:(\d+)\]", _src), "tail": re.findall(r"value\[-(\d+):\]", _src)}
print(json.dumps(out))
'''


class Batch:
    """all model queries of the direct part; the runner's start-up computes 10^4300, and the literal /
    emission queries on thousands of bits dominate the wall time, so the lines are dealt round-robin
    to a few runner processes that work while the direct worker runs"""
    WORKERS = 4
    def __init__(self, model):
        self.model, self.q, self.parts, self.res, self.futs = model, [], {}, None, None
    def add(self, name, lines):
        self.parts[name] = (len(self.q), len(lines))
        self.q += lines
    def start(self):
        import concurrent.futures as cf
        ex = cf.ThreadPoolExecutor(self.WORKERS)
        self.futs = [ex.submit(self.model.batch, self.q[i::self.WORKERS]) for i in range(self.WORKERS)]
        ex.shutdown(wait=False)
    def get(self, name):
        if self.res is None:
            if self.futs is None:
                self.start()
            self.res = [None] * len(self.q)
            for i, f in enumerate(self.futs):
                self.res[i::self.WORKERS] = f.result()
        a, n = self.parts[name]
        return self.res[a:a + n]


def hexs(s):
    return s.encode("ascii").hex() or "-"


def unhex(h):
    return "" if h == "-" else bytes.fromhex(h).decode("ascii")


def mval(line):
    """model result line 'V <dec>' / 'E' -> int or None"""
    if line.startswith("V "):
        return int(line.split()[1])
    return None


def ival(d):
    """worker result {"v": hex} / {"e":..} -> int or None (ValueError) or ('exc', name)"""
    if "e" in d:
        return None if d["e"] == "ValueError" else ("exc", d["e"])
    return int(d["v"], 16)


# ------------------------------------------------------------------------------------------------
# compiled modules
# ------------------------------------------------------------------------------------------------
SCALAR_EXPRS = ["0", "0.0", "-0.0", "False", "1", "1.0", "True", "-1", "-1.0", "2", "2.0", "None", "'a'", "b'a'",
                "0.5", "1e300", "-1e-300", "1e400", "-1e400", "2**64", "18446744073709551616.0", "...", "''", "b''"]

CANON_SRC = r'''
import struct
def canon(v):
    if isinstance(v, float):
        return ["float", struct.pack("<d", v).hex()]
    if isinstance(v, complex):
        return ["complex", struct.pack("<dd", v.real, v.imag).hex()]
    if isinstance(v, bool):
        return ["bool", repr(v)]
    if isinstance(v, int):
        return ["int", hex(v)]
    if isinstance(v, (tuple, list)):
        return [type(v).__name__] + [canon(x) for x in v]
    if isinstance(v, frozenset):
        return ["frozenset"] + sorted([canon(x) for x in v], key=repr)
    if isinstance(v, slice):
        return ["slice", canon(v.start), canon(v.stop), canon(v.step)]
    return [type(v).__name__, repr(v)]
def run_all(mod, names):
    out = []
    for n in names:
        try:
            out.append(canon(getattr(mod, n)()))
        except BaseException as e:
            out.append(["EXC", type(e).__name__, str(e)[:80]])
    return out
'''


def gen_exprs(rng, quick):
    """list of (stratum, expression text); all valid CPython and Cython; no decimal text > 4300 digits"""
    E = []
    ints = interesting_ints(rng, 70 if quick else 400, 3000)
    for v in ints:
        for base in (2, 8, 10, 16):
            if base == 2 and v.bit_length() > 400 and rng.random() < 0.7:
                continue
            t = lit_text(rng, v, base, us=rng.random() < 0.4)
            E.append(("lit/base%d" % base, t))
            if rng.random() < 0.5 and (base == 10 or len(str(v)) < 4000):
                E.append(("lit/neg/base%d" % base, "-" + t))
    # huge non-decimal literals beyond 4300 decimal digits (positive: fine)
    for bits in ([15000] if quick else [14300, 15000, 20000, 33000]):
        v = rng.getrandbits(bits) | (1 << (bits - 1))
        E.append(("lit/huge/hex", lit_text(rng, v, 16, False)))
        E.append(("lit/huge/oct", lit_text(rng, v, 8, True)))
    E.append(("lit/zeros", "00"))
    E.append(("lit/zeros", "0_0_0"))
    E.append(("lit/zeros", "0" * 50))
    E.append(("lit/dec4300", "9" * 4300))
    E.append(("lit/dec4300", "-" + "9" * 4300))
    # folding
    small = ["True", "False", "0", "1", "2", "3", "-1", "-7", "5", "255", "2147483647", "2147483648",
             "9223372036854775807", "9223372036854775808", "10000000000000", "10000000000001", "0x10000000000000000"]
    ops = ["+", "-", "*", "//", "%", "**", "<<", ">>", "&", "|", "^"]
    n = 0
    want = 260 if quick else 1500
    while n < want:
        a, b, op = rng.choice(small), rng.choice(small), rng.choice(ops)
        bv = eval(b)
        if op in ("**", "<<") and not (0 <= bv <= 70):
            continue
        if op in ("//", "%") and bv == 0:
            continue
        if op == ">>" and bv < 0:
            continue
        E.append(("fold/binop", "%s %s %s" % (a, op, b)))
        n += 1
    for a in small:
        for u in ["-", "+", "~", "not "]:
            E.append(("fold/unop", "%s%s" % (u, a)))
            E.append(("fold/unop", "%s(%s)" % (u, a)))
    for t in ["-0.0", "+(-0.0)", "-(0.0)", "-(-0.0)", "0.0 * -1", "-0.0 + 0", "1.5 + 2", "3 / 2", "4 / 2", "2 ** -1",
              "True / True", "1e308 * 10", "-1e308 * 10", "0.1 + 0.2", "1.0 - 1.0", "-1.0 + 1.0", "True + 1.5",
              "0.0 if True else -0.0", "-0.0 or 5", "0.0 and 1", "7 // 2.0", "-7 % 2.5", "1e22", "1e23", "123456789.123456789",
              "5e-324", "2.5e-324", "1.7976931348623157e308", "1_0.0_1e0_1", ".5", "5.", "0e0", "-0e0", "1E5", "0.1e-1_0"]:
        E.append(("fold/float", t))
    # containers of confusable scalars
    S = SCALAR_EXPRS
    for a in S[:14]:
        for b in S[:14]:
            E.append(("tuple/pair", "(%s, %s)" % (a, b)))
    zeros = ["0", "0.0", "-0.0", "False", "1", "1.0", "True"]
    for a in zeros:
        E.append(("tuple/single", "(%s,)" % a))
        E.append(("tuple/mult", "(%s,) * 2" % a))
        E.append(("tuple/mult", "(%s, 1) * 3" % a))
        E.append(("list/mult", "[%s] * 2" % a))
        for b in zeros:
            E.append(("tuple/nested", "((%s, %s), 2)" % (a, b)))
            E.append(("tuple/nested", "(1, (%s, (%s,)))" % (a, b)))
            E.append(("slice", "slice(%s, %s)" % (a, b)))
            E.append(("slice", "slice(None, %s, %s)" % (a, b)))
            E.append(("tuple/slice", "(slice(%s, %s), 1)" % (a, b)))
            E.append(("frozenset/tuple", "frozenset((%s, %s))" % (a, b)))
            E.append(("frozenset/list", "frozenset([%s, %s, 7])" % (a, b)))
            E.append(("frozenset/set", "frozenset({%s, %s})" % (a, b)))
    for a in ["'ab'", "b'ab'", "'ba'", "b'ba'", "''", "()", "[]", "'a'", "b'a'", "(97,)", "b'\\x01'", "(1,)"]:
        E.append(("frozenset/str", "frozenset(%s)" % a))
    more = 150 if quick else 1500
    for _ in range(more):
        def rnd(d):
            r = rng.random()
            if d <= 0 or r < 0.5:
                return rng.choice(S)
            if r < 0.85:
                k = rng.choice([1, 2, 2, 3])
                return "(" + ", ".join(rnd(d - 1) for _ in range(k)) + ("," if k == 1 else "") + ")" + \
                       (" * %d" % rng.choice([1, 2, 3]) if rng.random() < 0.2 else "")
            if r < 0.93:
                return "slice(%s, %s, %s)" % (rng.choice(S), rng.choice(S), rng.choice(S))
            return "frozenset((%s, %s))" % (rng.choice(S[:14]), rng.choice(S[:14]))
        E.append(("container/random", rnd(3)))
    return E


def _has_confusable_frozenset(text):
    """the expression contains frozenset(<tuple/list/set display of constants>) with two elements that are
    == but not the same constant (1/1.0/True, 0/0.0/-0.0/False ...): the frozenset_order_merged family"""
    import ast
    try:
        tree = ast.parse(text, mode="eval")
    except SyntaxError:
        return False
    for n in ast.walk(tree):
        if isinstance(n, ast.Call) and getattr(n.func, "id", None) == "frozenset" and len(n.args) == 1 \
                and isinstance(n.args[0], (ast.Tuple, ast.List, ast.Set)):
            try:
                vals = [eval(compile(ast.Expression(e), "<e>", "eval"), {}, {}) for e in n.args[0].elts]
            except Exception:
                continue
            for i in range(len(vals)):
                for j in range(i + 1, len(vals)):
                    try:
                        same = vals[i] == vals[j]
                    except Exception:
                        same = False
                    if same and (type(vals[i]), repr(vals[i])) != (type(vals[j]), repr(vals[j])):
                        return True
    return False


def classify_expr(stratum, text, got, exp):
    """finding class from the input expression (the observed value only separates a wrong zero sign from
    other differences)"""
    if stratum.startswith(("tuple", "slice", "container", "frozenset", "replay")):
        if _has_confusable_frozenset(text) and re.search(r"frozenset\(.*\)\s*\*\s*\d", text):
            return "frozenset_multiplied_tuple_merged"
        if _has_confusable_frozenset(text):
            return "frozenset_order_merged"
        nz, pz = struct.pack("<d", -0.0).hex(), struct.pack("<d", 0.0).hex()
        if re.search(r"(?<![\d.])0\.0", text) and json.dumps(got).replace(nz, pz) == json.dumps(exp).replace(nz, pz):
            return "float_zero_sign_merged"
        return "container_constant_wrong"
    if stratum.startswith("lit"):
        return "int_literal_wrong"
    return "folded_constant_wrong"


def module_source(exprs, per_func=40):
    L = ["# cython: language_level=3", ""]
    names = []
    for i in range(0, len(exprs), per_func):
        nm = "f%d" % (i // per_func)
        names.append(nm)
        L.append("def %s():" % nm)
        L.append("    return [")
        for _, t in exprs[i:i + per_func]:
            L.append("        %s," % t)
        L.append("    ]")
        L.append("")
    return "\n".join(L), names


def build_and_compare(ctx, name, exprs, model):
    """build one module (Cython) + the same text as a .py (CPython oracle); compare every item"""
    src, names = module_source(exprs)
    odir = os.path.join(ctx.workdir, "oracle")
    os.makedirs(odir, exist_ok=True)
    with open(os.path.join(odir, name + "_py.py"), "w") as f:
        f.write(src)
    with open(os.path.join(ctx.workdir, "c09canon.py"), "w") as f:
        f.write(CANON_SRC)
    try:
        cybuild.build(name, src, ctx.workdir)
    except cybuild.BuildError as e:
        return ("build", e)
    setup = ("import sys; sys.path.insert(0, %r); import c09canon, %s, %s_py" % (odir, name, name))
    res = cybuild.call_cases(ctx.workdir, [["c09canon.run_all", [{"py": name}, names]],
                                           ["c09canon.run_all", [{"py": name + "_py"}, names]]],
                             setup=setup, alarm=120)
    if "e" in res[0] or "e" in res[1]:
        return ("run", res)

    def unwrap(r):     # callworker canonicalises nested lists as {"t","r"}
        if isinstance(r, dict) and "t" in r and "r" in r:
            if r["t"] in ("list", "tuple"):
                return [unwrap(x) for x in r["r"]]
            if r["t"] == "str":
                return eval(r["r"])
            return r["r"]
        return r
    got, exp = unwrap(res[0]), unwrap(res[1])
    k = 0
    big = set()
    for fi, nm in enumerate(names):
        g, x = got[fi], exp[fi]
        part = exprs[fi * 40:(fi + 1) * 40]
        if g[0] == "EXC" or x[0] == "EXC":
            if g != x:
                ctx.fail("function_raises", {"module": name, "func": nm}, g, x)
            continue
        for (stratum, text), gv, xv in zip(part, g[1:], x[1:]):
            ctx.case("module/" + stratum, text, sig=("expr", text))
            if gv != xv:
                ctx.fail(classify_expr(stratum, text, gv, xv), {"expr": text, "module": name}, gv, xv)
            if stratum.startswith("lit"):
                collect_big(xv, big)
    # emission tie: the base-32 texts in the generated C are the model's
    cfile = os.path.join(ctx.workdir, name + ".c")
    ctext = open(cfile).read()
    m = re.search(r'const char\* c_constant = ((?:"(?:[^"\\]|\\.)*"\s*)+);', ctext)
    in_c = set()
    if m:
        lit = "".join(re.findall(r'"((?:[^"\\]|\\.)*)"', m.group(1)))
        in_c = set(lit.split("\\000"))
    big = sorted(big)
    mres = model.batch(["b32 %s" % hex(v) for v in big])
    for v, line in zip(big, mres):
        ctx.case("emission/base32-in-C", hex(v)[:40], sig=("b32c", v))
        if unhex(line) not in in_c:
            ctx.corr_break("consts:to_base32(generated C)", hex(v), "not among %d C strings" % len(in_c), unhex(line)[:80])
    # small constants: every C array element fits its element type and the model agrees on the class
    for mm in re.finditer(r"int(\d+)_t const cint_constants_(\d+)\[\] = \{([^}]*)\};", ctext):
        bits, byts, body = int(mm.group(1)), int(mm.group(2)), mm.group(3)
        vals = [int(x.rstrip("L")) for x in body.split(",") if x.strip()]
        lines = model.batch(["emit %d %s" % (byts, hexs(str(v))) for v in vals])
        for v, line in zip(vals, lines):
            ctx.case("emission/c-array", v, sig=("carr", byts, v))
            want = "C %d %d -> V %d" % (byts, v, v)
            if line != want:
                ctx.corr_break("consts:emit_num(generated C)", {"array_bytes": byts, "value": v}, "in int%d_t array" % bits, line)
            if not (-(1 << (bits - 1)) <= v < (1 << (bits - 1))):
                ctx.fail("c_array_overflow", {"value": v, "bits": bits}, "stored in int%d_t" % bits, "fits")
    return None


def collect_big(c, acc):
    if isinstance(c, list) and c:
        if c[0] == "int" and len(c) == 2 and isinstance(c[1], str):
            v = int(c[1], 16)
            if v.bit_length() > 63:
                acc.add(v)
        else:
            for x in c[1:]:
                collect_big(x, acc)


# ------------------------------------------------------------------------------------------------
def run(ctx):
    old_limit = sys.get_int_max_str_digits()
    sys.set_int_max_str_digits(0)        # this process only converts numbers; oracles run in workers
    try:
        _run(ctx)
    finally:
        sys.set_int_max_str_digits(old_limit)


_T0 = [None]


def _tick(label):
    """C09_TIMING=1: wall-clock of the phases on stderr (development aid)"""
    if os.environ.get("C09_TIMING"):
        import time
        now = time.time()
        if _T0[0] is not None:
            sys.stderr.write("[C09 timing] %-28s %6.1f s\n" % (label, now - _T0[0]))
        _T0[0] = now


def _run(ctx):
    quick = ctx.tier == "quick"
    _tick("start")
    rng = ctx.rng
    if os.environ.get("C09_ONLY") == "fold":          # development aid: part (c) alone
        err = C09_fold.run(ctx)
        if err is not None:
            ctx.corr_break("module c09fold", "c09fold", str(err[1])[-1500:], "builds and runs")
        return
    model = ctx.model("consts")

    # ---------------- (a) direct: literals ----------------
    texts = []      # (stratum, text)
    ints = interesting_ints(rng, 250 if quick else 800, 1500 if quick else 3000)
    for v in ints:
        for base in (2, 8, 10, 16):
            t = lit_text(rng, v, base, us=False)
            texts.append(("valid/base%d" % base, t))
            texts.append(("valid/neg/base%d" % base, "-" + t))
            tu = lit_text(rng, v, base, us=True)
            texts.append(("valid-us/base%d" % base, tu))
    for nd in ((4300, 4301) if quick else (4299, 4300, 4301, 5000)):
        texts.append(("limit/dec%d" % nd, "1" + "0" * (nd - 1)))
        texts.append(("limit/dec%d" % nd, "-" + "9" * nd))
        texts.append(("limit/zeros%d" % nd, "0" * nd))
    for bits in (14280, 14290, 20000):
        texts.append(("limit/hex", hex((1 << bits) - 1)))
        texts.append(("limit/hex", "-" + hex(1 << bits)))
        texts.append(("limit/oct", oct(1 << bits)))
        texts.append(("limit/bin", "-" + bin(1 << bits)))
    for t in ["0", "00", "000", "0_0", "-0", "-00", "07", "0777", "-0777", "08", "09", "0123456789", "0x", "0o", "0b",
              "0xL", "0x1L", "0x1l", "0XfL", "1L", "0o7L", "0b1L", "", "-", "--1", "-+1", "+1", " 1", "1 ", "0x_1", "0x__1",
              "0x1_", "1__0", "_1", "1_", "0b2", "0o8", "0xg", "0x 1", "- 1", "0x-1", "0X1F", "0B101", "0O17", "0_7", "0_8",
              "1e5", "1.0", "1j", "0x1p3", "١٢"]:
        if all(ord(c) < 128 for c in t):
            texts.append(("special", t))
    base_texts = [t for _, t in texts]
    for _ in range(1000 if quick else 12000):
        texts.append(("mutated", mutate(rng, rng.choice(base_texts)[:60])))
    # what the scanner hands over: the token with underscores removed
    s2n_in = []
    for st, t in texts:
        s2n_in.append((st, t, t))
        if "_" in t and st.startswith("valid-us"):
            s2n_in.append((st + "/stripped", t, t.replace("_", "")))
    pyint_in = []
    for st, t in texts:
        if st in ("special", "mutated") or rng.random() < 0.15:
            for b in (0, 2, 8, 16, 32, 10):
                if st in ("special", "mutated") and len(pyint_in) < (3500 if quick else 60000) or b in (0, 16):
                    pyint_in.append((b, t))

    # ---------------- (a) direct: emission ----------------
    evals = set()
    for v in interesting_ints(rng, 200 if quick else 600, 800 if quick else 2000):
        evals.update([v, -v])
    for c in (10 ** 13, 2 ** 31, M63, 2 ** 64):
        for d in (-2, -1, 0, 1, 2):
            evals.update([c + d, -(c + d)])
    # the str() limit: 10^4300 and beyond raise; just below converts (slow in the model: thorough only)
    evals.update([10 ** 4300, -(10 ** 4300), 10 ** 4300 + 1, -(10 ** 4300) - 1])
    if not quick:
        evals.update([10 ** 4300 - 1, -(10 ** 4300) + 1])
    evals.update([1 << 14290, -(1 << 14290), (1 << 20000) + 12345, -((1 << 20000) + 12345)])
    evals = sorted(evals)

    # ---------------- (a) direct: dedup pairs ----------------
    pairs = [rand_pair(rng) for _ in range(2500 if quick else 30000)]
    # the documented witnesses
    fz = lambda b: ["L", "float", ["f", b]]
    one = ["L", "int", ["i", 1]]
    onef = ["L", "float", ["f", F_BITS["1.0"]]]
    pairs += [(["TS", ["Q", "tuple", 1, None, [fz(0), one]]], ["TS", ["Q", "tuple", 1, None, [fz(1 << 63), one]]]),
              (["TL", ["S", "slice", fz(0), one, ["L", "obj", ["none"]]]], ["TL", ["S", "slice", fz(1 << 63), one, ["L", "obj", ["none"]]]]),
              (["TF", [onef, one]], ["TF", [one, onef]]),
              (["TF", [fz(0), fz(1 << 63)]], ["TF", [fz(1 << 63), fz(0)]]),
              (["TS", ["Q", "tuple", 1, None, [one, onef]]], ["TS", ["Q", "tuple", 1, None, [onef, one]]])]
    # frozensets since a8197db74: the order is free unless ==-equal items swap places; a multiplied tuple
    # is keyed by (multiplier, items) although its value is the repeated tuple
    two, three = ["L", "int", ["i", 2]], ["L", "int", ["i", 3]]
    m2 = lambda x: ["Q", "tuple", 1, ["L", "c0", ["i", 2]], [x]]
    tup = lambda *xs: ["Q", "tuple", 1, None, list(xs)]
    pairs += [(["TF", [one, two, three]], ["TF", [three, one, two]]),
              (["TF", [one, two, onef]], ["TF", [two, onef, one]]),
              (["TF", [m2(one), tup(onef, onef)]], ["TF", [tup(onef, onef), m2(one)]]),
              (["TF", [m2(one), tup(one, one)]], ["TF", [tup(one, one), m2(one)]]),
              (["TF", [tup(one, one), tup(onef, onef), two]], ["TF", [two, tup(onef, onef), tup(one, one)]]),
              (["TF", [m2(fz(0)), tup(fz(1 << 63), fz(1 << 63))]], ["TF", [tup(fz(1 << 63), fz(1 << 63)), m2(fz(0))]])]
    sc_all = [sc for _, sc in ALL_LEAVES]
    sc_pairs = [(a, b) for a in sc_all for b in sc_all]

    # ---------------- (a) direct: folding ----------------
    lits = ["T", "F"] + [str(v) for v in [0, 1, 2, 3, -1, -2, -7, 5, 64, 255, 2 ** 31 - 1, 2 ** 31, -2 ** 31, M63 - 1, M63, -M63,
                                          10 ** 13, 10 ** 13 + 1, -(10 ** 13) - 1, 2 ** 64, -(2 ** 64), 2 ** 100 + 1]]
    ops = ["+", "-", "*", "//", "%", "**", "<<", ">>", "&", "|", "^"]
    fold2 = []
    for op in ops:
        for a in lits:
            for b in lits:
                bv = True if b == "T" else False if b == "F" else int(b)
                if op in ("**", "<<", ">>") and not (-3 <= bv <= 100):
                    continue
                fold2.append([op, a, b])
    if quick:
        keep = [f for f in fold2 if f[1] in "TF" or f[2] in "TF"]
        rest = [f for f in fold2 if f not in keep]
        fold2 = keep + rng.sample(rest, 1200)
    fold1 = [[u, a] for u in ["+", "-", "~", "not"] for a in lits if not (u == "-" and a not in "TF")]

    # ---------------- (a) direct: names and slots of pooled numeric constants ----------------
    scen = pool_scenarios(rng, quick)
    names_model = ctx.model("constnames")

    spec = {"s2n": [x[2] for x in s2n_in], "lit": [x[1] for x in s2n_in], "pyint": pyint_in, "ints": [hex(v) for v in evals],
            "pairs": pairs, "scalareq": sc_pairs, "fold2": fold2, "fold1": fold1, "pools": [ev for _, ev in scen]}
    B = Batch(model)
    B.add("s2n", ["s2n %s" % hexs(x[2]) for x in s2n_in])
    B.add("lit", ["lit %s" % hexs(x[1]) for x in s2n_in])
    B.add("pyint", ["pyint %d %s" % (b, hexs(t)) for b, t in pyint_in])
    q = []
    for v in evals:
        q += ["pystr %s" % hex(v), "pyhex %s" % hex(v), "ictext %d %s" % (ABS_THRESHOLD, hex(v)), "b32 %s" % hex(v),
              "emission %d 1 %s" % (ABS_THRESHOLD, hex(v)), "bitlen %s" % hex(v)]
    B.add("emit", q)
    pos = [v for v in evals if v >= 0]
    B.add("neg", ["neglit %d %s" % (NEG_REPAIRED, hexs(hex(v) if v > 10 ** 30 else str(v))) for v in pos])
    B.add("pairs", ["keyeq %d %d %s | %s" % (KEY_FX, FS_GUARD, " ".join(tok_top(a)), " ".join(tok_top(b))) for a, b in pairs])
    B.add("scalareq", ["scalareq %s %s" % (tok_scalar(a), tok_scalar(b)) for a, b in sc_pairs])
    B.add("fold2", ["fold2 %s %s %s" % (op, a, b) for op, a, b in fold2])
    B.add("fold1", ["fold1 %s %s" % (op, a) for op, a in fold1])
    B.start()
    _tick("generate direct inputs")
    r = cybuild.run_script(DIRECT, ctx.workdir, spec, timeout=1500, name="c09_direct.py")
    _tick("direct worker")
    out = r["json"]
    if r["rc"] != 0 or not isinstance(out, dict):
        ctx.corr_break("direct worker", "c09_direct.py", (r["err"] or r["out"])[-1500:], "runs")
        return

    B.get("s2n")
    _tick("model batch (consts)")
    # --- names / #defines / slots of the numeric-constant pool ---
    mres = names_model.batch(["consts"] + ["pool 1 " + " ".join(w for ev in evs for w in ev_tokens(ev)) for _, evs in scen])
    check_pools(ctx, scen, out["pools"], mres[1:], out["name_consts"], mres[0])

    _tick("pool scenarios (model+compare)")
    # --- str_to_number: impl vs model (tie), impl vs CPython literal value (oracle) ---
    m1 = B.get("s2n")
    m2 = B.get("lit")
    for (st, orig, given), imp, lit, a, b in zip(s2n_in, out["s2n"], out["lit"], m1, m2):
        iv = ival(imp)
        lv = ival(lit)                       # CPython's value of the original token text (or no value)
        cp = lv if isinstance(lv, int) else None
        ctx.case("s2n/" + st, given[:80], sig=("s2n", given), nontrivial=(cp is not None))
        if iv != mval(a):
            ctx.corr_break("consts:str_to_number", given[:200], imp, a)
        # the model's grammar (python_int_literal + limit) against CPython's tokenizer/compiler
        spec_v = int(b.split()[1]) if b.startswith("V ") and b.endswith(" 1") else None
        if spec_v != cp:
            ctx.corr_break("consts:python_int_literal(grammar)", orig[:200], lit, b[:80])
        # property: on the text the scanner hands over (underscores removed) the value is CPython's
        if cp is not None and "_" not in given and iv != cp:
            ctx.fail("str_to_number_wrong_value", given[:200], imp, lit)
    m3 = B.get("pyint")
    for (b, t), imp, a in zip(pyint_in, out["pyint"], m3):
        ctx.case("contract/int(s,%d)" % b, t[:60], sig=("pyint", b, t), nontrivial=False)
        if ival(imp) != mval(a):
            ctx.corr_break("consts:py_int(contract of CPython int())", [b, t[:200]], imp, a)

    # --- emission ---
    def text_of(d):
        return None if "e" in d and d["e"] == "ValueError" else (("exc", d["e"]) if "e" in d else d["v"])
    mr = B.get("emit")
    for i, v in enumerate(evals):
        ms, mh, mt, mb, me, ml = mr[6 * i:6 * i + 6]
        inp = hex(v) if v.bit_length() < 200 else "%s...(%d bits)" % (hex(v)[:24], v.bit_length())
        stratum = "emit/" + ("small" if v.bit_length() <= 63 else "neg>4300digits" if v <= -10 ** 4300 else
                             "pos>4300digits" if v >= 10 ** 4300 else "large")
        ctx.case(stratum, inp, sig=("emit", v))
        exp_s = None if ms == "E" else unhex(ms[2:])
        if text_of(out["str"][i]) != exp_s:
            ctx.corr_break("consts:py_str(contract of str(int))", inp, out["str"][i], ms[:80])
        if text_of(out["hex"][i]) != unhex(mh):
            ctx.corr_break("consts:py_hex(contract of hex(int))", inp, out["hex"][i], mh[:80])
        exp_t = None if mt == "E" else unhex(mt[2:])
        for which in ("ctext_dec", "ctext_hex"):
            got = text_of(out[which][i])
            if which == "ctext_dec" and got is None and abs(v) >= 10 ** 4300:
                continue        # the decimal source text itself is beyond CPython's limit (outside the property)
            if got != exp_t:
                ctx.corr_break("consts:int_const_text(IntNode.generate_evaluation_code)", inp, str(out[which][i])[:120], mt[:80])
        if text_of(out["b32"][i]) != unhex(mb):
            ctx.corr_break("consts:to_base32", inp, out["b32"][i], mb[:80])
        if out["bitlen"][i] != int(ml):
            ctx.corr_break("consts:bit_length", inp, out["bitlen"][i], ml)
        # property: the pooled constant has the literal's value
        b32v = ival(out["b32dec"][i])
        if b32v != v:
            ctx.fail("base32_roundtrip_wrong", inp, out["b32dec"][i], hex(v))
        got = text_of(out["ctext_hex"][i])
        if got is None or isinstance(got, tuple):
            ctx.fail(classify_int(v), {"value": inp, "via": "IntNode(value=hex(v)).generate_evaluation_code"},
                     out["ctext_hex"][i], "a constant text", note="model int_emission: %s" % me[:40])
        else:
            rv = int(got, 0)
            if rv != v:
                ctx.fail("int_const_text_wrong", inp, got[:80], hex(v)[:80])
            if mval(me) != v:
                ctx.corr_break("consts:int_emission", inp, got[:80], me[:80])
    mr = B.get("neg")
    for v, d, line in zip(pos, out["negtext"], mr):
        inp = hex(v) if v.bit_length() < 200 else "%s...(%d bits)" % (hex(v)[:24], v.bit_length())
        ctx.case("emit/unop_node-minus", inp, sig=("neg", v))
        got = text_of(d)
        exp = None if line == "E" else unhex(line[2:])
        if got != exp:
            ctx.corr_break("consts:negated_literal_text(unop_node)", inp, str(d)[:120], line[:80])
        if got is None or isinstance(got, tuple):
            ctx.fail(classify_int(-v), {"value": "-" + inp, "via": "unop_node('-', IntNode)"}, d, "a literal text")
        elif int(got, 0) != -v:
            ctx.fail("negated_literal_wrong", inp, got[:80], hex(-v)[:80])

    # --- dedup keys ---
    mr = B.get("pairs")
    for (a, b), imp, line in zip(pairs, out["pairs"], mr):
        stratum = "dedup/" + a[0]
        if "nokey" in imp:
            if not line.startswith("NOKEY"):
                ctx.corr_break("consts:make_dedup_key", [a, b], imp, line)
            continue
        w = line.split()
        ctx.case(stratum + ("/key-equal" if imp["eq"] else "/key-differ"), [a, b], sig=("pair", json.dumps([a, b])),
                 nontrivial=imp["eq"])
        if w[0] != "K" or (w[1] == "1") != imp["eq"] or (w[2] == "1") != imp["eq_rev"]:
            ctx.corr_break("consts:key_eq(make_dedup_key)", [a, b], imp, line)
        if w[-1] != "1":
            ctx.corr_break("consts:wf_top(generator)", [a, b], "generated", line)
        if imp["eq"] and not imp["same"]:
            ctx.fail(classify_merge(a, b), {"pair": [a, b]}, "one shared constant", "two different constants")
    mr = B.get("scalareq")
    for (a, b), imp, line in zip(sc_pairs, out["scalareq"], mr):
        ctx.case("contract/==", [a, b], sig=("seq", json.dumps([a, b])), nontrivial=False)
        if imp != (line == "1"):
            ctx.corr_break("consts:scalar_eq(contract of ==)", [a, b], imp, line)

    # --- folding ---
    mr = B.get("fold2")
    for (op, a, b), (imp, orc), line in zip(fold2, out["fold2"], mr):
        check_fold(ctx, "fold/binop", [op, a, b], imp, orc, line)
    mr = B.get("fold1")
    for (op, a), (imp, orc), line in zip(fold1, out["fold1"], mr):
        check_fold(ctx, "fold/unop", [op, a], imp, orc, line)

    _tick("direct comparisons")
    # ---------------- (b) compiled modules ----------------
    exprs = gen_exprs(rng, quick)
    nmod = 4 if quick else 12
    chunks = [exprs[i::nmod] for i in range(nmod)]
    # one more module: many large constants with shared leading / trailing spelling characters
    chunks.append(big_exprs(rng, quick))
    nmod += 1
    import concurrent.futures as cf
    # negative literals and folded negatives beyond 4300 decimal digits: one module each (a compiler
    # crash must not hide the other cases)
    h = hex((1 << 15000) + 0xABCDEF)
    negs = [("c09neg1", "-" + h, "literal"), ("c09neg2", "0 - " + h, "folded"), ("c09neg3", "-(" + h + " + 1)", "folded")]
    with cf.ThreadPoolExecutor(max_workers=min(nmod + len(negs) + 1, 9)) as ex:
        # (c) constant folding of expression trees: tree after ConstantFolding vs model, values vs CPython
        ffut = ex.submit(C09_fold.run, ctx)
        futs = [ex.submit(build_and_compare, ctx, "c09m%d" % i, ch, model) for i, ch in enumerate(chunks)]
        nfuts = [ex.submit(build_and_compare, ctx, nm, [("lit/neg-huge", text)], model) for nm, text, _ in negs]
        for i, f in enumerate(futs):
            err = f.result()
            if err is not None:
                ctx.corr_break("module c09m%d" % i, "c09m%d" % i, str(err[1])[-1500:], "builds and runs")
        err = ffut.result()
        if err is not None:
            ctx.corr_break("module c09fold", "c09fold", str(err[1])[-1500:], "builds and runs")
        _tick("compiled modules")
        for (nm, text, via), f in zip(negs, nfuts):
            ctx.case("module/lit/neg-huge", text[:40] + "...", sig=("neghuge", nm))
            err = f.result()
            if err is not None:
                if err[0] == "build" and err[1].stage == "cython-crash" and "Exceeds the limit" in err[1].detail:
                    ctx.fail("neg_int_over_4300_digits_crash", {"expr": text[:60] + "...(15000 bits)", "via": via},
                             "compiler raises ValueError (int -> str conversion limit)", "module builds; value as in CPython")
                else:
                    ctx.corr_break("module " + nm, nm, str(err[1])[-1500:], "builds and runs")
    _tick("neg-huge modules")


def classify_int(v):
    if v <= -10 ** 4300:
        return "neg_int_over_4300_digits_crash"
    return "int_const_text_raises"


def check_fold(ctx, stratum, inp, imp, orc, line):
    """imp: what ConstantFolding returned; orc: CPython's own result; line: model"""
    ctx.case(stratum, inp, sig=("fold", json.dumps(inp)))
    if "e" in imp:
        ctx.corr_break("consts:fold(ConstantFolding raised)", inp, imp, line)
        return
    d = imp["v"]
    # model tie
    if d["k"] in ("same", "node", "float"):
        mk = "N"
    elif d["k"] == "operand":
        mk = "P"
    elif d["k"] == "bool":
        mk = "B %d" % d["v"]
    else:
        mk = "I %s" % hexs(d["text"])
    if line.split(" = ")[0] != mk:
        ctx.corr_break("consts:fold", inp, d, line)
    # property: a folded node has CPython's class and value
    if d["k"] == "bool":
        if orc != {"t": "bool", "v": hex(int(d["v"]))}:
            ctx.fail("fold_wrong", inp, d, orc)
    elif d["k"] == "int":
        if orc != {"t": "int", "v": d["v"]} or d["cr"] != d["v"]:
            ctx.fail("fold_wrong", inp, d, orc)
        if " = int " not in line or int(line.split(" = int ")[1]) != int(d["v"], 16):
            ctx.corr_break("consts:folded_value", inp, d, line)


def replay(ctx, obj):
    inp = obj["input"]
    print("replay input:", json.dumps(inp)[:400])
    if isinstance(inp, dict) and "expr" in inp and "..." not in inp["expr"]:
        model = ctx.model("consts")
        err = build_and_compare(ctx, "c09replay", [("replay", inp["expr"])], model)
        print("build/run:", err, "failures:", ctx.prop_failures[:2])
    elif isinstance(inp, dict) and "pair" in inp:
        r = cybuild.run_script(DIRECT, ctx.workdir, {"s2n": [], "lit": [], "pyint": [], "ints": [], "pairs": [inp["pair"]],
                                                     "scalareq": [], "fold2": [], "fold1": []}, name="c09_direct.py")
        print("make_dedup_key pair:", (r["json"] or {}).get("pairs"), "expected", obj.get("expected"))
    else:
        print("observed", obj.get("observed"), "expected", obj.get("expected"))
