"""C34 helper (not a property): how the generated fused dispatcher OBTAINS the value it dispatches on.

Signatures mix non-fused and fused parameters (one or two fused types, used once or several times)
in every order, with / without defaults (literal and non-literal), positional-only / keyword-only
markers, *args / **kwargs, as def, cpdef, methods of cdef and Python classes, cpdef methods and
static methods; calls pass every parameter positionally / by keyword / not at all, plus surplus
positionals, unknown keywords, the name of a positional-only parameter as keyword, duplicates.

Three-way: compiled function  vs  extracted model (M_FusedArgs.call2_cy)  vs  oracle = CPython's own
binding of the same call on an untyped twin function + the documented member choice for the BOUND
value of the first parameter of each fused type.  The compile-time half of the model (which index,
name and defaults-tuple slot each unpacking block uses) is compared with the dispatcher source text
that FusedNode generates (captured while compiling)."""
import itertools, json, os, re, threading
import cybuild

FX_KINDS = os.environ.get("C34_FX_KINDS", "1") == "1"   # flip after proposed_fixes/C34-fused_arg_fetch_ignores_parameter_kind.diff

FT_MEMBERS = {"A": ["i6.1", "f12"], "B": ["f12", "c12"]}      # long/double ; double/double complex
TYPEOF = {"long": "i6.1", "double": "f12", "double complex": "c12"}
KEY = {"i6.1": "long", "f12": "double", "c12": "double complex"}
NAME_NUM = {"self": 99, "zz": 77}


def name_num(n):
    return NAME_NUM[n] if n in NAME_NUM else int(n[1:])


def lit(tag, uid):
    return {"I": str(100 + uid), "F": "%d.5" % uid, "C": "(%d+1j)" % uid, "L1": '"s%d"' % uid,
            "L2": "[%d]" % uid}[tag]


# ---------------------------------------------------------------- signatures
def mk_sig(name, how, params, star=False, kw=False, fts=("A", "B")):
    """params: list of (kind, ft, default) ; kind o/k/w ; ft None/0/1 ; default None or tag or tag+'g' (global)"""
    ps = []
    for i, (k, ft, d) in enumerate(params):
        dd = None
        if d is not None:
            dd = {"tag": d.rstrip("g"), "uid": 50 + i, "glob": d.endswith("g")}
        ps.append({"n": "p%d" % i, "k": k, "ft": ft, "d": dd})
    return {"name": name, "how": how, "params": ps, "star": star, "kw": kw,
            "fts": [fts[j] for j in range(1 + max([p["ft"] for p in ps if p["ft"] is not None]))]}


def sig_ok(s):
    ps = s["params"]
    order = {"o": 0, "k": 1, "w": 2}
    if any(order[a["k"]] > order[b["k"]] for a, b in zip(ps, ps[1:])):
        return False
    seen_def = False
    for p in ps:
        if p["k"] != "w":
            if p["d"] is None and seen_def:
                return False
            seen_def = seen_def or p["d"] is not None
    nxt = 0
    for p in ps:
        if p["ft"] is not None:
            if p["ft"] > nxt:
                return False
            nxt = max(nxt, p["ft"] + 1)
    if nxt == 0:
        return False
    if s["how"] in ("cpdef", "cpmeth") and (s["star"] or s["kw"] or any(p["k"] != "k" for p in ps)):
        return False
    for p in ps:       # a default must convert to every member of the parameter's fused type
        if p["d"] is not None and p["ft"] is not None:
            ms = FT_MEMBERS[s["fts"][p["ft"]]]
            if p["d"]["tag"] not in ("I", "F"):
                return False
            if p["d"]["tag"] == "F" and "i6.1" in ms and not p["d"]["glob"]:
                return False
    return True


def params_text(s, typed):
    ps = s["params"]
    parts = []
    star_done = False
    for i, p in enumerate(ps):
        if p["k"] == "w" and not star_done:
            parts.append("*args" if s["star"] else "*")
            star_done = True
        t = ("FT_%s_%d " % (s["name"], p["ft"])) if (typed and p["ft"] is not None) else ""
        d = ""
        if p["d"] is not None:
            d = "=" + (("G_%s_%d" % (s["name"], i)) if p["d"]["glob"] else lit(p["d"]["tag"], p["d"]["uid"]))
        parts.append(t + p["n"] + d)
        if p["k"] == "o" and (i + 1 == len(ps) or ps[i + 1]["k"] != "o"):
            parts.append("/")
    if s["star"] and not star_done:
        parts.append("*args")
    if s["kw"]:
        parts.append("**kw")
    return ", ".join(parts)


def has_self(s):
    return s["how"] in ("cmeth", "pmeth", "cpmeth")


def sig_source(s, typed):
    L = []
    for i, p in enumerate(s["params"]):
        if p["d"] is not None and p["d"]["glob"]:
            L.append("G_%s_%d = %s" % (s["name"], i, lit(p["d"]["tag"], p["d"]["uid"])))
    if typed:
        for j, ft in enumerate(s["fts"]):
            L.append("ctypedef fused FT_%s_%d:" % (s["name"], j))
            L += ["    " + KEY[t] for t in FT_MEMBERS[ft]]
    ps = [p["n"] for p in s["params"]]
    fused = [p["n"] for p in s["params"] if p["ft"] is not None]
    vals = "(" + ", ".join(ps) + ",)"
    extra = ", %s, %s" % ("args" if s["star"] else "None", "kw" if s["kw"] else "None")
    if typed:
        body = "return (" + ", ".join("cython.typeof(%s)" % v for v in fused) + ",), " + vals + extra
    else:
        body = "return " + vals + extra
    pt = params_text(s, typed)
    how = s["how"]
    if not typed:
        selfp = "self, " if has_self(s) else ""
        L += ["def %s(%s%s):" % (s["name"], selfp, pt), "    " + body]
    elif how in ("def", "cpdef"):
        L += ["%s %s(%s):" % (how, s["name"], pt), "    " + body]
    elif how in ("cmeth", "cpmeth", "smeth"):
        L.append("cdef class K_%s:" % s["name"])
        if how == "smeth":
            L += ["    @staticmethod", "    def %s(%s):" % (s["name"], pt)]
        else:
            L.append("    %s %s(self, %s):" % ("cpdef" if how == "cpmeth" else "def", s["name"], pt))
        L.append("        " + body)
    else:
        L += ["class K_%s:" % s["name"], "    def %s(self, %s):" % (s["name"], pt), "        " + body]
    return "\n".join(L) + "\n"


def target_expr(s):
    how = s["how"]
    if how in ("def", "cpdef"):
        return s["name"]
    if how == "smeth":
        return "K_%s.%s" % (s["name"], s["name"])
    return "K_%s().%s" % (s["name"], s["name"])


def gen_module(sigs):
    return "# cython: language_level=3\ncimport cython\n\n" + "\n".join(sig_source(s, True) for s in sigs)


def gen_twins(sigs):
    return "\n".join(sig_source(s, False) for s in sigs)


def core_sigs():
    S = []

    def add(how, params, **k):
        s = mk_sig("a%d" % len(S), how, params, **k)
        assert sig_ok(s), s
        S.append(s)
    K, O, W = "k", "o", "w"
    # default_idx: defaulted parameters before the dispatched one (non-fused, repeated fused, other fused type)
    add("def", [(K, None, "L1"), (K, 0, "I")])
    add("def", [(K, None, "F"), (K, 0, "I")])
    add("def", [(K, None, None), (K, None, "L2"), (K, None, "I"), (K, 1 - 1, "Fg")])
    add("def", [(K, 0, "I"), (K, None, "F"), (K, 0, "Fg"), (K, 1, "F")])
    add("def", [(K, 0, None), (K, None, "F"), (K, 1, "I")], fts=("B", "A"))
    add("def", [(K, 0, "F"), (K, 1, "I"), (K, None, "L1")], fts=("B", "A"))
    add("def", [(K, None, "I"), (K, None, "F"), (K, None, "C"), (K, 0, "I")])
    # keyword-only / positional-only / star arguments
    add("def", [(K, None, None), (W, 0, "I")])
    add("def", [(K, None, "F"), (W, None, "F"), (W, 0, "I")], kw=True)
    add("def", [(W, 0, "I")], star=True)
    add("def", [(K, None, None), (K, 0, None), (W, None, "I"), (W, 1, "F")], star=True, kw=True)
    add("def", [(O, 0, "I")], kw=True)
    add("def", [(O, None, "F"), (O, 0, "I"), (K, 1, "F")])
    add("def", [(O, None, "L1"), (O, 0, "Fg"), (W, 1, "I")], star=True, kw=True, fts=("A", "B"))
    add("def", [(K, 0, None), (K, None, "I")], star=True)
    add("def", [(W, None, "F"), (W, 0, None), (W, 1, "F")])
    # cpdef, methods
    add("cpdef", [(K, None, "F"), (K, 0, "I")])
    add("cpdef", [(K, None, None), (K, 0, "I"), (K, None, "L1"), (K, 1, "F")])
    add("cmeth", [(K, None, "F"), (K, 0, "I")])
    add("cmeth", [(O, None, "L1"), (K, 0, "I"), (W, 1, "F")], kw=True)
    add("pmeth", [(K, None, "F"), (K, 0, "I"), (W, None, "I"), (W, 1, "F")])
    add("cpmeth", [(K, None, "L2"), (K, 0, "I")])
    add("smeth", [(K, None, "F"), (K, 0, "I")])
    return S


def random_sig(rng, name):
    for _ in range(200):
        how = rng.choice(["def"] * 6 + ["cpdef", "cmeth", "pmeth", "cpmeth", "smeth"])
        n = rng.choice([1, 2, 2, 3, 3, 3, 4, 4])
        if how in ("cpdef", "cpmeth"):
            kinds = ["k"] * n
        else:
            a = rng.randint(0, n) if rng.random() < 0.35 else 0
            c = rng.randint(0, n - a) if rng.random() < 0.5 else 0
            kinds = ["o"] * a + ["k"] * (n - a - c) + ["w"] * c
        fts, nxt = [], 0
        for i in range(n):
            ch = rng.choice([None, None, 0, 1])
            if ch is not None:
                ch = min(ch, nxt)
                nxt = max(nxt, ch + 1)
            fts.append(ch)
        if nxt == 0:
            fts[rng.randrange(n)] = 0
        defs = []
        pdef = rng.random()
        for i in range(n):
            if rng.random() < (0.75 if pdef < 0.7 else 0.3):
                if fts[i] is None:
                    defs.append(rng.choice(["I", "F", "F", "C", "L1", "L2", "Ig", "Fg"]))
                else:
                    defs.append(rng.choice(["I", "I", "Fg", "Ig", "F"]))
            else:
                defs.append(None)
        star = how not in ("cpdef", "cpmeth") and rng.random() < 0.3
        kw = how not in ("cpdef", "cpmeth") and rng.random() < 0.3
        s = mk_sig(name, how, list(zip(kinds, fts, defs)), star=star, kw=kw,
                   fts=rng.choice([("A", "B"), ("A", "B"), ("B", "A"), ("A", "A")]))
        if sig_ok(s):
            return s
    raise RuntimeError("no signature")


# ---------------------------------------------------------------- calls
def first_params(s):
    seen, out = set(), []
    for i, p in enumerate(s["params"]):
        if p["ft"] is not None and p["ft"] not in seen:
            seen.add(p["ft"])
            out.append(i)
    return out


def enum_calls(s):
    """(npositional, {param index: 'k'} keyword-given, extras) ; extras: list of 'zz' / 'dup<i>' / 'po<i>'"""
    ps = s["params"]
    n = len(ps)
    npos = sum(1 for p in ps if p["k"] != "w")
    out = []
    for np_ in range(0, npos + (3 if s["star"] else 2)):
        rest = list(range(min(np_, npos), n))
        for modes in itertools.product("kd", repeat=len(rest)):
            kws = [i for i, m in zip(rest, modes) if m == "k"]
            out.append((np_, kws, []))
    base = list(out)
    for (np_, kws, _) in base:
        if len(out) > 400:
            break
        out.append((np_, kws, ["zz"]))
        if np_ > 0:
            out.append((np_, kws, ["dup%d" % (min(np_, npos) - 1)]))
    return out


def call_profile(s, c):
    np_, kws, extras = c
    ps = s["params"]
    npos = sum(1 for p in ps if p["k"] != "w")
    prof = []
    for i in first_params(s):
        if i < min(np_, npos):
            prof.append("P")
        elif i in kws:
            prof.append("K")
        elif ps[i]["d"] is not None:
            prof.append("D")
        else:
            prof.append("M")
    return "".join(prof) + ("+over" if np_ > npos else "") + ("+" + extras[0][:2] if extras else "")


def pick_calls(rng, s, budget):
    allc = enum_calls(s)
    rng.shuffle(allc)
    seen, first, rest = set(), [], []
    for c in allc:
        pr = call_profile(s, c)
        (rest if pr in seen else first).append(c)
        seen.add(pr)
    return (first + rest)[:budget]


def concretise(rng, s, c):
    """choose value tags: -> (args [[tag, uid]], kwargs {name: [tag, uid]})"""
    np_, kws, extras = c
    ps = s["params"]

    def tag_for(i):
        if i is None or ps[i]["ft"] is None:
            return rng.choice(["I", "F", "C", "L1", "L2"])
        ms = FT_MEMBERS[s["fts"][ps[i]["ft"]]]
        good = ["I", "F"] if "i6.1" in ms else ["F", "C"]
        return rng.choice(good + good + good + ["I", "F", "C", "L1"])
    args = [[tag_for(i if i < len(ps) and ps[i]["k"] != "w" else None), i] for i in range(np_)]
    # positionals beyond the positional parameters land in *args (or make the call fail)
    kwargs = {}
    for i in kws:
        kwargs[ps[i]["n"]] = [tag_for(i), 20 + i]
    for e in extras:
        if e == "zz":
            kwargs["zz"] = [rng.choice(["I", "F"]), 40]
        elif e.startswith("dup"):
            i = int(e[3:])
            if i < len(ps):
                kwargs[ps[i]["n"]] = [tag_for(i), 30 + i]
    return args, kwargs


# ---------------------------------------------------------------- scripts
DUMP = r'''
import pyload; pyload.install()
import sys, json, os
from Cython.Compiler import Main, Options, FusedNode, TreeFragment
pyload.assert_sources()
spec = json.load(sys.stdin)
OUT = []
orig = FusedNode.FusedCFuncDefNode.make_fused_cpdef
def wrapped(self, orig_py_func, env, is_def):
    cap = []
    TF = TreeFragment.TreeFragment
    class Spy(TF):
        def __init__(s, code, *a, **k):
            cap.append(code if isinstance(code, str) else "".join(code))
            TF.__init__(s, code, *a, **k)
    TreeFragment.TreeFragment = Spy
    try:
        return orig(self, orig_py_func, env, is_def)
    finally:
        TreeFragment.TreeFragment = TF
        OUT.append([str(getattr(orig_py_func, "name", "?")), cap])
FusedNode.FusedCFuncDefNode.make_fused_cpdef = wrapped
res = {}
for name, src in spec["mods"]:
    del OUT[:]
    path = os.path.join(os.getcwd(), name + ".pyx")
    with open(path, "w") as f:
        f.write(src)
    directives = dict(Options.get_directive_defaults()); directives["language_level"] = 3
    opts = Main.CompilationOptions(Main.default_options, compiler_directives=directives,
                                   output_file=os.path.join(os.getcwd(), name + ".c"))
    err = None
    try:
        r = Main.compile(path, opts)
        if r.num_errors: err = "errors: %d" % r.num_errors
    except BaseException as e:
        err = repr(e)[:500]
    res[name] = {"err": err, "frags": list(OUT)}
print(json.dumps(res))
'''

WORKER = r'''
import sys, json
spec = json.load(sys.stdin)
mods = {mn: __import__(mn) for mn in spec["mods"]}
TW = {}
exec(spec["twins"], TW)
def mkval(t):
    tag, uid = t
    if tag == "I": return 100 + uid
    if tag == "F": return uid + 0.5
    if tag == "C": return complex(uid, 1)
    if tag == "L1": return "s%d" % uid
    if tag == "L2": return [uid]
    if tag == "O": return SELF
class Self: pass
SELF = Self()
def ident(v):
    """(tag, uid) of a value built by mkval / a default literal"""
    if v is SELF: return ["O", 99]
    if isinstance(v, bool): return ["T", 0]
    if isinstance(v, int): return ["I", v - 100]
    if isinstance(v, float): return ["F", int(v - 0.5)]
    if isinstance(v, complex): return ["C", int(v.real)]
    if isinstance(v, str): return ["L1", int(v[1:])]
    if isinstance(v, list): return ["L2", v[0]]
    return ["?", -1]
def enc(v):
    if isinstance(v, tuple): return [enc(x) for x in v]
    if isinstance(v, dict): return {k: enc(x) for k, x in v.items()}
    if isinstance(v, complex): return {"c": [v.real, v.imag]}
    if isinstance(v, (int, float, str, list)) or v is None: return v
    return repr(v)
out = []
for c in spec["cases"]:
    mod = mods[c["mod"]]
    args = [mkval(t) for t in c["args"]]
    kwargs = {k: mkval(t) for k, t in c["kwargs"].items()}
    r = {}
    try:
        f = eval(c["target"], vars(mod))
        if c["index"] is not None:
            f = f[c["index"]]
        ty, vals, st, kw = f(*args, **kwargs)
        r["cy"] = {"ty": list(ty), "vals": enc(vals), "star": enc(st), "kw": enc(kw)}
    except BaseException as e:
        r["cy"] = {"e": type(e).__name__, "m": str(e)[:160]}
    try:
        g = TW[c["twin"]]
        vals, st, kw = g(*(([SELF] if c["self"] else []) + args), **kwargs)
        r["py"] = {"vals": enc(vals), "star": enc(st), "kw": enc(kw), "ids": [ident(v) for v in vals]}
    except TypeError as e:
        r["py"] = {"e": "TypeError", "m": str(e)[:160]}
    out.append(r)
print(json.dumps(out))
'''

BLOCK = re.compile(r"# PROCESSING ARGUMENT (\d+)\n(.*?)(?=# PROCESSING ARGUMENT|\Z)", re.S)


def parse_fragment(text):
    """[(index, name, reads_positional, reads_kwargs, default_idx or None, n_dest)] from the dispatcher source"""
    out = []
    for m in BLOCK.finditer(text):
        idx, body = int(m.group(1)), m.group(2)
        pos = re.search(r"if (\d+) < arg_count:\s*\n\s*arg = \(<tuple>args\)\[(\d+)\]", body)
        kw = re.search(r"'(\w+)' in <dict>kwargs:\s*\n\s*arg = \(<dict>kwargs\)\['(\w+)'\]", body)
        df = re.search(r"arg = \(<tuple>defaults\)\[(\d+)\]", body)
        rs = re.search(r'__Pyx_RaiseFusedFunctionArgTypeError\("(\w+)", (\d+), (\d+), arg_count\)', body)
        name = kw.group(1) if kw else (rs.group(1) if rs else None)
        bad = (pos and (int(pos.group(1)) != idx or int(pos.group(2)) != idx)) or (kw and kw.group(1) != kw.group(2)) \
            or (rs and int(rs.group(2)) != idx) or (bool(df) == bool(rs))
        out.append({"idx": idx, "name": name, "pos": bool(pos), "kw": bool(kw),
                    "def": int(df.group(1)) if df else None, "bad": bool(bad),
                    "dest": len(re.findall(r"dest_sig\d+ = ", body))})
    return out


# ---------------------------------------------------------------- model protocol
def vtok(t):
    return "%s.%d" % (t[0], t[1])


def sig_tokens(s):
    ps = []
    if has_self(s):
        ps.append("99:k:-:-")
    for p in s["params"]:
        ps.append("%d:%s:%s:%s" % (name_num(p["n"]), p["k"], "-" if p["ft"] is None else str(p["ft"]),
                                   "-" if p["d"] is None else vtok([p["d"]["tag"], p["d"]["uid"]])))
    return ",".join(ps), "1" if s["star"] else "0", "1" if s["kw"] else "0"


def call_tokens(s, args, kwargs):
    a = ([vtok(["O", 99])] if has_self(s) else []) + [vtok(t) for t in args]
    k = ["%d=%s" % (name_num(n), vtok(t)) for n, t in kwargs.items()]
    return (",".join(a) or "-"), (",".join(k) or "-")


def mss_token(s):
    return ";".join(",".join(FT_MEMBERS[ft]) for ft in s["fts"])


def dec(v):
    return complex(*v["c"]) if isinstance(v, dict) and set(v) == {"c"} else v


def classify(s, args, kwargs):
    ps = s["params"]
    for i in first_params(s):
        if s["star"] and ps[i]["k"] == "w" and i < len(args):
            return "kwonly_fused_param_read_from_positional_args"
    for i in first_params(s):
        if s["kw"] and ps[i]["k"] == "o" and i >= len(args) and ps[i]["n"] in kwargs:
            return "posonly_fused_param_read_from_kwargs"
    return "fused_arg_fetch_differs_from_binding"


# ---------------------------------------------------------------- plan / run
class ArgsPart:
    def __init__(self, ctx):
        self.ctx = ctx
        quick = ctx.tier == "quick"
        # own generator, seeded from the state of ctx.rng without consuming it (the declarations and
        # argument tuples of the type-lattice part stay the ones of the seed)
        import random
        rng = self.rng = random.Random()
        rng.setstate(ctx.rng.getstate())
        rng.random()
        sigs = core_sigs()
        nrand = 14 if quick else 340
        for i in range(nrand):
            sigs.append(random_sig(rng, "a%d" % len(sigs)))
        per = 45 if quick else 40
        self.groups = {}
        for j in range(0, len(sigs), per):
            self.groups["c34_args%d" % (j // per)] = sigs[j:j + per]
        self.sigs = sigs
        self.budget = 12 if quick else 48
        self.specs = [dict(name=m, source=gen_module(g), workdir=ctx.workdir, cflags=["-O0"])
                      for m, g in sorted(self.groups.items())]
        self.dump = None
        self.thread = None

    def start_dump(self):
        """translate (capturing the generated dispatcher text) + gcc, in the background"""
        self.dump = {"json": {}, "err": ""}
        self.build_errors = []

        def one(sp):
            r = cybuild.run_script(DUMP, self.ctx.workdir, stdin_obj={"mods": [[sp["name"], sp["source"]]]},
                                   name="c34_dump_%s.py" % sp["name"], timeout=1500)
            if r["json"] is None:
                return sp["name"], None, (r["err"] or r["out"])[-800:]
            info = r["json"][sp["name"]]
            if info["err"]:
                return sp["name"], info, None
            rc, err = cybuild.cc(os.path.join(self.ctx.workdir, sp["name"] + ".c"),
                                 os.path.join(self.ctx.workdir, sp["name"] + cybuild.EXT), cflags=["-O0"])
            return sp["name"], info, (err[-800:] if rc != 0 else None)

        def go():
            import concurrent.futures as cf
            with cf.ThreadPoolExecutor(max_workers=4) as ex:
                for name, info, err in ex.map(one, self.specs):
                    if info is not None:
                        self.dump["json"][name] = info
                    if err:
                        self.build_errors.append((name, err))
        self.thread = threading.Thread(target=go)
        self.thread.start()

    # ---- compile-time tie: generated dispatcher text vs model plans
    def check_plans(self, model):
        ctx = self.ctx
        self.thread.join()
        d = self.dump
        for name, err in self.build_errors:
            ctx.corr_break("build " + name, gen_module(self.groups[name])[:3000], err, "module builds")
        if self.build_errors:
            return False
        q, meta = [], []
        for m, g in sorted(self.groups.items()):
            info = d["json"].get(m) or {}
            if info.get("err"):
                ctx.corr_break("dispatcher source dump " + m, gen_module(g)[:2000], info["err"], "module compiles")
                continue
            frags = {}
            for nm, cap in info.get("frags", []):
                frags[nm] = [t for t in cap if "__pyx_fused_cpdef" in t]
            for s in g:
                q.append("plans 1 " + sig_tokens(s)[0])
                meta.append((m, s, frags.get(s["name"])))
        res = model.batch(q)
        for (m, s, fr), line in zip(meta, res):
            inp = {"module": m, "signature": "%s %s(%s)" % (s["how"], s["name"], params_text(s, True)),
                   "source": sig_source(s, True)}
            ctx.case("args/plans/%s" % s["how"], inp, sig=("plans", m, s["name"]))
            if not fr or len(fr) != 1:
                ctx.corr_break("fused:plans (dispatcher source not captured)", inp, repr(fr)[:300], line)
                continue
            got = parse_fragment(fr[0])
            exp = []
            for t in (line.split(";") if line != "-" else []):
                ft, idx, nm, kd, df = t.split(":")
                exp.append({"idx": int(idx), "name": ("self" if nm == "99" else "p" + nm),
                            "pos": not (FX_KINDS and kd == "w"), "kw": not (FX_KINDS and kd == "o"),
                            "def": None if df == "-" else int(df), "bad": False, "dest": 1})
            # a block without a keyword test has no name in its text unless it raises
            for g_, e_ in zip(got, exp):
                if g_["name"] is None and not g_["kw"]:
                    g_["name"] = e_["name"]
            if got != exp:
                inp["dispatcher"] = fr[0][-1500:]
                # which defaults-tuple slot / index / name the dispatcher reads: a wrong one is a
                # violation in itself once a call reaches it; the call cases below supply the input
                ctx.corr_break("fused:plans (index, name, defaults slot per unpacking block)", inp, got, exp)
        return True

    def finish(self, base, bits):
        ctx = self.ctx
        rng = self.rng
        model = ctx.model("fused")
        if not self.check_plans(model):
            return
        cases, meta = [], []
        for m, g in sorted(self.groups.items()):
            for s in g:
                calls = pick_calls(rng, s, self.budget)
                keys = list(itertools.product(*[FT_MEMBERS[ft] for ft in s["fts"]]))
                for ci, c in enumerate(calls):
                    args, kwargs = concretise(rng, s, c)
                    idxs = [None]
                    if ci < 2:
                        idxs += ["|".join(KEY[t] for t in k) for k in keys]
                    for ix in idxs:
                        cases.append({"mod": m, "target": target_expr(s), "twin": s["name"], "self": has_self(s),
                                      "args": args, "kwargs": kwargs, "index": ix})
                        meta.append((m, s, c, args, kwargs, ix))
        wr = cybuild.run_script(WORKER, ctx.workdir,
                                stdin_obj={"mods": sorted(self.groups), "twins": gen_twins(self.sigs), "cases": cases},
                                name="c34_args_worker.py", timeout=1500)
        if wr["json"] is None or len(wr["json"]) != len(cases):
            ctx.corr_break("args worker", "c34_args_worker.py", (wr["err"] or wr["out"])[-800:], "one result per case")
            return
        q = []
        for (m, s, c, args, kwargs, ix) in meta:
            ps, st, kw = sig_tokens(s)
            a, k = call_tokens(s, args, kwargs)
            if ix is None:
                q.append("call2 1 %d %d %s %s %s %s %s %s %s" % (FX_KINDS, base.FX_FAST, bits, mss_token(s), ps, st, kw, a, k))
            else:
                q.append("index2 %s %s %s %s %s %s %s" % (mss_token(s), ps, st, kw,
                                                          ",".join(TYPEOF[x] for x in ix.split("|")), a, k))
        mres = model.batch(q)
        for (m, s, c, args, kwargs, ix), r, ql, mr in zip(meta, wr["json"], q, mres):
            inp = {"module": m, "signature": "%s %s(%s)" % (s["how"], s["name"], params_text(s, True)),
                   "call": "%s%s(%s)" % (target_expr(s), "[%r]" % ix if ix else "",
                                         ", ".join([lit(*t) for t in args] + ["%s=%s" % (n, lit(*t)) for n, t in kwargs.items()])),
                   "source": sig_source(s, True)}
            cy, py = r["cy"], r["py"]
            # ---- oracle: CPython's binding + documented choice on the bound values
            fidx = [i for i, p in enumerate(s["params"]) if p["ft"] is not None]
            if "e" in py:
                exp, tags = "TYPEERR", None
            else:
                tags = [t[0] for t in py["ids"]]
                if ix is None:
                    sg = []
                    for j, i in enumerate(first_params(s)):
                        sg.append(base.o_choice(FT_MEMBERS[s["fts"][j]], tags[i]))
                else:
                    sg = [TYPEOF[x] for x in ix.split("|")]
                if None in sg or not all(base.o_conv(sg[s["params"][i]["ft"]], tags[i]) for i in fidx):
                    exp = "TYPEERR"
                else:
                    exp = "RAN " + ",".join(sg)
            # ---- observed
            if "e" in cy:
                got = "TYPEERR" if cy["e"] == "TypeError" else "EXC " + cy["e"]
            else:
                sg = [None] * len(s["fts"])
                got = None
                for i, ty in zip(fidx, cy["ty"]):
                    t = TYPEOF.get(ty)
                    j = s["params"][i]["ft"]
                    if t is None or (sg[j] is not None and sg[j] != t):
                        got = "INCONSISTENT " + ",".join(cy["ty"])
                    sg[j] = t
                got = got or "RAN " + ",".join(sg)
            prof = call_profile(s, c)
            stratum = "args/%s/%s/%dft/%s/%s" % ("index" if ix else "call", s["how"], len(s["fts"]), prof,
                                                 "raise" if exp == "TYPEERR" else "run")
            ctx.case(stratum, inp, sig=(m, s["name"], json.dumps([args, kwargs], sort_keys=True), ix),
                     nontrivial=("D" in prof or "K" in prof or exp == "TYPEERR"))
            if ix is None:
                parts = [x.strip() for x in mr.split(";")]
                if len(parts) != 5 or not parts[4].startswith("wf"):
                    ctx.corr_break("model protocol (call2)", ql, got, mr)
                    continue
                mcall, mdoc, mfetch, mbound = parts[:4]
                # Gallina bind_py vs CPython's binding (ids of the bound values)
                pyb = "TYPEERR" if "e" in py else "BOUND " + ",".join(
                    (["99"] if has_self(s) else []) + [str(t[1]) for t in py["ids"]])
                if mbound != pyb:
                    ctx.corr_break("fused:bind_py vs CPython binding", inp, pyb, mbound)
            else:
                mcall = mdoc = mr
            if mdoc != exp:
                ctx.corr_break("documented rules: Gallina doc_call2 vs Python oracle", inp, exp, mdoc)
            if got != mcall:
                ctx.corr_break("fused:call2_cy" if ix is None else "fused:call_index", inp,
                               got + (" (%s)" % cy.get("m", "") if "e" in cy else ""), mr)
            if got != exp:
                if ix is None:
                    ctx.fail(classify(s, args, kwargs), inp, got + (" (%s)" % cy.get("m", "") if "e" in cy else ""), exp,
                             note="model: %s" % mr)
                else:
                    ctx.fail("explicit_index_call_differs_from_binding", inp, got, exp, note="model: %s" % mr)
            elif "e" not in cy and "e" not in py:
                # bound values seen by the specialisation vs CPython's binding (== : 103 == 103.0)
                pv = py["vals"]
                sgl = exp[4:].split(",")
                same = True
                for i, (a, b) in enumerate(zip(cy["vals"], pv)):
                    p = s["params"][i]
                    if p["ft"] is not None and not base.o_exact(tags[i], sgl[p["ft"]]) and tags[i] != "I":
                        continue            # a narrowing conversion (float -> long) is allowed to change the value
                    same = same and (dec(a) == dec(b))
                if not same or (s["star"] and cy["star"] != py["star"]) or (s["kw"] and cy["kw"] != py["kw"]):
                    ctx.fail("specialisation_binds_other_values_than_cpython", inp,
                             [cy["vals"], cy["star"], cy["kw"]], [pv, py["star"], py["kw"]])
        if os.environ.get("C34_DEBUG"):
            with open(os.environ["C34_DEBUG"], "w") as f:
                json.dump({"fails": getattr(ctx, "prop_failures", None), "breaks": getattr(ctx, "corr_breaks", None)},
                          f, indent=1, default=repr)
        ctx.extra["args_signatures"] = len(self.sigs)
        ctx.extra["args_modules"] = sorted(self.groups)
