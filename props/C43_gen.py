"""C43_gen: grammar-based generator of VALID Python 3.12 programs (compile-only fuzzing).

Pure stdlib helper, no side effects on import.  API:
  gen_program(rng, size=12) -> str      valid module mixing all 3.12 statement/expression kinds
  gen_literal_program(rng) -> str       literal-focused valid module (extreme but legal literals)
  mutate(rng, src) -> str               mutated/truncated variant (not necessarily valid, UTF-8 encodable)
  shrink(src, still_fails, max_calls=200) -> str   statement-deletion / ddmin shrinking
  features_of(src) -> set[str]          lower-cased ast node class names;  FEATURES lists all tags
  token_programs(max_dots=7) -> (groups, rejected)   systematic token/grammar interaction snippets (dot runs in relative
                                        imports, `...` everywhere, glued operators, soft keywords), grouped into modules
Knobs (module globals): CYTHON_HEADER (first comment line of gen_program output), PEP701_PROB, TYPES.
Name discipline: all generated names are globally unique (vN/fN/CN/...), names are only read
after a definite top-of-scope binding, locals are initialised at the top of every function,
`del` only touches throw-away names, except-as names are fresh and handler-local.
"""
import ast
import copy
import random
import re
import sys

PEP701_PROB = 0.15      # share of f-strings that rely on PEP 701 (same-quote nesting, nested str)
# First line of every gen_program() output: a plain comment for CPython, switches off Cython's static
# interpretation of annotations / literal-only locals (deliberate rejections).  Set to '' to disable.
CYTHON_HEADER = '# cython: annotation_typing=False, infer_types=False'
BTYPES = ['int', 'str', 'list', 'dict', 'tuple', 'set', 'float', 'bool', 'bytes', 'complex', 'object', 'type',
          'ValueError', 'TypeError', 'KeyError', 'Exception']
BCALLS = ['len(%s)', 'print(%s, %s, sep=%s)', 'isinstance(%s, int)', 'range(%s)', 'str(%s)', 'int(%s)', 'list(%s)',
          'dict(k=%s)', 'sorted(%s, key=%s, reverse=True)', 'abs(%s)', 'min(%s, %s)', 'max(%s, default=%s)',
          'sum(%s)', 'repr(%s)', 'type(%s)', 'tuple(%s)', 'set(%s)', 'float(%s)', 'bool(%s)', 'zip(%s, %s)',
          'enumerate(%s)', 'map(%s, %s)', 'iter(%s)', 'next(%s, None)', 'id(%s)', 'hash(%s)', 'bytes(%s)',
          'divmod(%s, %s)', 'any(%s)', 'all(%s)', 'getattr(%s, "x", None)', 'print(*%s, **%s)', 'isinstance(%s, (str, %s))']
_big = re.compile(r'[-+~ ]*[0-9.][0-9a-zA-Z_.+-]{4,}$').match
_num = re.compile(r'[-+~ ]*(0[xXoObB])?[0-9.][0-9a-zA-Z_.]*([eE][-+]?[0-9_]+)?[jJ]?$').match   # numeric literal
_int = re.compile(r'[-+~ ]*(0[xX][0-9a-fA-F_]+|0[oObB][0-7_]+|[0-9_]+)$').match
EXCS = ['ValueError', 'TypeError', 'KeyError', 'Exception', 'OSError', 'IndexError',
        'RuntimeError', 'AttributeError', 'ZeroDivisionError']
PATCLS = ['int', 'str', 'float', 'list', 'dict', 'tuple', 'bytes', 'bool', 'set', 'complex']
ATTRS = ['real', 'imag', 'x', 'y', 'name', 'value', 'append', 'items', 'keys', '__doc__',
         'args', 'count', 'data', 'é_attr']
KWS = ['key', 'default', 'end', 'sep', 'start', 'k', 'reverse', 'strict']
MODS = ['os', 'sys', 'math', 'collections', 'itertools', 'functools', 'json', 're']
SUBMODS = ['os.path', 'collections.abc', 'xml.dom', 'email.utils', 'importlib.util']
FROMS = [('os', 'path'), ('math', 'pi'), ('collections', 'OrderedDict'), ('sys', 'argv'),
         ('itertools', 'chain'), ('functools', 'reduce'), ('os.path', 'join')]
TYPES = ['int', 'str', 'float', 'int | None', 'str | None', "'int'", '"list[int]"', 'list[int]',
         'dict[str, int]', 'tuple[int, ...]', 'object', 'None', 'list[int | None]', "'C | None'",
         'bytes | str | None', 'type[int]']
BINOPS = ['+', '-', '*', '/', '//', '%', '**', '@', '<<', '>>', '&', '|', '^']
CMPOPS = ['<', '>', '<=', '>=', '==', '!=', 'in', 'not in', 'is', 'is not']
NUMS = ['0', '1', '2', '7', '42', '1_000', '0xFF', '0X1f', '0o17', '0O7', '0b101', '0B1_0', '1.5',
        '1.', '.5', '1e10', '1E-5', '1.5e+3', '2j', '1.5J', '1e3j', '0x_ff', '1_0.0_1', '00',
        '0_0', '123456789012345678901234567890', '0.0', '3.14', '0j', '1_0j', '10', '100', '255']
S_ESC = ['abc', ' ', '\\n', '\\t', '\\\\', '\\x41', '\\101', '\\0', '\\377', '\\\n', "\\'", '\\"',
         'a b', '%d', '0', '\\r', '\\a', '\\b', '\\f', '\\v', 'Z']
S_UNI = ['\\N{EM DASH}', '\\N{LATIN SMALL LETTER A}', '\\u00e9', '\\U0001F600', 'é',
         '中文', '\U0001F600', '{}', '%s']
S_RAW = ['abc', r'\d+', r'\w', ' ', 'x_y', r'\\', '%s', r'\n', r'\.', '[a-z]*']


class Ctx:
    """Generation context = scope + static flags.  rd: readable names, wr: assignable names."""

    def __init__(s, kind, rd, wr, **kw):
        s.kind = kind; s.rd = rd; s.wr = wr
        s.own = []; s.decl = set(); s.aw = False; s.yl = False; s.agen = False
        s.loop = False; s.noret = False; s.nowal = False; s.nostr = False
        s.classes = []; s.outer_rd = None; s.top = True; s.nest = 0; s.tmp = []; s.params = ()
        s.__dict__.update(kw)

    def sub(s, **kw):
        n = copy.copy(s)
        n.__dict__.update(kw)
        return n

    def nest_rd(s):
        return s.outer_rd if s.kind == 'c' else s.rd


class G:
    def __init__(s, rng):
        s.r = rng; s.n = 0; s.modvars = []
    # ---- helpers
    def fresh(s, p='v'):
        s.n += 1
        return '%s%s%d' % (p, 'é' if s.n % 29 == 0 else '', s.n)
    def ch(s, seq):
        return seq[int(s.r.random() * len(seq))]
    def p(s, x):
        return s.r.random() < x
    def ri(s, a, b):
        return s.r.randint(a, b)
    def name(s, c):
        if c.tmp and s.p(.3): return s.ch(c.tmp)
        if c.rd and s.p(.88): return s.ch(c.rd)
        return s.ch(BTYPES)
    def un(s, op, x):
        """unary op applied to x; no `~` directly on numeric literals (static type error for floats)"""
        return (op.replace('~', '-') if x.lstrip('-+ ')[:1] in '0123456789.' else op) + x
    def sprim(s, c, d):
        """operand of * / ** unpacking: never a bare numeric literal (static type error)"""
        x = s.prim(c, d)
        return s.name(c) if _num(x) else x
    def bcall(s, c, d):
        t = s.ch(BCALLS)
        return t % tuple(s.name(c) if s.p(.7) else s.prim(c, d - 1) for _ in range(t.count('%s')))
    # ---- literals
    def number(s):
        if s.p(.8): return s.ch(NUMS)
        k = s.ri(0, 3)
        if k == 0: return str(s.r.getrandbits(s.ri(1, 200)))
        if k == 1: return '%d.%de%s%d' % (s.ri(0, 99), s.ri(0, 99), s.ch(['', '+', '-']), s.ri(0, 30))
        if k == 2:
            v = s.r.getrandbits(40)
            return s.ch([hex(v), oct(v), bin(v), hex(v).upper().replace('X', 'x')])
        return '%d_%03d' % (s.ri(1, 999), s.ri(0, 999))
    def strlit(s, c=None, b=False):
        if c is not None and c.nostr: return s.ch(NUMS[:8])
        raw = s.p(.2)
        if b: pre = s.ch(['rb', 'bR', 'Rb', 'BR', 'br', 'Br', 'rB', 'RB'] if raw else ['b', 'B'])
        else: pre = s.ch(['r', 'R'] if raw else ['', '', '', '', 'u', 'U'])
        q = s.ch(['"', "'", '"', "'", '"""', "'''"])
        pool = S_RAW if raw else (S_ESC if b else S_ESC + S_UNI)
        parts = [s.ch(pool) for _ in range(s.ri(0, 4))]
        if len(q) == 3:
            parts.insert(s.ri(0, len(parts)), s.ch(['\n', ' ', "'" if q[0] == '"' else '"']))
            parts.append('.')
        body = ''.join(parts)
        if raw and len(q) == 1: body = body.replace('\n', '')
        return pre + q + body + q
    def string(s, c, d=1):
        k = s.r.random()
        if c.nostr: return s.ch(NUMS[:8])
        if k < .5: return s.strlit(c)
        if k < .65: return s.strlit(c, True)
        if k < .85 and d > 0: return s.fstr(c, d)
        if k < .92: return s.strlit(c, True) + ' ' + s.strlit(c, True)
        if d > 0 and s.p(.5): return s.strlit(c) + ' ' + s.fstr(c, d)
        return s.strlit(c) + s.ch([' ', '  ', '\t']) + s.strlit(c)
    def fstr(s, c, d):
        pep = s.p(PEP701_PROB)
        raw = s.p(.15)
        pre = s.ch(['fr', 'rf', 'Rf', 'fR', 'FR', 'rF'] if raw else ['f', 'F'])
        q = s.ch(['"', "'", '"""', "'''"])
        ic = c if pep else c.sub(nostr=True)
        out = []
        for _ in range(s.ri(1, 3)):
            if s.p(.5):
                out.append(s.ch(['a', 'b ', ' = ', '{{', '}}', '%', 'x: ', '{{}}'] +
                                ([r'\d'] if raw else ['\\n', '\\x41', '\\N{EM DASH}', '\\\\'])))
            e = s.prim(ic, d - 1) if s.p(.7) else s.binop(ic, d - 1)
            if pep and d > 1 and s.p(.35):
                e = s.fstr(c, d - 1)        # nested f-string (any quotes: PEP 701)
            if e[0] == '{': e = ' ' + e + ' '
            k = s.r.random()
            if k < .15: e += s.ch(['=', ' = ', '= '])
            if s.p(.3): e += s.ch(['!r', '!s', '!a'])
            k = s.r.random()
            if k < .2:
                e += s.ch([':>10', ':<5', ':^8', ':08.3f', ':x', ':,', ':#x', ':', ':%Y-%m', ': >+8_d'])
            elif k < .35:
                w = s.prim(ic, d - 2)
                w = ' ' + w + ' ' if w[0] == '{' else w
                e += s.ch([':{%s}', ':>{%s}', ':{%s}.{%s}f', ':{%s}{%s}']).replace('%s', w)
            out.append('{' + e + '}')
        if len(q) == 3 and s.p(.4): out.append('\n')
        return pre + q + ''.join(out) + q
    def const(s):
        return s.ch(['None', 'True', 'False', '...', 'None', '()', '[]', '{}'])
    def atom(s, c):
        k = s.r.random()
        if k < .55: return s.name(c)
        if k < .8: return s.number()
        if k < .92: return s.strlit(c, s.p(.2))
        return s.const()
    # ---- expressions
    def expr(s, c, d):
        if d <= 0: return s.atom(c)
        k = s.r.random()
        if k < .36: return s.prim(c, d)
        if k < .52: return s.binop(c, d)
        if k < .61: return s.cmp(c, d)
        if k < .69: return s.boolop(c, d)
        if k < .74: return s.un(s.ch(['-', '+', '~', 'not ', '- ', '--', '~-', 'not not ']), s.opnd(c, d - 1))
        if k < .81: return '%s if %s else %s' % (s.opnd(c, d - 1), s.opnd(c, d - 1), s.expr(c, d - 1))
        if k < .88: return s.lam(c, d)
        if c.aw: return 'await ' + s.prim(c, d - 1)
        return s.prim(c, d)
    def opnd(s, c, d):
        k = s.r.random()
        if k < .8 or d <= 0: return s.prim(c, d)
        if k < .9: return s.un(s.ch(['-', '~', '+']), s.prim(c, d))
        if c.aw: return 'await ' + s.prim(c, d - 1)
        return s.atom(c)
    def binop(s, c, d):
        out = last = s.opnd(c, d - 1)
        powed = False
        for _ in range(s.ri(1, 3)):
            op, x = s.ch(BINOPS), s.opnd(c, d - 1)
            if op in ('**', '<<'):          # never constant-foldable into something huge
                op = '-' if (powed and op == '**') or (op == '<<' and _num(last) and not _int(last)) else op
                powed = powed or op == '**'
                x = s.ch([s.name(c), '-' + s.name(c), '2', '3'])
            elif op in ('*', '@') and (_big(x) or _big(last)): op = '+'
            elif op in '&|^>>%//' and any(_num(y) and not _int(y) for y in (x, last)):
                op = '+'                    # bitwise / modulo on float or complex literals: static type error
            out += ' %s %s' % (op, x)
            last = x
        return out
    def cmp(s, c, d):
        out = s.opnd(c, d - 1)
        for _ in range(1 if s.p(.7) else s.ri(2, 3)):
            op, x = s.ch(CMPOPS), s.opnd(c, d - 1)
            if op[0] in '<>' and any(_num(y) and y[-1] in 'jJ' for y in (x, out.split(' ')[-1])):
                op = '=='                   # ordering of complex literals: static type error
            out += ' %s %s' % (op, x)
        return out
    def boolop(s, c, d):
        out = s.ch(['', '', 'not ']) + s.opnd(c, d - 1)
        for _ in range(s.ri(1, 3)):
            x = s.cmp(c, d - 1) if s.p(.25) else s.opnd(c, d - 1)
            out += ' %s %s%s' % (s.ch(['and', 'or']), s.ch(['', '', '', 'not ']), x)
        return out
    def base(s, c, d):
        k = s.r.random()
        if k < .6 or d <= 0: return s.ch(c.rd) if c.rd else s.name(c)
        if k < .7:
            return '(%s)' % s.ch([s.name(c), '%s or %s' % (s.name(c), s.name(c)), s.lam(c, d - 1),
                                  '%s if %s else %s' % (s.name(c), s.name(c), s.name(c))])
        if k < .8: return s.call(c, d - 1)
        if k < .9: return '%s.%s' % (s.base(c, d - 1), s.ch(ATTRS))
        return s.ch(c.rd) if c.rd else s.name(c)
    def args(s, c, d):
        a = [s.expr(c, d - 1) for _ in range(s.ri(0, 2))]
        if s.p(.15): a.append('*' + s.sprim(c, d - 1))
        if s.p(.3): a += ['%s=%s' % (k, s.expr(c, d - 1)) for k in s.r.sample(KWS, s.ri(1, 2))]
        if s.p(.1): a.append('**' + s.sprim(c, d - 1))
        if not a and s.p(.2): return s.comp(c, d, 3)[1:-1]
        return ', '.join(a)
    def call(s, c, d):
        return '%s(%s)' % (s.base(c, d), s.args(c, d))
    def slc(s, c, d):
        t = s.ch(['%s:%s', '%s:%s:%s', '::%s', '%s:', ':', ':%s'])
        return t % tuple(s.ch(['', s.opnd(c, d - 1), s.ch(['1', '-1', '0', '2'])])
                         for _ in range(t.count('%s')))
    def subscr(s, c, d):
        k = s.r.random()
        if k < .4: i = s.expr(c, d - 1)
        elif k < .6: i = s.slc(c, d)
        elif k < .75: i = '%s, %s' % (s.slc(c, d), s.ch([s.slc(c, d), '...', s.opnd(c, d - 1)]))
        elif k < .765: i = '*%s' % s.sprim(c, d - 1) + s.ch(['', ', ' + s.slc(c, d), ', ' + s.opnd(c, d - 1)])
        else: i = '%s, %s' % (s.expr(c, d - 1), s.expr(c, d - 1))
        return '%s[%s]' % (s.base(c, d), i)
    def items(s, c, d, lo=0, hi=3, star=.2):
        return [('*' + s.sprim(c, d - 1)) if s.p(star) else s.expr(c, d - 1)
                for _ in range(s.ri(lo, hi))]
    def prim(s, c, d):
        if d <= 0: return s.atom(c)
        k = s.r.random()
        if k < .22: return s.name(c)
        if k < .30: return s.number()
        if k < .40: return s.string(c, d)
        if k < .43: return s.const()
        if k < .50: return '(%s)' % s.expr(c, d - 1)
        if k < .55:
            it = s.items(c, d)
            return '(%s%s)' % (', '.join(it), ',' if len(it) == 1 else '')
        if k < .60: return '[%s]' % ', '.join(s.items(c, d))
        if k < .63: return '{%s}' % ', '.join(s.items(c, d, 1))
        if k < .68:
            return '{%s}' % ', '.join(
                ('**' + s.sprim(c, d - 1)) if s.p(.2) else '%s: %s' % (s.expr(c, d - 1), s.expr(c, d - 1))
                for _ in range(s.ri(0, 3)))
        if k < .76: return s.comp(c, d, s.ri(0, 3))
        if k < .82: return s.call(c, d)
        if k < .85: return s.bcall(c, d)
        if k < .89:
            return '%s.%s' % (s.base(c, d) if s.p(.85) or c.nostr else s.strlit(c, s.p(.3)), s.ch(ATTRS + ['join', 'upper']))
        if k < .95: return s.subscr(c, d)
        if k < .975:
            if c.wr and not c.nowal: return '(%s := %s)' % (s.ch(c.wr), s.expr(c, d - 1))
            return s.name(c)
        if c.yl:
            j = s.ri(0, 3)
            if j == 0: return '(yield)'
            if j == 1 and not c.agen: return '(yield from %s)' % s.ch([s.name(c), s.call(c, d - 1)])
            return '(yield %s)' % s.expr(c, d - 1)
        return s.call(c, d)
    def comp(s, c, d, kind):
        rd = list(c.nest_rd())
        ic = c.sub(kind='x', rd=rd, yl=False, tmp=[])
        itc = ic.sub(nowal=True)
        cl = []
        for i in range(1 if s.p(.75) else 2):
            it = s.sprim(itc, d - 1) if s.p(.8) else '%s or %s' % (s.name(itc), s.sprim(itc, d - 1))
            t = s.fresh('i')
            new = [t]
            if s.p(.25):
                u = s.fresh('j')
                new.append(u)
                t = s.ch(['%s, %s', '(%s, %s)', '%s, *%s', '[%s, %s]']) % (t, u)
            cl.append('%sfor %s in %s' % ('async ' if c.aw and s.p(.3) else '', t, it))
            rd.extend(new)
            for _ in range(s.ri(0, 2) if s.p(.4) else 0):
                cl.append('if ' + (s.prim(ic, d - 1) if s.p(.5) else s.cmp(ic, d - 1)))
        e = s.expr(ic, d - 1)
        if kind == 2: e = '%s: %s' % (e, s.expr(ic, d - 1))
        br = ['[]', '{}', '{}', '()'][kind]
        return '%s%s %s%s' % (br[0], e, ' '.join(cl), br[1])
    def ann(s):
        return s.ch(TYPES)
    def params(s, c, d, ann=True, first=None):
        """-> (text, names); defaults are evaluated in the enclosing ctx c."""
        names, out, dflt = [], [], [False]

        def one(n, pos=True):
            names.append(n)
            t = n
            a = ann and s.p(.4)
            if a: t += ': ' + s.ann()
            if (pos and dflt[0]) or s.p(.3):
                if pos: dflt[0] = True
                t += (' = ' if a else '=') + s.opnd(c, d - 2)
            return t
        npos, nreg, nkw = s.ri(0, 2) if s.p(.3) else 0, s.ri(0, 2), s.ri(0, 2) if s.p(.4) else 0
        if first:
            names.append(first)
            out.append(first)
        out += [one(s.fresh('a')) for _ in range(npos)]
        if npos or (first and s.p(.1)): out.append('/')
        out += [one(s.fresh('a')) for _ in range(nreg)]
        k = s.r.random()
        if k < .25:
            n = s.fresh('a')
            names.append(n)
            out.append('*' + n + (': ' + s.ann() if ann and s.p(.3) else ''))
        elif nkw: out.append('*')
        if k < .25 or nkw: out += [one(s.fresh('k'), False) for _ in range(nkw)]
        if s.p(.25):
            n = s.fresh('k')
            names.append(n)
            out.append('**' + n + (': ' + s.ann() if ann and s.p(.3) else ''))
        return ', '.join(out), names
    def lam(s, c, d):
        ps, names = s.params(c, d, ann=False)
        ic = c.sub(kind='x', rd=c.nest_rd() + names, wr=[], aw=False, yl=False, nowal=True, tmp=[])
        return 'lambda%s: %s' % (' ' + ps if ps else '', s.expr(ic, d - 1))
    # ---- match patterns
    def litpat(s):
        k = s.r.random()
        re_ = s.ch(['0', '1', '42', '1_000', '0xFF', '1.5', '1e10', '.5', '0b11'])
        if k < .3: return s.ch(['', '', '-']) + s.ch([re_, '2j', '1.5J'])
        if k < .45: return '%s%s %s %s' % (s.ch(['', '-']), re_, s.ch('+-'), s.ch(['2j', '1.5J', '0j', '1e3j']))
        if k < .7: return s.strlit() + (' ' + s.strlit() if s.p(.15) else '')
        if k < .8: return s.strlit(None, True)
        return s.ch(['None', 'True', 'False'])
    def valpat(s, c):
        return '%s.%s%s' % (s.name(c), s.ch(ATTRS), s.ch(['', '', '.x']))
    def pat(s, c, d, av, top=False):
        """av: list of still unused capture names (consumed).  top=True -> refutable pattern."""
        k = s.r.random()
        sub = lambda: s.pat(c, d - 1, av)
        if d <= 0 or k < .2:
            if not top and k < .1: return av.pop() if av and s.p(.7) else '_'
            return s.litpat() if s.p(.75) else s.valpat(c)
        if k < .27: return '(%s)' % s.pat(c, d - 1, av, top)
        if k < .45:
            it = [sub() for _ in range(s.ri(0, 3))]
            if s.p(.4): it.insert(s.ri(0, len(it)), '*' + (av.pop() if av and s.p(.6) else '_'))
            if len(it) == 1 and s.p(.5): return '(%s,)' % it[0]
            return s.ch(['[%s]', '(%s)', '[%s]']) % ', '.join(it) if len(it) != 1 else '[%s]' % it[0]
        if k < .58:
            keys = s.r.sample(['"a"', "'b'", '1', '-1', 'None', 'False', 'b"k"', '2.5', '"k" "2"',
                               s.valpat(c)], s.ri(0, 3))
            it = ['%s: %s' % (q, sub()) for q in keys]
            if av and s.p(.4): it.append('**' + av.pop())
            return '{%s}' % ', '.join(it)
        if k < .74:
            cls = s.ch(c.classes) if c.classes and s.p(.5) else s.ch(PATCLS)
            it = [sub() for _ in range(s.ri(0, 2) if s.p(.6) else 0)]
            it += ['%s=%s' % (a, sub()) for a in s.r.sample(['x', 'y', 'name', 'real', 'imag'],
                                                             s.ri(0, 2) if s.p(.6) else 0)]
            return '%s(%s)' % (cls, ', '.join(it))
        if k < .88:
            if av and s.p(.5):
                n = av.pop()
                tp = ['[%s, LIT]', '(%s, LIT, *_)', '{"k": %s}', 'int(%s)', 'str(real=%s)',
                      '(LIT as %s)', '[LIT, [%s]]', '{1: [%s, *_]}']
                alts = [t.replace('%s', n).replace('LIT', s.litpat()) for t in s.r.sample(tp, s.ri(2, 3))]
            else: alts = [s.pat(c, d - 1, [], True) for _ in range(s.ri(2, 4))]
            o = ' | '.join(alts)
            return o if top and d >= 2 and s.p(.5) else '(%s)' % o
        if av:
            n, x = av.pop(), s.pat(c, d - 1, av, True)
            return '%s as %s' % ('(%s)' % x if ' as ' in x else x, n)
        return s.litpat()
    def match_(s, c, d):
        k = s.r.random()
        subj = s.ch([s.name(c), s.call(c, 2), s.subscr(c, 2), s.name(c), s.sprim(c, 2)]) if k < .7 else ('%s, %s' % (s.e(c), s.e(c)) if k < .85 else '*%s, %s' % (s.sprim(c, 1), s.e(c)))
        out = ['match %s:' % subj]
        n = s.ri(1, 3)
        for i in range(n):
            av = s.r.sample(c.wr, min(len(c.wr), 4))
            irr = (i == n - 1 and s.p(.4)) or s.p(.1)
            if irr:
                pt = s.ch(['_', av.pop() if av else '_', '(_)', '_ as %s' % av.pop() if av else '_'])
                if len(av) > 1 and s.p(.2): pt = '%s, *%s' % (av.pop(), av.pop()) if s.p(.5) else '[*_]'
            elif s.p(.15): pt = '%s, %s' % (s.pat(c, 2, av), s.pat(c, 1, av))
            else: pt = s.pat(c, s.ri(1, 3), av, True)
            g = ' if ' + s.e(c) if (irr and i < n - 1) or s.p(.25) else ''
            out.append('    case %s%s:' % (pt, g))
            out += ['    ' + l for l in s.block(c, d - 1)]
        return out
    # ---- statements
    def e(s, c):
        return s.expr(c, s.ch([1, 2, 2, 2, 3]))
    def reg(s, c, n, wr=True):
        if n in c.rd: return
        c.rd.append(n)
        if wr:
            c.wr.append(n)
            if c.kind == 'm': s.modvars.append(n)
            elif c.kind == 'f': c.own.append(n)
    def target(s, c, simple=False):
        k = s.r.random()
        if c.wr and k < .6: return s.ch(c.wr)
        if simple and s.p(.9): return s.ch(['%s.%s' % (s.name(c), s.ch(ATTRS)), '%s[%s]' % (s.name(c), s.atom(c))])
        if k < .8: return '%s.%s' % (s.name(c) if s.p(.8) else s.call(c, 1), s.ch(ATTRS))
        return '%s[%s]' % (s.name(c), s.e(c) if s.p(.7) else s.slc(c, 1))
    def ttarget(s, c):
        """tuple / star / nested target"""
        it = [s.target(c) for _ in range(s.ri(1, 3))]
        if s.p(.4): it.insert(s.ri(0, len(it)), '*' + s.target(c))
        if s.p(.2): it.append('(%s, %s)' % (s.target(c), s.target(c)))
        t = ', '.join(it) + (',' if len(it) == 1 else '')
        return s.ch(['%s', '%s', '(%s)', '[%s]']) % t
    def block(s, c, d, n=None):
        c = c.sub(top=False) if c.top else c
        out = []
        for _ in range(n or (s.ri(1, 2) if s.p(.8) else 3)): out += s.stmt(c, d)
        return ['    ' + l for l in out]
    def blk(s, head, c, d, n=None):
        return [head] + s.block(c, d, n)
    def rhs(s, c):
        k = s.r.random()
        if c.yl and k < .1: return s.ch(['yield', 'yield ' + s.e(c), 'yield %s, *%s' % (s.e(c), s.sprim(c, 1))])
        if k < .2: return '%s%s, %s' % (s.ch(['', '*']), s.sprim(c, 2), s.e(c))
        return s.e(c)
    def nn(s, c, x):
        """x unless it is a bare numeric literal (iterating / unpacking a C number is a static error)"""
        return s.name(c) if _num(x) else x
    def urhs(s, c):
        """right-hand side for unpacking targets: no display of statically known (wrong) length"""
        return s.ch([s.name(c), s.call(c, 2), s.subscr(c, 2), s.name(c), s.e(c) if s.p(.1) else s.name(c)])
    def simple(s, c, d):
        k = s.r.random()
        new = c.top and s.p(.5)
        if k < .22:
            if new:
                n = s.fresh('v')
                v = s.rhs(c)
                s.reg(c, n)
                return ['%s = %s' % (n, v)]
            j = s.r.random()
            if j < .6: return ['%s = %s' % (s.target(c), s.rhs(c))]
            if j < .8: return ['%s = %s = %s' % (s.target(c), s.ch([s.target(c), s.ttarget(c)]), s.urhs(c))]
            return ['%s = %s' % (s.ttarget(c), s.urhs(c))]
        if k < .30: return ['%s %s= %s' % (s.target(c), s.ch(BINOPS), s.rhs(c) if s.p(.2) else s.e(c))]
        if k < .38:
            if new:
                n = s.fresh('v')
                v = s.e(c)
                s.reg(c, n)
                return ['%s: %s = %s' % (n, s.ann(), v)]
            ok = [x for x in c.wr if x not in c.decl and x not in c.params]
            j = s.r.random()
            if ok and j < .6:
                t = s.ch(ok)
                t = '(%s)' % t if s.p(.03) else t
            else: t = '%s.%s' % (s.name(c), s.ch(ATTRS)) if j < .8 else '%s[%s]' % (s.name(c), s.atom(c))
            return ['%s: %s%s' % (t, s.ann(), ' = ' + s.e(c) if s.p(.7) else '')]
        if k < .50:
            if c.aw and s.p(.3): return ['await ' + s.prim(c, 2)]
            if c.yl and s.p(.4):
                return [s.ch(['yield', 'yield ' + s.e(c), 'yield %s, %s' % (s.e(c), s.e(c)),
                              'yield *%s, %s' % (s.sprim(c, 1), s.e(c)),
                              'yield' if c.agen else 'yield from ' + s.call(c, 2)])]
            return [s.ch([s.call(c, 2), s.call(c, 2), s.bcall(c, 2), s.e(c)])]
        if k < .55: return ['pass']
        if k < .62 and c.loop: return [s.ch(['break', 'continue'])]
        if k < .69 and c.kind == 'f' and not c.noret:
            if c.agen: return ['return']
            return [s.ch(['return', 'return ' + s.e(c), 'return %s, %s' % (s.e(c), s.e(c)),
                          'return *%s, %s' % (s.sprim(c, 1), s.e(c))])]
        if k < .75:
            x = s.ch(EXCS)
            return [s.ch(['raise', 'raise ' + x, 'raise %s(%s)' % (x, s.args(c, 2)),
                          'raise %s from %s' % (x, s.e(c)), 'raise %s(%s) from None' % (x, s.e(c)),
                          'raise ' + s.e(c)])]
        if k < .81: return ['assert %s%s' % (s.e(c), ', ' + s.e(c) if s.p(.5) else '')]
        if k < .88:
            j = s.r.random()
            if j < .4:
                n, m = s.fresh('t'), s.fresh('t')
                return ['%s = %s = %s' % (n, m, s.e(c)), s.ch(['del %s, %s', 'del (%s), %s', 'del [%s, %s]',
                                                               'del %s; del %s']) % (n, m)]
            a = '%s[%s]' % (s.name(c), s.e(c) if s.p(.6) else s.slc(c, 1))
            b = '%s.%s' % (s.name(c), s.ch(ATTRS))
            return [s.ch(['del ' + a, 'del ' + b, 'del %s, %s' % (a, b), 'del (%s, %s)' % (b, a)])]
        return s.import_(c)
    def import_(s, c):
        top = c.top and c.kind == 'm'
        k = s.r.random()
        if top and k < .4:
            if k < .1: return ['from %s import *' % s.ch(MODS[:4])]
            if k < .25:
                m = s.ch(MODS)
                s.reg(c, m, False)
                return ['import ' + m]
            m = s.ch(SUBMODS)
            s.reg(c, m.split('.')[0], False)
            m2 = s.ch(MODS)
            s.reg(c, m2, False)
            return ['import %s, %s' % (m, m2)]
        if c.top: t = s.fresh('v')
        elif c.wr: t = s.ch(c.wr)
        else: return ['pass']
        if k < .6: r = 'import %s as %s' % (s.ch(SUBMODS + MODS), t)
        else:
            m, a = s.ch(FROMS)
            if s.p(.3):                 # relative import: a run of 1..7 dots ('...' is one token), written glued or spaced
                dots = '.' * s.ri(1, 7)
                if s.p(.3): dots = ' '.join(dots)
                elif s.p(.2) and len(dots) > 1:
                    i = s.ri(1, len(dots) - 1)
                    dots = dots[:i] + ' ' + dots[i:]
                m, a = dots + s.ch(['', '', ' pkg', 'pkg.mod', ' ' + m]), s.ch(['name', a])
            r = s.ch(['from %s import %s as %s', 'from %s import (%s as %s)', 'from %s import (%s as %s,)'])
            r = r % (m, a, t)
        s.reg(c, t)
        return [r]
    def stmt(s, c, d):
        if d <= 0 or c.kind == 'c' or s.p([0, .75, .65, .5][min(d, 3)]): return s.simple(c, d)
        k = s.r.random()
        lc = c.sub(loop=True, top=False)
        if k < .12:
            out = s.blk('if %s:' % s.e(c), c, d - 1)
            for _ in range(s.ri(0, 2) if s.p(.4) else 0): out += s.blk('elif %s:' % s.e(c), c, d - 1)
            if s.p(.5): out += s.blk('else:', c, d - 1)
            return out
        if k < .19:
            out = s.blk('while %s:' % s.e(c), lc, d - 1)
            return out + (s.blk('else:', c, d - 1, 1) if s.p(.3) else [])
        if k < .31:
            asy = c.aw and s.p(.7)
            it = s.call(c, 2) if asy else s.nn(c, s.e(c)) if s.p(.8) else '*%s, %s' % (s.sprim(c, 2), s.ch(['*' + s.sprim(c, 1), s.e(c)]))
            tg = s.target(c) if s.p(.6) else s.ttarget(c)
            out = s.blk('%sfor %s in %s:' % ('async ' if asy else '', tg, it), lc, d - 1)
            return out + (s.blk('else:', c, d - 1, 1) if s.p(.3) else [])
        if k < .45: return s.try_(c, d)
        if k < .56:
            asy = c.aw and s.p(.7)
            it = []
            for _ in range(s.ri(1, 3)):
                x = s.call(c, 2) if s.p(.7) else s.prim(c, 2)
                if s.p(.6):
                    x += ' as ' + (s.target(c, True) if s.p(.8) else '(%s, %s)' % (s.target(c, True), s.target(c, True)))
                it.append(x)
            w = ', '.join(it)
            if s.p(.35): w = '(%s%s)' % (w, ',' if s.p(.3) else '')
            return s.blk('%swith %s:' % ('async ' if asy else '', w), c, d - 1)
        if k < .68 and c.wr: return s.match_(c, d)
        if k < .90 or d < 2: return s.funcdef(c, d)
        return s.classdef(c, d)
    def try_(s, c, d):
        star = s.p(.3)
        out = s.blk('try:', c, d - 1)
        k = s.r.random()
        if k < .15 and not star: return out + s.blk('finally:', c.sub(loop=False, noret=True), d - 1)
        hc = c.sub(loop=False, noret=True) if star else c
        for i in range(s.ri(1, 2)):
            j = s.r.random()
            x = s.ch(EXCS) if j < .5 else ('(%s, %s)' % (s.ch(EXCS), s.ch(EXCS)) if j < .8 else s.prim(c, 2))
            if i and j > .8 and not star:
                out += s.blk('except:', hc, d - 1)
                break
            if s.p(.5):
                n = s.fresh('e')
                out += s.blk('except%s %s as %s:' % ('*' * star, x, n), hc.sub(tmp=hc.tmp + [n], top=False), d - 1)
            else: out += s.blk('except%s %s:' % ('*' * star, x), hc, d - 1)
        if s.p(.3): out += s.blk('else:', c, d - 1, 1)
        if s.p(.3): out += s.blk('finally:', c.sub(loop=False, noret=True), d - 1, 1)
        return out
    def deco(s, c):
        k = s.r.random()
        if k < .3: return s.name(c)
        if k < .5: return s.call(c, 2)
        if k < .6: return '(lambda f: f)'
        if k < .7: return '%s.%s' % (s.name(c), s.ch(ATTRS))
        if k < .8: return s.subscr(c, 2)
        return s.ch([s.binop(c, 2), '%s if %s else %s' % (s.name(c), s.name(c), s.name(c)), '%s or %s' % (s.name(c), s.name(c))])
    def funcdef(s, c, d, first=None, decos=(), name=None):
        asy, gen = s.p(.3), s.p(.3)
        name = name or s.fresh('f')
        out = ['@' + x for x in decos] + ['@' + s.deco(c) for _ in range(s.ri(1, 2) if s.p(.3) else 0)]
        ps, names = s.params(c, 3, first=first)
        out.append('%sdef %s(%s)%s:' % ('async ' if asy else '', name, ps, ' -> ' + s.ann() if s.p(.4) else ''))
        fc = Ctx('f', list(c.nest_rd()) + names, list(names), own=list(names), aw=asy, yl=gen,
                 agen=asy and gen, classes=list(c.classes), nest=c.nest + 1, params=set(names))
        body = []
        if s.p(.2): body.append(s.ch(['"""doc"""', "'doc'", 'r"""doc\n"""']))
        if s.modvars and s.p(.25):
            g = s.ch(s.modvars)
            body.append('global ' + g)
            fc.wr.append(g)
            fc.decl.add(g)
        if c.kind == 'f' and c.own and s.p(.4):
            ns = s.r.sample(c.own, min(len(c.own), s.ri(1, 2)))
            body.append('nonlocal ' + ', '.join(ns))
            fc.wr += ns
            fc.own += ns
            fc.decl.update(ns)
        for _ in range(s.ri(1, 3)):
            n = s.fresh('v')
            body.append('%s = %s' % (n, s.ch(['None', 'None', '[]', '{}', 'object()', names[0] if names else 'None'])))
            s.reg(fc, n)
        if first == 'self' and s.p(.3): body.append('super().__init__()')
        for _ in range(s.ri(1, 3)): body += s.stmt(fc, min(d - 1, 2 if c.nest else 3))
        if asy and s.p(.4):
            if s.p(.5): body += s.blk('async for %s in %s:' % (s.target(fc), s.call(fc, 2)), fc.sub(loop=True), 1, 1)
            else: body += s.blk('async with %s as %s:' % (s.call(fc, 2), s.target(fc)), fc, 1, 1)
        if gen and not asy and s.p(.3): body.append('yield from ' + s.call(fc, 2))
        if s.p(.4): body += ['return' if fc.agen else 'return ' + s.e(fc)]
        out += ['    ' + l for l in body]
        if c.top: s.reg(c, name, False)
        return out
    def classdef(s, c, d):
        name = s.fresh('C')
        out = ['@' + s.deco(c) for _ in range(s.ri(1, 2) if s.p(.3) else 0)]
        b = []
        if s.p(.6):
            b.append(s.ch(c.classes) if c.classes and s.p(.5) else s.ch(['object', 'Exception', 'dict', 'list', 'int']))
        if s.p(.1): b.append('*' + s.sprim(c, 1))
        if s.p(.3): b.append('metaclass=type')
        if s.p(.1): b.append(s.ch(['**' + s.sprim(c, 1), 'flag=True']))
        out.append('class %s%s:' % (name, '(%s)' % ', '.join(b) if b or s.p(.2) else ''))
        base = c.nest_rd()
        cc = Ctx('c', list(base), [], outer_rd=base, nowal=True, classes=list(c.classes), nest=c.nest + 1)
        body = []
        if s.p(.3): body.append('"""class doc"""')
        if s.p(.3): body.append('__slots__ = %s' % s.ch(["('a', 'b')", "['x']", '()', "'name',"]))
        for _ in range(s.ri(1, 3)):
            k = s.r.random()
            if k < .4: body += s.simple(cc, 1)
            elif k < .6: body += s.funcdef(cc, d - 1, 'self', name=s.ch(['__init__', '__repr__', s.fresh('m')]))
            elif k < .7: body += s.funcdef(cc, d - 1, None, ['staticmethod'])
            elif k < .8: body += s.funcdef(cc, d - 1, 'cls', ['classmethod'])
            elif k < .9: body += s.funcdef(cc, d - 1, 'self', ['property'])
            elif d > 2: body += s.classdef(cc, d - 1)
            else: body += ['%s = %s' % (s.fresh('t'), s.comp(cc, 2, s.ri(0, 3)))]
        out += ['    ' + l for l in body]
        if c.top:
            s.reg(c, name, False)
            if c.kind != 'c':               # class-body names are invisible from methods / nested scopes
                c.classes.append(name)
        return out


def gen_program(rng, size=12):
    """Return the source of a valid Python 3.12 module with about `size` top-level statements."""
    g = G(rng)
    c = Ctx('m', [], [])
    out = []
    if CYTHON_HEADER: out.append(CYTHON_HEADER)
    if g.p(.15):
        out.append(g.ch(['"""module doc"""', '# -*- coding: utf-8 -*-', '# comment']))
    for v in ['0', '[1, 2]', g.ch(['{}', '"s"', 'None', '(1, 2)'])]:
        n = g.fresh('v')
        out.append('%s = %s' % (n, v))
        g.reg(c, n)
    i = 0
    while (i < max(1, size - 3) and len(out) < 8 * size) or (size >= 10 and len(out) < 20):
        i += 1
        out += g.stmt(c, 3)
        if g.p(.1):
            out.append(g.ch(['', '# comment', '']))
    return '\n'.join(out) + '\n'


# ---------------------------------------------------------------- literal-focused programs
_STR_PRE = ['', 'r', 'u', 'R', 'U', 'f', 'F', 'fr', 'Fr', 'fR', 'FR', 'rf', 'rF', 'Rf', 'RF']
_BYT_PRE = ['b', 'B', 'br', 'Br', 'bR', 'BR', 'rb', 'rB', 'Rb', 'RB']
_INTS = ['0', '00', '0_0', '00_0', '1_000', '0x_ff', '0X_F_F', '0b_1_0', '0B1', '0o_7_7', '0O17', '1_2_3',
         '0xdeadBEEF', '000000', '9' * 19, '18446744073709551616', '2147483648', '0x' + 'f' * 16, '0x1' + '0' * 16]
_FLOATS = ['1.', '.5', '1e10', '1E-5', '1_0.0_1e+1_0', '0e0', '1e400', '1e-400', '00.5', '09.5', '0_9.5',
           '1.0', '0.', '.0', '1.e1', '.1E+1', '0.0000001', '1e0', '09e1', '1_0e1_0', '1.7976931348623157e308',
           '5e-324', '2.2250738585072014e-308', '0.1', '1' * 30 + '.0', '9' * 400 + '.', '0.' + '0' * 400 + '1']
_IMAGS = ['1j', '1.5J', '1e3j', '0j', '007j', '0_7j', '1_0j', '.5j', '1.j', '1e-3J', '0.0j', '09j', '1e400j']
_ESC_S = ('\\a\\b\\f\\n\\r\\t\\v\\\\\\\'\\"\\0\\7\\77\\377\\x00\\xff\\N{LATIN SMALL LETTER A}\\N{EM DASH}'
          '\\u1234\\U0001F600\\\n\\000\\1011')
_ESC_B = '\\a\\b\\f\\n\\r\\t\\v\\\\\\\'\\"\\0\\7\\77\\377\\x00\\xff\\\n\\000\\1011'
_MISC = ['-0', '--1', '~-1', '1 if 1 else 1', '"ab" * 3', '-0.0', '-1j', '- 1', '+-+1', 'b"x" * 2', '[0] * 4',
         '(1).real', '1 .real', '1..real', '1.0.real', '1e1.real', '1j.imag', '0x1for 2', '1if 1else 2',
         '1_0 .bit_length()', '-1 ** 2', '2 ** -1', '1 < 2 < 3', 'not 1', '1 or 0 and 2', '...', 'None',
         '(1, 2)[0]', '"%d" % 1', '"a" "b" \'c\'', '(1, )', '(1,)', '()', '[]', '{}', '{1}', '{1: 2}',
         '0 .__class__', '1 + 2j', '1 - -1', '1 // 1 % 1', '5 * 5', '1 << 64', '~0']


def gen_literal_program(rng):
    """Literal-focused valid module: extreme / unusual but legal literals and nesting."""
    r = rng
    ch = lambda q: q[int(r.random() * len(q))]
    out, n = ['v0 = 0', 'é = 1', '变量 = 2', 'v1 = é + 变量'], [1]

    def add(x):
        n[0] += 1
        out.append('v%d = %s' % (n[0], x) if r.random() < .8 else x)

    def digits(k, alpha):
        return ch(alpha.replace('0', '') or alpha) + ''.join(ch(alpha) for _ in range(k - 1))

    def gens(k):
        if k == 0: return digits(ch([1, 19, 50, 1000, 4299, 4300]), '0123456789')
        if k == 1:
            pre, al = ch([('0x', '0123456789abcdefABCDEF'), ('0o', '01234567'), ('0b', '01'), ('0X', '0123456789ABCDEF')])
            return pre + ch(['', '_']) + digits(ch([1, 16, 17, 64, 65, 5000, 20000]), al)
        if k == 2: return ch(_INTS)
        if k == 3: return ch(_FLOATS)
        if k == 4: return ch(_IMAGS)
        if k == 5:
            p, q = ch(_STR_PRE), ch(['"', "'", '"""', "'''"])
            body = ch(['', 'abc', 'é中\U0001F600', 'a{{b}}' if 'f' in p.lower() else 'a{b}', ' ', 'x' * 10000])
            if 'r' not in p.lower(): body += ch(['', _ESC_S, '\\n', '\\\n'])
            else: body += ch(['', '\\d\\w\\ ', '\\\\', '\\' + ('"' if q[0] == '"' else "'") + '.'])
            if 'f' in p.lower():
                body += ch(['', '{v0}', '{v0!r:>{v1}}', '{v0=}', '{ {1: 2}[1] }', '{v0:{v1}.{v1}}', '{é}'])
            return p + q + body + q
        if k == 6:
            p, q = ch(_BYT_PRE), ch(['"', "'", '"""', "'''"])
            body = ch(['', 'abc', ' ', 'x' * 10000, '\x7f~'])
            body += ch(['', '\\d\\w', '\\\\']) if 'r' in p.lower() else ch(['', _ESC_B, '\\\n'])
            return p + q + body + q
        if k == 7:
            d = ch([1, 5, 20, 50, 80])
            o, c_ = ch([('(', ')'), ('[', ']'), ('(', ',)'), ('[', ',]'), ('{', '}'), ('-(', ')'), ('[(', ',)]')])
            if o == '{': return '{1: ' * d + '1' + '}' * d
            d = max(1, d // 2) if len(o) > 1 else d
            return o * d + ch(['1', 'v0'] if ',' in c_ else ['1', '', 'v0']) + c_ * d
        if k == 8:
            m = ch([2, 10, 100, 500])
            op = ch(['+', '-', '*', ' and ', ' or ', ' + ', '|', ' , ', ' if 1 else ', '<', ' is not ', '**'])
            m = min(m, 90) if op in ('**', ' if 1 else ') else m
            return op.join(ch(['1', 'v0', '1.5', '"s"'] if op in (' and ', ' or ', ' , ') else ['1']) for _ in range(m))
        if k == 9:
            m = ch([1, 10, 50, 90])
            return 'v0' + ''.join(ch(['.a', '()', '[0]', '.b()', '[::1]', '(v0)']) for _ in range(m))
        if k == 10:
            qs = ['"', "'", '"""', "'''"]
            r.shuffle(qs)
            s_ = 'v0'
            for q in qs[:ch([1, 2, 3, 4])][::-1]:
                s_ = 'f' + q + ch(['', '', 'a', 'x ', '{{']) + '{' + s_ + ch(['', '!r', ':>4', '=']) + '}' + q
            return s_
        if k == 11:
            m = ch([0, 1, 255, 256, 257, 2000])
            o, c_, it = ch([('(', ')', '%d'), ('[', ']', '%d'), ('{', '}', '%d'), ('{', '}', '%d: %d'),
                            ('[', ']', '"%d"'), ('(', ')', '%d.5'), ('{', '}', '"k%d": [%d]'), ('[', ']', '-%d')])
            body = ', '.join(it % ((i,) * it.count('%d')) for i in range(m))
            return o + body + (',' if m == 1 or (m and r.random() < .3) else '') + c_ if (m or it != '%d' or o != '{') else 'set()'
        if k == 12: return ch(_MISC)
        if k == 13:
            a, b = ch(_STR_PRE[:5] + ['']), ch(_STR_PRE)
            return '%s"a\\\n" %s\'b\' \\\n    %s"""c\nd"""' % (a if 'f' not in a.lower() else '', b, ch(['', 'r', 'f']))
        return ch(['-', '+', '~', 'not ', '']) + gens(ch([0, 1, 2, 3, 4]))
    for _ in range(r.randint(6, 14)): add(gens(r.randint(0, 14)))
    if r.random() < .5: add('[%s]' % ', '.join(gens(ch([2, 3, 4, 12])) for _ in range(r.randint(1, 30))))
    if r.random() < .3:
        out.append('match v0:\n    case %s:\n        pass\n    case _:\n        pass' % ' | '.join(
            ch(['-0', '1_0', '0x_f', '-1.5e3', '1+2j', '-0.0-0j', '"a" \'b\'', 'b"\\x00"', 'None', '1_0j', '.5', '0b1'])
            for _ in range(r.randint(1, 5))))
    return '\n'.join(out) + '\n'


# ---------------------------------------------------------------- token-interaction programs
# Systematic (not random) snippets for every place where the tokenizer's multi-character tokens meet the grammar:
# dot runs of every length in `from` imports ('...' is ONE token for the scanner), `...` as an expression in every
# position, and operators written without spaces (-> := ** //= >>= @= != <= << ...), soft keywords used as names,
# glued keywords / literals, odd continuation lines.  Every snippet only uses the names bound by TOKEN_PRELUDE, so that
# snippets can be concatenated into one module and a failing group can be bisected.  The oracle for each is CPython's
# compile() (acceptance only: none of this is executed).  Left out because they are open findings with their own probe in
# props/C43.py (FAMILY_PROBES): `l[...:...]` (slice_bound_type_name_or_ellipsis), `l[y:=1]` (unparenthesized_walrus_in_subscript).
TOKEN_PRELUDE = ('import os\n'
                 'def f(*a, **k): return 0\n'
                 'a = b = c = d = x = y = z = w = n = v = 1\n'
                 'l = [1, 2, 3]\n'
                 'dd = {"a": 1}\n'
                 'class K:\n    q = 0\n'
                 'o = K()\n')


def dot_run_spellings(n):
    """all ways this family writes a run of n dots after `from`: glued, all separate, and every split in two parts"""
    out = ['.' * n]
    if n > 1:
        out.append(' '.join('.' * n))
        for i in range(1, n):
            out.append('.' * i + ' ' + '.' * (n - i))
    if n > 3:
        out.append('... ' * (n // 3) + '.' * (n % 3))
        out.append('.' * (n % 3) + ' ...' * (n // 3))
    return list(dict.fromkeys(x.strip() for x in out))


def relative_import_snippets(max_dots=7, all_spellings=False):
    """(label, snippet, module_level_only) for `from <dots>[module] import ...` with 1..max_dots dots"""
    out = []
    for n in range(1, max_dots + 1):
        if n <= 4 or (all_spellings and n <= 7):
            spellings = dot_run_spellings(n)
        else:
            spellings = ['.' * n, ' '.join('.' * n), ('... ' * (n // 3) + '.' * (n % 3)).strip()]
        for j, dots in enumerate(spellings):
            forms = [('bare', 'from %s import x' % dots),
                     ('mod', 'from %spkg.mod import y as z, w' % dots),
                     ('paren', 'from %s import (a, b as c,)' % dots),
                     ('nospace', 'from %simport x' % dots),
                     ('modparen', 'from %s pkg import(a)' % dots)]
            if j:
                forms = forms[:2]
            for name, st in forms:
                out.append(('relimp_%d_%d_%s' % (n, j, name), st, False))
                out.append(('relimp_%d_%d_%s_func' % (n, j, name), 'def g_%d_%d_%s():\n    %s\n    return 0' % (n, j, name, st), False))
            if not j:
                out.append(('relimp_%d_star' % n, 'from %s import *' % dots, True))
                out.append(('relimp_%d_modstar' % n, 'from %spkg import *' % dots, True))
                out.append(('relimp_%d_cont' % n, 'from %s\\\n    import x' % dots, False))
                if n > 1:
                    out.append(('relimp_%d_contsplit' % n, 'from %s\\\n%s import x' % ('.' * (n - 1), '.'), False))
    return out


_ELLIPSIS_SNIPPETS = [
    'x = ...', 'x = (...)', 'x = [...]', 'x = ..., ...', 'x = l[...]', 'x = l[..., 1]', 'x = l[1, ...]',
    'x = l[..., ...]', 'x = l[...,]', 'f(...)', 'f(..., ...)', 'f(a=...)', 'f(*..., **dd)', 'x = ... if ... else ...',
    'x = ... is ...', 'x = ... is not ...', 'x = not ...', 'x = ... == ...', 'x = ... or ...', 'x = {...: ...}', 'x = {...}',
    'x = lambda: ...', 'x = lambda a=...: a', 'xe: ... = ...', 'x = ....__class__', 'x = ... .__class__', 'x = (...).__class__',
    'x = ....__class__.__name__', 'x = [... for y in l]', 'x = [y for y in l if ...]', 'x = f"{...}"', 'x = f"{...!r:>10}"',
    '...', '...; ...', '... ;x = 1', 'assert ...', 'assert ..., ...', 'del l[...]', 'l[...] = ...', 'x = (y := ...)',
    'def e1(a=..., *b, c=...) -> ...: ...', 'def e2():\n    return ...', 'def e3():\n    yield ...', 'def e4(): ...',
    'class E1: ...', 'class E2:\n    ...\n    q = ...', 'async def e5(): ...', 'async def e6():\n    await ...',
    'if ...: ...', 'while ...: break', 'for x in ...: ...', 'with f(...) as x: ...', 'try: ...\nexcept ...: ...',
    'try: ...\nfinally: ...', 'match ...:\n    case _: ...', 'raise ...', 'x = l[...][...]', 'x = ...,', 'x = *..., 1',
    'print(..., sep=...)', 'x = 1 if ... else...', 'x = [...,...]', 'x = ...if ...else...',
]

_OPERATOR_SNIPPETS = [
    # -> and : adjacency
    'def o1()->int:pass', 'def o2()->-1:pass', 'def o3(a:int=1,*b:int,c:int=2,**k:int)->int:return a', 'def o4()->...:...',
    'def o5(a,/,b,*,c):pass', 'def o6(*,a):pass', 'def o7(a,/):pass', 'def o8(*a,**k):pass', 'x=lambda:-1', 'x=lambda*a,**k:0',
    'x=lambda a,/,b=1,*,c=2:0', 'x=lambda:(yield)', 'x=l[::]', 'x=l[::-1]', 'x=l[:-1]', 'x=l[1::2]', 'x=l[a:b:c]', 'x=l[-1:]',
    'x={1:2}', 'x={1:lambda:0}', 'x:int=1', 'x:int', 'o.q:int=1', 'l[0]:int=1', 'dd={"a":lambda:0,"b":l[::2]}',
    # := adjacency
    '(x:=1)', 'x=[y:=1,y]', 'f(x:=1)', 'x=l[(y:=1):2]', 'x={(y:=1):2}', 'if(n:=10)>5:pass', 'x=f"{(y:=5)}"',
    'x=lambda:(y:=1)', 'x=[(y:=z)for z in l]', 'while(n:=n-1)>0:pass', 'x=(y:=1,2)', 'f(a:=1,b:=2)' if False else 'f((a:=1),b=(c:=2))',
    # ** and * adjacency
    'x=2**-1', 'x=-2**2', 'x=a**b**-c', 'x=2**3**2', 'f(**dd)', 'f(*l,**dd)', 'f(*l,*l,**dd,**dd)', 'x={**dd}', 'x={**dd,**dd}',
    'x**=2', 'x=[*l,*l]', 'x={*l}', 'x=*l,', '*x,=l', 'x,*y=l', 'x,*y,z=l', 'for*x,y in[l]:pass', 'print(*l)', 'x=a*-b', 'x=a**-b',
    'x=a*+b', 'x=a*~b',
    # augmented assignment operators, glued
    'x//=2', 'x>>=1', 'x<<=1', 'x@=y', 'x**=y', 'x&=y', 'x|=y', 'x^=y', 'x%=y', 'x/=y', 'x-=-1', 'x+=+1', 'x*=*l,' if False else 'x*=-1',
    'o.q//=2', 'l[0]>>=1', 'x//=y//z', 'x>>=y>>z', 'x<<=y<<z', 'x@=y@z', 'x**=y**z',
    # comparisons glued
    'x=a!=b', 'x=a!=-1', 'x=a==b', 'x=a==-b', 'x=a<=b>=c', 'x=a<b>c', 'x=a<-b', 'x=a>-b', 'x=a<<b>>c', 'x=a<<-b', 'x=a>>+b',
    'x=a<=-b', 'x=a>=+b', 'x=a!=~b', 'x=a<b<=c<d!=n', 'x=a is not b', 'x=a not in l', 'x=not a', 'x=a if b else c',
    'x=f"{a!r}"', 'x=f"{a!=b}"', 'x=f"{a!r:>{w}}"', 'x=f"{a != b!r}"', 'x=f"{a==b}"', 'x=f"{a=}"', 'x=f"{a = }"', 'x=f"{a=!r}"',
    'x=f"{a:=^10}"', 'x=f"{(a:=1)}"', 'x=f"{l[::2]}"', 'x=f"{a:{b}.{c}}"', 'x=f"{dd["a"]}"', "x=f'{a:{'>'}{w}}'",
    'x=f"{a!s:>{b}}"', 'x=f"{lambda:1}"' if False else 'x=f"{(lambda:1)}"', 'x=f"{a if b else c}"', 'x=f"{a:{b}{c}}"',
    # @ adjacency, decorators
    'x=a@b', 'x=a@-b', '@f\ndef d1():pass', '@o.q\ndef d2():pass', '@f(1)\ndef d3():pass', '@f\n@f\ndef d4():pass',
    '@a@b\ndef d5():pass' if False else '@(lambda g:g)\ndef d5():pass', '@f\nclass D6:pass', '@l[0]\ndef d7():pass',
    '@f if a else f\ndef d8():pass', '@(y:=f)\ndef d9():pass', '@ f\ndef d10():pass', '@f\nasync def d11():pass',
    '@a@b@c\ndef d12():pass', '@-a\ndef d13():pass' if False else '@f or f\ndef d13():pass', '@[f][0]\ndef d14():pass',
    # unary chains and keyword glue
    'x=~-+a', 'x=not~a', 'x=--a', 'x=-+-a', 'x=a--b', 'x=a-+b', 'x=a+-b', 'x=a%-b', 'x="%s"%a', 'x=a//-b', 'x=a/-b',
    'x=1if a else 2', 'x=1or 0', 'x=1and 2', 'x=[1for y in l]', 'x=1in l', 'x=1is 1' if False else 'x=1is a', 'x=not-1',
    'x=1if 1else 2', 'x=0x1for y in l' if False else 'x=[0x1for y in l]', 'x=1.if a else 2.', 'x=1..real', 'x=1.0.real',
    'x=1 .real', 'x=1.e1.real', 'x=1j.imag', 'x=1_0 .real', 'x=0 .__class__', 'x=1.__class__' if False else 'x=(1).__class__',
    # strings glued
    "x='a''b'", "x='a'\"b\"", "x=rb'a'B\"b\"", "x=f'a'f\"b\"", "x='a'if a else'b'", "x='a'+'b'", "x=b'a'[0]", "x=''.join(l)" if False else "x=''.join",
    'x="a"[::-1]', "x='a'in'b'", "x='a'not in'b'", "x=u'a'U\"b\"", "x=f'{a}'f'{b}'", "x='a' f'{b}' 'c'", "x=(\n'a'\n'b'\n)",
    # dots
    'x=o.q', 'x=o . q', 'x=(o.\nq)', 'x=os.path.join', 'x=f().real', 'x=l[0].real', 'x=o.q.real.imag', 'x=(o\n.q)',
    # semicolons, continuation lines, comments
    'x=1;y=2;', 'x=1; y=2 ;z=3', 'if a:pass;pass', 'x = 1 + \\\n    2', 'x = (1 +  # c\n    2)', 'x = [\n1,\n2,\n]', 'if a and \\\n   b: pass',
    'x = {\n"a": 1,  # c\n}', 'def c1(\n    a,\n    b=1,\n): pass', 'x = f(\n)', 'x = f(\n    a,\n)', 'class C2(\n    K,\n): pass',
    'x = a if b \\\n else c', 'with f() as x, \\\n     f() as y: pass', 'with (f() as x,\n      f() as y,\n): pass', 'with (f()): pass',
    'with (f()) as x: pass', 'with (f(), f()): pass', 'with (f() as x): pass', 'for x in l:pass\nelse:pass', 'while a:break\nelse:pass',
    'try:pass\nexcept(ValueError,TypeError)as e:pass', 'try:pass\nexcept*ValueError:pass', 'try:pass\nexcept*(ValueError,TypeError)as e:pass',
    'try:pass\nexcept ValueError as e:pass\nelse:pass\nfinally:pass', 'def c3():\n    global x;x=1', 'def c4():\n    y=1\n    def c5():\n        nonlocal y;y=2',
    'import os.path as p, os as q', 'import os.path', 'from os import(path)', 'from os import path as p,sep as s', 'from os.path import*',
    'from os import (\n    path,\n    sep,\n)', 'x = yield' if False else 'def c6():\n    x = yield\n    y = yield x\n    z = yield from l\n    return (yield)',
    'async def c7():\n    async with f() as x, f() as y: pass\n    async for x in f(): pass\n    return [y async for y in f()]',
    'async def c8():\n    x = await f()\n    y = await f() + await f()\n    z = -await f()\n    return await f(), await f()',
    'raise ValueError from None', 'raise ValueError(1)from a', 'assert a,"m"', 'assert(a)', 'del x,y', 'del(x)', 'del[x,y]', 'del x,', 'del l[0],o.q',
    'x=y=z=1', 'x,y=y,x', '(x),(y)=1,2', '[x,[y,z]]=1,[2,3]', 'x=y,=[1]', 'for x,in[[1]]:pass', 'for(x)in l:pass', 'for[x,y]in[l[:2]]:pass',
    'x=[y for y in l if y if y]', 'x=[y for y in l for z in l]', 'x={y:z for y,z in[l[:2]]}', 'x=(y for y in l)', 'f(y for y in l)',
    'x=[(y,z)for y in l for z in l if y!=z]', 'x=[y async for y in l]' if False else 'x=[[y for y in l]for z in l]',
    'print(a,b,sep="",end="")', 'print(a,file=None)', 'print', 'x=print', 'exec("1")', 'x=exec',
    # soft keywords as ordinary names
    'match=1', 'case=2', 'type=3' if False else '_=3', 'x=match', 'x=match+case', 'match(x)', 'match[0]' if False else 'match=l;match[0]',
    'match=o;match.q', 'match,case=1,2', 'match:int=1', 'match=match', 'print(match,case)', 'match=1;match*=2', 'match=f;match(a,b)',
    'match=1\nmatch -1:\n    case _:pass' if False else 'match -1:\n    case _:pass', 'match x:\n    case _:pass', 'match(x):\n    case _:pass',
    'match[x]:\n    case[1]:pass', 'match x,y:\n    case 1,2:pass', 'match*l,x:\n    case[*_]:pass', 'match x:\n    case 1|2:pass\n    case str()|int():pass',
    'match x:\n    case{"a":1,**r}:pass', 'match x:\n    case K(q=1):pass', 'match x:\n    case[1,*r]if r:pass', 'match x:\n    case(1|2)as y:pass',
    'match x:\n    case-1:pass\n    case 1+2j:pass\n    case-1-2j:pass', 'match x:\n    case o.q:pass', 'match x:\n    case None|True|False:pass',
    'match x:\n    case"a""b":pass', 'match x:\n    case[]:pass\n    case():pass\n    case{}:pass', 'match x:\n    case _ if(y:=x):pass',
    'case=1;match case:\n    case 1:pass' if False else 'case=1\nmatch case:\n    case 1:pass', 'match=1\nmatch match:\n    case match:pass' if False else 'match=1\nmatch match:\n    case 1:pass',
    'def match(case):return case', 'class match:pass' if False else 'class case:pass', 'x=lambda match:match', 'x=lambda case=1:case',
]


def token_snippets(max_dots=7, all_spellings=False):
    """list of (label, snippet, module_level_only); every snippet is valid on its own after TOKEN_PRELUDE"""
    out = list(relative_import_snippets(max_dots, all_spellings))
    out += [('ellipsis_%d' % i, s, False) for i, s in enumerate(_ELLIPSIS_SNIPPETS)]
    out += [('op_%d' % i, s, False) for i, s in enumerate(_OPERATOR_SNIPPETS)]
    return out


def token_programs(max_dots=7, all_spellings=False, group=24):
    """-> list of (group label, source, [(label, single-snippet source)]): snippets concatenated `group` at a time after
    TOKEN_PRELUDE (CPython-validated one by one first; a snippet CPython rejects is dropped and listed under label
    'rejected')"""
    import warnings
    ok, bad = [], []
    with warnings.catch_warnings():
        warnings.simplefilter('ignore')
        for label, s, modlevel in token_snippets(max_dots, all_spellings):
            src = TOKEN_PRELUDE + s + '\n'
            try:
                compile(src, '<tok>', 'exec')
                ok.append((label, s, src))
            except SyntaxError as e:
                bad.append((label, s, str(e)))
    groups = []
    for i in range(0, len(ok), group):
        part = ok[i:i + group]
        src = TOKEN_PRELUDE + ''.join(s + '\n' for _, s, _ in part)
        try:
            with warnings.catch_warnings():
                warnings.simplefilter('ignore')
                compile(src, '<tokgroup>', 'exec')
        except SyntaxError:
            for label, s, single in part:           # an interaction between snippets: keep them separate
                groups.append((label, single, [(label, single)]))
            continue
        groups.append(('tokgroup_%d' % (i // group), src, [(label, single) for label, _, single in part]))
    return groups, bad


# ---------------------------------------------------------------- mutation
_KW = ['def', 'class', 'lambda', 'yield', 'await', 'async', 'match', 'case', 'except', 'finally', 'global',
       'nonlocal', 'del', 'in', 'is', 'not', 'else']
_TOK = '()[]{}:,.=+-*/%<>!@"\'\\# \n\t'
_JUNK = ['\x00', '\x0c', '\r', '\ufeff', '\r\n', '\x1a', '\u2028', '\xa0', '\\', '\\\n', '"""', "'''", '\x7f', '\U0001F600', 'é',
         '\x0b', '$', '?', '`', '\u00b2', '0_', '1__0', '0777', '1e', '0x', '\\N{', 'f"{', '\t ']


def mutate(rng, src):
    """Return a mutated/truncated variant of src (NOT necessarily valid; always UTF-8 encodable)."""
    r = rng
    for _ in range(r.choice([1, 1, 1, 2, 3])):
        k = r.randint(0, 9)
        lines = src.split('\n')
        pos = r.randint(0, len(src))
        li = r.randrange(len(lines))
        if k == 0: src = src[:pos]
        elif k == 1:
            del lines[li]
            src = '\n'.join(lines)
        elif k == 2:
            lines.insert(li, lines[li])
            src = '\n'.join(lines)
        elif k == 3 and src:
            pos = min(pos, len(src) - 1)
            for _ in range(20):                      # prefer deleting a token char
                if src[pos] in _TOK: break
                pos = r.randrange(len(src))
            src = src[:pos] + src[pos + 1:]
        elif k == 4: src = src[:pos] + r.choice(_TOK) + src[pos:]
        elif k == 5 and len(lines) > 1:
            li = r.randrange(len(lines) - 1)
            lines[li], lines[li + 1] = lines[li + 1], lines[li]
            src = '\n'.join(lines)
        elif k == 6:
            ln = lines[li]
            j = r.randint(0, 2)
            if j == 0: ln = ' ' * r.randint(1, 4) + ln
            elif j == 1: ln = ln[min(r.randint(1, 4), len(ln) - len(ln.lstrip(' '))):]
            else: ln = '\t' + ln
            lines[li] = ln
            src = '\n'.join(lines)
        elif k == 7:
            ms = list(re.finditer(r'[^\W\d]\w*', src))
            if ms:
                m = r.choice(ms)
                src = src[:m.start()] + r.choice(_KW) + src[m.end():]
        elif k == 8: src = src[:pos] + r.choice(_JUNK) + src[pos:]
        else:
            a, b = sorted((pos, r.randint(0, len(src))))
            src = src[:a] + src[min(b, a + 40):]
    return src.encode('utf-8', 'replace').decode('utf-8')


# ---------------------------------------------------------------- shrinking
def _stmt_ranges(src):
    out = []
    for node in ast.walk(ast.parse(src)):
        for fld in ('body', 'orelse', 'finalbody'):
            lst = getattr(node, fld, None)
            if isinstance(lst, list) and lst and isinstance(lst[0], ast.stmt):
                for st in lst:
                    lo = min([st.lineno] + [d.lineno for d in getattr(st, 'decorator_list', [])])
                    out.append((lo, st.end_lineno, len(lst) == 1, st.col_offset))
    out.sort(key=lambda t: (t[0] - t[1], t[0]))       # biggest statements first
    return out


def shrink(src, still_fails, max_calls=200):
    """Smallest variant of src (found within max_calls predicate calls) for which still_fails holds."""
    calls = [0]

    def test(t):
        if calls[0] >= max_calls or not t.strip(): return False
        calls[0] += 1
        try:
            return bool(still_fails(t))
        except Exception:
            return False
    best, progress = src, True
    while progress and calls[0] < max_calls:
        progress = False
        lines = best.split('\n')
        try:
            rs = _stmt_ranges(best)
        except (SyntaxError, ValueError, RecursionError, MemoryError):
            rs = None
        if rs is not None:
            for lo, hi, only, col in rs:
                t = '\n'.join(lines[:lo - 1] + ([' ' * col + 'pass'] if only else []) + lines[hi:])
                if len(t) < len(best) and test(t):
                    best, progress = t, True
                    break
                if calls[0] >= max_calls: break
            if progress: continue
        chunk = max(1, len(lines) // 2)                # ddmin-style fallback on lines
        while chunk >= 1 and calls[0] < max_calls:
            i = 0
            while i < len(lines) and calls[0] < max_calls:
                cand = lines[:i] + lines[i + chunk:]
                if cand and test('\n'.join(cand)): lines, progress = cand, True
                else: i += chunk
            chunk //= 2
        if len(lines) == 1 and len(lines[0]) > 1:     # single line left: try halves
            h = len(lines[0]) // 2
            for cand in (lines[0][:h], lines[0][h:]):
                if test(cand):
                    lines, progress = [cand], True
                    break
        best = '\n'.join(lines)
    return best


# ---------------------------------------------------------------- features
_STMTS = ['FunctionDef', 'AsyncFunctionDef', 'ClassDef', 'Return', 'Delete', 'Assign', 'AugAssign', 'AnnAssign',
          'For', 'AsyncFor', 'While', 'If', 'With', 'AsyncWith', 'Match', 'Raise', 'Try', 'TryStar', 'Assert',
          'Import', 'ImportFrom', 'Global', 'Nonlocal', 'Expr', 'Pass', 'Break', 'Continue']
_EXPRS = ['BoolOp', 'NamedExpr', 'BinOp', 'UnaryOp', 'Lambda', 'IfExp', 'Dict', 'Set', 'ListComp', 'SetComp',
          'DictComp', 'GeneratorExp', 'Await', 'Yield', 'YieldFrom', 'Compare', 'Call', 'FormattedValue',
          'JoinedStr', 'Constant', 'Attribute', 'Subscript', 'Starred', 'Name', 'List', 'Tuple', 'Slice']
_PATS = ['MatchValue', 'MatchSingleton', 'MatchSequence', 'MatchMapping', 'MatchClass', 'MatchStar', 'MatchAs',
         'MatchOr']
_OTHER = ['ExceptHandler', 'comprehension', 'arguments', 'arg', 'keyword', 'alias', 'withitem', 'match_case']
FEATURES = [x.lower() for x in _STMTS + _EXPRS + _PATS + _OTHER]


def features_of(src):
    """Set of lower-cased ast node class names occurring in src ({'unparsable'} if it does not parse)."""
    try:
        return {type(n).__name__.lower() for n in ast.walk(ast.parse(src))}
    except (SyntaxError, ValueError, RecursionError, MemoryError):
        return {'unparsable'}


if __name__ == '__main__':
    import time
    import warnings
    warnings.simplefilter('ignore')
    N = int(sys.argv[1]) if len(sys.argv) > 1 else 500
    hist, bad, nl, t_gen = {}, 0, [], 0.0
    for seed in range(N):
        rng = random.Random(seed)
        t0 = time.perf_counter()
        src = gen_program(rng, 12)
        t_gen += time.perf_counter() - t0
        assert src == gen_program(random.Random(seed), 12), 'non-deterministic'
        lit = gen_literal_program(rng)
        for kind, text in (('prog', src), ('lit', lit)):
            try:
                compile(text, '<g>', 'exec')
            except BaseException as ex:
                bad += 1
                print('FAIL seed=%d kind=%s: %r' % (seed, kind, ex))
                if bad <= 3 and isinstance(ex, SyntaxError) and ex.lineno:
                    print('   line %d: %s' % (ex.lineno, text.split('\n')[ex.lineno - 1][:200]))
        nl.append(src.count('\n'))
        for f in features_of(src): hist[f] = hist.get(f, 0) + 1
        for text in (src, lit):
            m = mutate(rng, text)
            assert isinstance(m, str)
            m.encode('utf-8')

    def _fails(t):
        try:
            compile(t, '<s>', 'exec')
            return False
        except SyntaxError:
            return True
    broken = gen_program(random.Random(1), 12) + 'x = = 1\n'
    small = shrink(broken, _fails)
    assert _fails(small) and len(small) < len(broken) / 4, small
    nl.sort()
    print('programs=%d compile_failures=%d  gen %.2f ms/program  lines min/med/p95/max=%d/%d/%d/%d' % (
        N, bad, 1000 * t_gen / N, nl[0], nl[len(nl) // 2], nl[len(nl) * 95 // 100], nl[-1]))
    print('shrink smoke: %d -> %d chars: %r' % (len(broken), len(small), small))
    for title, group in (('stmt', _STMTS), ('expr', _EXPRS), ('pattern', _PATS), ('other', _OTHER)):
        print('%s coverage (%% of programs): ' % title + ' '.join(
            '%s=%d' % (x, round(100 * hist.get(x.lower(), 0) / N)) for x in group))
        print('  missing %s: %s' % (title, [x for x in group if x.lower() not in hist] or 'none'))
    sys.exit(1 if bad else 0)
