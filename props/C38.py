"""C38 — pure-Python mode: interpreted (Shadow) = compiled, cdiv/cmod/cast = C semantics."""
import json, os
import cybuild

TITLE = "Pure-Python mode behaves the same interpreted and compiled"
EXTRACTS = ["CMath", "ShadowCast"]
RULE = ("Shadow.cast/declare calls (type expression, argument list) against the extracted cast model; "
        "(helper, a, b) triples: exhaustive 8-bit pairs, boundary lattice and PRNG full-width pairs for "
        "cdiv/cmod; float/int values for cast; each run three ways: Shadow.py (sources of /repo) under CPython, "
        "the same .py module compiled, and the extracted Gallina model; distinct by (helper, a, b)")
EXPLANATION = ("theorems: Shadow.cdiv = Z.quot, Shadow.cmod = Z.rem for all integers with b<>0, hence equal to the "
               "C operators on every C integer type; Shadow.cast/declare/typedef (Model/M_ShadowCast.v): typedef/const/"
               "volatile layers of any depth are transparent, cast to a C integer type is the identity on in-range "
               "integers and C's toward-zero conversion on every finite float, cast of an integer to a C floating "
               "type is exact below 2^53 and correctly rounded (half an ulp, 53-bit significand) for every integer, "
               "None and same-class values pass through, declare(t, v) = cast(t, v). partial for general pure-mode "
               "programs: only a fixed family of typed helper programs is run differentially.")
TRUSTED = ["gcc's '/' and '%' on long as the C semantics oracle", "CPython int arithmetic"]
ASSUMPTIONS = ["inputs stay within the declared C ranges (property text); b != 0 and not MIN/-1"]

PURE_SRC = '''# cython: language_level=3
import cython

@cython.locals(a=cython.long, b=cython.long)
def f_cdiv(a, b):
    return cython.cdiv(a, b)

@cython.locals(a=cython.long, b=cython.long)
def f_cmod(a, b):
    return cython.cmod(a, b)

@cython.locals(x=cython.double)
def f_cast_int(x):
    return cython.cast(cython.long, x)

def f_cast_obj(x):
    return cython.cast(cython.long, x)

@cython.locals(a=cython.int, b=cython.int, i=cython.int)
def f_loop(a, b):
    acc = cython.declare(cython.long, 0)
    for i in range(a, b):
        acc += cython.cdiv(i * 7 - 3, 4) + cython.cmod(i - 5, 3)
    return acc

@cython.cfunc
@cython.returns(cython.long)
@cython.locals(a=cython.long, b=cython.long)
def _helper(a, b):
    return cython.cdiv(a, b) * b + cython.cmod(a, b)

@cython.ccall
@cython.locals(a=cython.long, b=cython.long)
def f_identity(a, b):
    return _helper(a, b)

@cython.locals(x=cython.double)
def g_d2i(x):
    return cython.cast(cython.int, x)

@cython.locals(x=cython.double)
def g_d2u(x):
    return cython.cast(cython.uint, x)

@cython.locals(z=cython.int)
def g_decl(z):
    v = cython.declare(cython.long, z)
    return v

@cython.locals(z=cython.long)
def g_l2d(z):
    return cython.cast(cython.double, z)

@cython.locals(z=cython.longlong)
def g_ll2d(z):
    return cython.cast(cython.double, z)

@cython.locals(z=cython.long)
def g_l2l(z):
    return cython.cast(cython.long, z)

@cython.locals(x=cython.double)
def q_cint(x):
    return cython.cast(cython.const[cython.int], x)

@cython.locals(x=cython.double)
def q_vclong(x):
    return cython.cast(cython.volatile[cython.const[cython.long]], x)

@cython.locals(z=cython.long)
def q_cdbl(z):
    return cython.cast(cython.const[cython.double], z)

@cython.locals(x=cython.double)
def q_bint(x):
    return cython.cast(cython.bint, x)

@cython.locals(x=cython.double)
def q_cbint(x):
    return cython.cast(cython.const[cython.bint], x)

@cython.locals(x=cython.double)
def q_vbint(x):
    return cython.cast(cython.volatile[cython.bint], x)

@cython.locals(a=cython.int, b=cython.int)
def sweep8():
    out = []
    for a in range(-128, 128):
        for b in range(-128, 128):
            if b == 0:
                continue
            out.append(cython.cdiv(a, b))
            out.append(cython.cmod(a, b))
    return out
'''


def vtok(x):
    """value token of the ShadowCast model driver (finite floats exactly as sign:mantissa:exponent)"""
    import math
    if x is None:
        return "N"
    if isinstance(x, int):
        return "I%d" % x
    if x != x:
        return "Nan"
    if x in (float("inf"), float("-inf")):
        return "Inf%d" % (x < 0)
    m, e = math.frexp(abs(x))
    return "F%d:%d:%d" % (math.copysign(1, x) < 0, int(m * 2 ** 53), e - 53)


def canon_tok(t):
    if t.startswith("V F"):
        s, m, e = [int(k) for k in t[3:].split(":")]
        while m and m % 2 == 0:
            m //= 2; e += 1
        if m == 0:
            e = 0
        return "V F%d:%d:%d" % (s, m, e)
    return t


CAST_WORKER = r"""
import sys, json, math
import pyload; pyload.install()
import Cython.Shadow as S
pyload.assert_sources()
spec = json.load(sys.stdin)
class K1:
    def __init__(self, *a): self.n = len(a)
class K2:
    def __init__(self, *a): self.n = len(a)
KS = {1: K1, 2: K2}
INST = {}
def inst(c, i):
    if (c, i) not in INST: INST[(c, i)] = KS[c]()
    return INST[(c, i)]
TY = {
 "0:i": int, "0:f": float, "1:i": S.py_int, "1:f": S.py_float, "2:i": S.long, "2:i#u": S.uint, "2:i#s": S.short,
 "3:i": S.const[S.long], "4:i": S.volatile[S.const[S.int]], "5:i": S.typedef(S.restrict[S.volatile[S.const[S.longlong]]]),
 "2:f": S.double, "2:f#f": S.float, "3:f": S.const[S.double], "0:o1": K1, "1:o1": S.typedef(K1), "0:o2": K2,
 "0:n": "notatype", "1:n": S.typedef("str"), "2:n": S.const[S.typedef(7)],
}
def val(t):
    if t == "N": return None
    if t == "Nan": return float("nan")
    if t.startswith("Inf"): return float("-inf") if t[3] == "1" else float("inf")
    if t[0] == "I": return int(t[1:])
    if t[0] == "F":
        s, m, e = [int(k) for k in t[1:].split(":")]
        x = math.ldexp(m, e)
        return -x if s else x
    if t[0] == "O":
        c, i = [int(k) for k in t[1:].split(":")]
        return inst(c, i)
    raise ValueError(t)
def tok(x):
    if x is None: return "N"
    if type(x) is int: return "I%d" % x
    if type(x) is float:
        if x != x: return "Nan"
        if x in (float("inf"), float("-inf")): return "Inf%d" % (x < 0)
        m, e = math.frexp(abs(x))
        return "F%d:%d:%d" % (math.copysign(1, x) < 0, int(m * 2 ** 53), e - 53)
    for (c, i), o in INST.items():
        if o is x: return "O%d:%d" % (c, i)
    for c, k in KS.items():
        if type(x) is k: return "W%d:%d" % (c, x.n)
    return "?" + repr(x)
out = []
for mode, ty, vs in spec:
    try:
        args = [val(v) for v in vs]
        r = S.cast(TY[ty], *args) if mode == "cast" else S.declare(TY[ty], *args)
        out.append("V " + tok(r))
    except Exception as e:
        out.append("E " + type(e).__name__)
print(json.dumps(out))
"""

CAST_TYPES = ["0:i", "0:f", "1:i", "1:f", "2:i", "2:i#u", "2:i#s", "3:i", "4:i", "5:i", "2:f", "2:f#f", "3:f",
              "0:o1", "1:o1", "0:o2", "0:n", "1:n", "2:n"]


def c_semantics(ty, vs):
    """what the C conversion gives for a single in-range argument (independent of the model):
    integer type <- finite double: truncation; integer type <- integer: identity;
    floating type <- 64-bit integer: the nearest double"""
    import math
    if len(vs) != 1 or ty.split("#")[0].split(":")[1] not in ("i", "f"):
        return None
    kind = ty.split("#")[0].split(":")[1]
    v = vs[0]
    if v.startswith("Inf"):
        return None
    if v[0] == "I" and abs(int(v[1:])) < 2 ** 63:
        return "V " + (v if kind == "i" else vtok(float(int(v[1:]))))
    if v[0] == "F":
        sg, m, e = [int(k) for k in v[1:].split(":")]
        x = math.ldexp(m, e) * (-1 if sg else 1)
        if kind == "f":
            return "V " + v
        if abs(x) < 2 ** 63:
            return "V I%d" % math.trunc(x)
    return None


def run_cast_matrix(ctx):
    """Shadow.cast / Shadow.declare (sources of /repo, under CPython) against the extracted model on
    type expressions x argument lists"""
    quick = ctx.tier == "quick"
    rng = ctx.rng
    ints = [0, 1, -5, 2 ** 53, 2 ** 53 + 1, -(2 ** 53 + 3), 2 ** 54 + 2, 2 ** 54 + 6, 2 ** 70 + 12345, 10 ** 400,
            2 ** 1024 - 2 ** 970, 2 ** 1024 - 2 ** 970 - 1, -(2 ** 1024), 2 ** 63 - 1, -2 ** 63]
    ints += [(-1) ** k * rng.getrandbits(rng.randrange(1, 1100)) for k in range(30 if quick else 600)]
    # ties and near-ties at every size
    for k in range(10 if quick else 200):
        n = rng.randrange(54, 200)
        q = rng.getrandbits(53) | (1 << 52)
        sh = n - 53
        ints += [q << sh | 1 << (sh - 1), (q << sh | 1 << (sh - 1)) + rng.choice([-1, 1]), -(q << sh | 1 << (sh - 1))]
    floats = [0.0, -0.0, 0.5, -0.5, -7.99, 2.5, 1e300, -1e300, 2.5e-300, 5e-324, 123456789.987, float("inf"), float("-inf"), float("nan")]
    floats += [rng.uniform(-1, 1) * 2.0 ** rng.randrange(-80, 200) for _ in range(20 if quick else 400)]
    vals = ["N", "O1:1", "O1:2", "O2:1"] + [vtok(z) for z in ints] + [vtok(x) for x in floats]
    spec = []
    for ty in CAST_TYPES:
        spec.append(("cast", ty, []))
        spec.append(("declare", ty, []))
        for v in vals:
            spec.append(("cast", ty, [v]))
        for v in vals[:8] + rng.sample(vals, 6):
            spec.append(("declare", ty, [v]))
            spec.append(("cast", ty, [v, rng.choice(vals)]))
        spec.append(("cast", ty, [rng.choice(vals) for _ in range(3)]))
    r = cybuild.run_script(CAST_WORKER, os.path.join(ctx.workdir, "castw"), stdin_obj=spec, timeout=600)
    if r["rc"] != 0 or not isinstance(r["json"], list) or len(r["json"]) != len(spec):
        ctx.corr_break("shadowcast:worker", "cast matrix", (r["rc"], r["err"][-1500:]), "worker runs")
        return
    cmodel = ctx.model("shadowcast")
    mres = cmodel.batch(["%s %s %s" % (mode, ty.split("#")[0], " ".join(vs)) for mode, ty, vs in spec])
    for (mode, ty, vs), got, m in zip(spec, r["json"], mres):
        inp = {"helper": mode, "type": ty, "args": vs}
        ctx.case("shadow_" + mode, inp, sig=(mode, ty, tuple(vs)))
        exp = c_semantics(ty, vs)
        if exp is not None and canon_tok(got) != canon_tok(exp):
            # property text: "the shadow ... cast functions equal C semantics on all such inputs"
            ctx.fail("shadow_cast_not_c_semantics", inp, got, exp)
        elif canon_tok(got) != canon_tok(m):
            ctx.corr_break("shadowcast:" + mode, inp, got, m)
    ctx.extra.setdefault("input_distribution", {})["cast_matrix"] = {
        "type_expressions": len(CAST_TYPES), "values": len(vals), "calls": len(spec)}


def trunc_div(a, b):
    q = abs(a) // abs(b)
    return q if (a < 0) == (b < 0) else -q


def run(ctx):
    quick = ctx.tier == "quick"
    wd = ctx.workdir
    run_cast_matrix(ctx)
    cdir = os.path.join(wd, "compiled")
    idir = os.path.join(wd, "interp")
    os.makedirs(idir, exist_ok=True)
    with open(os.path.join(idir, "c38_pure.py"), "w") as f:
        f.write(PURE_SRC)
    try:
        cybuild.build("c38_pure", PURE_SRC, cdir, suffix=".py")
    except cybuild.BuildError as e:
        ctx.corr_break("build c38_pure", "c38_pure.py", str(e)[:1500], "module builds")
        return
    lo, hi = -2 ** 63, 2 ** 63 - 1
    vals = {lo, lo + 1, hi, hi - 1, 0, 1, -1, 2, -2, 3, -3, 7, -7, 10, 2 ** 31, -2 ** 31, 2 ** 31 - 1, 2 ** 32, 2 ** 62, -2 ** 62}
    for _ in range(20 if quick else 120):
        k = ctx.rng.randrange(1, 64)
        v = ctx.rng.getrandbits(k)
        vals.add(-v if ctx.rng.random() < 0.5 else v)
    vals = sorted(v for v in vals if lo <= v <= hi)
    pairs = [(a, b) for a in vals for b in vals if b != 0 and not (a == lo and b == -1)]
    cases = []
    for a, b in pairs:
        for fn in ("f_cdiv", "f_cmod", "f_identity"):
            cases.append((fn, [a, b]))
    casts = [0.0, -0.0, 0.5, -0.5, 1.5, -1.5, 2.5, 1e18, -1e18, 9.2e18, -9.2e18, 123456789.987, -7.999999]
    for x in casts:
        cases.append(("f_cast_int", [x]))
        cases.append(("f_cast_obj", [x]))
    for x in [0, 1, -1, hi, lo, 12345]:
        cases.append(("f_cast_obj", [x]))
    for a, b in [(0, 10), (-50, 50), (-3, 2), (5, 5), (7, 3), (-1000, 1000)]:
        cases.append(("f_loop", [a, b]))
    gcases = []
    for x in casts + [float(ctx.rng.randrange(-2 ** 31, 2 ** 31)) + ctx.rng.random() for _ in range(10 if quick else 200)]:
        if abs(x) < 2 ** 31 - 1:
            gcases.append(("g_d2i", x))
            if x > -1.0:
                gcases.append(("g_d2u", x))
        if abs(x) < 2 ** 31 - 1:
            gcases.append(("g_decl", int(x)))
    zs = [0, 1, -1, 2 ** 53, 2 ** 53 + 1, -(2 ** 53 + 3), 2 ** 53 + 2, 2 ** 54 + 2, 2 ** 54 + 6, hi, lo, hi - 511, hi - 512, hi - 513, 12345]
    zs += [(-1) ** k * ctx.rng.getrandbits(ctx.rng.randrange(50, 64)) for k in range(20 if quick else 400)]
    for z in zs:
        gcases += [("g_l2d", z), ("g_ll2d", z), ("g_l2l", z)]
    for fn, v in gcases:
        cases.append((fn, [v]))
    for x in [0.0, -0.0, 0.5, -0.5, 0.25, 1.0, -1.0, 2.0, 1e-300, -7.99, 123456.789]:
        for fn in ("q_cint", "q_vclong", "q_bint", "q_cbint", "q_vbint"):
            cases.append((fn, [x]))
    for z in zs[:12]:
        cases.append(("q_cdbl", [z]))
    cases.append(("sweep8", []))
    call = [["c38_pure.%s" % fn, args] for fn, args in cases]
    # compiled run
    rc = cybuild.call_cases(cdir, call, setup="import c38_pure", alarm=60)
    # interpreted run: the .py module under CPython with Cython.Shadow from the repo sources
    ri = cybuild.call_cases(idir, call, alarm=60,
                            setup="import pyload; pyload.install(); import cython, Cython.Shadow; pyload.assert_sources(); "
                                  "assert not cython.compiled; import c38_pure; assert c38_pure.__file__.endswith('.py')")
    model = ctx.model("cmath")
    mq = []
    for fn, args in cases:
        if fn == "f_cdiv":
            mq.append("sh_cdiv %d %d" % tuple(args))
        elif fn == "f_cmod":
            mq.append("sh_cmod %d %d" % tuple(args))
        else:
            mq.append(None)
    mres = iter(model.batch([q for q in mq if q]))
    mq2 = []
    for fn, args in cases:   # the C side of the theorem: cdiv_c/cmod_c at width 64
        if fn == "f_cdiv":
            mq2.append("cdiv_c 64 1 %d %d" % tuple(args))
        elif fn == "f_cmod":
            mq2.append("cmod_c 64 1 %d %d" % tuple(args))
    mres2 = iter(model.batch(mq2))
    cmodel = ctx.model("shadowcast")
    GT = {"g_d2i": "2:i", "g_d2u": "2:i", "g_decl": "2:i", "g_l2d": "2:f", "g_ll2d": "2:f", "g_l2l": "2:i"}
    gq = ["%s %s %s" % ("declare" if fn == "g_decl" else "cast", GT[fn], vtok(args[0])) for fn, args in cases if fn in GT]
    gres = iter(cmodel.batch(gq))
    for (fn, args), c, i, q in zip(cases, rc, ri, mq):
        inp = {"func": fn, "args": args}
        if fn == "sweep8":
            if "e" in c or "e" in i:
                ctx.fail("sweep_error", inp, {"compiled": c, "interpreted": i}, "two lists")
                continue
            cv = [x["r"] for x in c["r"]]; iv = [x["r"] for x in i["r"]]
            exp = []
            for a in range(-128, 128):
                for b in range(-128, 128):
                    if b == 0:
                        continue
                    qq = trunc_div(a, b)
                    exp += [repr(qq), repr(a - qq * b)]
            ctx.count("sweep8", len(exp), distinct_sigs=[("sweep8", len(exp))])
            for k, (x, y, z) in enumerate(zip(cv, iv, exp)):
                if x != z or y != z:
                    ctx.fail("cdiv_cmod_8bit", {"func": "sweep8", "index": k}, {"compiled": x, "interpreted": y}, z)
                    break
            ctx.extra["exhaustive_domains"] = ["cdiv/cmod on all 8-bit pairs with b != 0: %d values" % len(exp)]
            continue
        ctx.case(fn, inp, sig=(fn, tuple(args)))
        cc = ("exc", c["e"]) if "e" in c else (c["t"], c["r"])
        ii = ("exc", i["e"]) if "e" in i else (i["t"], i["r"])
        if fn.startswith("f_cast") and isinstance(args[0], float) and abs(args[0]) >= 2 ** 63:
            continue  # outside the declared C range
        if cc != ii:
            ctx.fail("interpreted_ne_compiled", inp, {"compiled": cc, "interpreted": ii}, "equal results")
            continue
        if q is not None:
            m = next(mres); m2 = next(mres2)
            if ("int", m) != ii:
                ctx.corr_break("cmath:" + q.split()[0], inp, ii, m)
            if m2 != m:
                ctx.corr_break("cmath:model-C-operator", inp, m, m2)
            a, b = args
            qq = trunc_div(a, b)
            exp = qq if "div" in fn else a - qq * b
            if cc != ("int", repr(exp)):
                ctx.fail("not_c_semantics", inp, cc, exp)
        elif fn in GT:
            m = canon_tok(next(gres))
            got = canon_tok("E " + cc[1].split(":")[0] if cc[0] == "exc" else "V " + vtok(float.fromhex(cc[1]) if cc[0] == "float" else int(cc[1])))
            if m != got:
                ctx.corr_break("shadowcast:typed-cast", inp, got, m)
        elif fn == "f_identity":
            if cc != ("int", repr(args[0])):
                ctx.fail("div_mod_identity", inp, cc, args[0])
