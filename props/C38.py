"""C38 — pure-Python mode: interpreted (Shadow) = compiled, cdiv/cmod/cast = C semantics."""
import json, os
import cybuild

TITLE = "Pure-Python mode behaves the same interpreted and compiled"
EXTRACTS = ["CMath"]
RULE = ("(helper, a, b) triples: exhaustive 8-bit pairs, boundary lattice and PRNG full-width pairs for "
        "cdiv/cmod; float/int values for cast; each run three ways: Shadow.py (sources of /repo) under CPython, "
        "the same .py module compiled, and the extracted Gallina model; distinct by (helper, a, b)")
EXPLANATION = ("theorems: Shadow.cdiv = Z.quot, Shadow.cmod = Z.rem for all integers with b<>0, hence equal to the "
               "C operators on every C integer type. partial for general pure-mode programs: only a fixed family "
               "of typed helper programs is run differentially.")
TRUSTED = ["gcc's '/' and '%' on long as the C semantics oracle", "CPython int arithmetic"]
ASSUMPTIONS = ["inputs stay within the declared C ranges (property text); b != 0 and not MIN/-1"]

PURE_SRC = '''# cython: language_level=3
import cython

@cython.locals(a=cython.long, b=cython.long)
def f_cdiv(a, b):
    return cython.cdiv(a, b)

@cython.locals(a=cython.long, b=cython.long)
def f_cmod(a, b):
    return cython.cmod(a, b)

@cython.locals(x=cython.double)
def f_cast_int(x):
    return cython.cast(cython.long, x)

def f_cast_obj(x):
    return cython.cast(cython.long, x)

@cython.locals(a=cython.int, b=cython.int, i=cython.int)
def f_loop(a, b):
    acc = cython.declare(cython.long, 0)
    for i in range(a, b):
        acc += cython.cdiv(i * 7 - 3, 4) + cython.cmod(i - 5, 3)
    return acc

@cython.cfunc
@cython.returns(cython.long)
@cython.locals(a=cython.long, b=cython.long)
def _helper(a, b):
    return cython.cdiv(a, b) * b + cython.cmod(a, b)

@cython.ccall
@cython.locals(a=cython.long, b=cython.long)
def f_identity(a, b):
    return _helper(a, b)

@cython.locals(a=cython.int, b=cython.int)
def sweep8():
    out = []
    for a in range(-128, 128):
        for b in range(-128, 128):
            if b == 0:
                continue
            out.append(cython.cdiv(a, b))
            out.append(cython.cmod(a, b))
    return out
'''


def trunc_div(a, b):
    q = abs(a) // abs(b)
    return q if (a < 0) == (b < 0) else -q


def run(ctx):
    quick = ctx.tier == "quick"
    wd = ctx.workdir
    cdir = os.path.join(wd, "compiled")
    idir = os.path.join(wd, "interp")
    os.makedirs(idir, exist_ok=True)
    with open(os.path.join(idir, "c38_pure.py"), "w") as f:
        f.write(PURE_SRC)
    try:
        cybuild.build("c38_pure", PURE_SRC, cdir, suffix=".py")
    except cybuild.BuildError as e:
        ctx.corr_break("build c38_pure", "c38_pure.py", str(e)[:1500], "module builds")
        return
    lo, hi = -2 ** 63, 2 ** 63 - 1
    vals = {lo, lo + 1, hi, hi - 1, 0, 1, -1, 2, -2, 3, -3, 7, -7, 10, 2 ** 31, -2 ** 31, 2 ** 31 - 1, 2 ** 32, 2 ** 62, -2 ** 62}
    for _ in range(20 if quick else 120):
        k = ctx.rng.randrange(1, 64)
        v = ctx.rng.getrandbits(k)
        vals.add(-v if ctx.rng.random() < 0.5 else v)
    vals = sorted(v for v in vals if lo <= v <= hi)
    pairs = [(a, b) for a in vals for b in vals if b != 0 and not (a == lo and b == -1)]
    cases = []
    for a, b in pairs:
        for fn in ("f_cdiv", "f_cmod", "f_identity"):
            cases.append((fn, [a, b]))
    casts = [0.0, -0.0, 0.5, -0.5, 1.5, -1.5, 2.5, 1e18, -1e18, 9.2e18, -9.2e18, 123456789.987, -7.999999]
    for x in casts:
        cases.append(("f_cast_int", [x]))
        cases.append(("f_cast_obj", [x]))
    for x in [0, 1, -1, hi, lo, 12345]:
        cases.append(("f_cast_obj", [x]))
    for a, b in [(0, 10), (-50, 50), (-3, 2), (5, 5), (7, 3), (-1000, 1000)]:
        cases.append(("f_loop", [a, b]))
    cases.append(("sweep8", []))
    call = [["c38_pure.%s" % fn, args] for fn, args in cases]
    # compiled run
    rc = cybuild.call_cases(cdir, call, setup="import c38_pure", alarm=60)
    # interpreted run: the .py module under CPython with Cython.Shadow from the repo sources
    ri = cybuild.call_cases(idir, call, alarm=60,
                            setup="import pyload; pyload.install(); import cython, Cython.Shadow; pyload.assert_sources(); "
                                  "assert not cython.compiled; import c38_pure; assert c38_pure.__file__.endswith('.py')")
    model = ctx.model("cmath")
    mq = []
    for fn, args in cases:
        if fn == "f_cdiv":
            mq.append("sh_cdiv %d %d" % tuple(args))
        elif fn == "f_cmod":
            mq.append("sh_cmod %d %d" % tuple(args))
        else:
            mq.append(None)
    mres = iter(model.batch([q for q in mq if q]))
    mq2 = []
    for fn, args in cases:   # the C side of the theorem: cdiv_c/cmod_c at width 64
        if fn == "f_cdiv":
            mq2.append("cdiv_c 64 1 %d %d" % tuple(args))
        elif fn == "f_cmod":
            mq2.append("cmod_c 64 1 %d %d" % tuple(args))
    mres2 = iter(model.batch(mq2))
    for (fn, args), c, i, q in zip(cases, rc, ri, mq):
        inp = {"func": fn, "args": args}
        if fn == "sweep8":
            if "e" in c or "e" in i:
                ctx.fail("sweep_error", inp, {"compiled": c, "interpreted": i}, "two lists")
                continue
            cv = [x["r"] for x in c["r"]]; iv = [x["r"] for x in i["r"]]
            exp = []
            for a in range(-128, 128):
                for b in range(-128, 128):
                    if b == 0:
                        continue
                    qq = trunc_div(a, b)
                    exp += [repr(qq), repr(a - qq * b)]
            ctx.count("sweep8", len(exp), distinct_sigs=[("sweep8", len(exp))])
            for k, (x, y, z) in enumerate(zip(cv, iv, exp)):
                if x != z or y != z:
                    ctx.fail("cdiv_cmod_8bit", {"func": "sweep8", "index": k}, {"compiled": x, "interpreted": y}, z)
                    break
            ctx.extra["exhaustive_domains"] = ["cdiv/cmod on all 8-bit pairs with b != 0: %d values" % len(exp)]
            continue
        ctx.case(fn, inp, sig=(fn, tuple(args)))
        cc = ("exc", c["e"]) if "e" in c else (c["t"], c["r"])
        ii = ("exc", i["e"]) if "e" in i else (i["t"], i["r"])
        if fn.startswith("f_cast") and isinstance(args[0], float) and abs(args[0]) >= 2 ** 63:
            continue  # outside the declared C range
        if cc != ii:
            ctx.fail("interpreted_ne_compiled", inp, {"compiled": cc, "interpreted": ii}, "equal results")
            continue
        if q is not None:
            m = next(mres); m2 = next(mres2)
            if ("int", m) != ii:
                ctx.corr_break("cmath:" + q.split()[0], inp, ii, m)
            if m2 != m:
                ctx.corr_break("cmath:model-C-operator", inp, m, m2)
            a, b = args
            qq = trunc_div(a, b)
            exp = qq if "div" in fn else a - qq * b
            if cc != ("int", repr(exp)):
                ctx.fail("not_c_semantics", inp, cc, exp)
        elif fn == "f_identity":
            if cc != ("int", repr(args[0])):
                ctx.fail("div_mod_identity", inp, cc, args[0])
