"""Helper of props/C40.py (not a property): runs inside a subprocess with the compiler under test
loaded from sources.  stdin JSON {"cmd": "tables"} or {"cmd": "compile", "jobs": [{src, out, infer}]}.
Prints one JSON line."""
import sys, json, io, os, traceback
import pyload
pyload.install()
from Cython.Compiler import (Main, Options, Errors, TypeInference, ExprNodes, Nodes, PyrexTypes, Builtin,
                             Symtab, FlowControl)
from Cython import Utils
from Cython.Compiler.TypeInference import TypedExprNode
pyload.assert_sources()

T = [PyrexTypes.py_object_type, Builtin.int_type, Builtin.float_type, Builtin.bool_type, Builtin.unicode_type,
     Builtin.list_type, PyrexTypes.c_long_type, PyrexTypes.c_int_type, PyrexTypes.c_double_type,
     PyrexTypes.c_bint_type]
BINOPS = ["+", "-", "*", "//", "%", "/", "<<", ">>", "&", "|", "^"]


def tidx(t):
    for i, x in enumerate(T):
        if x is t:
            return i
    return None


def tables():
    ctx = Main.Context.from_options(Main.CompilationOptions(Main.default_options))
    env = Symtab.ModuleScope("m", None, ctx)
    env.directives = dict(Options.get_directive_defaults())
    env.directives["language_level"] = 3
    pos = ("x", 1, 1)

    def enc(t):
        i = tidx(t) if t is not None else None
        return 255 if i is None else i
    tb_bin = []
    for op in BINOPS:
        for t1 in T:
            for t2 in T:
                nd = ExprNodes.binop_node(pos, op, TypedExprNode(t1, pos), TypedExprNode(t2, pos))
                if op == "/":
                    nd.truedivision = True
                tb_bin.append(enc(nd.infer_type(env)))
    tb_un = []
    for cls in (ExprNodes.UnaryMinusNode, ExprNodes.TildeNode, ExprNodes.NotNode, ExprNodes.UnaryPlusNode):
        for t1 in T:
            tb_un.append(enc(cls(pos, operand=TypedExprNode(t1, pos)).infer_type(env)))
    tb_cond, tb_bool, fspan, sp2 = [], [], [], []
    for t1 in T:
        for t2 in T:
            tb_cond.append(enc(ExprNodes.CondExprNode(
                pos, condition=TypedExprNode(PyrexTypes.py_object_type, pos), true_val=TypedExprNode(t1, pos),
                false_val=TypedExprNode(t2, pos)).infer_type(env)))
            tb_bool.append(enc(ExprNodes.BoolBinopNode(
                pos, operator="or", operand1=TypedExprNode(t1, pos), operand2=TypedExprNode(t2, pos)).infer_type(env)))
            fspan.append(enc(TypeInference.find_spanning_type(t1, t2)))
            sp2.append(enc(PyrexTypes.spanning_type(t1, t2)))
    return {"bin": tb_bin, "un": tb_un, "cond": tb_cond, "bool": tb_bool, "fspan": fspan, "span2": sp2}


def spans(cases):
    """cases: [[mode, mo, [type idx...]], ...] -> result type idx of the real spanning functions"""
    ctx = Main.Context.from_options(Main.CompilationOptions(Main.default_options))
    env = Symtab.ModuleScope("m", None, ctx)
    out = []
    for mode, mo, ts in cases:
        f = TypeInference.safe_spanning_type if mode == "S" else TypeInference.aggressive_spanning_type
        r = tidx(f([T[i] for i in ts], bool(mo), env))
        out.append(255 if r is None else r)
    return out


# ------------------------------------------------------------------ summaries
SCOPE_NODE = {}
PRE = {}
DUMPS = []


class Outside(Exception):
    pass


_orig_fdn = TypeInference.MarkOverflowingArithmetic.visit_FuncDefNode


def _hook_fdn(self, node):
    SCOPE_NODE[id(node.local_scope)] = node
    return _orig_fdn(self, node)


TypeInference.MarkOverflowingArithmetic.visit_FuncDefNode = _hook_fdn
_orig_infer = TypeInference.SimpleAssignmentTypeInferer.infer_types


def _hook_infer(self, scope):
    unspec = [e.type is PyrexTypes.unspecified_type for e in scope.entries.values()]
    decl = [e.type for e in scope.entries.values()]
    _orig_infer(self, scope)
    node = SCOPE_NODE.get(id(scope))
    if node is not None and not scope.outer_scope.is_module_scope:
        DUMPS.append({"name": scope.qualified_name, "inmodel": False, "why": "inner scope"})
    elif node is not None:
        try:
            DUMPS.append(summarise(scope, node, unspec, decl))
        except Exception as e:
            DUMPS.append({"name": scope.qualified_name, "inmodel": False,
                          "why": "dump error " + "".join(traceback.format_exception_only(type(e), e))[-300:]})


TypeInference.SimpleAssignmentTypeInferer.infer_types = _hook_infer

UNCLS = [(ExprNodes.UnaryMinusNode, 0), (ExprNodes.TildeNode, 1), (ExprNodes.NotNode, 2),
         (ExprNodes.UnaryPlusNode, 3)]


class Ser:
    def __init__(self, scope, node):
        self.scope = scope
        self.entries = list(scope.entries.values())
        self.eidx = {id(e): i for i, e in enumerate(self.entries)}
        self.aid = {}
        self.assigns = []
        for e in self.entries:
            for a in e.cf_assignments:
                self.aid[id(a)] = len(self.assigns)
                self.assigns.append(a)
        self.why = []
        self.rhs_mode = False
        self.arith_used = set()     # entries used as (nested) operands of + - * ... unary - ~ +
        self.cond_used = set()      # entries used inside x if c else y / and / or / min / max
        self.captured = set()       # entries referenced from inner scopes
        self.inner_arith = set()    # ... and used in arithmetic there

    def out(self, why, always=False):
        if not (self.rhs_mode or always):
            return
        if why not in self.why:
            self.why.append(why)

    def entry_index(self, node, env):
        entry = node.entry or env.lookup(node.name)
        seen = 0
        while entry is not None and id(entry) not in self.eidx and seen < 10:
            entry = getattr(entry, "outer_entry", None)
            seen += 1
        if entry is None:
            return None
        return self.eidx.get(id(entry))

    def seq(self, parts):
        parts = [p for p in parts if p != ["E"]]
        if not parts:
            return ["E"]
        r = parts[-1]
        for p in reversed(parts[:-1]):
            r = ["Z"] + p + r
        return r

    def children(self, node, env, inner, ctx):
        parts = []
        for attr in node.child_attrs or []:
            ch = getattr(node, attr, None)
            if ch is None:
                continue
            if isinstance(ch, list):
                for c in ch:
                    if c is not None:
                        parts.append(self.ser(c, env, inner, ctx))
            else:
                parts.append(self.ser(ch, env, inner, ctx))
        return self.seq(parts)

    def ser(self, node, env, inner, ctx):
        """ctx: set of context tags ('arith', 'cond') for the classification features"""
        E = ExprNodes
        if isinstance(node, E.IntNode):
            if node.type is not None and not node.type.is_pyobject and node.type is not PyrexTypes.c_long_type:
                self.out("typed IntNode %s" % node.type)
            if node.unsigned or node.longness:
                self.out("C literal suffix")
            if self.rhs_mode and node.type is PyrexTypes.py_object_type:
                return ["T", "0", "E"]      # constant-folded literal: plain object
            return ["I", str(Utils.str_to_number(node.value))]
        if isinstance(node, E.FloatNode):
            return ["F"]
        if isinstance(node, E.BoolNode):
            return ["B", "1" if node.value else "0"]
        if isinstance(node, E.UnicodeNode):
            return ["S"]
        if isinstance(node, E.NoneNode):
            return ["N"]
        if isinstance(node, (TypedExprNode, FlowControl.TypedExprNode)):
            i = tidx(node.type)
            if i is None or not node.type.is_pyobject:
                self.out("typed expr %s" % node.type)
                i = 0
            return ["T", str(i), "E"]
        if isinstance(node, E.NameNode):
            x = self.entry_index(node, env)
            if x is None:
                return ["E"]
            if "arith" in ctx:
                self.arith_used.add(x)
            if "cond" in ctx:
                self.cond_used.add(x)
            if inner:
                self.captured.add(x)
                if "arith" in ctx:
                    self.inner_arith.add(x)
                return ["V", str(x), "-1", "0"]
            ann = node.inferred_type
            a = -1
            if ann is not None:
                a = tidx(ann)
                if a is None:
                    self.out("annotation %s" % ann)
                    a = 0
            cf = []
            for asm in (node.cf_state or ()):
                if id(asm) in self.aid:
                    cf.append(self.aid[id(asm)])
                else:
                    self.out("cf_state outside entry assignments")
            cf.sort()
            return ["V", str(x), str(a), str(len(cf))] + [str(c) for c in cf]
        for cls, k in UNCLS:
            if type(node) is cls:
                c2 = ctx | ({"arith"} if k != 2 else set())
                return ["U", str(k)] + self.ser(node.operand, env, inner, c2)
        if isinstance(node, E.BinopNode) and getattr(node, "operator", None) in BINOPS and type(node).__name__ in (
                "AddNode", "SubNode", "MulNode", "DivNode", "ModNode", "IntBinopNode", "BitwiseOrNode"):
            if node.operator == "/" and not node.truedivision:
                self.out("true division flag unknown (augmented /=)")
            return (["O", str(BINOPS.index(node.operator))] + self.ser(node.operand1, env, inner, ctx | {"arith"})
                    + self.ser(node.operand2, env, inner, ctx | {"arith"}))
        if isinstance(node, E.BinopNode):
            self.out("binop %s" % type(node).__name__)
            return ["D"] + self.children(node, env, inner, ctx | {"arith"})
        if type(node) is E.PrimaryCmpNode and node.cascade is None:
            return ["C"] + self.ser(node.operand1, env, inner, ctx) + self.ser(node.operand2, env, inner, ctx)
        if type(node) is E.CondExprNode:
            return (["Q"] + self.ser(node.condition, env, inner, ctx) + self.ser(node.true_val, env, inner, ctx | {"cond"})
                    + self.ser(node.false_val, env, inner, ctx | {"cond"}))
        if type(node) is E.BoolBinopNode:
            return (["L"] + self.ser(node.operand1, env, inner, ctx | {"cond"})
                    + self.ser(node.operand2, env, inner, ctx | {"cond"}))
        if type(node) is E.SimpleCallNode:
            fn = node.function
            if fn.is_name and fn.name in ("abs", "min", "max", "len", "ord", "bool", "int", "float", "str", "divmod",
                                          "pow", "round", "range", "isinstance", "type"):
                self.out("builtin call %s" % fn.name)
                c2 = ctx | ({"cond"} if fn.name in ("min", "max") else set()) | ({"arith"} if fn.name == "abs" else set())
                return ["D" if fn.name == "abs" else "K"] + self.seq([self.ser(a, env, inner, c2) for a in node.args])
            if not fn.is_name:
                self.out("call of non-name")
            return ["K"] + self.seq([self.ser(a, env, inner, ctx) for a in node.args])
        if isinstance(node, Nodes.SingleAssignmentNode):
            lhs = node.lhs
            if isinstance(lhs, E.NameNode):
                x = self.entry_index(lhs, env)
                return ["G", str(-1 if x is None or inner else x)] + self.ser(node.rhs, env, inner, ctx)
            return ["Z"] + self.ser(lhs, env, inner, ctx) + ["G", "-1"] + self.ser(node.rhs, env, inner, ctx)
        if isinstance(node, Nodes.CascadedAssignmentNode):
            parts = []
            for lhs in node.lhs_list:
                if isinstance(lhs, E.NameNode):
                    x = self.entry_index(lhs, env)
                    parts.append(["G", str(-1 if x is None or inner else x)] + self.ser(node.rhs, env, inner, ctx))
                else:
                    parts.append(self.ser(lhs, env, inner, ctx))
            return self.seq(parts)
        if isinstance(node, Nodes.InPlaceAssignmentNode):
            return ["D"] + self.children(node, env, inner, ctx | {"arith"})
        if isinstance(node, Nodes.FuncDefNode):
            return ["H"] + self.children(node, node.local_scope, True, set())
        if isinstance(node, (Nodes.DelStatNode,)):
            self.out("del", True)
        if isinstance(node, E.UnopNode):
            return ["U", "3"] + self.children(node, env, inner, ctx | {"arith"})
        if isinstance(node, E.ExprNode) and not isinstance(node, (E.LambdaNode, E.InnerFunctionNode)):
            # expression classes the model has no typing rule for
            self.out("expr %s" % type(node).__name__)
        return ["T", "0"] + self.children(node, env, inner, set())


def summarise(scope, node, unspec, decl):
    s = Ser(scope, node)
    names = [e.name for e in s.entries]
    d = []
    for e, u, t in zip(s.entries, unspec, decl):
        if u:
            d.append(-1)
        else:
            i = tidx(t)
            if i is None:
                s.out("declared type %s" % t, True)
                i = 0
            d.append(i)
    body = s.seq([s.ser(getattr(node, a), scope, False, set()) for a in ("body",) if getattr(node, a, None) is not None])
    # default-argument expressions etc. are evaluated outside the function scope: ignored
    assigns = []
    atypes = []
    for a in s.assigns:
        if a.is_deletion:
            s.out("deletion", True)
        rhs = a.rhs
        if rhs is None:
            s.out("assignment without rhs", True)
            toks = ["T", "0", "E"]
        elif rhs.is_none:
            toks = ["N"]
        else:
            s.rhs_mode = True
            toks = s.ser(rhs, a.rhs_scope or scope, False, set())
            s.rhs_mode = False
        assigns.append([s.eidx[id(a.entry)]] + toks)
        it = a.inferred_type
        atypes.append(-1 if it is None else (tidx(it) if tidx(it) is not None else 99))
    final = []
    for e in s.entries:
        i = tidx(e.type)
        if i is None:
            s.out("final type %s" % e.type, True)
            i = 99
        final.append(i)
    return {"name": scope.qualified_name, "names": names, "decl": d, "assigns": assigns, "body": body,
            "mo": [1 if e.might_overflow else 0 for e in s.entries], "final": final, "atypes": atypes,
            "alhs": [s.eidx[id(a.entry)] for a in s.assigns],
            "arith_used": sorted(s.arith_used), "cond_used": sorted(s.cond_used),
            "captured": sorted(s.captured), "inner_arith": sorted(s.inner_arith),
            "inmodel": not s.why, "why": "; ".join(s.why)}


def compile_one(job):
    directives = dict(Options.get_directive_defaults())
    directives["language_level"] = 3
    directives["infer_types"] = job["infer"]
    opts = Main.CompilationOptions(Main.default_options, compiler_directives=directives, output_file=job["out"])
    del DUMPS[:]
    SCOPE_NODE.clear()
    err = io.StringIO()
    old = sys.stderr
    res = {"ok": False, "errors": "", "crash": None}
    try:
        sys.stderr = err
        try:
            r = Main.compile(job["src"], opts)
            res["ok"] = (r.num_errors == 0) and os.path.exists(job["out"])
        finally:
            sys.stderr = old
    except BaseException as e:
        res["crash"] = "".join(traceback.format_exception(type(e), e, e.__traceback__))[-3000:]
    res["errors"] = err.getvalue()[-4000:]
    res["dumps"] = list(DUMPS)
    return res


def main():
    spec = json.load(sys.stdin)
    if spec["cmd"] == "tables":
        print(json.dumps(tables()))
    elif spec["cmd"] == "spans":
        print(json.dumps(spans(spec["cases"])))
    else:
        print(json.dumps([compile_one(j) for j in spec["jobs"]]))


if __name__ == "__main__":
    main()
