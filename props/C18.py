"""C18 — String formatting produces exactly CPython's text (DESIGN 7/C18)."""
import json, os, re, struct
import cybuild
from props import C18_fstr

TITLE = "String formatting produces exactly CPython's text"
EXTRACTS = ["IntFmt", "FStr"]
RULE = ("(C type, format spec, value): specs drawn from the format-spec mini-language grammar (fill, align, sign, #, 0, "
        "width, grouping, precision, type) plus the family the C fast path accepts ([>-]?0*width[doxXc]); values = type "
        "bounds, digit-count boundaries (b^k, b^k-1 for b in 8,10,16), 0x110000/0x200000/2^32 neighbourhoods for 'c', PRNG "
        "values of every bit length; forms: f-string literal spec, dynamic spec, !r/!s/!a, joins, str(), repr(), format(), "
        "%-templates generated from flags/width/precision/type over C-int and object operands; padded 'c' class: every C "
        "integer type reaching the helper (13 + char, ctypedef, inexact extern typedefs, enum) x widths 0..5 and around the "
        "helper's 250-padding/256-byte limit (100, 249..258, 300) x pads ' ' and '0' x values at both sides of every branch "
        "of the range test, the (int) cast, the Latin-1/2-/3-/4-byte encoder guards, the surrogate hole and every bit-field "
        "edge of the encoded bytes, plus an in-module sweep of EVERY int in range(0x110200) against str.format. f-strings as part "
        "lists (props/C18_fstr.py): parts = literal | placeholder(variable of each static class C int / double / bint / str not None / "
        "str-or-None / bytes / int object / list / generic object with logging __format__/__repr__/__str__, conversion none/!s/!r/!a, "
        "spec none / empty / literal accepted or not by the C formatter / nested) | constant operand | debug specifier; every ordered "
        "pair of conversions and of spec kinds for two and three occurrences of the same variable, shapes of 0/1/2 parts, padded c "
        "specs in joins, random lists of 0..6 parts, the same lists as %-templates; 4 value tuples per list. Distinct by "
        "(form, type, spec/template, value); non-trivial = the value reaches the digit loop / padding / error branch of its stratum")
EXPLANATION = ("theorems: for EVERY width w>=1 (sizeof = ceil(w/8)), both signednesses, every in-range value, every width/padding "
               "character and each of d/o/x/X the C loop of CIntToPyUnicode (two digits at a time, last_one_off, sign, "
               "BuildFromAscii padding) returns exactly py_format_int = CPython's format(); its digits are valid, parse back to "
               "|v| and have no leading zero; no write leaves the sizeof*3+2 byte buffer, no table index is out of range, the C "
               "assert holds, the loop terminates; the tables in the C source equal the computed ones (regenerated each run). "
               "The 'c' range check is refuted as written (F17) and proved for the repaired test. "
               "Padded 'c' at byte level (__Pyx_PyUnicode_FromOrdinal_Padded): the three UTF-8 encoder branches with their guards, "
               "masks and shifts, the chars[256] buffer and a strict RFC 3629 decoder are modelled; proved for ALL code points by "
               "range case analysis: decode(encode cp) = [cp] on U+0080..U+10FFFF minus surrogates, the bytes are the RFC 3629 "
               "encoding, the guards are tight (a branch too short/long never round-trips), the byte-level helper equals the "
               "abstract one for every int, width >= 2 and ASCII pad, hence equals CPython's format(v, 'c'-spec); the text has "
               "max(width,1) characters (padding then the code point); chars[256] suffices for every width. The model's decoder / "
               "encoder are run against CPython's utf-8 codec, its constants against the C source text. "
               "f-string assembly (M_FStr.v): for EVERY part list, every formatting function, every assignment of static classes, the "
               "compiler's rewrites (constant operands, empty specs, literal merging, 0/1/2-part shapes, str shortcuts, CloneNode "
               "de-duplication keyed by (name, c_format_spec, format_spec node, conversion or s)) produce CPython's text and leave the "
               "sequence of formatting calls on generic objects unchanged; the key without the conversion and de-duplication of generic "
               "objects are refuted by witnesses; the rewritten node list of every generated f-string (dumped after FinalOptimizePhase) and "
               "the (length, kind) arguments of __Pyx_PyUnicode_Join in the generated C are compared with the model; the kind computation "
               "is refuted as written for padded c specs (finding). "
               "partial: the length/kind arguments of the join are modelled and tied but their correctness theorem (length = sum of the "
               "value lengths, kind covers every character) is not proved; the compiler's mapping of a spec string to (type,width,pad) (_parse_format), the %-template rewrite, "
               "double formatting (PyOS_double_to_string) and object formatting (PyObject_Format) are compared differentially "
               "with CPython only.")
TRUSTED = ["CPython's format()/%/str()/repr() in the running interpreter as the property oracle",
           "f-string model: formatting a value of a builtin type (str, bytes, int, float, list ...) is taken to be pure and format(x, '') = str(x) "
           "for it (hypotheses of the theorem); names are not re-bound while the f-string is evaluated; which literal specs the C formatter "
           "accepts is an input of the model (table in props/C18_fstr.py, compared with the compiler's c_format_spec in the node dump)",
           "model of C arithmetic: explicit wrap per conversion (Lib/CInt.v); C '/' and '%' = Z.quot/Z.rem",
           "PyUnicode_FromOrdinal / DecodeLatin1 modelled by their documented contract; PyUnicode_DecodeUTF8(errors=NULL) "
           "modelled as the strict RFC 3629 decoder utf8_decode (compared with bytes.decode('utf-8') on boundary and random byte strings)",
           "the constants of __Pyx_PyUnicode_FromOrdinal_Padded (guards, padding_length <= 250, chars[256]) are tied to the model "
           "textually (regex over the C source) because a stack-buffer overrun is not observable from results",
           "gcc as a conforming C compiler for the generated module"]
ASSUMPTIONS = ["LP64: char 8, short 16, int 32, long/long long/Py_ssize_t/size_t 64 bits",
               "CYTHON_USE_UNICODE_INTERNALS=1 (CPython) branch of BuildFromAscii"]

# After the proposed fix proposed_fixes/C18-c_format_high_bits_not_rejected.diff is applied to /repo,
# set this to "1": the model then uses the repaired range test (uchar_accepts true).
UCHAR_FIXED = os.environ.get("C18_UCHAR_FIXED", "1")

TYPES = [("signed char", "schar", 8, True), ("unsigned char", "uchar", 8, False),
         ("short", "short", 16, True), ("unsigned short", "ushort", 16, False),
         ("int", "int", 32, True), ("unsigned int", "uint", 32, False),
         ("long", "long", 64, True), ("unsigned long", "ulong", 64, False),
         ("long long", "llong", 64, True), ("unsigned long long", "ullong", 64, False),
         ("Py_ssize_t", "ssize", 64, True), ("size_t", "size", 64, False),
         ("bint", "bint", 32, True)]
SAFE_FILL = [" ", "0", "*", "x", "_", ">", "<", "=", "^", "+", "-", "1", "é"]


def rng_of(w, sg):
    return (-(2 ** (w - 1)), 2 ** (w - 1) - 1) if sg else (0, 2 ** w - 1)


def values_for(nm, w, sg, rng, nrand):
    if nm == "bint":
        return [0, 1]
    lo, hi = rng_of(w, sg)
    vals = {lo, lo + 1, hi, hi - 1, 0, 1, 7, 8, 9, 10, 15, 16, 63, 64, 65, 99, 100, 101, 255, 256,
            0xD7FF, 0xD800, 0xDFFF, 0xE000, 0xFFFF, 0x10000, 0x10FFFF, 0x110000, 0x1FFFFF, 0x200000, 0x200041,
            0x210041, 2 ** 31 - 1, 2 ** 31, 2 ** 32 - 1, 2 ** 32, 2 ** 32 + 65, 2 ** 32 + 0x10FFFF}
    for b in (8, 10, 16, 64, 100):
        p = b
        while p <= hi:
            vals |= {p, p - 1, -p, 1 - p}
            p *= b
    if sg:
        vals |= {-1, -7, -8, -9, -10, -16, -64, -100, -255, lo // 2}
    for _ in range(nrand):
        k = rng.randrange(1, w + 1)
        v = rng.getrandbits(k)
        if sg and rng.random() < 0.5:
            v = -v
        vals.add(v)
    return sorted(v for v in vals if lo <= v <= hi)


def fast_family(rng, n):
    out = ["", "d", "o", "x", "X", "c", "5", "05", "5d", "05d", ">5d", "-5d", ">05d", "-05d", "012x", ">12X", "3o", "030o",
           "1d", "2d", "01d", "02x", "5c", "05c", ">3c", "-5c", "0", "00d", "-", ">", "0005", "1c", "0x", "20d", "020d", "25o",
           "٥d", "٠٥d", "300c", "0300c", "252c"]
    while len(out) < n:
        s = rng.choice(["", "", ">", "-"]) + rng.choice(["", "", "0", "00"]) + \
            rng.choice(["", "1", "2", "3", "7", "11", "20", "21", "22", "23", "24", "26", "27", "40", "64", "100"]) + \
            rng.choice(["", "d", "o", "x", "X", "c", "d", "x"])
        if s not in out:
            out.append(s)
    return out


def grammar_spec(rng, types="bcdeEfFgGnosxX%"):
    s = ""
    if rng.random() < 0.5:
        if rng.random() < 0.5:
            s += rng.choice(SAFE_FILL)
        s += rng.choice("<>=^")
    s += rng.choice(["", "", "+", "-", " "])
    s += rng.choice(["", "", "", "z"]) if rng.random() < 0.1 else ""
    s += rng.choice(["", "", "#"])
    s += rng.choice(["", "", "0"])
    s += rng.choice(["", "1", "2", "5", "9", "12", "30"])
    s += rng.choice(["", "", "", ",", "_"])
    s += rng.choice(["", "", "", ".0", ".1", ".3", ".10"])
    s += rng.choice([""] + list(types))
    return s


def lit(s):
    """spec text inside an f-string literal in generated source"""
    return s


def pyrepr(s):
    return repr(s)


def int_module(ct, nm, specs, dynspecs):
    L = ["# cython: language_level=3", ""]
    for i, sp in enumerate(specs):
        L += ["def f%d(%s v):" % (i, ct), "    return f\"{v:%s}\"" % sp if sp else "    return f\"{v}\"", ""]
    for i, sp in enumerate(dynspecs):
        L += ["def g%d(%s v):" % (i, ct), "    return format(v, %s)" % pyrepr(sp), ""]
    L += ["def k_str(%s v):" % ct, "    return str(v)",
          "def k_repr(%s v):" % ct, "    return repr(v)",
          "def k_r(%s v):" % ct, "    return f\"{v!r}\"",
          "def k_s8(%s v):" % ct, "    return f\"{v!s:>8}\"",
          "def k_a(%s v):" % ct, "    return f\"{v!a}\"",
          "def k_s5(%s v):" % ct, "    return f\"{v!s:5}\"",
          "def k_r05(%s v):" % ct, "    return f\"{v!r:05}\"",
          "def k_join(%s v):" % ct, "    return f\"[{v}|{v:x}]{v:05d}%{v:o}\" + f\"{v:X}\"",
          "def k_dyn(%s v, spec):" % ct, "    return f\"{v:{spec}}\"",
          "def k_dynw(%s v, int width):" % ct, "    return f\"{v:{width}d}\"",
          "def k_pd(%s v):" % ct, "    return \"%d\" % (v,)",
          "def k_p5d(%s v):" % ct, "    return \"<%5d|%-5d|%05d>\" % (v, v, v)",
          "def k_px(%s v):" % ct, "    return \"%x %X %o %s %r\" % (v, v, v, v, v)", ""]
    return "\n".join(L)


KFORMS = {  # name -> python oracle
    "k_str": lambda v: str(v), "k_repr": lambda v: repr(v), "k_r": lambda v: f"{v!r}", "k_s8": lambda v: f"{v!s:>8}",
    "k_a": lambda v: f"{v!a}", "k_s5": lambda v: f"{v!s:5}", "k_r05": lambda v: f"{v!r:05}", "k_join": lambda v: f"[{v}|{v:x}]{v:05d}%{v:o}" + f"{v:X}", "k_pd": lambda v: "%d" % (v,),
    "k_p5d": lambda v: "<%5d|%-5d|%05d>" % (v, v, v), "k_px": lambda v: "%x %X %o %s %r" % (v, v, v, v, v)}

OBJ_SETUP = """
import fractions, decimal
class Obj:
    def __format__(self, spec): return 'Obj<' + spec + '>'
    def __str__(self): return 'ObjS'
    def __repr__(self): return 'Obj\\xe9R'
    def __int__(self): return 42
    def __index__(self): return 43
class Bad:
    def __format__(self, spec): raise KeyError(spec)
    def __str__(self): raise IndexError('s')
    def __repr__(self): raise LookupError('r')
class IntSub(int):
    def __format__(self, spec): return 'IS' + int.__format__(self, spec)
"""
OBJ_VALUES = [0, 5, -5, 255, -255, 10 ** 20, -10 ** 20, True, 2.5, -0.0, 1e20, 1.5e-7, {"py": "float('inf')"},
              {"py": "float('nan')"}, "ab", "abcdef", "", "é中", None, {"py": "Obj()"}, {"py": "Bad()"},
              {"py": "IntSub(7)"}, {"py": "fractions.Fraction(7, 2)"}, {"py": "decimal.Decimal('2.50')"}, {"py": "3+4j"},
              {"py": "b'xy'"}, {"py": "(1, 'a')"}]
FLOAT_VALUES = [0.0, -0.0, 1.0, -1.0, 0.5, 2.5, 3.5, 1e-7, 1.5e-7, 123456.789, 1e16, 1e22, 1e23, 1.7976931348623157e308,
                5e-324, 2.2250738585072014e-308, 0.1, 1 / 3, -2.675, 1e100, {"py": "float('inf')"}, {"py": "float('-inf')"},
                {"py": "float('nan')"}]


def float_specs(rng, n):
    out = ["", "e", "E", "f", "F", "g", "G", ".0f", ".2f", ".3e", ".10g", ".0g", ".17g", ".30f", ".f", "10.2f", "010.2f",
           "+.2f", ",.2f", "%", ".1%", "n", "r", "s", ".400f", "#g", "#.0f", " .3f", "<10.3", "^+12.4e", "_.3f", "d", "x", "c"]
    while len(out) < n:
        s = grammar_spec(rng, "eEfFgGn%")
        if s not in out:
            out.append(s)
    return out


def float_module(specs):
    L = ["# cython: language_level=3", ""]
    for i, sp in enumerate(specs):
        L += ["def d%d(double v):" % i, "    return f\"{v:%s}\"" % sp if sp else "    return f\"{v}\"",
              "def s%d(float v):" % i, "    return f\"{v:%s}\"" % sp if sp else "    return f\"{v}\"", ""]
    L += ["def k_str(double v):", "    return str(v)", "def k_repr(double v):", "    return repr(v)",
          "def k_r(double v):", "    return f\"{v!r}\"", "def k_pf(double v):", "    return \"%f|%.2f|%e|%g|%10.3f|%-10.1e|%s|%r\" % (v, v, v, v, v, v, v, v)",
          "def k_strf(float v):", "    return str(v)", ""]
    return "\n".join(L)


def obj_module(specs):
    L = ["# cython: language_level=3", ""]
    for i, sp in enumerate(specs):
        L += ["def o%d(v):" % i, "    return f\"{v:%s}\"" % sp if sp else "    return f\"{v}\"", ""]
    L += ["def k_r(v):", "    return f\"{v!r}\"", "def k_s(v):", "    return f\"{v!s}\"", "def k_a(v):", "    return f\"{v!a}\"",
          "def k_r10(v):", "    return f\"{v!r:>10}\"", "def k_s10(v):", "    return f\"{v!s:^10.3}\"",
          "def k_str(v):", "    return str(v)", "def k_repr(v):", "    return repr(v)",
          "def k_join(a, b):", "    return f\"{a}-{b!r}\" + f\"{a:>4}{{}}{b}\"",
          "def k_dyn(v, spec):", "    return f\"{v:{spec}}\"", "def k_fmt(v, spec):", "    return format(v, spec)", ""]
    return "\n".join(L)


def gen_templates(rng, n):
    out = ["%d", "%5d", "%-5d", "%05d", "%-05d", "%0-5d", "% d", "%+d", "%x", "%X", "%o", "%#x", "%5x", "%05x", "%-5x", "%.3d",
           "%5.3d", "%s", "%5s", "%-5s", "%05s", "%.2s", "%5.2s", "%-5.2s", "%r", "%5r", "%-8r", "%a", "%6a", "%f", "%.2f",
           "%8.3f", "%-8.3f", "%08.3f", "%e", "%g", "%c", "%i", "%u", "%%", "a%%b%dc", "%d%%", "%5%", "% 5d", "%  d", "%1d",
           "%0d", "%00d", "%-d", "%--5d", "%-0d", "%10s|", "%010d", "%2s", "%1s", "%0s", "%-s", "%3r", "%03r", "%.0f", "%5f",
           "%-5f", "%05f", "%5o", "%-5o", "%05o", "%5X", "%-5X", "%05X", "%", "%5", "abc%", "%y", "%(a)d", "%*d", "%ld", "%hd",
           "%.f", "%5.f", "%.d"]
    while len(out) < n:
        t = "%" + "".join(rng.sample("-0 +#", rng.choice([0, 0, 1, 1, 2]))) + rng.choice(["", "", "1", "3", "5", "8", "12"]) + \
            rng.choice(["", "", "", ".0", ".2", ".5"]) + rng.choice("sdrafxXoeEgGciu")
        if rng.random() < 0.3:
            t = rng.choice(["a", "%%", "<", "{", "{}", "{0}"]) + t + rng.choice(["b", "%%", ">", "}", ""])
        if t not in out:
            out.append(t)
    return out


def tmpl_module(tmpls, step):
    L = ["# cython: language_level=3", ""]
    for i, t in enumerate(tmpls):
        L += ["def p%d(v):" % i, "    return %s %% (v,)" % pyrepr(t),
              "def q%d(long v):" % i, "    return %s %% (v,)" % pyrepr(t)]
        if i % step == 0:
            L += ["def u%d(unsigned char v):" % i, "    return %s %% (v,)" % pyrepr(t),
                  "def t%d(a, b):" % i, "    return %s %% (a, b)" % pyrepr(t + "~" + t), ""]
    return "\n".join(L)



# ---------------------------------------------------------------------------------------------
# the padded 'c' path: __Pyx_uchar_PyUnicode_From_<T> -> __Pyx_PyUnicode_FromOrdinal_Padded
# (UTF-8 / Latin-1 encode into char chars[256], decode) for every C integer type that reaches it
# ---------------------------------------------------------------------------------------------
CHR_EXTRA_TYPES = [("char", "char", 8, True),                       # plain char (signed on this ABI)
                   ("c18_td_uint", "tduint", 32, False),            # ctypedef unsigned int
                   ("c18_ext_ll", "extll", 64, True),               # extern typedef declared `int`, really long long
                   ("c18_ext_u16", "extu16", 16, False),            # extern typedef declared `unsigned char`, really unsigned short
                   ("C18Enum", "enum", 32, True)]                   # cdef enum with a negative enumerator (int)
CHR_TYPES = TYPES + CHR_EXTRA_TYPES
CHR_PRELUDE = """
cdef extern from *:
    '''
    typedef long long c18_ext_ll;
    typedef unsigned short c18_ext_u16;
    '''
    ctypedef int c18_ext_ll
    ctypedef unsigned char c18_ext_u16
ctypedef unsigned int c18_td_uint
cdef enum C18Enum:
    c18_neg = -1
    c18_big = 0x10FFFF
"""
# widths around every decision of the helper: width <= 1 (PyUnicode_FromOrdinal), 2.. (buffer path),
# padding_length <= 250 i.e. width <= 251 (last buffer width), 252.. (BuildFromAscii / generic concat)
CHR_SMALL_W = [1, 2, 3, 4, 5]
CHR_BIG_W = [8, 100, 249, 250, 251, 252, 253, 254, 255, 256, 257, 258, 300]
CHR_BIG_W_QUICK = [100, 250, 251, 252, 253, 256, 257]


def chr_templates(quick):
    """[(template, width, pad, kind)]: template is a str.format template over `v`; kind 'small'/'big' selects the
    value set; width None = composite template (no model query)"""
    out = [("{v:c}", 0, " ", "small")]
    for w in CHR_SMALL_W:
        out += [("{v:%dc}" % w, w, " ", "small"), ("{v:0%dc}" % w, w, "0", "small")]
    out += [("{v:>3c}", 3, " ", "small"), ("{v:003c}", 3, "0", "small"),
            ("[{v:3c}|{v:02c}]{v:c}", None, None, "small"), ("{v:251c}{v:0252c}", None, None, "big")]
    for w in (CHR_BIG_W_QUICK if quick else CHR_BIG_W):
        out += [("{v:%dc}" % w, w, " ", "big"), ("{v:0%dc}" % w, w, "0", "big")]
    return out


def chr_module(types, tmpls):
    L = ["# cython: language_level=3", CHR_PRELUDE]
    for ct, nm, w, sg in types:
        L += ["def sw_%s(vals, ks, fmt=None, tmpls=None):" % nm,
              "    cdef %s v" % ct, "    cdef int k", "    out = []",
              "    if vals and vals[0] == 'range':", "        vals = range(vals[1], vals[2], vals[3])",
              "    for x in vals:", "        v = x", "        for k in ks:", "            try:"]
        for i, (t, wi, p, kind) in enumerate(tmpls):
            L += ["                %s k == %d: r = f\"%s\"" % ("if" if i == 0 else "elif", i, t)]
        L += ["                else: r = None",
              "            except Exception as e:", "                r = [type(e).__name__]",
              "            if fmt is None:", "                out.append(r)", "                continue",
              "            try:", "                ex = fmt(tmpls[k], x)",
              "            except Exception as e:", "                ex = [type(e).__name__]",
              "            if r != ex:", "                out.append([x, k, r, ex])",
              "                if len(out) >= 12:", "                    return out",
              "    return out", ""]
    return "\n".join(L)


def chr_values(w, sg, nm, rng, nrand):
    """boundary values of every branch the value takes on its way through the range test, the (int) cast, the
    Latin-1 / 2- / 3- / 4-byte encoder branches and every bit field of the encoded bytes"""
    if nm == "bint":
        return [0, 1], [0, 1]
    lo, hi = rng_of(w, sg)
    core = set()
    for b in (0, 0x80, 0x100, 0x800, 0x10000, 0xD800, 0xE000, 0x110000, 0x200000, 2 ** 31, 2 ** 32):
        core |= {b - 1, b, b + 1}
    core |= {lo, hi, 0x41, 0x7FF - 0x40, 0xFFFD, 0x10FFFE, 0x10FFFF, 0x1F600, 0x20AC, 0xE9, 2 ** 32 + 0x800}
    ext = set(core)
    for b in (0x40, 0xC0, 0x7C0, 0x1000, 0xFC0, 0xFFC0, 0xDC00, 0x10040, 0x40000, 0x80000, 0xC0000, 0x100000,
              0x1FFFFF, 0x400000, 2 ** 31 + 0x800, 2 ** 32 + 0x10000, 2 ** 63):
        ext |= {b - 2, b - 1, b, b + 1}
    for b in (0, 0x80, 0x100, 0x800, 0x10000, 0xD800, 0xE000, 0x110000, 0x200000):
        ext |= {b - 2, b + 2}
    ext |= {lo + 1, hi - 1, -2, -128, -129, -255, -256, -257, -0x800, 2 ** 32 + 0x41, 2 ** 32 + 0x20AC,
            0x200000 + 0x800, 0x200000 + 0x41, 0x80000000 + 0x41}
    for a, b in ((0x100, 0x7FF), (0x800, 0xD7FF), (0xE000, 0xFFFF), (0x10000, 0x10FFFF), (0x110000, 2 ** 31 - 1)):
        for _ in range(nrand):
            ext.add(rng.randrange(a, b + 1))
    ok = lambda v: lo <= v <= hi
    return sorted(filter(ok, ext)), sorted(filter(ok, core))


def c_padded_consts(repo):
    """the literal constants of __Pyx_PyUnicode_FromOrdinal_Padded as written in the C source, normalised to the model's
    [ENC2_LIMIT, ENC3_LIMIT, LATIN1_MAX, PAD_LIMIT, CHARS_SIZE, SURR_LO, SURR_HI] (None where the text has another shape).
    Memory safety of chars[256] is not observable from results, so these are compared textually."""
    txt = open(os.path.join(repo, "Cython", "Utility", "TypeConversion.c")).read()
    m = re.search(r"static PyObject\* __Pyx_PyUnicode_FromOrdinal_Padded\(int value.*?\n}\n", txt, re.S)
    body = m.group(0) if m else ""
    num = lambda x: int(x, 0)

    def lt(pat):        # strict upper limit of `value < N` / `value <= N`
        m = re.search(pat, body)
        return None if not m else num(m.group(2)) + (1 if m.group(1) == "<=" else 0)
    enc2 = lt(r"\n\s*if \(value (<=?) (\w+)\) \{\s*\*--cpos")
    enc3 = lt(r"\} else if \(value (<=?) (\w+)\) \{\s*\*--cpos")
    lat = lt(r"\n\s*if \(value (<=?) (\w+)\) \{\s*// Simple Latin1")
    pad = lt(r"\(padding_length (<=?) (\w+)\)")
    m = re.search(r"char chars\[(\w+)\];\s*\n\s*\n\s*if \(value", body)
    size = num(m.group(1)) if m else None
    m = re.search(r"\(value (<=?) (\w+) \|\| value (>=?) (\w+)\)", body)
    slo = shi = None
    if m:
        slo = num(m.group(2)) + (1 if m.group(1) == "<=" else 0)
        shi = num(m.group(4)) - (1 if m.group(3) == ">=" else 0)
    return [enc2, enc3, None if lat is None else lat - 1, None if pad is None else pad - 1, size, slo, shi]


def _uncanon(d):
    """inverse of callworker.canon for the value shapes the sweep functions return"""
    if isinstance(d["r"], list):
        return [_uncanon(x) for x in d["r"]]
    import ast
    return ast.literal_eval(d["r"])


def _chr_expect(tmpl, pv):
    try:
        return tmpl.format(v=pv)
    except Exception as e:
        return [type(e).__name__]


def classify_chr(tmpl, wi, v):
    if v >= 0x200000 and UCHAR_FIXED != "1":
        return "c_format_high_bits_not_rejected"
    return "cint_padded_char_wrong"


def run_chr(ctx, wd, model, quick, nbad):
    """the whole padded-ordinal class: (type, template, value) three ways + in-module sweeps of all code points"""
    rng = ctx.rng
    tmpls = chr_templates(quick)
    tstrs = [t[0] for t in tmpls]
    small_k = [i for i, t in enumerate(tmpls) if t[3] == "small"]
    big_k = [i for i, t in enumerate(tmpls) if t[3] == "big"]
    setup = "import c18_chr\n"
    ctext = open(os.path.join(wd, "c18_chr.c")).read()
    # dispatch tie: every single-field template reaches the helper with its (width, pad, 'c')
    calls = re.findall(r"= __Pyx_PyUnicode_From_\w+\(__pyx_v_v, (\d+), '(.)', '(.)'\)", ctext)
    want_calls = set((str(wi), p, "c") for t, wi, p, kind in tmpls if wi is not None)
    ctx.case("chr/dispatch", "c18_chr", sig=("chr-dispatch",))
    if not want_calls <= set(calls) or "__Pyx_PyUnicode_FromOrdinal_Padded" not in ctext:
        ctx.corr_break("chr-fastpath-dispatch", "c18_chr", sorted(set(calls))[:40], sorted(want_calls)[:40])
    # source tie of the constants (guards, padding limit, buffer size): the buffer bound is a memory-safety fact
    src_consts = c_padded_consts(ctx.repo)
    mod_consts = [int(x) for x in model.batch(["padconsts"])[0].split(",")]
    ctx.case("chr/source-constants", src_consts, sig=("chr-consts",))
    if src_consts != mod_consts:
        ctx.corr_break("chr:model-constants-vs-C-source [ENC2_LIMIT, ENC3_LIMIT, LATIN1_MAX, PAD_LIMIT, CHARS_SIZE, SURR_LO, SURR_HI]",
                       "Cython/Utility/TypeConversion.c:__Pyx_PyUnicode_FromOrdinal_Padded", src_consts, mod_consts)
    cases, meta = [], []
    for ctn, nm, w, sg in CHR_TYPES:
        ext, core = chr_values(w, sg, nm, rng, 2 if quick else 12)
        bigvals = ext if (nm in ("int", "ulong") or not quick) else core
        cases.append(["c18_chr.sw_%s" % nm, [ext, small_k]])
        meta.append((nm, w, sg, ext, small_k))
        cases.append(["c18_chr.sw_%s" % nm, [bigvals, big_k]])
        meta.append((nm, w, sg, bigvals, big_k))
    res = cybuild.call_cases(wd, cases, setup=setup, alarm=60, max_crashes=100)
    # a crash inside a sweep: redo that sweep value by value so that the failing input is concrete
    flat = []          # (nm, w, sg, v, k, outcome)
    redo, redo_meta = [], []
    for (nm, w, sg, vals, ks), r in zip(meta, res):
        if "e" in r:
            for v in vals:
                for k in ks:
                    redo.append(["c18_chr.sw_%s" % nm, [[v], [k]]])
                    redo_meta.append((nm, w, sg, v, k))
            continue
        rows = _uncanon(r)
        it = iter(rows)
        for v in vals:
            for k in ks:
                flat.append((nm, w, sg, v, k, next(it)))
    if redo:
        for (nm, w, sg, v, k), r in zip(redo_meta, cybuild.call_cases(wd, redo, setup=setup, alarm=10, max_crashes=400)):
            flat.append((nm, w, sg, v, k, [r["e"]] if "e" in r else _uncanon(r)[0]))
    mq, sq, mqi = [], [], []
    for j, (nm, w, sg, v, k, got) in enumerate(flat):
        t, wi, p, kind = tmpls[k]
        if wi is None:
            continue
        mq.append("ucharb %s %d %d %d %d %d" % (UCHAR_FIXED, w, sg, v, wi, ord(p)))
        sq.append("pychar %d %d %d" % (v, wi, ord(p)))
        mqi.append(j)
    mres = dict(zip(mqi, model.batch(mq)))
    sres = dict(zip(mqi, model.batch(sq)))

    def mval(line):
        if line.startswith("T "):
            return "".join(map(chr, map(int, line[2:].split(",")))) if line != "T -" else ""
        return [line]
    for j, (nm, w, sg, v, k, got) in enumerate(flat):
        t, wi, p, kind = tmpls[k]
        pv = bool(v) if nm == "bint" else v
        exp = _chr_expect(t, pv)
        inp = {"form": "fstring-c", "type": nm, "template": t, "value": v, "func": "c18_chr.sw_%s" % nm, "args": [[v], [k]]}
        rgn = ("neg" if v < 0 else "latin1" if v < 0x100 else "utf8-2" if v < 0x800 else "surrogate" if 0xD800 <= v <= 0xDFFF
               else "utf8-3" if v < 0x10000 else "utf8-4" if v < 0x110000 else "too-big")
        wcl = "composite" if wi is None else "w<=1" if wi <= 1 else "buffer" if wi <= 251 else "w>251"
        ctx.case("chr/%s/%s" % (rgn, wcl), inp, sig=("chr", nm, t, v))
        if j in mres:
            mv = mval(mres[j])
            if mv != got:
                ctx.corr_break("chr:bytemodel-vs-helper", inp, got, mv)
            if mval(sres[j]) != exp:
                ctx.corr_break("chr:spec-vs-cpython", inp, exp, mval(sres[j]))
        if got != exp:
            kl = classify_chr(t, wi, v)
            nbad[kl] = nbad.get(kl, 0) + 1
            if nbad[kl] <= 3:
                ctx.fail(kl, inp, got, exp)

    # the model's UTF-8 decoder and encoder against CPython's codec (ties utf8_decode / utf8_enc_c, the terms the
    # theorems are about, to the real PyUnicode_DecodeUTF8 / the real encoding)
    cps = sorted({c for c in chr_values(64, True, "x", rng, 8 if quick else 200)[0] if 0x80 <= c <= 0x10FFFF})
    er = model.batch(["utf8enc %d" % c for c in cps])
    for c, line in zip(cps, er):
        want = [] if 0xD800 <= c <= 0xDFFF else list(chr(c).encode("utf-8"))
        ctx.case("chr/utf8-encoder", c, sig=("utf8enc", c))
        if want and [int(x) for x in line.split(",")] != want:
            ctx.corr_break("chr:utf8_enc_c-vs-codec", c, want, line)
    seqs = [[]]
    for c in cps:
        b = list(chr(c).encode("utf-8", "surrogatepass"))
        seqs += [b, [0x30] + b + [0x20], b[:-1], b + [0x80], [b[0]] + [x ^ 0x40 for x in b[1:2]] + b[2:]]
    seqs += [[0xC0, 0x80], [0xC1, 0xBF], [0xC2, 0x7F], [0xC2, 0xC0], [0xE0, 0x80, 0x80], [0xE0, 0x9F, 0xBF], [0xE0, 0xA0, 0x80],
             [0xED, 0x9F, 0xBF], [0xED, 0xA0, 0x80], [0xED, 0xBF, 0xBF], [0xEE, 0x80, 0x80], [0xF0, 0x80, 0x80, 0x80],
             [0xF0, 0x8F, 0xBF, 0xBF], [0xF0, 0x90, 0x80, 0x80], [0xF4, 0x8F, 0xBF, 0xBF], [0xF4, 0x90, 0x80, 0x80],
             [0xF5, 0x80, 0x80, 0x80], [0xF8, 0x88, 0x80, 0x80, 0x80], [0xFF], [0xFE], [0x80], [0xBF], [0x7F], [0x00]]
    for _ in range(300 if quick else 6000):
        n = rng.randrange(1, 6)
        seqs.append([rng.choice([rng.randrange(256), rng.randrange(0x80, 0xC0), rng.choice([0xC2, 0xDF, 0xE0, 0xED, 0xEF, 0xF0, 0xF4])])
                     for _ in range(n)])
    dr = model.batch(["utf8dec %s" % (",".join(map(str, b)) if b else "-") for b in seqs])
    for b, line in zip(seqs, dr):
        try:
            want = bytes(b).decode("utf-8")
        except UnicodeDecodeError:
            want = ["UnicodeDecodeError"]
        ctx.case("chr/utf8-decoder", b, sig=("utf8dec", tuple(b)))
        if mval(line) != want:
            ctx.corr_break("chr:utf8_decode-vs-codec", b, want, line)

    # every code point (and the first values past U+10FFFF), compared inside the module with CPython's str.format
    sweep_k = [i for i, t in enumerate(tmpls) if t[0] in ("{v:3c}", "{v:0251c}")]
    if quick:
        sweeps = [("int", sweep_k)]
    else:
        allk = [i for i, t in enumerate(tmpls) if t[0] in ("{v:c}", "{v:2c}", "{v:03c}", "{v:250c}", "{v:0251c}", "{v:252c}", "{v:0300c}")]
        sweeps = [(nm, allk) for ctn, nm, w, sg in CHR_TYPES if w >= 32 and nm != "bint"]
    hi = 0x110000 + 0x200
    scases = [["c18_chr.sw_%s" % nm, [["range", 0, hi, 1], ks, {"py": "c18_fmt"}, tstrs]] for nm, ks in sweeps]
    sres_ = cybuild.call_cases(wd, scases, setup=setup + "c18_fmt = lambda t, x: t.format(v=x)\n", alarm=600, max_crashes=20)
    for (nm, ks), r in zip(sweeps, sres_):
        n = hi * len(ks)
        ctx.count("chr/all-code-points/%s" % nm, n, distinct_sigs=[("chr-sweep", nm, tstrs[k]) for k in ks])
        bad = [["CRASH", 0, r.get("e"), r.get("m")]] if "e" in r else _uncanon(r)
        for x, k, got, exp in bad[:3]:
            inp = {"form": "fstring-c", "type": nm, "template": tstrs[k] if isinstance(k, int) else k, "value": x,
                   "func": "c18_chr.sw_%s" % nm, "sweep": [0, hi]}
            kl = classify_chr(tstrs[k] if isinstance(k, int) else "", 0, x if isinstance(x, int) else 0)
            nbad[kl] = nbad.get(kl, 0) + 1
            ctx.fail(kl, inp, got, exp, note="found by the in-module sweep over range(0, 0x%x)" % hi)
    ctx.extra.setdefault("exhaustive_domains", []).append(
        "every int in range(0, 0x%x) x templates %s x types %s: compiled f-string vs str.format inside the module"
        % (hi, [tstrs[k] for k in sweeps[0][1]], [nm for nm, _ in sweeps]))


PARSE_SCRIPT = r"""
import sys, json
import pyload; pyload.install()
from Cython.Compiler import PyrexTypes
pyload.assert_sources()
specs = json.load(sys.stdin)
out = []
for s in specs:
    try:
        t, w, p = PyrexTypes.CIntLike._parse_format(s)
        out.append([t, w, p])
    except Exception as e:
        out.append(["!", 0, type(e).__name__])
print(json.dumps(out))
"""


def c_tables(repo):
    """DIGIT_PAIRS_10 / DIGIT_PAIRS_8 / DIGITS_HEX as written in the C source"""
    txt = open(os.path.join(repo, "Cython", "Utility", "TypeConversion.c")).read()
    out = {}
    for name in ("DIGIT_PAIRS_10", "DIGIT_PAIRS_8", "DIGITS_HEX"):
        m = re.search(r"static const char %s\[[^\]]*\]\s*=\s*\{(.*?)\};" % name, txt, re.S)
        out[name] = "".join(re.findall(r'"([^"]*)"', m.group(1))) if m else ""
    return out


def pre_coq(ctx):
    t = c_tables(ctx.repo)
    def zl(s):
        return "[" + ";".join(str(ord(c)) for c in s) + "]"
    body = ("(* generated by props/C18.py from Cython/Utility/TypeConversion.c on every run *)\n"
            "From Coq Require Import ZArith List.\nFrom CyVerif Require Import Model.M_IntFmt.\n"
            "Import ListNotations.\nOpen Scope Z_scope.\n"
            "Definition c_DIGIT_PAIRS_10 : list Z := %s.\nDefinition c_DIGIT_PAIRS_8 : list Z := %s.\n"
            "Definition c_DIGITS_HEX : list Z := %s.\n"
            "Lemma c_tables_eq : c_DIGIT_PAIRS_10 = DIGIT_PAIRS_10 /\\ c_DIGIT_PAIRS_8 = DIGIT_PAIRS_8 /\\ "
            "c_DIGITS_HEX = DIGITS_HEX.\nProof. vm_compute. repeat split; reflexivity. Qed.\n"
            % (zl(t["DIGIT_PAIRS_10"]), zl(t["DIGIT_PAIRS_8"]), zl(t["DIGITS_HEX"])))
    path = os.path.join(os.path.dirname(os.path.abspath(__file__)), "..", "coq", "theories", "Gen", "Gen_IntFmt.v")
    path = os.path.normpath(path)
    os.makedirs(os.path.dirname(path), exist_ok=True)
    if not os.path.exists(path) or open(path).read() != body:
        with open(path, "w") as f:
            f.write(body)


def canon(r):
    if "e" in r:
        return ("exc", r["e"])
    return (r["t"], r["r"])


def oracle(fn):
    try:
        return ("str", repr(fn()))
    except Exception as e:
        return ("exc", type(e).__name__)


def text_of_model(m):
    if m.startswith("T "):
        body = m[2:]
        return ("str", repr("".join(chr(int(x)) for x in body.split(",")) if body != "-" else ""))
    if m.endswith("Error") or m == "CRASH":
        return ("exc", m)
    return ("err", m)


TMPL_RE = re.compile(r"%([-0 +#]*)(\d*|\*)(?:\.(\d*))?([a-zA-Z%])")


def classify_int(spec, ftype, pad, v, via):
    """class of a failing C-integer case, from the input only"""
    if ftype == "c" and spec[:1] == "-":
        return "c_format_sign_option_accepted"
    if ftype == "c" and v >= 0x200000:
        return "c_format_high_bits_not_rejected"
    if ftype in ("d", "o", "x", "X") and spec[:1] == ">" and pad == "0" and v < 0:
        return "explicit_right_align_zero_flag_negative"
    return "cint_format_wrong"


def classify_tmpl(tmpl, arg):
    convs = TMPL_RE.findall(tmpl)
    cls = set()
    for flags, width, prec, ty in convs:
        if ty == "%":
            continue
        if "-" in flags and "0" in flags and ty in "doxXfsra":
            cls.add("percent_minus_and_zero_flags")
        if ty in "sra" and width not in ("", "0") and "-" not in flags and "0" not in flags:
            cls.add("percent_str_width_left_aligned")
        if ty in "sra" and width.startswith("0") and len(width) > 1 and "-" not in flags:
            cls.add("percent_str_width_left_aligned")
        if ty in "doxXiuf" and isinstance(arg, (int, float)) and \
                type(arg).__format__ not in (int.__format__, float.__format__):
            cls.add("percent_int_subclass_format_override")
        if ty in "sra" and " " in flags:
            cls.add("percent_space_flag_str_conversion")
        if ty in "oxXf" and not isinstance(arg, (int, float)):
            cls.add("percent_numeric_operand_type_error_kind")
        if ty in "oxX" and isinstance(arg, float):
            cls.add("percent_numeric_operand_type_error_kind")
    for k in ("percent_space_flag_str_conversion", "percent_int_subclass_format_override", "percent_minus_and_zero_flags", "percent_str_width_left_aligned",
              "percent_numeric_operand_type_error_kind"):
        if k in cls:
            return k
    return "percent_template_wrong"


def pyval(a):
    if isinstance(a, dict):
        ns = {}
        exec(OBJ_SETUP, ns)
        return eval(a["py"], ns)
    return a


def run(ctx):
    import time
    t0 = time.time()
    quick = ctx.tier == "quick"
    rng = ctx.rng
    wd = ctx.workdir
    nfast, ngram, nrand = (36, 8, 8) if quick else (110, 110, 40)
    specs = fast_family(rng, nfast)
    while len(specs) < nfast + ngram:
        s = grammar_spec(rng)
        if s not in specs and "{" not in s and "}" not in s:
            specs.append(s)
    dynspecs = specs[:6] + specs[nfast:nfast + 6]
    fspecs = float_specs(rng, 34 if quick else 140)
    ospecs = ["", "5", ">5", "<5", "^7", "05", "x", "d", ".2f", "s", ".2", "10.3", "*^9", "c", "b", "#o", "+", ",", "_x", "e", "%", "r", "!"]
    while len(ospecs) < (30 if quick else 120):
        s = grammar_spec(rng)
        if s not in ospecs:
            ospecs.append(s)
    tstep = 3 if quick else 1
    tmpls = gen_templates(rng, 86 if quick else 320)

    # the compiler's own decision which specs take the C fast path
    pr = cybuild.run_script(PARSE_SCRIPT, wd, stdin_obj=specs, name="parse_specs.py")
    if pr["json"] is None or len(pr["json"]) != len(specs):
        ctx.corr_break("parse_format dump", "specs", (pr["err"] or pr["out"])[-600:], "list")
        return
    parsed = pr["json"]

    bspecs = [dict(name="c18_%s" % nm, source=int_module(ct, nm, specs, dynspecs), workdir=wd) for ct, nm, w, sg in TYPES]
    bspecs += [dict(name="c18_float", source=float_module(fspecs), workdir=wd),
               dict(name="c18_obj", source=obj_module(ospecs), workdir=wd),
               dict(name="c18_tmpl", source=tmpl_module(tmpls, tstep), workdir=wd),
               dict(name="c18_chr", source=chr_module(CHR_TYPES, chr_templates(quick)), workdir=wd)]
    if quick:
        for sp in bspecs:
            sp["cflags"] = ["-O0"]
    import threading
    fst = C18_fstr.prepare(ctx, quick)
    fth = threading.Thread(target=C18_fstr.build, args=(fst,))
    fth.start()
    built = cybuild.build_many(bspecs, jobs=12)
    fth.join()
    for (so, err), sp in zip(built, bspecs):
        if err is not None:
            ctx.corr_break("build " + sp["name"], sp["name"], str(err)[:1500], "module builds")
            return
    ctx.note("build: %.0f s" % (time.time() - t0))
    mods = [sp["name"] for sp in bspecs if sp["name"] != "c18_chr"]
    setup = "import " + ", ".join(mods) + "\n" + OBJ_SETUP
    model = ctx.model("intfmt")

    # table tie: the extracted tables are the ones in the C text (also proved in Gen_IntFmt.v)
    ct = c_tables(ctx.repo)
    mt = model.batch(["tables"])[0].split()
    for name, got in zip(("DIGIT_PAIRS_10", "DIGIT_PAIRS_8", "DIGITS_HEX"), mt):
        txt = "".join(chr(int(x)) for x in got.split(","))
        ctx.case("tables", name, sig=("table", name))
        if txt != ct[name]:
            ctx.corr_break("table " + name, name, ct[name], txt)

    nbad = {}
    # ---- f-strings as part lists: the compiler's rewrites vs M_FStr, join arguments, compiled vs CPython
    t1 = time.time()
    C18_fstr.check(ctx, fst, ctx.model("fstr"), nbad)
    ctx.note("f-string part lists: %.0f s" % (time.time() - t1))
    # ---- the padded 'c' path (byte-level model, all code points)
    t1 = time.time()
    run_chr(ctx, wd, model, quick, nbad)
    ctx.note("padded-c section: %.0f s" % (time.time() - t1))

    # dispatch tie: the generated C calls the helper with exactly the dumped (width, pad, type)
    for ctn, nm, w, sg in TYPES:
        ctext = open(os.path.join(wd, "c18_%s.c" % nm)).read()
        body = ctext[ctext.find("/* \"c18_%s.pyx\":" % nm):] if False else ctext
        calls = re.findall(r"= __Pyx_PyUnicode_From_\w+\(__pyx_v_v, (\d+), '(.)', '(.)'\)", body)
        want = []
        for sp, (t, wi, p) in zip(specs, parsed):
            if t not in (None, "!") and wi <= 2 ** 30 and not (nm == "bint" and not sp):
                want.append((str(wi), p, t))
        got = [c for c in calls]
        # k_join / k_p* forms add further calls after the f<i> functions: compare the prefix
        ctx.case("dispatch", nm, sig=("dispatch", nm))
        if got[:len(want)] != want:
            k = next((i for i, (a, b) in enumerate(zip(got, want)) if a != b), min(len(got), len(want)))
            ctx.corr_break("fastpath-dispatch", {"type": nm, "index": k}, got[k:k + 3], want[k:k + 3])

    # ---- C integers: literal specs
    cases, meta = [], []
    for ctn, nm, w, sg in TYPES:
        vals = values_for(nm, w, sg, rng, nrand)
        for i, sp in enumerate(specs):
            t, wi, p = parsed[i]
            vs = vals
            if quick and t != "c" and len(vs) > 26:
                keep = [v for v in vs if v in rng_of(w, sg) or abs(v) < 11]
                vs = sorted(set(keep + rng.sample(vs, 18)))
            if wi > 4096 or re.search(r"\d{4,}", sp):
                vs = vs[:2] + vs[-1:]
            if t == "c" and wi > 251:
                # (int)v < 0 reaches BuildFromAscii with a byte >= 0x80: PyUnicode_WRITE aborts; keep one such value
                ab = [v for v in vs if v >= 0x200000 and ((v + 2 ** 31) % 2 ** 32) < 2 ** 31 and (v & 0xFF) >= 0x80]
                vs = [v for v in vs if v not in ab] + ab[:1]
            for v in vs:
                cases.append(["c18_%s.f%d" % (nm, i), [v]])
                meta.append((nm, w, sg, i, v))
    res = cybuild.call_cases(wd, cases, setup=setup, alarm=10, max_crashes=200)
    mq, mqi, sq = [], [], []
    for k, (nm, w, sg, i, v) in enumerate(meta):
        t, wi, p = parsed[i]
        if t in (None, "!") or wi > 2 ** 30 or (nm == "bint" and not specs[i]):
            continue
        if wi > 100000:
            continue          # model text of that size is pointless; still compared with CPython below
        if t == "c":
            mq.append("uchar %s %d %d %d %d %d" % (UCHAR_FIXED, w, sg, v, wi, ord(p)))
            sq.append("pychar %d %d %d" % (v, wi, ord(p)))
        else:
            mq.append("fmt %d %d %d %d %d %d" % (w, sg, v, wi, ord(p), ord(t)))
            sq.append("pyfmt %d %d %d %d" % (v, wi, ord(p), ord(t)))
        mqi.append(k)
    mres = dict(zip(mqi, model.batch(mq)))
    sres = dict(zip(mqi, model.batch(sq)))
    for k, ((nm, w, sg, i, v), r) in enumerate(zip(meta, res)):
        sp = specs[i]
        t, wi, p = parsed[i]
        got = canon(r)
        pv = bool(v) if nm == "bint" else v
        exp = oracle(lambda: format(pv, sp))
        inp = {"form": "fstring", "type": nm, "spec": sp, "value": v, "func": cases[k][0]}
        fast = k in mres
        stratum = "cint/%s/%s" % ("fast-" + t if fast else "generic", "neg" if v < 0 else "nonneg")
        ctx.case(stratum, inp, sig=("f", nm, sp, v))
        if fast:
            mval = text_of_model(mres[k])
            if mval != got:
                ctx.corr_break("intfmt:" + mq[mqi.index(k)].split()[0] if False else "intfmt:model-vs-helper", inp, got, mval)
            # the Coq specification itself against CPython on the canonical spec it claims to denote
            if t == "c":
                cexp = oracle(lambda: format(v, "%s%s%d%s" % (p, ">", wi, "c")))
            else:
                cexp = oracle(lambda: format(v, "%s%s%d%s" % (p, ">" if p == " " else "=", wi, t)))
            if text_of_model(sres[k]) != cexp:
                ctx.corr_break("intfmt:spec-vs-cpython", inp, cexp, text_of_model(sres[k]))
        if got != exp:
            kl = classify_int(sp, t, p, v, "fstring") if fast else "generic_format_wrong"
            nbad[kl] = nbad.get(kl, 0) + 1
            if nbad[kl] <= 3:
                ctx.fail(kl, inp, got, exp, note="fast path (type,width,pad)=%r" % ((t, wi, p),))

    # ---- C integers: other forms (str/repr/format()/dynamic spec/joins/% templates)
    cases, meta = [], []
    for ctn, nm, w, sg in TYPES:
        vals = values_for(nm, w, sg, rng, 4 if quick else 20)
        if quick and len(vals) > 16:
            vals = sorted(set([vals[0], vals[-1], 0] + rng.sample(vals, 12)))
        for v in vals:
            pv = bool(v) if nm == "bint" else v
            for kf, fn in KFORMS.items():
                cases.append(["c18_%s.%s" % (nm, kf), [v]])
                meta.append((nm, kf, v, oracle(lambda: fn(pv))))
            for j, sp in enumerate(dynspecs):
                cases.append(["c18_%s.g%d" % (nm, j), [v]])
                meta.append((nm, "format(v,%r)" % sp, v, oracle(lambda: format(pv, sp))))
                cases.append(["c18_%s.k_dyn" % nm, [v, sp]])
                meta.append((nm, "dyn:%s" % sp, v, oracle(lambda: format(pv, sp))))
            for wd_ in (0, 1, 7, 30):
                cases.append(["c18_%s.k_dynw" % nm, [v, wd_]])
                meta.append((nm, "dynw:%d" % wd_, v, oracle(lambda: f"{pv:{wd_}d}")))
    res = cybuild.call_cases(wd, cases, setup=setup, alarm=10)
    for c, (nm, form, v, exp), r in zip(cases, meta, res):
        got = canon(r)
        inp = {"form": form, "type": nm, "value": v, "func": c[0], "args": c[1]}
        ctx.case("cint-forms/%s" % form.split(":")[0].split("(")[0], inp, sig=(nm, form, v))
        if got != exp:
            kl = "cint_conversion_char_ignored_with_spec" if form in ("k_s8", "k_s5", "k_r05") else "cint_form_wrong"
            nbad[kl] = nbad.get(kl, 0) + 1
            if nbad[kl] <= 3:
                ctx.fail(kl, inp, got, exp)

    # ---- C doubles / floats
    cases, meta = [], []
    for i, sp in enumerate(fspecs):
        for v in FLOAT_VALUES:
            pv = pyval(v)
            cases.append(["c18_float.d%d" % i, [v]])
            meta.append(("double", sp, v, oracle(lambda: format(pv, sp))))
            f32 = struct.unpack("f", struct.pack("f", pv))[0] if abs(pv) < 3e38 or pv != pv or abs(pv) == float("inf") else None
            if f32 is not None and (f32 == pv or pv != pv):
                cases.append(["c18_float.s%d" % i, [v]])
                meta.append(("float", sp, v, oracle(lambda: format(pv, sp))))
    for v in FLOAT_VALUES:
        pv = pyval(v)
        for kf, fn in [("k_str", str), ("k_repr", repr), ("k_r", repr),
                       ("k_pf", lambda x: "%f|%.2f|%e|%g|%10.3f|%-10.1e|%s|%r" % (x, x, x, x, x, x, x, x))]:
            cases.append(["c18_float.%s" % kf, [v]])
            meta.append(("double", kf, v, oracle(lambda: fn(pv))))
    res = cybuild.call_cases(wd, cases, setup=setup, alarm=10)
    for c, (ty, sp, v, exp), r in zip(cases, meta, res):
        got = canon(r)
        inp = {"form": "fstring", "type": ty, "spec": sp, "value": v, "func": c[0]}
        ctx.case("cfloat/%s" % ty, inp, sig=(ty, sp, repr(v)))
        if got != exp:
            kl = "cfloat_format_wrong"
            nbad[kl] = nbad.get(kl, 0) + 1
            if nbad[kl] <= 3:
                ctx.fail(kl, inp, got, exp)

    # ---- Python objects
    cases, meta = [], []
    for i, sp in enumerate(ospecs):
        for v in OBJ_VALUES:
            pv = pyval(v)
            cases.append(["c18_obj.o%d" % i, [v]])
            meta.append(("o", sp, v, oracle(lambda: format(pv, sp))))
    for v in OBJ_VALUES:
        pv = pyval(v)
        for kf, fn in [("k_r", lambda x: f"{x!r}"), ("k_s", lambda x: f"{x!s}"), ("k_a", lambda x: f"{x!a}"),
                       ("k_r10", lambda x: f"{x!r:>10}"), ("k_s10", lambda x: f"{x!s:^10.3}"), ("k_str", str), ("k_repr", repr)]:
            cases.append(["c18_obj.%s" % kf, [v]])
            meta.append((kf, "", v, oracle(lambda: fn(pv))))
        for v2 in OBJ_VALUES[::4]:
            pv2 = pyval(v2)
            cases.append(["c18_obj.k_join", [v, v2]])
            meta.append(("k_join", "", [v, v2], oracle(lambda: f"{pv}-{pv2!r}" + f"{pv:>4}{{}}{pv2}")))
        for sp in ospecs[:12]:
            cases.append(["c18_obj.k_dyn", [v, sp]])
            meta.append(("k_dyn", sp, v, oracle(lambda: format(pv, sp))))
            cases.append(["c18_obj.k_fmt", [v, sp]])
            meta.append(("k_fmt", sp, v, oracle(lambda: format(pv, sp))))
    res = cybuild.call_cases(wd, cases, setup=setup, alarm=10)
    for c, (kf, sp, v, exp), r in zip(cases, meta, res):
        got = canon(r)
        inp = {"form": kf, "spec": sp, "value": v, "func": c[0]}
        ctx.case("object/%s" % kf, inp, sig=(kf, sp, repr(v)))
        if got != exp:
            kl = "object_format_wrong"
            nbad[kl] = nbad.get(kl, 0) + 1
            if nbad[kl] <= 3:
                ctx.fail(kl, inp, got, exp)

    # ---- %-templates (ConstantFolding._build_fstring)
    cases, meta = [], []
    ovals = OBJ_VALUES if not quick else OBJ_VALUES[:11] + OBJ_VALUES[14:16] + OBJ_VALUES[18:20]
    for i, t in enumerate(tmpls):
        for v in ovals:
            pv = pyval(v)
            cases.append(["c18_tmpl.p%d" % i, [v]])
            meta.append(("obj", t, v, oracle(lambda: t % (pv,))))
        for v in (0, 5, -5, 255, -2 ** 63, 2 ** 63 - 1, 1114111):
            cases.append(["c18_tmpl.q%d" % i, [v]])
            meta.append(("long", t, v, oracle(lambda: t % (v,))))
        if i % tstep:
            continue
        for v in (0, 65, 255):
            cases.append(["c18_tmpl.u%d" % i, [v]])
            meta.append(("uchar", t, v, oracle(lambda: t % (v,))))
        for a, b in [(5, -5), (2.5, "ab"), ("ab", 7), (None, 10 ** 20)]:
            cases.append(["c18_tmpl.t%d" % i, [a, b]])
            meta.append(("two", t + "~" + t, [a, b], oracle(lambda: (t + "~" + t) % (a, b))))
    res = cybuild.call_cases(wd, cases, setup=setup, alarm=10)
    for c, (kind, t, v, exp), r in zip(cases, meta, res):
        got = canon(r)
        inp = {"form": "percent", "operand": kind, "template": t, "value": v, "func": c[0]}
        ctx.case("percent/%s" % kind, inp, sig=(kind, t, repr(v)))
        if got != exp:
            args = v if kind == "two" else [v]
            kls = sorted({classify_tmpl(t, pyval(a)) for a in args})
            kl = kls[0] if len(kls) == 1 else ([k for k in kls if k != "percent_template_wrong"] or kls)[0]
            nbad[kl] = nbad.get(kl, 0) + 1
            if nbad[kl] <= 3:
                ctx.fail(kl, inp, got, exp)
    ctx.note("total run: %.0f s" % (time.time() - t0))
    ctx.extra["failing_case_counts"] = dict(sorted(nbad.items()))
    ctx.extra["n_specs"] = {"cint": len(specs), "cint_fast_path": sum(1 for t, wi, p in parsed if t not in (None, "!")),
                            "float": len(fspecs), "object": len(ospecs), "templates": len(tmpls)}
    ctx.note("failing cases per class: %s" % json.dumps(nbad, sort_keys=True))


def replay(ctx, obj):
    inp = obj["input"]
    print("replay input:", json.dumps(inp))
    print("re-run `./check C18` (the generated modules depend on the seeded spec list); func:", inp.get("func"))
