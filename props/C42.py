"""C42 — compilation is deterministic (DESIGN 7/C42)."""
import os, sys, json, glob, subprocess, hashlib, shutil, re, itertools, concurrent.futures as cf
import cybuild

EXTRACTS = ["Session"]

TITLE = "Compilation is deterministic"
RULE = ("(module, hash seed / process / batch mode) compilations: generated feature-rich modules and corpus files from "
        "/repo/tests/run, each translated in separate processes under several PYTHONHASHSEED values, in isolation and "
        "inside a cythonize(nthreads>1) batch; distinct by (module, mode); a case is a byte comparison of two C files. "
        "Session families: generated module sets that share cimported .pxd files (inline / fused / ctuple / plain cdef "
        "functions, structs, enums, cdef classes, extern blocks, a .pxd cimported by the .pxd, an include file, a memoryview "
        "user, optionally the implementation module of the .pxd), every used-only entry marked by a nonempty proper subset "
        "of the cimporting modules (all subsets cycled); each module compiled alone in a fresh process and in batches in "
        "every order (all permutations of 3, a sample for more) through Main.compile(list), Main.compile_multiple, the "
        "command line (Main.main), cythonize(nthreads 0 / 4), and repeatedly in one process; distinct by "
        "(family, entry point, order, module)")
EXPLANATION = ("theorem: emission after sorting on a unique key is independent of the collection order (any permutation), "
               "and complete; with tied keys it is not (refuted), which is why the keys in Code.py carry the unique cname. "
               "session theorems (M_Session: a Context caching parsed .pxd scopes with per-entry used marks): with the reset "
               "in compile_multiple every module of every batch in every order gets its isolated output; without it the output "
               "is characterised exactly (own marks + marks of every earlier module), equals the isolated one for batches "
               "sharing no .pxd and differs for every batch where an earlier module marks a used-only entry the module does not "
               "(refuted with witness); tied to the code by observing the Context objects / parsed .pxd files per source and "
               "the written prototypes per (order, module). "
               "partial: every other place where the compiler iterates over a set or dict is covered only by the byte "
               "comparison of complete C outputs under different hash seeds / processes / batch modes.")
TRUSTED = ["the byte comparison harness", "Python's list.sort() being a stable total sort",
           "the classification of .pxd entries into always-written / written-when-used (checked against the isolated outputs)",
           "monkeypatched Main.run_pipeline / Context.process_pxd in the worker as the observation of context sharing"]
ASSUMPTIONS = ["same sources, same options, same relative paths, same working directory layout"]

CORPUS = ["tests/run/closures_T82.pyx", "tests/run/cdef_class_dataclass.pyx", "tests/run/fused_def.pyx",
          "tests/run/generators.pyx", "tests/run/cpdef_enums.pyx", "tests/run/strliterals.pyx",
          "tests/run/dict_getitem.pyx", "tests/run/extended_unpacking_T409.pyx", "tests/run/bytearraymethods.pyx",
          "tests/run/memoryview_inplace_division.pyx", "tests/run/switch.pyx", "tests/run/unicodemethods.pyx",
          "tests/run/kwargproblems.pyx", "tests/run/async_def.pyx", "tests/run/cyfunction.pyx", "tests/run/int_literals.pyx",
          "tests/run/set.pyx", "tests/run/tuple_constants.pyx", "tests/run/float_division.pyx", "tests/run/staticmethod.pyx"]


QUICK_OK = {"generators.pyx", "strliterals.pyx", "dict_getitem.pyx", "extended_unpacking_T409.pyx", "switch.pyx", "set.pyx"}


def gen_module(rng, k):
    """a module with many pooled constants, names, classes, closures, cdef classes, fused functions"""
    words = ["alpha", "beta", "gamma", "delta", "eps", "zeta", "eta", "theta", "iota", "kappa", "lam", "mu", "nu", "xi",
             "omi", "pi", "rho", "sigma", "tau", "ups", "phi", "chi", "psi", "omega"]
    rng.shuffle(words)
    L = ["# cython: language_level=3, binding=True", "cimport cython", "import sys, os", "from libc.math cimport sqrt", ""]
    L += ["ctypedef fused num_t:", "    int", "    double", "    long long", ""]
    for i in range(6 + k):
        w = words[i % len(words)]
        L += ["def f_%s_%d(a, b=%d, *args, kw_%s=%r, **kwargs):" % (w, i, rng.randrange(-5000, 5000), w, w * 2),
              "    x = {%r: %d, %r: %r, %r: (%d, %r, %s)}" % (w, rng.randrange(10 ** 12), w[::-1], w.upper(), "t" + w,
                                                            rng.randrange(100), w, rng.random()),
              "    s = {%s}" % ", ".join(repr(words[(i + j) % len(words)]) for j in range(5)),
              "    fs = frozenset((%s))" % ", ".join(str(rng.randrange(1000)) for _ in range(6)),
              "    def inner_%d(y, z=%r):" % (i, w.encode()),
              "        return (a, b, y, z, x, len(s), %d ** 40, %r, %r)" % (rng.randrange(2, 9), "unicode-é-%s" % w, b"bytes\x00" + w.encode()),
              "    lam = lambda q: q + b * %d" % rng.randrange(100),
              "    return inner_%d, lam, [v for v in sorted(s)], {kk: vv for kk, vv in kwargs.items()}, fs" % i, ""]
    for i in range(3):
        w = words[(i + 7) % len(words)]
        L += ["cdef class Ext_%s:" % w, "    cdef public int a_%s" % w, "    cdef readonly double b_%s" % w, "    cdef object c_%s" % w,
              "    def __init__(self, a, b):", "        self.a_%s = a; self.b_%s = b; self.c_%s = {%r: a}" % (w, w, w, w),
              "    cpdef int m_%s(self, int q) except? -1:" % w, "        return self.a_%s * q + %d" % (w, rng.randrange(1000)),
              "    def __add__(self, other):", "        return %r" % ("add_" + w), "    def __eq__(self, other):",
              "        return isinstance(other, Ext_%s)" % w, "    def __hash__(self):", "        return %d" % rng.randrange(10 ** 9), ""]
        L += ["class Py_%s(object):" % w, "    attr_%s = %r" % (w, [w, w * 2, 3.5, None, True]),
              "    def meth(self, *, k1=%d, k2=%r):" % (rng.randrange(99), w), "        return (k1, k2, self.attr_%s)" % w,
              "    @staticmethod", "    def sm(x): return x", "    @classmethod", "    def cm(cls): return cls.__name__", ""]
    L += ["def fused_fn(num_t a, num_t b):", "    return a * b + <num_t>2", "",
          "def gen_fn(n):", "    for i in range(n):", "        yield (i, %r, i * %d)" % (words[0], rng.randrange(100)), "",
          "async def co_fn(x):", "    return x", "",
          "def match_like(v):", "    if v in (%s):" % ", ".join(repr(w) for w in words[:7]), "        return 1",
          "    elif v in (1, 2, 3, 5, 8, 13):", "        return 2", "    return 0", "",
          "try:", "    import %s_missing_mod" % words[1], "except ImportError:", "    pass", ""]
    return "\n".join(L) + "\n"


def gen_meta_module(rng, k, src):
    """a module whose cythonize() metadata block is built from sets of path strings: several extern headers
    that exist on disk (direct and through a cimported .pxd), '# distutils:' lists, include directories"""
    n = rng.randrange(4, 8)
    hs = ["c42_m%d_%s.h" % (k, "".join(rng.choice("abcdefghijklmnopqrstuvwxyz") for _ in range(rng.randrange(2, 9)))) for _ in range(n)]
    for h in hs:
        with open(os.path.join(src, h), "w") as f:
            f.write("static int %s_v = %d;\n" % (h[:-2], rng.randrange(1000)))
    pxd_h = "c42_m%d_pxdhdr.h" % k
    with open(os.path.join(src, pxd_h), "w") as f:
        f.write("static int c42_m%d_pv = 1;\n" % k)
    with open(os.path.join(src, "c42_metapxd%d.pxd" % k), "w") as f:
        f.write('cdef extern from "%s":\n    int c42_m%d_pv\n' % (pxd_h, k))
    order = hs[:]
    rng.shuffle(order)
    L = ["# distutils: depends = %s %s" % (order[0], order[-1]),
         "# distutils: libraries = m",
         "# distutils: define_macros = C42_Z=1, C42_A=2, C42_M=3",
         "# distutils: include_dirs = . inc_b inc_a",
         "cimport c42_metapxd%d" % k, ""]
    for h in order:
        L += ['cdef extern from "%s":' % h, "    int %s_v" % h[:-2], ""]
    L += ["def total():", "    return " + " + ".join("%s_v" % h[:-2] for h in hs) + " + c42_metapxd%d.c42_m%d_pv" % (k, k), ""]
    return "\n".join(L) + "\n"


def metadata_of(c):
    a = c.find(b"/* BEGIN: Cython Metadata")
    if a < 0:
        return None
    a = c.find(b"\n", a) + 1
    e = c.find(b"END: Cython Metadata */", a)
    try:
        return json.loads(c[a:e].decode())
    except Exception:
        return None


WORKER = r'''
import sys, os, json
sys.path.insert(0, os.environ["VERIF_HARNESS"])
import pyload; pyload.install()
from Cython.Compiler import Main, Options
pyload.assert_sources()
spec = json.loads(sys.argv[1])
os.chdir(spec["cwd"])
res = {}
if spec["mode"] == "single":
    for f in spec["files"]:
        out = os.path.join(spec["outdir"], os.path.basename(f)[:-4] + ".c")
        try:
            r = Main.compile(f, Main.CompilationOptions(Main.default_options, output_file=out,
                             compiler_directives=dict(Options.get_directive_defaults(), language_level=3)))
            res[f] = r.num_errors == 0 and os.path.exists(out)
        except BaseException as e:
            res[f] = "crash %r" % (e,)
else:
    from Cython.Build import cythonize
    try:
        cythonize(spec["files"], nthreads=spec["nthreads"], build_dir=spec["outdir"], force=True, quiet=True,
                  compiler_directives={"language_level": 3})
        res = {f: True for f in spec["files"]}
    except BaseException as e:
        res = {"_batch": "crash %r" % (e,)}
print(json.dumps(res))
'''


def run_worker(wd, spec, seed):
    env = cybuild.base_env()
    env["PYTHONHASHSEED"] = str(seed)
    env["VERIF_HARNESS"] = cybuild.HERE
    path = os.path.join(wd, "c42_worker.py")
    if not os.path.exists(path):
        # called from several threads: write atomically under a per-thread temporary name
        import threading
        tmp = path + ".tmp%d_%d" % (os.getpid(), threading.get_ident())
        with open(tmp, "w") as f:
            f.write(WORKER)
        os.replace(tmp, path)
    p = subprocess.run([cybuild.PY, path, json.dumps(spec)], capture_output=True, text=True, env=env, timeout=1500)
    try:
        return json.loads(p.stdout.strip().splitlines()[-1])
    except Exception:
        return {"_worker": "rc=%s %s" % (p.returncode, p.stderr[-400:])}


def strip_metadata(c):
    a = c.find(b"/* BEGIN: Cython Metadata")
    if a < 0:
        return c
    e = c.find(b"END: Cython Metadata */", a)
    if e < 0:
        return c
    e = c.find(b"\n", e) + 1
    # the metadata block is followed by one blank line
    if c[e:e + 1] == b"\n":
        e += 1
    return c[:a] + c[e:]


def run(ctx):
    quick = ctx.tier == "quick"
    wd = ctx.workdir
    src = os.path.join(wd, "src")
    os.makedirs(src, exist_ok=True)
    # the session families run in the background while the seed / batch comparisons below use their own pools
    session_ex = cf.ThreadPoolExecutor(max_workers=6 if quick else 8)
    session_fams = start_session_families(ctx, session_ex)
    files = []
    for k in range(3 if quick else 8):
        name = "c42_gen%d.pyx" % k
        with open(os.path.join(src, name), "w") as f:
            f.write(gen_module(ctx.rng, k))
        files.append(name)
    meta_files = []
    for k in range(2 if quick else 6):
        name = "c42_meta%d.pyx" % k
        with open(os.path.join(src, name), "w") as f:
            f.write(gen_meta_module(ctx.rng, k, src))
        files.append(name)
        meta_files.append(name)
    corpus = [c for c in CORPUS if os.path.basename(c) in QUICK_OK] if quick else CORPUS
    for rel in corpus:
        p = os.path.join(ctx.repo, rel)
        if os.path.exists(p):
            name = "c42_" + os.path.basename(rel).replace("-", "_")
            shutil.copy(p, os.path.join(src, name))
            files.append(name)
    seeds = [0, 1, 12345] if quick else [0, 1, 2, 3, 7, 99, 12345, 4294967295]
    outs = {}
    jobs = []
    with cf.ThreadPoolExecutor(max_workers=8) as ex:
        futs = {}
        for s in seeds:
            for chunk_i in range(0, len(files), 4):
                chunk = files[chunk_i:chunk_i + 4]
                od = os.path.join(wd, "out_seed%d" % s)
                os.makedirs(od, exist_ok=True)
                futs[ex.submit(run_worker, wd, {"mode": "single", "cwd": src, "files": chunk, "outdir": od}, s)] = (s, chunk)
        status = {}
        for fu, (s, chunk) in futs.items():
            r = fu.result()
            for f in chunk:
                status[(s, f)] = r.get(f, r)
    usable = [f for f in files if all(status.get((s, f)) is True for s in seeds)]
    skipped = [f for f in files if f not in usable]
    od_batch = os.path.join(wd, "out_batch")
    os.makedirs(od_batch, exist_ok=True)
    od_seq = os.path.join(wd, "out_batch_seq")
    os.makedirs(od_seq, exist_ok=True)
    with cf.ThreadPoolExecutor(max_workers=2) as ex:
        fb = ex.submit(run_worker, wd, {"mode": "batch", "cwd": src, "files": usable, "outdir": od_batch, "nthreads": 4}, 5)
        fs = ex.submit(run_worker, wd, {"mode": "batch", "cwd": src, "files": usable, "outdir": od_seq, "nthreads": 0}, 0)
        batch_status = fb.result(); seq_status = fs.result()
    if skipped:
        ctx.note("not translatable standalone (skipped): %s" % ", ".join(skipped))
    for f in files:
        if f in skipped and f.startswith("c42_gen"):
            ctx.corr_break("translate " + f, f, str({s: status.get((s, f)) for s in seeds})[:600], "generated module compiles")
    def read(od, f):
        p = os.path.join(od, f[:-4] + ".c")
        return open(p, "rb").read() if os.path.exists(p) else None
    for f in usable:
        ref = read(os.path.join(wd, "out_seed%d" % seeds[0]), f)
        for s in seeds[1:]:
            other = read(os.path.join(wd, "out_seed%d" % s), f)
            ctx.case("hashseed", {"module": f, "seeds": [seeds[0], s]}, sig=(f, s))
            if other != ref:
                ctx.fail("c_output_depends_on_hash_seed", {"module": f, "seeds": [seeds[0], s]}, first_diff(ref, other), "byte-identical C files")
        # cythonize() embeds a metadata block, so batch outputs are compared with each other:
        # sequential (nthreads=0, seed 0) vs parallel (nthreads=4, another seed), and their bodies
        # (metadata stripped) with the isolated compilation
        b = read(od_batch, f); q = read(od_seq, f)
        ctx.case("batch-nthreads", {"module": f, "nthreads": [0, 4]}, sig=(f, "batch"))
        if b is None or q is None:
            ctx.fail("batch_compile_failed", {"module": f, "batch": str(batch_status)[:300], "seq": str(seq_status)[:300]}, None,
                     "C files produced by cythonize(nthreads=0) and cythonize(nthreads=4)")
        elif b != q:
            ctx.fail("c_output_depends_on_batch_mode", {"module": f, "nthreads": [0, 4]}, first_diff(q, b), "byte-identical C files")
        elif strip_metadata(b) != ref:
            ctx.fail("c_output_depends_on_entry_point", {"module": f}, first_diff(ref, strip_metadata(b)),
                     "cythonize() output = Main.compile() output apart from the metadata block")
    # the metadata block itself (distutils options, resolved dependency lists) under every hash seed
    meta_usable = [f for f in meta_files if f in usable]
    mseeds = seeds + ([5, 77] if quick else [5, 77, 1000, 31337])
    with cf.ThreadPoolExecutor(max_workers=8) as ex:
        futs = {}
        for sd in mseeds:
            od = os.path.join(wd, "out_meta_seed%d" % sd)
            os.makedirs(od, exist_ok=True)
            futs[sd] = ex.submit(run_worker, wd, {"mode": "batch", "cwd": src, "files": meta_usable, "outdir": od, "nthreads": 0}, sd)
        mstat = {sd: fu.result() for sd, fu in futs.items()}
    for f in meta_usable:
        ref = read(os.path.join(wd, "out_meta_seed%d" % mseeds[0]), f)
        md = metadata_of(ref) if ref else None
        if md is None:
            ctx.corr_break("cythonize metadata block", f, str(mstat[mseeds[0]])[:300], "a JSON metadata block in the generated C file")
            continue
        dep = (md.get("distutils") or {}).get("depends", [])
        ctx.case("metadata-shape", {"module": f, "depends": len(dep)}, sig=(f, "metashape"), nontrivial=len(dep) >= 4)
        # tie to the model of sorted emission (M_SortEmit): a list built from a set is emitted sorted, duplicate-free
        if dep != sorted(set(dep)) or len(dep) < 4:
            ctx.corr_break("metadata depends = sorted(set(...)) with the extern headers", f, dep, "sorted, duplicate-free, >= 4 entries")
        for sd in mseeds[1:]:
            other = read(os.path.join(wd, "out_meta_seed%d" % sd), f)
            ctx.case("hashseed-metadata", {"module": f, "seeds": [mseeds[0], sd]}, sig=(f, "meta", sd))
            if other != ref:
                ctx.fail("c_output_depends_on_hash_seed", {"module": f, "seeds": [mseeds[0], sd], "entry": "cythonize"},
                         first_diff(ref, other) if other is not None else str(mstat[sd])[:300], "byte-identical C files")
    evaluate_session_families(ctx, session_fams)
    session_ex.shutdown()
    if not quick:
        run_selfcompiled(ctx, wd, src, usable, os.path.join(wd, "out_seed%d" % seeds[0]))
    ctx.extra["modules_compared"] = usable
    ctx.extra["bytes_compared"] = sum(len(read(os.path.join(wd, "out_seed%d" % seeds[0]), f) or b"") for f in usable)


SELF_MODULES = ["Cython/Compiler/Scanning.py", "Cython/Compiler/Parsing.py", "Cython/Compiler/Visitor.py",
                "Cython/Compiler/FlowControl.py", "Cython/Compiler/Code.py", "Cython/Compiler/LineTable.py",
                "Cython/Compiler/StringEncoding.py", "Cython/Utils.py", "Cython/StringIOTree.py", "Cython/LZSS.py",
                "Cython/Plex/Scanners.py", "Cython/Plex/Actions.py", "Cython/Plex/Machines.py", "Cython/Plex/Transitions.py",
                "Cython/Plex/DFA.py"]

SELF_WORKER = r'''
import sys, os, json
spec = json.loads(sys.argv[1])
sys.path.insert(0, spec["tree"])
sys.dont_write_bytecode = True
from Cython.Compiler import Main, Options
import Cython.Compiler.Parsing, Cython.Compiler.Code, Cython.Compiler.Scanning
compiled = [m for m in ("Cython.Compiler.Parsing", "Cython.Compiler.Code", "Cython.Compiler.Scanning", "Cython.Compiler.Visitor",
                        "Cython.Utils", "Cython.StringIOTree", "Cython.Plex.Scanners")
            if (getattr(sys.modules.get(m), "__file__", "") or "").endswith(".so")]
os.chdir(spec["cwd"])
res = {"_compiled_modules": compiled}
for f in spec["files"]:
    out = os.path.join(spec["outdir"], os.path.basename(f)[:-4] + ".c")
    try:
        r = Main.compile(f, Main.CompilationOptions(Main.default_options, output_file=out,
                         compiler_directives=dict(Options.get_directive_defaults(), language_level=3)))
        res[f] = r.num_errors == 0 and os.path.exists(out)
    except BaseException as e:
        res[f] = "crash %r" % (e,)
print(json.dumps(res))
'''


def build_selfcompiled(ctx, wd):
    """copy the compiler sources to scratch and compile the modules that setup.py normally
    compiles, with the compiler under test itself (pure-Python run) + gcc -O0"""
    tree = os.path.join(wd, "selfc")
    shutil.copytree(os.path.join(ctx.repo, "Cython"), os.path.join(tree, "Cython"),
                    ignore=shutil.ignore_patterns("*.so", "__pycache__", "*.pyc", "*.o"))
    def one(rel):
        src = os.path.join(tree, rel)
        c_file = src[:-3] + ".c"
        r = cybuild.translate(src, c_file, directives={"language_level": 3}, timeout=1500)
        if not r.get("ok"):
            return rel, "translate: " + (r.get("crash") or r.get("errors") or "")[-300:]
        so = src[:-3] + cybuild.EXT
        rc, err = cybuild.cc(c_file, so, cflags=["-O0"], timeout=1500)
        return rel, (None if rc == 0 else "cc: " + err[-300:])
    with cf.ThreadPoolExecutor(max_workers=15) as ex:
        results = list(ex.map(one, SELF_MODULES))
    return tree, {rel: err for rel, err in results}


def run_selfcompiled(ctx, wd, src, usable, ref_dir):
    tree, status = build_selfcompiled(ctx, wd)
    failed = {k: v for k, v in status.items() if v}
    if failed:
        ctx.note("self-compilation: modules that did not build (left as .py): %s" % json.dumps(failed)[:600])
    od = os.path.join(wd, "out_selfc")
    os.makedirs(od, exist_ok=True)
    env = cybuild.base_env()
    env["PYTHONPATH"] = tree
    env["PYTHONHASHSEED"] = "7"
    path = os.path.join(wd, "c42_self_worker.py")
    with open(path, "w") as f:
        f.write(SELF_WORKER)
    p = subprocess.run([cybuild.PY, path, json.dumps({"tree": tree, "cwd": src, "files": usable, "outdir": od})],
                       capture_output=True, text=True, env=env, timeout=3000)
    try:
        res = json.loads(p.stdout.strip().splitlines()[-1])
    except Exception:
        ctx.corr_break("self-compiled compiler run", "selfc", (p.stderr or p.stdout)[-600:], "runs")
        return
    ctx.extra["selfcompiled_modules_loaded"] = res.get("_compiled_modules")
    if not res.get("_compiled_modules"):
        ctx.corr_break("self-compiled compiler run", "selfc", "no compiled compiler module was loaded", "compiled modules in use")
        return
    for f in usable:
        a = open(os.path.join(ref_dir, f[:-4] + ".c"), "rb").read()
        pth = os.path.join(od, f[:-4] + ".c")
        b = open(pth, "rb").read() if os.path.exists(pth) else None
        ctx.case("self-compiled", {"module": f}, sig=(f, "selfc"))
        if b is None:
            ctx.fail("selfcompiled_compile_failed", {"module": f, "status": str(res.get(f))[:300]}, None, "C file produced by the self-compiled compiler")
        elif a != b:
            ctx.fail("c_output_depends_on_compiled_compiler", {"module": f}, first_diff(a, b), "byte-identical C files")


def first_diff(a, b):
    if a is None or b is None:
        return "missing output"
    la, lb = a.split(b"\n"), b.split(b"\n")
    for i, (x, y) in enumerate(zip(la, lb)):
        if x != y:
            return {"line": i + 1, "a": x[:200].decode("utf8", "replace"), "b": y[:200].decode("utf8", "replace")}
    return {"line": min(len(la), len(lb)), "a": "length %d" % len(la), "b": "length %d" % len(lb)}


# ======================================================================================================
# Session families: module sets sharing cimported .pxd files, compiled alone / in batches in every order
# ======================================================================================================

WORDS = ["alpha", "beta", "gamma", "delta", "eps", "zeta", "eta", "theta", "iota", "kappa", "lam", "mu", "nu", "xi"]


# expressions over builtins (Builtin.builtin_scope is one object shared by every compilation of a process)
BUILTIN_EXPRS = ["len(list(o))", "isinstance(o, (bytearray, frozenset))", "dict(a=1).get('a')", "abs(-3) + divmod(7, 2)[0]",
                 "complex(1, 2).real", "sorted(set(o))", "str(o).encode('utf8')", "(getattr(o, 'x', None), hasattr(o, 'y'))",
                 "(bytes(3), memoryview(b'ab')[0])", "max(1, 2, 3) + min(4, 5)", "(any(x for x in o), sum(o))",
                 "('%s-%d' % ('a', 1), f'{o!r:>5}')", "(o.decode('ascii') if isinstance(o, bytes) else unicode(o))",
                 "tuple(reversed(range(3)))", "(int(o) ** 2, float(o) // 2, pow(2, 5, 7))", "{k: v for k, v in enumerate(o)}.items()"]


def proper_subsets(items):
    """nonempty proper subsets of items, smallest first"""
    out = []
    for r in range(1, len(items)):
        out += [list(c) for c in itertools.combinations(items, r)]
    return out


def gen_family(rng, tag, nmod, with_impl=False, with_mv=False):
    """-> dict(files={name: text}, modules=[pyx names], pxds=[{name, entries:[{name, kind, decl}]}],
               model=[per module: [(pxd index, [marked entry indices])]] or None (family with implementation module),
               impl=name or None)
    kind 'A': declaration written for every cimporting module; 'U': written only when the entry is marked used."""
    S, U, T = "c42%s_sh" % tag, "c42%s_ut" % tag, "c42%s_tx" % tag
    w = WORDS[:]
    rng.shuffle(w)
    K = [rng.randrange(2, 90) for _ in range(12)]
    n_inl = rng.randrange(2, 5)
    # ---- entries: (name, kind, declaration lines in the .pxd, use expression / statements) ----
    s_entries = [
        dict(name="Pair_" + w[0], kind="A", cat="struct"),
        dict(name="Color_" + w[1], kind="A", cat="enum"),
        dict(name="Base_" + w[2], kind="A", cat="class"),
        dict(name="u64_" + w[3], kind="A", cat="typedef"),
    ]
    for i in range(n_inl):
        s_entries.append(dict(name="inl%d_%s" % (i, w[4 + i]), kind="U", cat=rng.choice(["inline_int", "inline_dbl", "inline_struct"])))
    s_entries += [
        dict(name="fmx_" + w[8], kind="U", cat="fused"),
        dict(name="both_" + w[9], kind="U", cat="ctuple"),
        dict(name="via_" + w[10], kind="U", cat="calls_ut"),
        dict(name="plain_" + w[11], kind="U", cat="plain"),
    ]
    u_entries = [dict(name="Rec_" + w[0], kind="A", cat="struct"),
                 dict(name="ustep_" + w[1], kind="U", cat="inline_int"),
                 dict(name="uother_" + w[2], kind="U", cat="inline_int")]
    t_entries = [dict(name="TEnum_" + w[3], kind="A", cat="enum"),
                 dict(name="tin_" + w[4], kind="U", cat="inline_int"),
                 dict(name="tdb_" + w[5], kind="U", cat="inline_dbl")]
    pair, color, base = s_entries[0]["name"], s_entries[1]["name"], s_entries[2]["name"]
    ustep = u_entries[1]["name"]

    def decl(modname, e, k):
        n, c = e["name"], e["cat"]
        if c == "struct":
            return ["cdef struct %s:" % n, "    int a", "    int b", ""]
        if c == "enum":
            return ["cdef enum %s:" % n, "    %s_LO = %d" % (n.upper(), k), "    %s_HI" % n.upper(), ""]
        if c == "class":
            return ["cdef class %s:" % n, "    cdef int n", "    cdef int get(self)", ""]
        if c == "typedef":
            return ["ctypedef unsigned long long %s" % n, ""]
        if c == "inline_int":
            return ["cdef inline int %s(int x):" % n, "    return x * %d + 1" % k, ""]
        if c == "inline_dbl":
            return ["cdef inline double %s(double x) noexcept nogil:" % n, "    return x / %d.0" % k, ""]
        if c == "inline_struct":
            return ["cdef inline int %s(%s p):" % (n, pair), "    return p.a + p.b * %d" % k, ""]
        if c == "fused":
            return ["cdef inline c42num_t %s(c42num_t a, c42num_t b):" % n, "    return a if a > b else b", ""]
        if c == "ctuple":
            return ["cdef inline (int, double) %s(int a):" % n, "    return a, a * %d.5" % k, ""]
        if c == "calls_ut":
            return ["cdef inline int %s(int v):" % n, "    return %s.%s(v) + %d" % (U, ustep, k), ""]
        if c == "plain":
            return ["cdef int %s(int x)" % n, ""]
        raise ValueError(c)

    hdr = "c42%s_hdr.h" % tag
    files = {hdr: "static int c42%s_extfn(int x) { return x + %d; }\n#define C42%s_EXTC %d\n" % (tag, K[0], tag.upper(), K[1])}
    L = ["cimport %s" % U, "", 'cdef extern from "math.h":', "    double sin(double)", "    double cos(double)", "",
         'cdef extern from "%s":' % hdr, "    int c42%s_extfn(int)" % tag, "    int C42%s_EXTC" % tag.upper(), "",
         "ctypedef fused c42num_t:", "    int", "    double", ""]
    for i, e in enumerate(s_entries):
        L += decl(S, e, K[i % len(K)])
    files[S + ".pxd"] = "\n".join(L) + "\n"
    L = []
    for i, e in enumerate(u_entries):
        L += decl(U, e, K[(i + 3) % len(K)])
    files[U + ".pxd"] = "\n".join(L) + "\n"
    L = []
    for i, e in enumerate(t_entries):
        L += decl(T, e, K[(i + 5) % len(K)])
    files[T + ".pxd"] = "\n".join(L) + "\n"
    pxi = "c42%s_common.pxi" % tag
    files[pxi] = "cdef inline int c42%s_pxi(int v):\n    return v * %d\n" % (tag, K[6])
    pxds = [dict(name=S, entries=s_entries), dict(name=U, entries=u_entries), dict(name=T, entries=t_entries)]

    # ---- which module cimports which .pxd: S and U by at least two modules, T not by all, one module (if >3) none ----
    mods = list(range(nmod))
    while True:
        cim = [[rng.random() < 0.8, rng.random() < 0.6, rng.random() < 0.5] for _ in mods]
        if nmod > 3:
            cim[rng.randrange(nmod)] = [False, False, False]
        if nmod <= 3 and not all(any(c) for c in cim):
            continue
        if sum(c[0] for c in cim) >= 2 and sum(c[0] or c[1] for c in cim) >= 2 and 1 <= sum(c[2] for c in cim) < nmod:
            break
    # ---- who marks which entry: every used-only entry by a nonempty proper subset of its cimporters (subsets cycled) ----
    users = {}
    cyc = {}
    for pi, pd in enumerate(pxds):
        cimporters = [m for m in mods if cim[m][pi]]
        subs = proper_subsets(cimporters) or [[], cimporters]
        rng.shuffle(subs)
        cyc[pi] = subs
        for ei, e in enumerate(pd["entries"]):
            users[(pi, ei)] = subs[ei % len(subs)] if e["kind"] == "U" else (rng.sample(cimporters, rng.randrange(0, len(cimporters) + 1)) if cimporters else [])
    names = []
    model = []
    for m in mods:
        mname = "c42%s_m%d" % (tag, m)
        names.append(mname + ".pyx")
        style = rng.choice(["from", "mod"])
        head = ["# cython: language_level=3"]
        incl = rng.random() < 0.5
        if incl:
            head.append('include "%s"' % pxi)
        if rng.random() < 0.5:
            head.append("from libc.math cimport sqrt")
            libm = True
        else:
            libm = False
        body = ["def f_%s(double x, int k, obj=None):" % mname, "    acc = 0.0"]
        pre = []
        extra_defs = []
        for pi, pd in enumerate(pxds):
            if not cim[m][pi]:
                continue
            P = pd["name"]
            used = [ei for ei in range(len(pd["entries"])) if m in users[(pi, ei)]]
            imported = []
            q = (lambda n: n) if style == "from" else (lambda n, P=P: P + "." + n)
            for ei in used:
                e = pd["entries"][ei]
                n, c = e["name"], e["cat"]
                imported.append(n)
                if c == "struct":
                    pre.append("    cdef %s st_%d_%d" % (q(n), pi, ei))
                    body.append("    st_%d_%d.a = k; acc += st_%d_%d.a" % (pi, ei, pi, ei))
                elif c == "enum":
                    imported.append(n.upper() + "_HI")
                    body.append("    acc += %s" % q(n.upper() + "_HI"))
                elif c == "class":
                    extra_defs += ["def g_%s_%d(%s b):" % (mname, ei, q(n)), "    return b.n", ""]
                elif c == "typedef":
                    pre.append("    cdef %s big_%d = %d" % (q(n), ei, K[7]))
                    body.append("    acc += big_%d" % ei)
                elif c in ("inline_int", "calls_ut", "plain"):
                    body.append("    acc += %s(k)" % q(n))
                elif c == "inline_dbl":
                    body.append("    acc += %s(x)" % q(n))
                elif c == "inline_struct":
                    if pair not in imported:
                        imported.append(pair)
                    pre.append("    cdef %s sp_%d" % (q(pair), ei))
                    body.append("    sp_%d.a = k; sp_%d.b = 2; acc += %s(sp_%d)" % (ei, ei, q(n), ei))
                elif c == "fused":
                    # (a fused function reached as module attribute, 'mod.f(k, 2) + mod.f(x, 2.0)', crashes type
                    # inference in the unchanged tree - unrelated to this property; it is always cimported by name)
                    if style != "from":
                        head.append("from %s cimport %s" % (P, n))
                    body.append("    acc += %s(k, 2) + %s(x, 2.0)" % (n, n))
                elif c == "ctuple":
                    body.append("    acc += %s(k)[0]" % q(n))
            if pi == 0 and rng.random() < 0.5:
                imported.append("sin")
                body.append("    acc += %s(x)" % q("sin"))
            if style == "from":
                form = "names" if imported else "bare"
                if form == "bare":
                    head.append("cimport %s" % P)
                else:
                    head.append("from %s cimport %s" % (P, ", ".join(dict.fromkeys(imported))))
            else:
                head.append("cimport %s" % P)
        if libm:
            body.append("    acc += sqrt(x * x)")
        if incl:
            body.append("    acc += c42%s_pxi(k)" % tag)
        for bi in sorted(rng.sample(range(len(BUILTIN_EXPRS)), rng.randrange(2, 7))):
            extra_defs += ["def h%d_%s(o):" % (bi, mname), "    return " + BUILTIN_EXPRS[bi], ""]
        if with_mv and m == nmod - 1:
            extra_defs += ["def mv_%s(double[:] a, int[:, ::1] b):" % mname, "    return a[0] + b[0, 0]", ""]
        body.append("    return acc, %r" % (w[m % len(w)] + mname))
        files[mname + ".pyx"] = "\n".join(head + [""] + body[:2] + pre + body[2:] + [""] + extra_defs) + "\n"
        # the module as the session model sees it: cimported scopes transitively closed (S cimports U and the
        # body of S's via_* function marks U's ustep whenever S is loaded)
        loads = [cim[m][0], cim[m][1] or cim[m][0], cim[m][2]]
        mm = []
        for pi in range(3):
            if loads[pi]:
                marked = sorted(ei for ei in range(len(pxds[pi]["entries"])) if m in users[(pi, ei)] and cim[m][pi]
                                and pxds[pi]["entries"][ei]["kind"] == "U")
                if pi == 1 and cim[m][0] and 1 not in marked:
                    marked = sorted(marked + [1])
                mm.append((pi, marked))
        model.append(mm)
    impl = None
    if with_impl:
        impl = S + ".pyx"
        plain = [e["name"] for e in s_entries if e["cat"] == "plain"][0]
        files[impl] = "\n".join(["# cython: language_level=3", "cdef class %s:" % base, "    cdef int get(self):", "        return self.n + %d" % K[8], "",
                                 "cdef int %s(int x):" % plain, "    return x + %d" % K[9], "",
                                 "def make_%s():" % tag, "    return %s()" % base, ""]) + "\n"
        names.append(impl)
        model = None
    return dict(tag=tag, files=files, modules=names, pxds=pxds, model=model, impl=impl,
                cimports=[[pxds[pi]["name"] for pi in range(3) if c[pi]] for c in cim])


def entry_patterns(fam):
    """regexes that find the C declaration of each .pxd entry: {(pxd index, entry index): compiled regex}"""
    pats = {}
    for pi, pd in enumerate(fam["pxds"]):
        mod = pd["name"]
        mangled = "%d%s" % (len(mod), mod)
        for ei, e in enumerate(pd["entries"]):
            n = re.escape(e["name"])
            if e["kind"] == "U":
                pats[(pi, ei)] = re.compile(r"^static [^\n]*__pyx_f_%s_%s\)?\([^\n]*/\*proto\*/$" % (mangled, n), re.M)
            elif e["cat"] == "class":
                pats[(pi, ei)] = re.compile(r"^struct __pyx_obj_%s_%s \{" % (mangled, n), re.M)
            elif e["cat"] == "typedef":
                pats[(pi, ei)] = re.compile(r"^typedef [^\n]* __pyx_t_%s_%s;" % (mangled, n), re.M)
            else:
                pats[(pi, ei)] = re.compile(r"^(struct|enum|union) __pyx_t_%s_%s \{" % (mangled, n), re.M)
    return pats


def written_entries(fam, c_bytes, pats):
    txt = c_bytes.decode("utf8", "replace")
    return sorted(k for k, p in pats.items() if p.search(txt))


SESSION_WORKER = r'''
import sys, os, json, shutil
sys.path.insert(0, os.environ["VERIF_HARNESS"])
import pyload; pyload.install()
from Cython.Compiler import Main, Options
pyload.assert_sources()
spec = json.loads(sys.argv[1])
os.chdir(spec["cwd"])

# observation of the session structure: which Context object each source is compiled with, and which
# .pxd files that compilation parses (monkeypatched from here; nothing in the repository is touched)
CONTEXTS = []          # kept alive, so identities stay distinct
LOG = []               # per run_pipeline call: {"src":, "ctx": index into CONTEXTS, "parsed": [...]}
_orig_run_pipeline = Main.run_pipeline
_orig_process_pxd = Main.Context.process_pxd

def _ctx_index(c):
    for i, x in enumerate(CONTEXTS):
        if x is c:
            return i
    CONTEXTS.append(c)
    return len(CONTEXTS) - 1

def run_pipeline(source, options, full_module_name, context):
    LOG.append({"src": os.path.basename(source), "ctx": _ctx_index(context), "parsed": []})
    return _orig_run_pipeline(source, options, full_module_name, context)

def process_pxd(self, source_desc, scope, module_name):
    if LOG:
        LOG[-1]["parsed"].append(os.path.basename(source_desc.filename))
    return _orig_process_pxd(self, source_desc, scope, module_name)

Main.run_pipeline = run_pipeline
Main.Context.process_pxd = process_pxd

def opts(**kw):
    return Main.CompilationOptions(Main.default_options, **kw)

results = []
for step in spec["steps"]:
    files = step["files"]
    for f in files:
        for ext in (".c",):
            if os.path.exists(f[:-4] + ext):
                os.unlink(f[:-4] + ext)
    LOG = []
    n0 = len(CONTEXTS)
    r = {"ep": step["ep"], "files": files, "err": None}
    try:
        ep = step["ep"]
        if ep == "compile_str":            # Main.compile(one string): compile_single
            for f in files:
                Main.compile(f, opts())
        elif ep == "compile_list":         # Main.compile(list): compile_multiple
            Main.compile(list(files), opts())
        elif ep == "compile_multiple":
            Main.compile_multiple(list(files), opts(timestamps=False))
        elif ep == "compile_timestamps":   # timestamp checking on, outputs absent -> everything is out of date
            Main.compile(list(files), opts(timestamps=True))
        elif ep == "compile_cache":        # Build/Cache.py: the first call stores, the second one loads the stored C files
            Main.compile(list(files), opts(cache=os.path.join(spec["cwd"], "c42cache")))
        elif ep == "cmdline":              # the `cython` command: CmdLine.parse_command_line + Main.main
            argv = sys.argv
            sys.argv = ["cython"] + list(files)
            try:
                Main.main(command_line=1)
            except SystemExit as e:
                if e.code not in (None, 0):
                    r["err"] = "exit %r" % (e.code,)
            finally:
                sys.argv = argv
        elif ep == "cythonize":
            from Cython.Build import cythonize
            cythonize(list(files), nthreads=step.get("nthreads", 0), force=True, quiet=True)
        else:
            r["err"] = "bad entry point"
    except BaseException as e:
        r["err"] = "crash %r" % (e,)
    r["log"] = LOG
    r["new_contexts"] = len(CONTEXTS) - n0
    od = os.path.join(spec["outroot"], step["save"])
    os.makedirs(od, exist_ok=True)
    r["produced"] = []
    for f in files:
        c = f[:-4] + ".c"
        if os.path.exists(c):
            shutil.move(c, os.path.join(od, c))
            r["produced"].append(f)
    results.append(r)
print(json.dumps(results))
'''


def run_session_worker(wd, famdir, label, steps, files, seed=0):
    """a fresh process with its own copy of the family's sources (same relative layout)"""
    cwd = os.path.join(famdir, "run_" + label)
    os.makedirs(cwd, exist_ok=True)
    for n, t in files.items():
        with open(os.path.join(cwd, n), "w") as f:
            f.write(t)
    env = cybuild.base_env()
    env["PYTHONHASHSEED"] = str(seed)
    env["VERIF_HARNESS"] = cybuild.HERE
    path = os.path.join(wd, "c42_session_worker.py")
    if not os.path.exists(path):
        # several threads of this process get here at once: one temporary name per thread
        import threading
        tmp = path + ".tmp%d_%d" % (os.getpid(), threading.get_ident())
        with open(tmp, "w") as f:
            f.write(SESSION_WORKER)
        os.replace(tmp, path)
    outroot = os.path.join(famdir, "out_" + label)
    p = subprocess.run([cybuild.PY, path, json.dumps({"cwd": cwd, "outroot": outroot, "steps": steps})],
                       capture_output=True, text=True, env=env, timeout=1500)
    try:
        return outroot, json.loads(p.stdout.strip().splitlines()[-1])
    except Exception:
        return outroot, {"_worker": "rc=%s %s" % (p.returncode, p.stderr[-600:])}


def session_plan(rng, fam, quick, heavy):
    """-> [(label, seed, [steps])]: one entry = one fresh process"""
    mods = fam["modules"]
    perms = [list(p) for p in itertools.permutations(mods)]
    if len(perms) > 6:
        rng.shuffle(perms)
        # every module first once and last once, then a sample
        keep = []
        for m in mods:
            if not quick:
                keep.append(next(p for p in perms if p[0] == m))
            keep.append(next(p for p in perms if p[-1] == m))
        perms = [list(x) for x in dict.fromkeys(tuple(p) for p in keep + perms[:(0 if quick else 10)])]
    plan = []
    for i, m in enumerate(mods):
        plan.append(("iso%d" % i, 0, [dict(ep="compile_str", files=[m], save="s0")]))
    def steps(ep, ps, **kw):
        return [dict(ep=ep, files=p, save="s%d" % i, **kw) for i, p in enumerate(ps)]
    if heavy:
        plan.append(("list", 1, steps("compile_list", perms)))
        rot = perms[1::2] + perms[0::2]
        plan.append(("multi", 2, steps("compile_multiple", rot if not quick else rot[:3])))
        plan.append(("cmd", 3, steps("cmdline", perms[::-1] if not quick else perms[::-1][:3])))
        # the same process: every module alone, the batch with timestamps, every module alone again (reversed)
        rep = [dict(ep="compile_str", files=[m], save="r%d" % i) for i, m in enumerate(mods)]
        rep.append(dict(ep="compile_timestamps", files=perms[-1], save="rts"))
        rep += [dict(ep="compile_cache", files=perms[0], save="rc0"), dict(ep="compile_cache", files=perms[-1], save="rc1")]
        rep += [dict(ep="compile_str", files=[m], save="q%d" % i) for i, m in enumerate(reversed(mods))]
        plan.append(("repeat", 4, rep))
        plan.append(("cy0", 5, steps("cythonize", [perms[0], perms[-1]] if quick else perms[:4], nthreads=0)))
        plan.append(("cy4", 6, steps("cythonize", [perms[len(perms) // 2]], nthreads=4)))
        if not quick and fam["tag"] in ("a", "d"):
            # one fresh process per (entry point, order)
            for i, p in enumerate(perms):
                plan.append(("flist%d" % i, 7 + i, steps("compile_list", [p])))
                plan.append(("fcmd%d" % i, 20 + i, steps("cmdline", [p])))
    else:
        plan.append(("list", 1, steps("compile_list", perms)))
        if not quick:
            plan.append(("cmd", 3, steps("cmdline", perms[::-1])))
            plan.append(("cy0", 5, steps("cythonize", perms[:2], nthreads=0)))
    return plan


def model_lines(fam, batches):
    pxds = ",".join("".join(e["kind"] for e in pd["entries"]) or "-" for pd in fam["pxds"])
    def mod_str(mm):
        return ";".join("%d:%s" % (pi, ".".join(map(str, marked))) for pi, marked in mm) or "-"
    idx = {m: i for i, m in enumerate(fam["modules"])}
    return pxds, [lambda reset, b=b: "session %d %s %s" % (reset, pxds, "|".join(mod_str(fam["model"][idx[m]]) for m in b)) for b in batches]


def parse_model_out(line):
    outs = []
    for part in line.split("|"):
        ps, os_ = part.split("#")
        parsed = [] if ps == "-" else [int(x) for x in ps.split(",")]
        out = [] if os_ == "-" else [tuple(int(y) for y in x.split(":")) for x in os_.split(",")]
        outs.append((sorted(parsed), sorted(out)))
    return outs


def classify_session(ep, pos, step_i, source="", earlier_sources=()):
    # Builtin._generate_divmod_function keeps its C-integer specialisations in the process-wide builtin scope: a module
    # calling divmod() on C integers after another compilation of the same process did so (known finding)
    if "divmod(" in source and any("divmod(" in e for e in earlier_sources):
        return "process_history_divmod_specialisation_reused"
    if pos > 0:
        return "c_output_depends_on_batch_prefix"
    if step_i > 0:
        return "c_output_depends_on_process_history"
    return "c_output_depends_on_entry_point"


def start_session_families(ctx, ex):
    """generate the families and submit their processes; returns the state evaluate_session_families needs"""
    quick = ctx.tier == "quick"
    import random
    rng = random.Random(ctx.seed * 1000003 + 4242)     # own stream: the modules of the older strata keep their content
    wd = ctx.workdir
    fams = []
    specs = [("a", 3, False, False, True), ("b", 3, True, False, False)] if quick else \
            [("a", 3, False, False, True), ("b", 3, True, True, True), ("c", 3, False, True, True), ("d", 4, False, False, True),
             ("e", 5, False, False, False), ("f", 4, True, False, False), ("g", 3, False, False, False), ("h", 3, False, False, False)]
    for tag, nmod, with_impl, with_mv, heavy in specs:
        fam = gen_family(rng, tag, nmod, with_impl, with_mv)
        famdir = os.path.join(wd, "fam_" + tag)
        os.makedirs(famdir, exist_ok=True)
        plan = session_plan(rng, fam, quick, heavy)
        futs = {label: ex.submit(run_session_worker, wd, famdir, label, steps, fam["files"], seed) for label, seed, steps in plan}
        fams.append((fam, famdir, plan, futs))
    return fams


def evaluate_session_families(ctx, fams):
    runner = ctx.model("session")
    for fam, famdir, plan, futs in fams:
        tag = fam["tag"]
        res = {label: fu.result() for label, fu in futs.items()}
        pats = entry_patterns(fam)
        pxd_index = {pd["name"] + ".pxd": i for i, pd in enumerate(fam["pxds"])}
        iso = {}
        for i, m in enumerate(fam["modules"]):
            outroot, r = res["iso%d" % i]
            p = os.path.join(outroot, "s0", m[:-4] + ".c")
            iso[m] = open(p, "rb").read() if os.path.exists(p) else None
            if iso[m] is None:
                ctx.corr_break("generated family module translates alone", {"family": tag, "module": m, "source": fam["files"][m]},
                               str(r)[:600], "C file")
        if any(v is None for v in iso.values()):
            continue
        idx = {m: i for i, m in enumerate(fam["modules"])}
        cy_raw = {}
        # tie, part 1: the isolated outputs against the model's isolated outputs (declarations written, .pxd files parsed)
        queue = []     # (kind, label, step index, step result, outroot)
        for label, seed, steps in plan:
            outroot, r = res[label]
            if not isinstance(r, list):
                ctx.corr_break("session worker ran", {"family": tag, "process": label}, str(r)[:600], "JSON result")
                continue
            for si, (step, sr) in enumerate(zip(steps, r)):
                queue.append((label, si, step, sr, outroot))
        lines = []
        meta = []
        for label, si, step, sr, outroot in queue:
            files = step["files"]
            log = sr.get("log") or []
            shared = None
            if step["ep"] == "cythonize" and sorted(l["src"] for l in log) == sorted(files):
                files = [l["src"] for l in log]
            if len(log) == len(files) and [l["src"] for l in log] == files:
                ids = [l["ctx"] for l in log]
                if len(set(ids)) == len(ids):
                    shared = False
                elif len(set(ids)) == 1 and len(ids) > 1:
                    shared = True
                else:
                    shared = "mixed"
            if fam["model"] is not None and shared in (False, True) and step["ep"] != "compile_str":
                pxds, mk = model_lines(fam, [files])
                lines.append(mk[0](0 if shared else 1))
                meta.append((label, si))
        model_out = dict(zip(meta, [parse_model_out(l) for l in runner.batch(lines)])) if lines else {}
        if fam["model"] is not None:
            pxds, mk = model_lines(fam, [[m] for m in fam["modules"]])
            iso_model = [parse_model_out(l)[0] for l in runner.batch([f(1) for f in mk])]
        history = {}    # process label -> modules compiled so far in that process
        for label, si, step, sr, outroot in queue:
            files = step["files"]
            ep = step["ep"] + ("-nthreads%d" % step["nthreads"] if "nthreads" in step else "")
            log = sr.get("log") or []
            in_process = not (step["ep"] == "cythonize" and step.get("nthreads"))
            if in_process and step["ep"] == "cythonize" and sorted(l["src"] for l in log) == sorted(files):
                files = [l["src"] for l in log]      # cythonize() orders its work list itself: the order actually compiled
            if in_process and step["ep"] != "compile_cache" and ([l["src"] for l in log] != files):
                ctx.corr_break("one run_pipeline call per source, in the given order", {"family": tag, "process": label, "step": si, "files": files},
                               [l["src"] for l in log], files)
            for pos, m in enumerate(files):
                inp = {"family": tag, "entry_point": ep, "process": label, "step": si, "order": files, "module": m, "position": pos,
                       "cimports": fam["cimports"][idx[m]] if idx[m] < len(fam["cimports"]) else "implementation module",
                       "sources": {n: t for n, t in fam["files"].items() if n.endswith((".pxd", ".pyx")) and (n in files or n.endswith(".pxd"))}}
                stratum = "session-" + ("first" if pos == 0 and si == 0 else "after-prefix" if pos > 0 else "process-history")
                ctx.case(stratum, {k: inp[k] for k in ("family", "entry_point", "order", "module", "position")},
                         sig=(tag, ep, label, si, tuple(files), m))
                p = os.path.join(outroot, step["save"], m[:-4] + ".c")
                got = open(p, "rb").read() if os.path.exists(p) else None
                if got is None:
                    ctx.fail("batch_compile_failed" if len(files) > 1 or si > 0 else "compile_failed", inp,
                             "no C file; %s" % str(sr.get("err"))[:300], "the C file the module gives when compiled alone")
                    continue
                cmp = strip_metadata(got) if step["ep"] == "cythonize" else got
                earlier = (history.get(label, []) + files[:pos]) if in_process else [x for x in files if x != m]
                klass = classify_session(ep, pos, si, fam["files"][m], [fam["files"][x] for x in earlier])
                if step["ep"] == "cythonize":
                    ref_raw = cy_raw.setdefault(m, (got, ep, files))
                    if ref_raw[0] != got:
                        ctx.fail(klass if klass.startswith("process_history_divmod") else "c_output_depends_on_batch_mode",
                                 dict(inp, reference={"entry_point": ref_raw[1], "order": ref_raw[2]}),
                                 first_diff(ref_raw[0], got), "byte-identical cythonize() outputs (metadata block included) for every order / nthreads")
                if cmp != iso[m]:
                    ctx.fail(klass, inp, first_diff(iso[m], cmp),
                             "byte-identical to the C file of the module compiled alone in a fresh process")
                # tie, part 2: declarations written / .pxd files parsed against the session model run with the observed reset flag
                if fam["model"] is not None and idx[m] < len(fam["model"]):
                    mo = model_out.get((label, si))
                    if step["ep"] == "compile_str":
                        mo_m = iso_model[idx[m]]
                    elif mo is not None:
                        mo_m = mo[pos]
                    else:
                        mo_m = None
                    if mo_m is not None:
                        written = written_entries(fam, cmp, pats)
                        if written != mo_m[1]:
                            ctx.corr_break("declarations of cimported .pxd entries written (session model, observed reset flag)",
                                           {k: inp[k] for k in ("family", "entry_point", "order", "module", "position")}, written, mo_m[1])
                        if in_process and pos < len(log):
                            parsed = sorted(pxd_index[x] for x in set(log[pos]["parsed"]) if x in pxd_index)
                            if parsed != mo_m[0]:
                                ctx.corr_break(".pxd files parsed for the source (session model, observed reset flag)",
                                               {k: inp[k] for k in ("family", "entry_point", "order", "module", "position")}, parsed, mo_m[0])
            history.setdefault(label, []).extend(files)
            # the observed session structure itself: compile_multiple must give every source its own Context
            if in_process and len(files) > 1 and len(log) == len(files):
                ids = [l["ctx"] for l in log]
                ctx.case("session-context-per-source", {"family": tag, "entry_point": ep, "order": files}, sig=(tag, ep, label, si, "ctx"))
                if 1 < len(set(ids)) < len(ids):
                    ctx.corr_break("Context objects per source: all distinct (reset) or one for all (no reset)",
                                   {"family": tag, "entry_point": ep, "order": files}, ids, "no mixed sharing in the session model")
                ctx.extra["contexts_shared_between_sources"] = ctx.extra.get("contexts_shared_between_sources", False) or len(set(ids)) != len(ids)
        ctx.extra.setdefault("session_families", []).append(
            {"family": tag, "modules": fam["modules"], "cimports": fam["cimports"], "processes": len(plan),
             "model_tied": fam["model"] is not None})
