"""C42 — compilation is deterministic (DESIGN 7/C42)."""
import os, sys, json, glob, subprocess, hashlib, shutil, concurrent.futures as cf
import cybuild

TITLE = "Compilation is deterministic"
RULE = ("(module, hash seed / process / batch mode) compilations: generated feature-rich modules and corpus files from "
        "/repo/tests/run, each translated in separate processes under several PYTHONHASHSEED values, in isolation and "
        "inside a cythonize(nthreads>1) batch; distinct by (module, mode); a case is a byte comparison of two C files")
EXPLANATION = ("theorem: emission after sorting on a unique key is independent of the collection order (any permutation), "
               "and complete; with tied keys it is not (refuted), which is why the keys in Code.py carry the unique cname. "
               "partial: every other place where the compiler iterates over a set or dict is covered only by the byte "
               "comparison of complete C outputs under different hash seeds / processes / batch modes.")
TRUSTED = ["the byte comparison harness", "Python's list.sort() being a stable total sort"]
ASSUMPTIONS = ["same sources, same options, same relative paths, same working directory layout"]

CORPUS = ["tests/run/closures_T82.pyx", "tests/run/cdef_class_dataclass.pyx", "tests/run/fused_def.pyx",
          "tests/run/generators.pyx", "tests/run/cpdef_enums.pyx", "tests/run/strliterals.pyx",
          "tests/run/dict_getitem.pyx", "tests/run/extended_unpacking_T409.pyx", "tests/run/bytearraymethods.pyx",
          "tests/run/memoryview_inplace_division.pyx", "tests/run/switch.pyx", "tests/run/unicodemethods.pyx",
          "tests/run/kwargproblems.pyx", "tests/run/async_def.pyx", "tests/run/cyfunction.pyx", "tests/run/int_literals.pyx",
          "tests/run/set.pyx", "tests/run/tuple_constants.pyx", "tests/run/float_division.pyx", "tests/run/staticmethod.pyx"]


QUICK_OK = {"generators.pyx", "strliterals.pyx", "dict_getitem.pyx", "extended_unpacking_T409.pyx", "switch.pyx", "set.pyx"}


def gen_module(rng, k):
    """a module with many pooled constants, names, classes, closures, cdef classes, fused functions"""
    words = ["alpha", "beta", "gamma", "delta", "eps", "zeta", "eta", "theta", "iota", "kappa", "lam", "mu", "nu", "xi",
             "omi", "pi", "rho", "sigma", "tau", "ups", "phi", "chi", "psi", "omega"]
    rng.shuffle(words)
    L = ["# cython: language_level=3, binding=True", "cimport cython", "import sys, os", "from libc.math cimport sqrt", ""]
    L += ["ctypedef fused num_t:", "    int", "    double", "    long long", ""]
    for i in range(6 + k):
        w = words[i % len(words)]
        L += ["def f_%s_%d(a, b=%d, *args, kw_%s=%r, **kwargs):" % (w, i, rng.randrange(-5000, 5000), w, w * 2),
              "    x = {%r: %d, %r: %r, %r: (%d, %r, %s)}" % (w, rng.randrange(10 ** 12), w[::-1], w.upper(), "t" + w,
                                                            rng.randrange(100), w, rng.random()),
              "    s = {%s}" % ", ".join(repr(words[(i + j) % len(words)]) for j in range(5)),
              "    fs = frozenset((%s))" % ", ".join(str(rng.randrange(1000)) for _ in range(6)),
              "    def inner_%d(y, z=%r):" % (i, w.encode()),
              "        return (a, b, y, z, x, len(s), %d ** 40, %r, %r)" % (rng.randrange(2, 9), "unicode-é-%s" % w, b"bytes\x00" + w.encode()),
              "    lam = lambda q: q + b * %d" % rng.randrange(100),
              "    return inner_%d, lam, [v for v in sorted(s)], {kk: vv for kk, vv in kwargs.items()}, fs" % i, ""]
    for i in range(3):
        w = words[(i + 7) % len(words)]
        L += ["cdef class Ext_%s:" % w, "    cdef public int a_%s" % w, "    cdef readonly double b_%s" % w, "    cdef object c_%s" % w,
              "    def __init__(self, a, b):", "        self.a_%s = a; self.b_%s = b; self.c_%s = {%r: a}" % (w, w, w, w),
              "    cpdef int m_%s(self, int q) except? -1:" % w, "        return self.a_%s * q + %d" % (w, rng.randrange(1000)),
              "    def __add__(self, other):", "        return %r" % ("add_" + w), "    def __eq__(self, other):",
              "        return isinstance(other, Ext_%s)" % w, "    def __hash__(self):", "        return %d" % rng.randrange(10 ** 9), ""]
        L += ["class Py_%s(object):" % w, "    attr_%s = %r" % (w, [w, w * 2, 3.5, None, True]),
              "    def meth(self, *, k1=%d, k2=%r):" % (rng.randrange(99), w), "        return (k1, k2, self.attr_%s)" % w,
              "    @staticmethod", "    def sm(x): return x", "    @classmethod", "    def cm(cls): return cls.__name__", ""]
    L += ["def fused_fn(num_t a, num_t b):", "    return a * b + <num_t>2", "",
          "def gen_fn(n):", "    for i in range(n):", "        yield (i, %r, i * %d)" % (words[0], rng.randrange(100)), "",
          "async def co_fn(x):", "    return x", "",
          "def match_like(v):", "    if v in (%s):" % ", ".join(repr(w) for w in words[:7]), "        return 1",
          "    elif v in (1, 2, 3, 5, 8, 13):", "        return 2", "    return 0", "",
          "try:", "    import %s_missing_mod" % words[1], "except ImportError:", "    pass", ""]
    return "\n".join(L) + "\n"


def gen_meta_module(rng, k, src):
    """a module whose cythonize() metadata block is built from sets of path strings: several extern headers
    that exist on disk (direct and through a cimported .pxd), '# distutils:' lists, include directories"""
    n = rng.randrange(4, 8)
    hs = ["c42_m%d_%s.h" % (k, "".join(rng.choice("abcdefghijklmnopqrstuvwxyz") for _ in range(rng.randrange(2, 9)))) for _ in range(n)]
    for h in hs:
        with open(os.path.join(src, h), "w") as f:
            f.write("static int %s_v = %d;\n" % (h[:-2], rng.randrange(1000)))
    pxd_h = "c42_m%d_pxdhdr.h" % k
    with open(os.path.join(src, pxd_h), "w") as f:
        f.write("static int c42_m%d_pv = 1;\n" % k)
    with open(os.path.join(src, "c42_metapxd%d.pxd" % k), "w") as f:
        f.write('cdef extern from "%s":\n    int c42_m%d_pv\n' % (pxd_h, k))
    order = hs[:]
    rng.shuffle(order)
    L = ["# distutils: depends = %s %s" % (order[0], order[-1]),
         "# distutils: libraries = m",
         "# distutils: define_macros = C42_Z=1, C42_A=2, C42_M=3",
         "# distutils: include_dirs = . inc_b inc_a",
         "cimport c42_metapxd%d" % k, ""]
    for h in order:
        L += ['cdef extern from "%s":' % h, "    int %s_v" % h[:-2], ""]
    L += ["def total():", "    return " + " + ".join("%s_v" % h[:-2] for h in hs) + " + c42_metapxd%d.c42_m%d_pv" % (k, k), ""]
    return "\n".join(L) + "\n"


def metadata_of(c):
    a = c.find(b"/* BEGIN: Cython Metadata")
    if a < 0:
        return None
    a = c.find(b"\n", a) + 1
    e = c.find(b"END: Cython Metadata */", a)
    try:
        return json.loads(c[a:e].decode())
    except Exception:
        return None


WORKER = r'''
import sys, os, json
sys.path.insert(0, os.environ["VERIF_HARNESS"])
import pyload; pyload.install()
from Cython.Compiler import Main, Options
pyload.assert_sources()
spec = json.loads(sys.argv[1])
os.chdir(spec["cwd"])
res = {}
if spec["mode"] == "single":
    for f in spec["files"]:
        out = os.path.join(spec["outdir"], os.path.basename(f)[:-4] + ".c")
        try:
            r = Main.compile(f, Main.CompilationOptions(Main.default_options, output_file=out,
                             compiler_directives=dict(Options.get_directive_defaults(), language_level=3)))
            res[f] = r.num_errors == 0 and os.path.exists(out)
        except BaseException as e:
            res[f] = "crash %r" % (e,)
else:
    from Cython.Build import cythonize
    try:
        cythonize(spec["files"], nthreads=spec["nthreads"], build_dir=spec["outdir"], force=True, quiet=True,
                  compiler_directives={"language_level": 3})
        res = {f: True for f in spec["files"]}
    except BaseException as e:
        res = {"_batch": "crash %r" % (e,)}
print(json.dumps(res))
'''


def run_worker(wd, spec, seed):
    env = cybuild.base_env()
    env["PYTHONHASHSEED"] = str(seed)
    env["VERIF_HARNESS"] = cybuild.HERE
    path = os.path.join(wd, "c42_worker.py")
    if not os.path.exists(path):
        with open(path, "w") as f:
            f.write(WORKER)
    p = subprocess.run([cybuild.PY, path, json.dumps(spec)], capture_output=True, text=True, env=env, timeout=1500)
    try:
        return json.loads(p.stdout.strip().splitlines()[-1])
    except Exception:
        return {"_worker": "rc=%s %s" % (p.returncode, p.stderr[-400:])}


def strip_metadata(c):
    a = c.find(b"/* BEGIN: Cython Metadata")
    if a < 0:
        return c
    e = c.find(b"END: Cython Metadata */", a)
    if e < 0:
        return c
    e = c.find(b"\n", e) + 1
    # the metadata block is followed by one blank line
    if c[e:e + 1] == b"\n":
        e += 1
    return c[:a] + c[e:]


def run(ctx):
    quick = ctx.tier == "quick"
    wd = ctx.workdir
    src = os.path.join(wd, "src")
    os.makedirs(src, exist_ok=True)
    files = []
    for k in range(3 if quick else 8):
        name = "c42_gen%d.pyx" % k
        with open(os.path.join(src, name), "w") as f:
            f.write(gen_module(ctx.rng, k))
        files.append(name)
    meta_files = []
    for k in range(2 if quick else 6):
        name = "c42_meta%d.pyx" % k
        with open(os.path.join(src, name), "w") as f:
            f.write(gen_meta_module(ctx.rng, k, src))
        files.append(name)
        meta_files.append(name)
    corpus = [c for c in CORPUS if os.path.basename(c) in QUICK_OK] if quick else CORPUS
    for rel in corpus:
        p = os.path.join(ctx.repo, rel)
        if os.path.exists(p):
            name = "c42_" + os.path.basename(rel).replace("-", "_")
            shutil.copy(p, os.path.join(src, name))
            files.append(name)
    seeds = [0, 1, 12345] if quick else [0, 1, 2, 3, 7, 99, 12345, 4294967295]
    outs = {}
    jobs = []
    with cf.ThreadPoolExecutor(max_workers=8) as ex:
        futs = {}
        for s in seeds:
            for chunk_i in range(0, len(files), 4):
                chunk = files[chunk_i:chunk_i + 4]
                od = os.path.join(wd, "out_seed%d" % s)
                os.makedirs(od, exist_ok=True)
                futs[ex.submit(run_worker, wd, {"mode": "single", "cwd": src, "files": chunk, "outdir": od}, s)] = (s, chunk)
        status = {}
        for fu, (s, chunk) in futs.items():
            r = fu.result()
            for f in chunk:
                status[(s, f)] = r.get(f, r)
    usable = [f for f in files if all(status.get((s, f)) is True for s in seeds)]
    skipped = [f for f in files if f not in usable]
    od_batch = os.path.join(wd, "out_batch")
    os.makedirs(od_batch, exist_ok=True)
    od_seq = os.path.join(wd, "out_batch_seq")
    os.makedirs(od_seq, exist_ok=True)
    with cf.ThreadPoolExecutor(max_workers=2) as ex:
        fb = ex.submit(run_worker, wd, {"mode": "batch", "cwd": src, "files": usable, "outdir": od_batch, "nthreads": 4}, 5)
        fs = ex.submit(run_worker, wd, {"mode": "batch", "cwd": src, "files": usable, "outdir": od_seq, "nthreads": 0}, 0)
        batch_status = fb.result(); seq_status = fs.result()
    if skipped:
        ctx.note("not translatable standalone (skipped): %s" % ", ".join(skipped))
    for f in files:
        if f in skipped and f.startswith("c42_gen"):
            ctx.corr_break("translate " + f, f, str({s: status.get((s, f)) for s in seeds})[:600], "generated module compiles")
    def read(od, f):
        p = os.path.join(od, f[:-4] + ".c")
        return open(p, "rb").read() if os.path.exists(p) else None
    for f in usable:
        ref = read(os.path.join(wd, "out_seed%d" % seeds[0]), f)
        for s in seeds[1:]:
            other = read(os.path.join(wd, "out_seed%d" % s), f)
            ctx.case("hashseed", {"module": f, "seeds": [seeds[0], s]}, sig=(f, s))
            if other != ref:
                ctx.fail("c_output_depends_on_hash_seed", {"module": f, "seeds": [seeds[0], s]}, first_diff(ref, other), "byte-identical C files")
        # cythonize() embeds a metadata block, so batch outputs are compared with each other:
        # sequential (nthreads=0, seed 0) vs parallel (nthreads=4, another seed), and their bodies
        # (metadata stripped) with the isolated compilation
        b = read(od_batch, f); q = read(od_seq, f)
        ctx.case("batch-nthreads", {"module": f, "nthreads": [0, 4]}, sig=(f, "batch"))
        if b is None or q is None:
            ctx.fail("batch_compile_failed", {"module": f, "batch": str(batch_status)[:300], "seq": str(seq_status)[:300]}, None,
                     "C files produced by cythonize(nthreads=0) and cythonize(nthreads=4)")
        elif b != q:
            ctx.fail("c_output_depends_on_batch_mode", {"module": f, "nthreads": [0, 4]}, first_diff(q, b), "byte-identical C files")
        elif strip_metadata(b) != ref:
            ctx.fail("c_output_depends_on_entry_point", {"module": f}, first_diff(ref, strip_metadata(b)),
                     "cythonize() output = Main.compile() output apart from the metadata block")
    # the metadata block itself (distutils options, resolved dependency lists) under every hash seed
    meta_usable = [f for f in meta_files if f in usable]
    mseeds = seeds + ([5, 77] if quick else [5, 77, 1000, 31337])
    with cf.ThreadPoolExecutor(max_workers=8) as ex:
        futs = {}
        for sd in mseeds:
            od = os.path.join(wd, "out_meta_seed%d" % sd)
            os.makedirs(od, exist_ok=True)
            futs[sd] = ex.submit(run_worker, wd, {"mode": "batch", "cwd": src, "files": meta_usable, "outdir": od, "nthreads": 0}, sd)
        mstat = {sd: fu.result() for sd, fu in futs.items()}
    for f in meta_usable:
        ref = read(os.path.join(wd, "out_meta_seed%d" % mseeds[0]), f)
        md = metadata_of(ref) if ref else None
        if md is None:
            ctx.corr_break("cythonize metadata block", f, str(mstat[mseeds[0]])[:300], "a JSON metadata block in the generated C file")
            continue
        dep = (md.get("distutils") or {}).get("depends", [])
        ctx.case("metadata-shape", {"module": f, "depends": len(dep)}, sig=(f, "metashape"), nontrivial=len(dep) >= 4)
        # tie to the model of sorted emission (M_SortEmit): a list built from a set is emitted sorted, duplicate-free
        if dep != sorted(set(dep)) or len(dep) < 4:
            ctx.corr_break("metadata depends = sorted(set(...)) with the extern headers", f, dep, "sorted, duplicate-free, >= 4 entries")
        for sd in mseeds[1:]:
            other = read(os.path.join(wd, "out_meta_seed%d" % sd), f)
            ctx.case("hashseed-metadata", {"module": f, "seeds": [mseeds[0], sd]}, sig=(f, "meta", sd))
            if other != ref:
                ctx.fail("c_output_depends_on_hash_seed", {"module": f, "seeds": [mseeds[0], sd], "entry": "cythonize"},
                         first_diff(ref, other) if other is not None else str(mstat[sd])[:300], "byte-identical C files")
    if not quick:
        run_selfcompiled(ctx, wd, src, usable, os.path.join(wd, "out_seed%d" % seeds[0]))
    ctx.extra["modules_compared"] = usable
    ctx.extra["bytes_compared"] = sum(len(read(os.path.join(wd, "out_seed%d" % seeds[0]), f) or b"") for f in usable)


SELF_MODULES = ["Cython/Compiler/Scanning.py", "Cython/Compiler/Parsing.py", "Cython/Compiler/Visitor.py",
                "Cython/Compiler/FlowControl.py", "Cython/Compiler/Code.py", "Cython/Compiler/LineTable.py",
                "Cython/Compiler/StringEncoding.py", "Cython/Utils.py", "Cython/StringIOTree.py", "Cython/LZSS.py",
                "Cython/Plex/Scanners.py", "Cython/Plex/Actions.py", "Cython/Plex/Machines.py", "Cython/Plex/Transitions.py",
                "Cython/Plex/DFA.py"]

SELF_WORKER = r'''
import sys, os, json
spec = json.loads(sys.argv[1])
sys.path.insert(0, spec["tree"])
sys.dont_write_bytecode = True
from Cython.Compiler import Main, Options
import Cython.Compiler.Parsing, Cython.Compiler.Code, Cython.Compiler.Scanning
compiled = [m for m in ("Cython.Compiler.Parsing", "Cython.Compiler.Code", "Cython.Compiler.Scanning", "Cython.Compiler.Visitor",
                        "Cython.Utils", "Cython.StringIOTree", "Cython.Plex.Scanners")
            if (getattr(sys.modules.get(m), "__file__", "") or "").endswith(".so")]
os.chdir(spec["cwd"])
res = {"_compiled_modules": compiled}
for f in spec["files"]:
    out = os.path.join(spec["outdir"], os.path.basename(f)[:-4] + ".c")
    try:
        r = Main.compile(f, Main.CompilationOptions(Main.default_options, output_file=out,
                         compiler_directives=dict(Options.get_directive_defaults(), language_level=3)))
        res[f] = r.num_errors == 0 and os.path.exists(out)
    except BaseException as e:
        res[f] = "crash %r" % (e,)
print(json.dumps(res))
'''


def build_selfcompiled(ctx, wd):
    """copy the compiler sources to scratch and compile the modules that setup.py normally
    compiles, with the compiler under test itself (pure-Python run) + gcc -O0"""
    tree = os.path.join(wd, "selfc")
    shutil.copytree(os.path.join(ctx.repo, "Cython"), os.path.join(tree, "Cython"),
                    ignore=shutil.ignore_patterns("*.so", "__pycache__", "*.pyc", "*.o"))
    def one(rel):
        src = os.path.join(tree, rel)
        c_file = src[:-3] + ".c"
        r = cybuild.translate(src, c_file, directives={"language_level": 3}, timeout=1500)
        if not r.get("ok"):
            return rel, "translate: " + (r.get("crash") or r.get("errors") or "")[-300:]
        so = src[:-3] + cybuild.EXT
        rc, err = cybuild.cc(c_file, so, cflags=["-O0"], timeout=1500)
        return rel, (None if rc == 0 else "cc: " + err[-300:])
    with cf.ThreadPoolExecutor(max_workers=15) as ex:
        results = list(ex.map(one, SELF_MODULES))
    return tree, {rel: err for rel, err in results}


def run_selfcompiled(ctx, wd, src, usable, ref_dir):
    tree, status = build_selfcompiled(ctx, wd)
    failed = {k: v for k, v in status.items() if v}
    if failed:
        ctx.note("self-compilation: modules that did not build (left as .py): %s" % json.dumps(failed)[:600])
    od = os.path.join(wd, "out_selfc")
    os.makedirs(od, exist_ok=True)
    env = cybuild.base_env()
    env["PYTHONPATH"] = tree
    env["PYTHONHASHSEED"] = "7"
    path = os.path.join(wd, "c42_self_worker.py")
    with open(path, "w") as f:
        f.write(SELF_WORKER)
    p = subprocess.run([cybuild.PY, path, json.dumps({"tree": tree, "cwd": src, "files": usable, "outdir": od})],
                       capture_output=True, text=True, env=env, timeout=3000)
    try:
        res = json.loads(p.stdout.strip().splitlines()[-1])
    except Exception:
        ctx.corr_break("self-compiled compiler run", "selfc", (p.stderr or p.stdout)[-600:], "runs")
        return
    ctx.extra["selfcompiled_modules_loaded"] = res.get("_compiled_modules")
    if not res.get("_compiled_modules"):
        ctx.corr_break("self-compiled compiler run", "selfc", "no compiled compiler module was loaded", "compiled modules in use")
        return
    for f in usable:
        a = open(os.path.join(ref_dir, f[:-4] + ".c"), "rb").read()
        pth = os.path.join(od, f[:-4] + ".c")
        b = open(pth, "rb").read() if os.path.exists(pth) else None
        ctx.case("self-compiled", {"module": f}, sig=(f, "selfc"))
        if b is None:
            ctx.fail("selfcompiled_compile_failed", {"module": f, "status": str(res.get(f))[:300]}, None, "C file produced by the self-compiled compiler")
        elif a != b:
            ctx.fail("c_output_depends_on_compiled_compiler", {"module": f}, first_diff(a, b), "byte-identical C files")


def first_diff(a, b):
    if a is None or b is None:
        return "missing output"
    la, lb = a.split(b"\n"), b.split(b"\n")
    for i, (x, y) in enumerate(zip(la, lb)):
        if x != y:
            return {"line": i + 1, "a": x[:200].decode("utf8", "replace"), "b": y[:200].decode("utf8", "replace")}
    return {"line": min(len(la), len(lb)), "a": "length %d" % len(la), "b": "length %d" % len(lb)}
