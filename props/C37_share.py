"""C37 helper (not a property): sharing classification of prange / parallel blocks.

Programs of the modelled form (Model/M_PrangeShare.v: assignments, in-place updates, if/else, nested
range / prange loops, optional enclosing `with parallel()` block) are generated as data, printed as
Cython functions, compiled with OpenMP, run over thread counts / schedules / chunk sizes / iteration
counts, and compared three ways:
  compiled result   vs  sequential interpretation in Python (property oracle, independent of the model)
  compiled result   vs  extracted region_par on the partition of the iterations among threads that was
                        actually observed (threadid() per iteration) -- the tie of the run-time model
  `#pragma omp` clauses in the generated C  vs  extracted classify  -- the tie of the classification
  compile errors of rejected programs  vs  extracted region_errors
"""
import os, re, json, threading
import cybuild

CT = {  # C type -> (width, signed)
    "long": (64, True), "int": (32, True), "unsigned int": (32, False), "unsigned long": (64, False),
    "double": (64, True), "float": (64, True),
}
IOPS = {"add": "+", "mul": "*", "sub": "-", "and": "&", "xor": "^", "or": "|", "shl": "<<", "shr": ">>", "fdiv": "//"}
BOPS = {"add": "+", "sub": "-", "mul": "*", "and": "&", "or": "|", "xor": "^", "lt": "<", "eq": "=="}
OMP6 = ["add", "mul", "sub", "and", "xor", "or"]

# proposed repairs (proposed_fixes/C37-*.diff): after applying one, flip its default to "1"
FX = {"ops": os.environ.get("C37_FX_OPS", "1"), "nest": os.environ.get("C37_FX_NEST", "1"),
      "rhs": os.environ.get("C37_FX_RHS", "1")}
FXBITS = FX["ops"] + FX["nest"] + FX["rhs"]
FX_OF_TAG = {"nonomp": "ops", "nestedop": "nest", "readrhs": "rhs"}

KNOWN = {  # generator tag -> known-finding class
    "nonomp": "inplace_operator_without_omp_reduction",
    "mixed": "assigned_and_inplace_variable_is_reduction",
    "nestedop": "nested_prange_replaces_reduction_operator",
    "readrhs": "reduction_read_in_inplace_statement",
}


def wrap(z, T):
    w, s = CT[T]
    z &= (1 << w) - 1
    if s and z >> (w - 1):
        z -= 1 << w
    return z


# ------------------------------------------------------------------ program construction helpers
def c(z): return ("c", z)
def v(x): return ("v", x)
def b(op, x, y): return ("b", op, x, y)
def A(x, e): return ("A", x, e)
def I(x, op, e): return ("I", x, op, e)
def F(cond, th, el=()): return ("F", cond, list(th), list(el))
def L(par, x, n, body): return ("L", 1 if par else 0, x, n, list(body))


class Prog:
    """vars: list of names; index 0 = loop target.  pre: None or statement list of the parallel block."""
    def __init__(self, name, T, nvars, body, pre=None, sched=None, tag=None, bad=(), init=None, ftype=False,
                 blockpriv=()):
        self.name, self.T, self.nvars, self.body, self.pre = name, T, nvars, list(body), pre
        self.sched, self.tag, self.bad = sched, tag, set(bad)
        self.ftype = ftype
        self.init = [z if ftype else wrap(z, T) for z in (init or [0] * nvars)]                     # floating program: variables other than the target are T
        self.blockpriv = set(blockpriv)        # not readable after the block
        self.w, self.sg = CT[T]

    def vt(self, i):
        if self.ftype:
            return "long" if i == 0 else self.T
        return self.T


# ------------------------------------------------------------------ tokens for the model driver
def tok_e(e):
    if e[0] == "c":
        return "c %d" % e[1]
    if e[0] == "v":
        return "v %d" % e[1]
    return "b %s %s %s" % (e[1], tok_e(e[2]), tok_e(e[3]))


def tok_ss(ss):
    if not ss:
        return "K"
    if len(ss) == 1:
        return tok_s(ss[0])
    return "Q %s %s" % (tok_s(ss[0]), tok_ss(ss[1:]))


def tok_s(s):
    k = s[0]
    if k == "A":
        return "A %d %s" % (s[1], tok_e(s[2]))
    if k == "I":
        return "I %d %s %s" % (s[1], s[2], tok_e(s[3]))
    if k == "F":
        return "F %s %s %s" % (tok_e(s[1]), tok_ss(s[2]), tok_ss(s[3]))
    return "L %d %d %s %s" % (s[1], s[2], tok_e(s[3]), tok_ss(s[4]))


def tok_region(p):
    return "R %s 0 %s" % ("N" if p.pre is None else tok_ss(p.pre), tok_ss(p.body))


# ------------------------------------------------------------------ Cython source
def src_e(p, e):
    """integer programs: every constant and every operator result is cast to the common type T, so
    that C evaluates each operator in T (Cython types integer literals as C long: without the casts
    `-1 < u` or `u * 255 < v` on 32-bit variables would be evaluated in 64 bits)"""
    if e[0] == "c":
        return "(%d)" % e[1] if p.ftype else "(<%s>(%d))" % (p.T, e[1])
    if e[0] == "v":
        return "%s_v%d" % (p.name, e[1])
    x, y = src_e(p, e[2]), src_e(p, e[3])
    if e[1] in ("lt", "eq") or not p.ftype:
        return "(<%s>(%s %s %s))" % (p.vt(1), x, BOPS[e[1]], y)
    return "(%s %s %s)" % (x, BOPS[e[1]], y)


def src_ss(p, ss, ind, out):
    if not ss:
        out.append(ind + "pass")
    for s in ss:
        k = s[0]
        if k == "A":
            out.append("%s%s_v%d = %s" % (ind, p.name, s[1], src_e(p, s[2])))
        elif k == "I":
            out.append("%s%s_v%d %s= %s" % (ind, p.name, s[1], IOPS[s[2]], src_e(p, s[3])))
        elif k == "F":
            out.append("%sif %s != 0:" % (ind, src_e(p, s[1])))
            src_ss(p, s[2], ind + "    ", out)
            if s[3]:
                out.append(ind + "else:")
                src_ss(p, s[3], ind + "    ", out)
        else:
            out.append("%sfor %s_v%d in %s(%s):" % (ind, p.name, s[2], "prange" if s[1] else "range", src_e(p, s[3])))
            src_ss(p, s[4], ind + "    ", out)


def src_prog(p):
    n = p.name
    args = ", ".join("%s p%d" % (p.vt(i), i) for i in range(p.nvars))
    out = ["def %s(long start, long stop, long step, long sgn, long span, int nthreads, int chunk, bint thr, %s):" % (n, args)]
    for i in range(p.nvars):
        out.append("    cdef %s %s_v%d = p%d" % (p.vt(i), n, i, i))
    out += ["    cdef int* own = <int*>malloc(sizeof(int) * (span + 2))",
            "    cdef long kk",
            "    for kk in range(span + 2):",
            "        own[kk] = -1"]
    sched = ""
    if p.sched == "static0":
        sched = ", schedule='static'"
    elif p.sched:
        sched = ", schedule='%s', chunksize=chunk" % p.sched
    mark = "own[(<long>%s_v0 - start) * sgn] = threadid()" % n
    if p.pre is None:
        out.append("    for %s_v0 in prange(start, stop, step, nogil=True, num_threads=nthreads, use_threads_if=thr%s):" % (n, sched))
        out.append("        " + mark)
        src_ss(p, p.body, "        ", out)
    else:
        out.append("    with nogil, parallel(num_threads=nthreads, use_threads_if=thr):")
        if p.pre:
            src_ss(p, p.pre, "        ", out)
        out.append("        for %s_v0 in prange(start, stop, step%s):" % (n, sched))
        out.append("            " + mark)
        src_ss(p, p.body, "            ", out)
    vis = [i for i in range(p.nvars) if i not in p.blockpriv]
    out.append("    res = (%s,)" % ", ".join("%s_v%d" % (n, i) for i in vis))
    out.append("    owners = [own[kk] for kk in range(span + 2)]")
    out.append("    free(own)")
    out.append("    return res, owners")
    return "\n".join(out) + "\n"


HEADER = """# cython: language_level=3
from cython.parallel cimport prange, parallel, threadid
from libc.stdlib cimport malloc, free

"""


def src_module(progs):
    return HEADER + "\n".join(src_prog(p) for p in progs)


# ------------------------------------------------------------------ sequential oracle (Python semantics of the text)
def ev_e(p, env, e):
    if e[0] == "c":
        return e[1]
    if e[0] == "v":
        return env[e[1]]
    x, y = ev_e(p, env, e[2]), ev_e(p, env, e[3])
    op = e[1]
    if op == "lt":
        return 1 if x < y else 0
    if op == "eq":
        return 1 if x == y else 0
    r = {"add": x + y, "sub": x - y, "mul": x * y, "and": x & y, "or": x | y, "xor": x ^ y}[op]
    return r


def ev_e_typed(p, env, e):
    """C evaluates in the common type: wrap after every operator, constants converted to the type"""
    if p.ftype:
        return ev_e(p, env, e)
    if e[0] == "c":
        return wrap(e[1], p.T)
    if e[0] == "v":
        return env[e[1]]
    x, y = ev_e_typed(p, env, e[2]), ev_e_typed(p, env, e[3])
    op = e[1]
    if op == "lt":
        return 1 if x < y else 0
    if op == "eq":
        return 1 if x == y else 0
    return wrap({"add": x + y, "sub": x - y, "mul": x * y, "and": x & y, "or": x | y, "xor": x ^ y}[op], p.T)


def ev_ss(p, env, ss):
    W = (lambda z: z) if p.ftype else (lambda z: wrap(z, p.T))
    for s in ss:
        k = s[0]
        if k == "A":
            env[s[1]] = ev_e_typed(p, env, s[2])
        elif k == "I":
            x, y, op = env[s[1]], ev_e_typed(p, env, s[3]), s[2]
            if op == "shl":
                r = x << y
            elif op == "shr":
                r = x >> y
            elif op == "fdiv":
                r = x // y
            else:
                r = {"add": x + y, "sub": x - y, "mul": x * y, "and": x & y, "or": x | y, "xor": x ^ y}[op]
            env[s[1]] = W(r)
        elif k == "F":
            ev_ss(p, env, s[2] if ev_e_typed(p, env, s[1]) != 0 else s[3])
        else:
            for j in range(ev_e_typed(p, env, s[3])):
                env[s[2]] = j
                ev_ss(p, env, s[4])


def oracle(p, idxs, init):
    env = list(init)
    if p.pre:
        ev_ss(p, env, p.pre)
    for i in idxs:
        env[0] = i if p.ftype else wrap(i, p.T)
        ev_ss(p, env, p.body)
    return env


# ------------------------------------------------------------------ fixed programs (every operator, every role)
def fixed_programs():
    P = []
    K = 40503
    six = [I(1, "add", b("add", b("mul", v(0), c(3)), c(1))),
           I(2, "sub", b("add", b("mul", v(0), c(5)), c(2))),
           I(3, "mul", b("or", b("add", b("mul", v(0), c(2)), c(3)), c(1))),
           I(4, "xor", b("mul", v(0), c(K))),
           I(5, "or", b("and", b("mul", v(0), v(0)), c(1023))),
           I(6, "and", b("xor", b("mul", v(0), c(K)), c(-1)))]
    init6 = [-7, 1000, 1000, 1, 5, 0, -1]
    # several reductions with different operators in one loop, per integer type
    for k, T in enumerate(["long", "int", "unsigned int", "unsigned long"]):
        P.append(Prog("six%d" % k, T, 7, six, sched=[None, "static", "dynamic", "guided"][k], init=init6))
    # one operator per function, schedules rotating
    scheds = ["static", "dynamic", None, "guided", "static0", "static"]
    for k, op in enumerate(OMP6):
        P.append(Prog("one_%s" % op, "long", 2, [I(1, op, six[k][3])], sched=scheds[k], init=[-7, init6[k + 1]]))
    # roles: lastprivate by assignment, private temporaries, shared read-only, conditional reductions,
    # nested range loop with a reduction, nested prange with a reduction and its own index
    roles = [A(1, b("add", b("mul", v(0), c(7)), v(8))),              # t = i*7 + k      (v8 shared)
             I(2, "add", v(1)),                                        # s += t
             F(b("and", v(0), c(1)), [I(3, "sub", v(0))], [I(4, "xor", v(1))]),
             L(False, 5, c(3), [I(6, "or", b("add", v(0), v(5)))]),    # for j in range(3): o |= i + j
             L(True, 7, b("and", v(0), c(3)), [I(3, "sub", b("mul", v(0), v(7)))]),
             A(9, b("xor", v(1), c(3)))]                               # last = t ^ 3
    P.append(Prog("roles_l", "long", 10, roles, sched="static", init=[-7, 11, 0, 100, 0, -5, 0, -6, 9, -8]))
    P.append(Prog("roles_u", "unsigned int", 10, roles, sched="dynamic", init=[7, 11, 0, 100, 0, 5, 0, 6, 9, 8]))
    # reduction inside nested loops inside a conditional; two nesting levels of prange
    deep = [F(b("lt", v(0), c(9)),
              [L(True, 1, c(2), [L(True, 2, c(3), [I(3, "mul", b("or", b("add", v(1), v(2)), c(1))),
                                                   I(4, "sub", c(1))])])],
              [I(4, "sub", v(0))]),
            I(5, "and", b("xor", v(0), c(-1)))]
    P.append(Prog("deep", "long", 6, deep, sched="guided", init=[-7, -1, -2, 1, 0, -1]))
    # with parallel(): block-private variable, reductions on the parallel pragma, nested prange inside
    blk_pre = [A(1, b("add", v(5), c(7)))]                              # loc = k + 7
    blk = [I(2, "sub", b("mul", v(0), v(1))),
           I(3, "add", v(0)),
           L(True, 4, c(2), [I(2, "sub", v(4))]),
           A(6, b("add", v(0), v(1)))]
    P.append(Prog("blk_s", "long", 7, blk, pre=blk_pre, sched="static", init=[-7, 0, 50, 0, -3, 2, 0], blockpriv=[1]))
    P.append(Prog("blk_d", "int", 7, blk, pre=blk_pre, sched="dynamic", init=[-7, 0, 50, 0, -3, 2, 0], blockpriv=[1]))
    P.append(Prog("blk_e", "long", 3, [I(1, "sub", v(0)), I(2, "xor", v(0))], pre=[], sched=None, init=[-7, 0, 0]))
    # schedules x one body with - * ^
    trio = [I(1, "sub", b("mul", v(0), v(0))), I(2, "mul", b("or", v(0), c(1))), I(3, "xor", b("add", v(0), c(77)))]
    for k, sc in enumerate(["static0", "static", "dynamic", "guided"]):
        P.append(Prog("trio%d" % k, "long", 4, trio, sched=sc, init=[-7, 3, 1, 9]))
    # floating accumulators: exactly representable values, so reassociation cannot change the result
    fl = [A(1, b("add", b("mul", v(0), c(2)), c(1))),
          I(2, "add", v(1)),
          I(3, "sub", b("mul", v(0), c(3))),
          F(b("lt", v(0), c(30)), [I(4, "mul", c(2))]),
          I(4, "mul", b("sub", c(1), b("mul", c(2), b("and", v(0), c(1)))))]
    P.append(Prog("fdbl", "double", 5, fl, sched="static", init=[-7, 0, 10, 20, 1], ftype=True))
    P.append(Prog("fflt", "float", 3, [I(1, "add", v(0)), I(2, "sub", c(2))], sched="dynamic", init=[-7, 0, 0], ftype=True))
    # accepted forms whose classification is not sound (registered findings)
    P.append(Prog("k_shl", "long", 3, [I(1, "shl", c(1)), I(2, "fdiv", c(2))], sched="static", tag="nonomp", bad=[1, 2],
                  init=[-7, 1, 1 << 40]))
    P.append(Prog("k_shr", "unsigned int", 2, [I(1, "shr", c(1))], sched="static", tag="nonomp", bad=[1], init=[7, 1 << 31]))
    P.append(Prog("k_mixed", "long", 3, [A(1, c(0)), I(1, "add", v(0)), I(2, "add", c(1))], sched="static", tag="mixed",
                  bad=[1], init=[-7, 5, 0]))
    P.append(Prog("k_nest", "long", 3, [I(1, "add", c(1)), L(True, 2, c(2), [I(1, "mul", c(2))])], sched="static",
                  tag="nestedop", bad=[1], init=[-7, 3, -2]))
    P.append(Prog("k_rhs", "long", 3, [I(1, "add", c(1)), I(2, "add", v(1))], sched="static", tag="readrhs", bad=[2],
                  init=[-7, 0, 0]))
    return P


def error_programs():
    """programs the front end must reject, with the expected kind (model region_errors)"""
    E = []
    E.append(Prog("e_incons", "long", 2, [I(1, "add", v(0)), I(1, "mul", v(0))]))
    E.append(Prog("e_incons2", "long", 3, [L(True, 2, c(2), [I(1, "sub", c(1)), I(1, "xor", c(1))])]))
    E.append(Prog("e_read", "long", 3, [I(1, "add", v(0)), A(2, v(1))]))
    E.append(Prog("e_read2", "long", 3, [I(1, "sub", v(0)), F(b("lt", v(1), c(3)), [A(2, c(1))])]))
    E.append(Prog("e_read3", "long", 4, [L(True, 2, c(2), [I(1, "or", c(1)), A(3, v(1))])]))
    E.append(Prog("e_outer", "long", 2, [A(1, v(0))], pre=[A(1, c(3))], blockpriv=[1]))
    E.append(Prog("e_outer2", "long", 3, [L(True, 2, c(2), [I(1, "add", c(1))])], pre=[A(1, c(3))], blockpriv=[1]))
    E.append(Prog("e_blockred", "long", 3, [I(2, "add", v(0))], pre=[I(1, "add", c(1))], blockpriv=[1]))
    # accepted neighbours of the rejected forms
    E.append(Prog("ok_same_op", "long", 2, [I(1, "add", v(0)), I(1, "add", c(1))]))
    E.append(Prog("ok_reset_between", "long", 2, [I(1, "add", v(0)), A(1, c(0)), I(1, "mul", c(2))]))
    return E


# ------------------------------------------------------------------ random well-formed programs
class Gen:
    def __init__(self, rng, name, T):
        self.rng, self.name, self.T = rng, name, T
        self.nv = 1
        self.red = {}        # var -> op
        self.shared = []
        self.init = [-7 if CT[T][1] else 7]

    def new(self, init):
        self.init.append(init)
        self.nv += 1
        return self.nv - 1

    def expr(self, D, depth=2, target=True):
        r = self.rng
        atoms = ([v(0)] if target else [c(4)]) + [v(x) for x in D] + [v(x) for x in self.shared]
        if depth == 0 or r.random() < 0.3:
            return r.choice(atoms) if r.random() < 0.7 else c(r.choice([0, 1, 2, 3, 5, 7, -1, 255, 40503]))
        op = r.choice(["add", "sub", "mul", "and", "or", "xor", "add", "mul", "lt", "eq"])
        return b(op, self.expr(D, depth - 1, target), self.expr(D, depth - 1, target))

    def contrib(self, op, D):
        e = self.expr(D)
        if op == "mul":
            return b("or", e, c(1))
        if op == "and":
            return b("xor", b("mul", e, c(40503)), c(-1))
        return e

    def stmts(self, D, depth, n):
        r = self.rng
        out = []
        D = list(D)
        for _ in range(n):
            k = r.random()
            if k < 0.2:
                t = self.new(r.randrange(-9, 9) if CT[self.T][1] else r.randrange(0, 9))
                out.append(A(t, self.expr(D)))
                D.append(t)
            elif k < 0.6 or depth == 0:
                if self.red and r.random() < 0.5:
                    x = r.choice(sorted(self.red))
                else:
                    op = r.choice(OMP6)
                    x = self.new({"mul": 1, "and": -1}.get(op, r.randrange(0, 50)))
                    self.red[x] = op
                out.append(I(x, self.red[x], self.contrib(self.red[x], D)))
            elif k < 0.8:
                th = self.stmts(D, depth - 1, r.randrange(1, 3))
                el = self.stmts(D, depth - 1, r.randrange(0, 2))
                out.append(F(self.expr(D), th, el))
            else:
                j = self.new(-3 if CT[self.T][1] else 3)
                n_e = c(r.randrange(0, 4)) if r.random() < 0.6 else b("and", self.expr(D, 1), c(3))
                out.append(L(r.random() < 0.5, j, n_e, self.stmts(D + [j], depth - 1, r.randrange(1, 3))))
        return out

    def prog(self):
        r = self.rng
        pre = None
        blockpriv = []
        for _ in range(r.randrange(0, 3)):
            self.shared.append(self.new(r.randrange(0, 20)))
        if r.random() < 0.3:
            pre = []
            for _ in range(r.randrange(0, 3)):
                x = self.new(0)
                pre.append(A(x, b("add", self.expr([], 1, False), c(r.randrange(1, 5)))))
                blockpriv.append(x)
                self.shared.append(x)          # read-only inside the prange
        body = self.stmts([], 2, r.randrange(2, 6))
        sched = r.choice([None, "static0", "static", "dynamic", "guided"])
        init = [wrap(z, self.T) for z in self.init]
        return Prog(self.name, self.T, self.nv, body, pre=pre, sched=sched, init=init, blockpriv=blockpriv)


def random_programs(rng, n, prefix="rnd"):
    out = []
    for k in range(n):
        T = ["long", "int", "unsigned int", "unsigned long"][k % 4]
        out.append(Gen(rng, "%s%d" % (prefix, k), T).prog())
    return out


# ------------------------------------------------------------------ pragma parsing
def parse_pragmas(ctext):
    """active `#pragma omp parallel` / `#pragma omp for` lines, in order, with their clauses"""
    lines = ctext.split("\n")
    out = []
    for i, ln in enumerate(lines):
        s = ln.strip()
        if not s.startswith("#pragma omp parallel") and not s.startswith("#pragma omp for"):
            continue
        j = i - 1
        while j >= 0 and not lines[j].strip().startswith("#if"):
            j -= 1
        active = j >= 0 and lines[j].strip().startswith("#ifdef _OPENMP")
        kind = "parallel" if s.startswith("#pragma omp parallel") else "for"
        red = re.findall(r"reduction\(([^:()]+):\s*(\w+)\)", s)
        fp, lp = [], []
        for m in re.finditer(r"\b(firstprivate|lastprivate)\(([^)]*)\)", s):
            names = [x.strip() for x in m.group(2).split(",") if x.strip()]
            (fp if m.group(1) == "firstprivate" else lp).extend(names)
        sched = re.search(r"schedule\((\w+)", s)
        out.append({"kind": kind, "active": active, "red": red, "fp": fp, "lp": lp,
                    "sched": sched.group(1) if sched else None, "text": s[:300], "line": i + 1})
    return out


def clauses_of(pragmas, name):
    """clause per variable index of function `name`, from the active pragmas of its region"""
    pat = re.compile(r"__pyx_v_%s_v(\d+)$" % re.escape(name))
    fors = [k for k, p in enumerate(pragmas) if p["active"] and p["kind"] == "for"
            and any(pat.match(x) for x in p["fp"] + p["lp"])]
    if len(fors) != 1:
        return None, "expected one active 'omp for' for %s, found %d" % (name, len(fors))
    k = fors[0]
    pk = k - 1
    while pk >= 0 and not (pragmas[pk]["active"] and pragmas[pk]["kind"] == "parallel"):
        pk -= 1
    if pk < 0:
        return None, "no active 'omp parallel' before the loop of %s" % name
    par, fr = pragmas[pk], pragmas[k]
    cl = {}
    for op, x in par["red"]:
        m = pat.match(x)
        if m:
            cl[int(m.group(1))] = "r" + op.strip()
    for x in par["fp"]:
        m = pat.match(x)
        if m:
            cl[int(m.group(1))] = "bp"
    fps = {int(pat.match(x).group(1)) for x in fr["fp"] if pat.match(x)}
    lps = {int(pat.match(x).group(1)) for x in fr["lp"] if pat.match(x)}
    for i in fps | lps:
        if i in cl:
            cl[i] += "+fl"
        else:
            cl[i] = "fl" if (i in fps and i in lps) else ("f" if i in fps else "l")
    return (cl, fr["sched"]), None


# ------------------------------------------------------------------ error programs: translate only
ERR_SCRIPT = r'''
import pyload; pyload.install()
import sys, json, io, os
from Cython.Compiler import Main, Options, Errors
pyload.assert_sources()
spec = json.load(sys.stdin)
res = []
for name, src in spec["srcs"]:
    path = os.path.join(spec["dir"], name + ".pyx")
    open(path, "w").write(src)
    directives = dict(Options.get_directive_defaults()); directives["language_level"] = 3
    opts = Main.CompilationOptions(Main.default_options, compiler_directives=directives, output_file=path[:-4] + ".c")
    err = io.StringIO(); old = sys.stderr
    ok, crash = False, None
    try:
        sys.stderr = err
        try:
            r = Main.compile(path, opts)
            ok = r.num_errors == 0
        finally:
            sys.stderr = old
    except BaseException as e:
        crash = "%s: %s" % (type(e).__name__, e)
    res.append({"name": name, "ok": ok, "crash": crash, "err": err.getvalue()[-3000:]})
print(json.dumps(res))
'''
ERR_KINDS = [("is not an OpenMP reduction operator", "U"),
             ("is inconsistent with previous reduction operator", "I"),
             ("Cannot read reduction variable in loop body", "R"),
             ("Cannot assign to private of outer parallel block", "O"),
             ("Reductions not allowed for parallel blocks", "B")]


def err_kinds(text):
    return "".join(sorted({k for pat, k in ERR_KINDS if pat in text}))


# ------------------------------------------------------------------ run-time cases
def call_plan(p, quick, rng):
    """(start, stop, step, nthreads, chunk, thr) per call: iteration counts around the thread count"""
    plans = []
    nts = [1, 2, 3, 4, 7] if quick else [1, 2, 3, 4, 5, 8, 16]
    k = 0
    for nt in nts:
        counts = sorted({0, 1, 2, max(nt - 1, 0), nt, nt + 1, 2 * nt + 1, 23})
        if not quick:
            counts = sorted(set(counts) | {3 * nt, 40})
        for n in counts:
            k += 1
            step = [1, 3, -2, 1, -1][k % 5]
            if p.ftype and n > 23:
                n = 23
            start = [0, 5, 2][k % 3]
            if not CT[p.T][1] or p.ftype:
                start = [0, 5, 2][k % 3] if step > 0 else abs(step) * n + 3
            elif step < 0:
                start = [10, 3, 50][k % 3]
            stop = start + step * n
            if stop < 0 and (not CT[p.T][1]):
                continue
            chunk = [1, 2, 5, 100][k % 4]
            thr = 0 if (k % 11 == 0) else 1
            plans.append((start, stop, step, nt, chunk, thr))
    return plans


WORKER = r'''
import sys, json, importlib
spec = json.load(sys.stdin)
mod = importlib.import_module(spec["module"])
for fn, args in spec["calls"]:
    try:
        vals, own = getattr(mod, fn)(*args)
        r = {"v": [x if isinstance(x, int) else float(x).hex() for x in vals], "o": own}
    except BaseException as e:
        r = {"e": type(e).__name__, "m": str(e)[:200]}
    sys.stdout.write(json.dumps(r) + "\n"); sys.stdout.flush()
'''


class Share:
    """build in a background thread, evaluate in the foreground"""
    def __init__(self, ctx):
        self.ctx = ctx
        self.quick = ctx.tier == "quick"
        fixed = fixed_programs()
        # a repaired front end rejects the corresponding unsound forms
        rejected = [p for p in fixed if FX.get(FX_OF_TAG.get(p.tag, ""), "0") == "1"]
        self.fixed = [p for p in fixed if p not in rejected]
        nrnd = 6 if self.quick else 120
        self.rnd = random_programs(ctx.rng, nrnd)
        self.errs = error_programs() + rejected
        self.wd = os.path.join(ctx.workdir, "share")
        os.makedirs(self.wd, exist_ok=True)
        self.mods = []            # (module name, [progs])
        allp = self.fixed + self.rnd
        per = 10 if self.quick else 40      # quick: small modules built in parallel (wall time)
        for k in range(0, len(allp), per):
            self.mods.append(("c37_share%d" % (k // per), allp[k:k + per]))
        self.built = {}
        self.runs = {}
        self.pending = []
        self.err_res = None
        self.exc = None
        self.thread = threading.Thread(target=self._build)
        self.thread.start()

    def _build(self):
        try:
            specs = [dict(name=m, source=src_module(ps), workdir=self.wd,
                          cflags=["-O0" if self.quick else "-O1", "-fopenmp", "-fwrapv"], ldflags=["-fopenmp"]) for m, ps in self.mods]
            t = threading.Thread(target=self._errors)
            t.start()
            res = cybuild.build_many(specs, jobs=5)
            for (m, ps), (so, e) in zip(self.mods, res):
                self.built[m] = (so, e)
            # the compiled functions are called here too (nothing of it depends on the model)
            ths = [threading.Thread(target=self._run_module, args=(m, ps)) for m, ps in self.mods if self.built[m][0]]
            for th in ths:
                th.start()
            for th in ths:
                th.join()
            t.join()
        except BaseException as e:      # reported by evaluate()
            self.exc = e

    def _errors(self):
        srcs = [[p.name, HEADER + src_prog(p)] for p in self.errs]
        r = cybuild.run_script(ERR_SCRIPT, os.path.join(self.wd, "err"), {"srcs": srcs, "dir": os.path.join(self.wd, "err")},
                               timeout=600, name="err_driver.py")
        self.err_res = r

    # ---------------------------------------------------------------- evaluation
    def evaluate(self):
        ctx = self.ctx
        self.thread.join()
        if self.exc is not None:
            ctx.corr_break("share:build-thread", "c37_share", repr(self.exc)[:500], "modules build")
            return
        model = ctx.model("prangeshare")
        # (0) the operator string of generate_loop
        src = open(os.path.join(ctx.repo, "Cython", "Compiler", "Nodes.py")).read()
        m = re.search(r'if op and op in "([^"]*)" and entry != self\.target\.entry', src)
        mops = model.batch(["ompops"])[0]
        ctx.case("share/operator-string", "Nodes.py:generate_loop", sig="ompops")
        if not m:
            ctx.corr_break("share:operator-string", "Nodes.py", "anchor `if op and op in \"...\"` not found", mops)
        elif m.group(1) != mops:
            ctx.corr_break("share:operator-string", "Nodes.py:ParallelRangeNode.generate_loop", m.group(1), mops)
        # (1) classification of every program by the model
        allp = [p for _, ps in self.mods for p in ps]
        cres = model.batch(["classify %s %d %s" % (FXBITS, p.nvars, tok_region(p)) for p in allp + self.errs])
        cinfo = {}
        for p, line in zip(allp + self.errs, cres):
            mm = re.match(r"E=(\S+) C=(\S+) W=(\S+)$", line)
            if not mm:
                ctx.corr_break("share:model-output", p.name, line, "E= C= W=")
                continue
            cinfo[p.name] = (mm.group(1), mm.group(2).split(","), mm.group(3))
        # (2) rejected programs
        self._eval_errors(cinfo)
        # (3) clauses + run-time behaviour
        for mname, ps in self.mods:
            so, e = self.built.get(mname, (None, "not built"))
            if so is None:
                ctx.fail("sharing_module_does_not_build", {"module": mname, "functions": [p.name for p in ps]},
                         str(e)[:1500], "accepted programs compile")
                continue
            ctext = open(os.path.join(self.wd, mname + ".c")).read()
            pragmas = parse_pragmas(ctext)
            for p in ps:
                self._eval_clauses(p, pragmas, cinfo.get(p.name))
            self._eval_runs(mname, ps, cinfo, model)
        self._flush_model(model)

    def _eval_errors(self, cinfo):
        ctx = self.ctx
        r = self.err_res
        if not r or not r.get("json"):
            ctx.corr_break("share:error-driver", "error programs", (r or {}).get("err", "")[-600:], "driver runs")
            return
        byname = {x["name"]: x for x in r["json"]}
        for p in self.errs:
            x = byname.get(p.name)
            info = cinfo.get(p.name)
            if x is None or info is None:
                continue
            inp = {"program": p.name, "source": src_prog(p)}
            ctx.case("share/front-end-verdict", inp, sig=("err", p.name))
            got = "crash" if x["crash"] else ("-" if x["ok"] else (err_kinds(x["err"]) or "other"))
            exp = info[0]
            if got != exp:
                ctx.corr_break("share:front-end-errors", inp, {"compiler": got, "messages": x["err"][-400:], "crash": x["crash"]},
                               {"model region_errors": exp})
                if exp != "-" and got == "-":
                    ctx.fail("unsound_sharing_form_accepted", inp, "compiles", "rejected: " + exp)

    def _eval_clauses(self, p, pragmas, info):
        ctx = self.ctx
        if info is None:
            return
        inp = {"function": p.name, "source": src_prog(p)}
        ctx.case("share/clauses/%s" % ("block" if p.pre is not None else "prange"), inp, sig=("clauses", p.name))
        got, err = clauses_of(pragmas, p.name)
        if err:
            ctx.corr_break("share:pragma-structure", inp, err, "one parallel + one for pragma")
            return
        cl, sched = got
        exp = {i: k for i, k in enumerate(info[1]) if k != "sh"}
        if cl != exp:
            diff = {i: (cl.get(i, "sh"), exp.get(i, "sh")) for i in set(cl) | set(exp) if cl.get(i) != exp.get(i)}
            ctx.corr_break("share:clauses", inp, {"emitted (var: clause)": cl, "differs (emitted, model)": diff}, exp)
        esched = {None: None, "static0": "static"}.get(p.sched, p.sched)
        if sched != esched:
            ctx.corr_break("share:schedule-clause", inp, sched, esched)
        wf_expected = p.tag is None
        if (info[2] != "X") != wf_expected:
            ctx.corr_break("share:well-formedness", inp, {"generator says sound form": wf_expected}, {"model region_wf": info[2]})

    def _run_module(self, mname, ps):
        try:
            calls, meta = [], []
            for p in ps:
                for (start, stop, step, nt, chunk, thr) in call_plan(p, self.quick, None):
                    idxs = list(range(start, stop, step))
                    span = abs(stop - start)
                    init = list(p.init)
                    args = [start, stop, step, 1 if step > 0 else -1, span, nt, chunk, thr] + \
                           [float(z) if (p.ftype and i > 0) else z for i, z in enumerate(init)]
                    calls.append([p.name, args])
                    meta.append((p, idxs, init, (start, stop, step, nt, chunk, thr)))
            r = cybuild.run_script(WORKER, self.wd, {"module": mname, "calls": calls}, timeout=1500, name="run_%s.py" % mname,
                                   extra_env={"OMP_WAIT_POLICY": "passive", "GOMP_SPINCOUNT": "0", "OMP_DYNAMIC": "false"})
            self.runs[mname] = (calls, meta, r)
        except BaseException as e:
            self.runs[mname] = e

    def _eval_runs(self, mname, ps, cinfo, model):
        ctx = self.ctx
        got_run = self.runs.get(mname)
        if not isinstance(got_run, tuple):
            ctx.corr_break("share:run-thread", mname, repr(got_run)[:400], "module runs")
            return
        calls, meta, r = got_run
        outs = [json.loads(l) for l in r["out"].splitlines() if l.startswith("{")]
        if len(outs) < len(calls):
            inp = {"module": mname, "call": calls[len(outs)] if len(outs) < len(calls) else None}
            ctx.fail("sharing_run_crashed", inp, {"rc": r["rc"], "stderr": r["err"][-400:]}, "call returns")
        lines, keep = [], []
        for (p, idxs, init, cfg), o in zip(meta, outs):
            start, stop, step, nt, chunk, thr = cfg
            inp = {"function": p.name, "schedule": p.sched, "start": start, "stop": stop, "step": step, "threads": nt,
                   "chunk": chunk, "use_threads_if": thr, "init": init, "source": src_prog(p)}
            ctx.case("share/run/%s/threads=%d" % (p.tag or ("block" if p.pre is not None else "prange"), nt), inp,
                     sig=(p.name, cfg))
            if "e" in o:
                ctx.fail("sharing_run_raises", inp, o, "returns")
                continue
            vis = [i for i in range(p.nvars) if i not in p.blockpriv]
            got = {}
            for i, x in zip(vis, o["v"]):
                got[i] = x if isinstance(x, int) else float.fromhex(x)
            sgn = 1 if step > 0 else -1
            owners = [o["o"][(i - start) * sgn] for i in idxs]
            exp = oracle(p, idxs, init)
            info = cinfo.get(p.name)
            dvars = set(int(x) for x in info[2].split(",")) if info and info[2] not in ("X", "-") else set()
            # a lastprivate that is not assigned on every path of the iteration has no sequentially-last value
            unspec = set(i for i in vis if info and info[2] != "X" and info[1][i] == "fl" and i not in dvars)
            bad = [i for i in vis if got[i] != exp[i] and i not in unspec]
            if bad:
                if p.tag in KNOWN and set(bad) <= p.bad:
                    klass = KNOWN[p.tag]
                else:
                    klass = "prange_sharing_result_differs"
                ctx.fail(klass, inp, {"differing variables": {i: got[i] for i in bad}, "iteration->thread": owners},
                         {"sequential": {i: exp[i] for i in bad}})
            if any(t < 0 for t in owners):
                ctx.corr_break("share:iteration-not-executed", inp, owners, "every iteration runs once")
                continue
            nthr = max(owners) + 1 if owners else 1
            chunks = [[i for i, t in zip(idxs, owners) if t == k] for k in range(nthr)]
            tokc = "|".join(",".join(map(str, ch)) if ch else "-" for ch in chunks)
            toki = ",".join(map(str, idxs)) if idxs else "-"
            lines.append("run %d %d %s %s %s %s" % (p.w, 1 if p.sg else 0, ",".join(str(int(z)) for z in init), toki, tokc,
                                                    tok_region(p)))
            keep.append((p, inp, got, exp, vis, owners))
        self.pending.append((lines, keep, cinfo))

    def _flush_model(self, model):
        ctx = self.ctx
        lines = [l for ls, _, _ in self.pending for l in ls]
        keep = [k for _, ks, _ in self.pending for k in ks]
        cinfo = self.pending[0][2] if self.pending else {}
        res = model.batch(lines)
        for (p, inp, got, exp, vis, owners), line in zip(keep, res):
            mm = re.match(r"P=(\S+) S=(\S+)$", line)
            if not mm:
                ctx.corr_break("share:model-output", inp, line, "P= S=")
                continue
            mp = [int(x) for x in mm.group(1).split(",")]
            ms = [int(x) for x in mm.group(2).split(",")]
            for i in vis:
                # the model's parallel execution on the observed partition predicts the compiled result,
                # also for the unsound forms and for lastprivates assigned only on some paths
                if mp[i] != got[i]:
                    ctx.corr_break("share:region_par", dict(inp, variable=i, threads_of_iterations=owners), got[i], mp[i])
                    break
            bads = [i for i in vis if ms[i] != exp[i]]
            if bads:
                ctx.corr_break("share:region_seq-vs-python", dict(inp, variables=bads), {i: exp[i] for i in bads},
                               {i: ms[i] for i in bads})
