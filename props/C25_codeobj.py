"""C25, code-object part: helper of props/C25.py.

The per-module struct __Pyx_PyCode_New_function_description (Code.py generate_codeobject_constants) has bit-fields as
wide as the module-wide maxima of argcount / posonly / kwonly / nlocals / first line; every code object of the module
(def, method, static/class method, nested def, lambda, generator, coroutine, async generator, generator expression,
def/cpdef in cdef classes, auto-generated pickle helpers) is initialised through it (ExprNodes.CodeObjectNode) and
inspect.signature() reads the result.  Modules are generated so that the function holding the maximum of each field
is of each function kind in turn, at values around every power of two, in the middle of functions of all other kinds.

work() runs in a background thread of props/C25.py (translation + gcc + introspection + model queries);
account() turns the collected data into ctx.case / ctx.fail / ctx.corr_break in the main thread."""
import os, re, json, random, time, traceback
import concurrent.futures as cf
import cybuild

# ------------------------------------------------------------------ hosts (what kind of function, and where)
# model kind: P plain, G generator, C coroutine, A async generator, E generator expression
HOSTS = {
    # name:        (model kind, container, prefix, decorator, first positional, can posonly/kwonly/star, can locals)
    # (cpdef: the code object belongs to the Python wrapper, whose varnames are the arguments only)
    "def":         ("P", "mod", "def", None, None, True, True),
    "gen":         ("G", "mod", "def", None, None, True, True),
    "coro":        ("C", "mod", "async def", None, None, True, True),
    "agen":        ("A", "mod", "async def", None, None, True, True),
    "lambda":      ("P", "mod", "lambda", None, None, True, False),
    "cpdef_func":  ("P", "mod", "cpdef", None, None, False, False),
    "meth":        ("P", "cls", "def", None, "self", True, True),
    "gmeth":       ("G", "cls", "def", None, "self", True, True),
    "ameth":       ("C", "cls", "async def", None, "self", True, True),
    "agmeth":      ("A", "cls", "async def", None, "self", True, True),
    "smeth":       ("P", "cls", "def", "@staticmethod", None, True, True),
    "cmeth":       ("P", "cls", "def", "@classmethod", "cls", True, True),
    "sgmeth":      ("G", "cls", "def", "@staticmethod", None, True, True),
    "clambda":     ("P", "cls", "lambda", None, "self", True, False),
    "nested":      ("P", "nest", "def", None, None, True, True),
    "ngen":        ("G", "nest", "def", None, None, True, True),
    "ncoro":       ("C", "nest", "async def", None, None, True, True),
    "nagen":       ("A", "nest", "async def", None, None, True, True),
    "nlambda":     ("P", "nest", "lambda", None, None, True, False),
    "cdef_meth":   ("P", "ccls", "def", None, "self", True, True),
    "cdef_gmeth":  ("G", "ccls", "def", None, "self", True, True),
    "cdef_ameth":  ("C", "ccls", "async def", None, "self", True, True),
    "cdef_smeth":  ("P", "ccls", "def", "@staticmethod", None, True, True),
    "cpdef_meth":  ("P", "ccls", "cpdef", None, "self", False, False),
}
HOST_ORDER = list(HOSTS)
# hosts that are peaks in the quick tier: one of every compiler-level category (DefNode flags is_generator /
# is_coroutine / is_asyncgen / lambda / needs_closure / decorated / cdef-class method / cpdef wrapper)
QUICK_HOSTS = ["def", "gen", "coro", "agen", "lambda", "meth", "gmeth", "smeth", "nested", "ngen", "cdef_meth",
               "cpdef_func"]
FIELDS = ["A", "P", "K", "N", "L"]      # argcount, num_posonly_args, num_kwonly_args, nlocals, first_line
V_QUICK = [2, 3, 4, 7, 8, 15, 16, 17, 31, 32, 33]
V_THOROUGH = V_QUICK + [5, 9, 63, 64, 65]
V_BIG = [127, 128, 129, 255, 256]          # thorough only, a few modules (a 256-parameter function costs seconds)
L_VALUES = [255, 256, 257, 511, 512, 513, 1023, 1024, 1025]
FLAG_MASK = 0x4 | 0x8 | 0x20 | 0x80 | 0x200      # CO_VARARGS, CO_VARKEYWORDS, CO_GENERATOR, CO_COROUTINE, CO_ASYNC_GENERATOR


def can(host, field):
    h = HOSTS[host]
    if field in ("P", "K"):
        return h[5]
    if field == "N":
        return h[6]
    return True


def bl(v):
    return int(v).bit_length()


def mkfunc(rng, host, name, po=0, pk=0, ko=0, nloc=0, star=None, ss=None, ndef=None, kwmask=None):
    """po / pk count the first positional (self / cls) where the host has one"""
    h = HOSTS[host]
    if not h[5]:
        pk, po, ko, star, ss = po + pk, 0, 0, False, False
    if h[4] and po + pk == 0:
        pk = 1
    if not h[6]:
        nloc = 0
    star = (rng.random() < 0.4) if star is None else star
    ss = (rng.random() < 0.4) if ss is None else ss
    if not h[5]:
        star = ss = False
    npos = po + pk
    maxdef = npos - (1 if h[4] else 0)           # self / cls never gets a default
    if ndef is None:
        ndef = rng.choice([0, 0, 1, maxdef, rng.randint(0, max(0, maxdef))])
    ndef = max(0, min(ndef, maxdef))
    if kwmask is None:
        mode = rng.choice(["none", "all", "rand", "rand"])
        kwmask = [mode == "all" or (mode == "rand" and rng.random() < 0.5) for _ in range(ko)]
    return {"host": host, "name": name, "po": po, "pk": pk, "ko": ko, "nloc": nloc, "star": star, "ss": ss,
            "ndef": ndef, "kwmask": list(kwmask)}


def params_of(f):
    """[(name, kind, default or None)] in signature order; kinds O P V K W"""
    h = HOSTS[f["host"]]
    names = ["p%d" % i for i in range(f["po"])] + ["a%d" % i for i in range(f["pk"])]
    if h[4] and names:
        names[0] = h[4]
    npos = len(names)
    out = []
    for i, n in enumerate(names):
        d = (1000 + i) if i >= npos - f["ndef"] else None
        out.append((n, "O" if i < f["po"] else "P", d))
    if f["star"]:
        out.append(("va", "V", None))
    for i in range(f["ko"]):
        out.append(("k%d" % i, "K", (2000 + i) if f["kwmask"][i] else None))
    if f["ss"]:
        out.append(("kw", "W", None))
    return out


def header(f, cpython):
    ps = params_of(f)
    parts, seen_slash, seen_star = [], False, False
    for i, (n, k, d) in enumerate(ps):
        if k != "O" and not seen_slash and f["po"]:
            parts.append("/")
            seen_slash = True
        if k == "V":
            parts.append("*" + n)
            seen_star = True
            continue
        if k == "K" and not seen_star:
            parts.append("*")
            seen_star = True
        if k == "W":
            parts.append("**" + n)
            continue
        parts.append(n if d is None else "%s=%d" % (n, d))
    if f["po"] and not seen_slash:
        parts.append("/")
    return ", ".join(parts)


def render_func(f, ind, cpython, closure):
    """source lines of one function; the first line is the one the code object reports"""
    h = HOSTS[f["host"]]
    pad = "    " * ind
    kind, prefix = h[0], h[2]
    ret = "u" if closure else "0"
    if prefix == "lambda":
        return [pad + "%s = lambda %s: %s" % (f["name"], header(f, cpython), ret)]
    L = []
    if h[3]:
        L.append(pad + h[3])
    kw = "def" if (cpython and prefix == "cpdef") else prefix
    L.append(pad + "%s %s(%s):" % (kw, f["name"], header(f, cpython)))
    for i in range(f["nloc"]):
        L.append(pad + "    l%d = %s" % (i, ret))
    if kind in ("G", "A"):
        L.append(pad + "    yield " + ret)
    else:
        L.append(pad + "    return " + ret)
    return L


def render_module(modname, funcs, order_seed, last_host_name, line_target):
    """-> (pyx text, py text, meta).  meta[name] = {"line": first line, "acc": accessor}; genexprs listed separately."""
    rng = random.Random(order_seed)
    by = {"mod": [], "cls": [], "ccls": [], "nest": []}
    for f in funcs:
        by[HOSTS[f["host"]][1]].append(f)
    for k in by:
        rng.shuffle(by[k])
    last = next((f for f in funcs if f["name"] == last_host_name), None)
    sections = ["top", "cls", "ccls", "nest", "bottom"]
    rng.shuffle(sections)
    top = [f for i, f in enumerate(by["mod"]) if i % 2 == 0]
    bottom = [f for i, f in enumerate(by["mod"]) if i % 2 == 1]
    if last is not None:
        c = HOSTS[last["host"]][1]
        sec = c if c != "mod" else ("top" if last in top else "bottom")
        sections.remove(sec)
        sections.append(sec)
        lst = {"top": top, "bottom": bottom}.get(sec, by.get(sec))
        lst.remove(last)
        lst.append(last)

    def build(cpython, pad_lines):
        L = ["# cython: language_level=3, binding=True"] if not cpython else ["# CPython rendering of the same module"]
        meta, gens = {}, []

        def emit(f, ind, closure, acc):
            lines = render_func(f, ind, cpython, closure)
            meta[f["name"]] = {"line": len(L) + 1, "acc": acc}
            L.extend(lines)

        for si, sec in enumerate(sections):
            if si == len(sections) - 1 and pad_lines:
                L.extend(["#"] * pad_lines)
            if sec in ("top", "bottom"):
                gens.append({"line": len(L) + 1, "acc": ["gen", "GE_%s" % sec], "where": "module"})
                L.append("GE_%s = (i + 1 for i in range(3))" % sec)
                for f in (top if sec == "top" else bottom):
                    emit(f, 0, False, ["attr", f["name"]])
            elif sec == "cls":
                L.append("class K:")
                L.append("    x = 1")
                gens.append({"line": len(L) + 1, "acc": ["clsgen", "K", "GE"], "where": "class"})
                L.append("    GE = (i + 1 for i in range(3))")
                for f in by["cls"]:
                    emit(f, 1, False, ["cls", "K", f["name"]])
            elif sec == "ccls":
                L.append(("class CK:" if cpython else "cdef class CK:"))
                L.append("    pass" if cpython else "    cdef int x")
                for f in by["ccls"]:
                    emit(f, 1, False, ["cls", "CK", f["name"]])
            else:
                meta["outer_fn"] = {"line": len(L) + 1, "acc": ["attr", "outer_fn"]}
                L.append("def outer_fn(u):")
                L.append("    fs = {}")
                gens.append({"line": len(L) + 1, "acc": ["nestgen", "GE"], "where": "function"})
                L.append("    fs['GE'] = (i + u for i in range(3))")
                for f in by["nest"]:
                    emit(f, 1, True, ["nest", f["name"]])
                    L.append("    fs[%r] = %s" % (f["name"], f["name"]))
                L.append("    return fs")
        return "\n".join(L) + "\n", meta, gens

    pad = 0
    if last is not None and line_target:
        _, meta0, _ = build(False, 0)
        pad = max(0, line_target - meta0[last["name"]]["line"])
    pyx, meta, gens = build(False, pad)
    py, meta_py, _ = build(True, pad)
    assert {k: v["line"] for k, v in meta.items()} == {k: v["line"] for k, v in meta_py.items()}
    return pyx, py, meta, gens


# ------------------------------------------------------------------ plans
def background(rng, tag):
    """one small function of every host: counts 0 or 1 everywhere (every field needs 1 bit at most... argcount up
    to 1 positional), so each peak below is the strict module-wide maximum of its field"""
    out = []
    for i, host in enumerate(HOST_ORDER):
        h = HOSTS[host]
        po = rng.choice([0, 0, 1]) if h[5] else 0
        pk = 0 if po else rng.choice([0, 1])
        ko = rng.choice([0, 1]) if h[5] else 0
        out.append(mkfunc(rng, host, "b%s_%d" % (tag, i), po=po, pk=pk, ko=ko, nloc=0))
    return out


def higher(values, v, rng):
    c = [x for x in values if bl(x) > bl(v)]
    return rng.choice(c) if c else None


def plan_module(rng, tag, peaks, values):
    """peaks: {field: (host, value)}.  Returns (funcs, roles, last_name, line_target)"""
    funcs = background(rng, tag)
    roles = {}
    last_name, line_target = None, None
    for fld in ["A", "P", "K", "L", "N"]:
        if fld not in peaks:
            continue
        host, v = peaks[fld]
        name = "x%s_%s" % (fld.lower(), tag)
        has_first = 1 if HOSTS[host][4] else 0
        if fld == "A":
            po = rng.choice([0, 0, 1]) if HOSTS[host][5] else 0
            f = mkfunc(rng, host, name, po=po, pk=v - po, ko=rng.choice([0, 1]), nloc=rng.choice([0, 1]))
        elif fld == "P":
            f = mkfunc(rng, host, name, po=v, pk=rng.choice([0, 1]), ko=rng.choice([0, 1]), nloc=rng.choice([0, 1]))
        elif fld == "K":
            f = mkfunc(rng, host, name, po=rng.choice([0, 1]), pk=rng.choice([0, 1]), ko=v)
        elif fld == "N":
            # strictly more bits than the variable count of every other function (the other peaks included)
            f = mkfunc(rng, host, name, po=rng.choice([0, 1]), pk=rng.choice([0, 1]), ko=rng.choice([0, 1]))
            nvars = len(params_of(f))
            k = bl(max([12] + [len(params_of(g)) + g["nloc"] for g in funcs]))
            target = [1 << k, (1 << k) + 1, (1 << (k + 1)) - 1][v % 3]
            f["nloc"] = max(0, target - nvars)
        else:
            f = mkfunc(rng, host, name, po=rng.choice([0, 1]), pk=rng.choice([0, 1]), ko=rng.choice([0, 1]))
            last_name, line_target = name, v
        funcs.append(f)
        roles[name] = fld
    return funcs, roles, last_name, line_target


def plans(tier, rng):
    """list of {field: (host, value)} - every (field, host) pair of the tier's host list is a peak at least once,
    every boundary value of the tier is a peak value of every field at least once"""
    out = []
    if tier == "quick":
        hosts, values = QUICK_HOSTS, V_QUICK
        rounds = 1
    else:
        hosts, values = HOST_ORDER, V_THOROUGH
        rounds = 6
    n = len(hosts)
    offs = {"A": 0, "P": 3, "K": 6, "N": 9, "L": 4}
    low = [v for v in values if bl(v + 1) < max(bl(x) for x in values)]
    for r in range(rounds):
        for m in range(n):
            pk = {}
            for fld in FIELDS:
                host = hosts[(m + offs[fld] + r * 5) % n]
                j = 0
                while not can(host, fld):
                    j += 1
                    host = hosts[(m + offs[fld] + r * 5 + j) % n]
                pk[fld] = host
            i = m + r * n
            vP = low[(i * 2) % len(low)] if r % 2 == 0 else values[(i * 3) % len(values)]
            vA = higher(values, vP + 1, rng)
            peaks = {"P": (pk["P"], vP), "K": (pk["K"], values[(i * 5 + 1) % len(values)]),
                     "N": (pk["N"], values[(i * 7 + 2) % len(values)] + 3), "L": (pk["L"], L_VALUES[i % len(L_VALUES)])}
            if vA is not None:
                peaks["A"] = (pk["A"], vA)
            else:
                # the posonly peak is also the argcount peak: same function, of the A host (when it can)
                peaks["P"] = (pk["A"] if can(pk["A"], "P") else pk["P"], vP)
            out.append(peaks)
    if tier != "quick":
        # one function kind larger than everything else in several fields at once
        full = [h for h in HOST_ORDER if HOSTS[h][5]]
        for i, host in enumerate(full):
            v = values[(i * 2) % len(values)]
            out.append({"A": (host, higher(values, v, rng) or v), "K": (host, values[(i * 3) % len(values)])})
        # large counts: every big value in every argument field, hosts rotating
        for i, v in enumerate(V_BIG):
            for j in range(2):
                hs = [full[(i * 7 + j * 11 + k * 5) % len(full)] for k in range(3)]
                vp = V_BIG[(i + j) % len(V_BIG)] if i + j < 3 else values[(i * 3 + j) % len(low)]
                pk_ = {"P": (hs[1], vp), "K": (hs[2], V_BIG[(i + 2 * j + 1) % len(V_BIG)])}
                va = v if bl(v) > bl(vp + 1) else None
                if va is not None:
                    pk_["A"] = (hs[0], va)
                out.append(pk_)
    return out


# ------------------------------------------------------------------ the implementation side
TRANSLATE = r'''
import sys, json, io, os
import pyload; pyload.install()
from Cython.Compiler import Main, Options, Errors
pyload.assert_sources()
specs = json.load(sys.stdin)
out = {}
for name, src in specs:
    directives = dict(Options.get_directive_defaults())
    directives["language_level"] = 3
    directives["binding"] = True
    c = os.path.splitext(src)[0] + ".c"
    if os.path.exists(c): os.unlink(c)
    opts = Main.CompilationOptions(Main.default_options, compiler_directives=directives, output_file=c)
    err, old = io.StringIO(), sys.stderr
    try:
        sys.stderr = err
        try:
            r = Main.compile(src, opts)
            ok = r.num_errors == 0 and os.path.exists(c)
        finally:
            sys.stderr = old
        out[name] = {"ok": ok, "err": err.getvalue()[-3000:]}
    except BaseException as e:
        out[name] = {"ok": False, "err": "CRASH %s: %s" % (type(e).__name__, e)}
print(json.dumps(out))
'''

INTROSPECT = r'''
import sys, json, inspect, importlib, os, types
def info(f, is_code=False):
    if is_code:
        c = f
        d = {}
    else:
        f = getattr(f, "__func__", f)
        c = f.__code__
        try:
            ps = [(p.name, {"POSITIONAL_ONLY": "O", "POSITIONAL_OR_KEYWORD": "P", "VAR_POSITIONAL": "V",
                            "KEYWORD_ONLY": "K", "VAR_KEYWORD": "W"}[p.kind.name],
                   None if p.default is p.empty else repr(p.default)) for p in inspect.signature(f).parameters.values()]
        except Exception as ex:
            ps = "ERR " + type(ex).__name__ + ": " + str(ex)[:120]
        kd = getattr(f, "__kwdefaults__", None)
        d = {"name": f.__name__, "qualname": f.__qualname__, "module": f.__module__,
             "defaults": repr(getattr(f, "__defaults__", None)),
             "kwdefaults": None if not kd else sorted((k, repr(v)) for k, v in kd.items()), "sig": ps}
    d.update({"argcount": c.co_argcount, "posonly": c.co_posonlyargcount, "kwonly": c.co_kwonlyargcount,
              "nlocals": c.co_nlocals, "flags": c.co_flags, "line": c.co_firstlineno, "varnames": list(c.co_varnames)})
    return d
def get(ns, acc, nest):
    k = acc[0]
    if k == "attr": return ns[acc[1]], False
    if k == "cls":
        cls = ns[acc[1]]
        o = cls.__dict__.get(acc[2], None)
        if o is None or not (hasattr(o, "__code__") or hasattr(o, "__func__")): o = getattr(cls, acc[2])
        return o, False
    if k == "nest": return nest[acc[1]], False
    if k == "gen": return ns[acc[1]].gi_code, True
    if k == "clsgen": return ns[acc[1]].__dict__[acc[2]].gi_code, True
    if k == "nestgen": return nest[acc[1]].gi_code, True
    raise ValueError(k)
def collect(ns, accs):
    out = {}
    try:
        nest = ns["outer_fn"](7) if "outer_fn" in ns else {}
    except Exception as ex:
        nest = {}
        out["!outer"] = "ERR " + type(ex).__name__ + ": " + str(ex)[:200]
    for key, acc in accs:
        try:
            o, is_code = get(ns, acc, nest)
            out[key] = info(o, is_code)
        except Exception as ex:
            out[key] = {"error": type(ex).__name__ + ": " + str(ex)[:200]}
    return out
job = json.load(sys.stdin)
res = {}
for m in job:
    r = {}
    if m.get("compiled"):
        try:
            mod = importlib.import_module(m["name"])
            r["cy"] = collect(vars(mod), m["accs"])
        except BaseException as ex:
            r["cy_import_error"] = type(ex).__name__ + ": " + str(ex)[:300]
    try:
        ns = {"__name__": m["name"]}
        exec(compile(open(m["py"]).read(), m["py"], "exec"), ns)
        r["py"] = collect(ns, [a for a in m["accs"] if not a[1][0].endswith("gen")])
    except BaseException as ex:
        r["py_error"] = type(ex).__name__ + ": " + str(ex)[:300]
    res[m["name"]] = r
print(json.dumps(res))
'''

RE_STRUCT = re.compile(r"typedef struct \{\s*unsigned int argcount : (\d+);\s*unsigned int num_posonly_args : (\d+);\s*"
                       r"unsigned int num_kwonly_args : (\d+);\s*unsigned int nlocals : (\d+);\s*unsigned int flags : (\d+);\s*"
                       r"unsigned int first_line : (\d+);\s*\} __Pyx_PyCode_New_function_description;")
RE_INIT = re.compile(r"const __Pyx_PyCode_New_function_description descr = \{(-?\d+), (-?\d+), (-?\d+), (-?\d+), "
                     r"\(unsigned int\)\(([A-Z_|]+)\), (-?\d+)\};\s*"
                     r"PyObject\* const varnames\[\] = \{([^}]*)\};\s*"
                     r"[^;]*= __Pyx_PyCode_New\(descr, varnames, ([^,]+), ([^,]+),")
CO = {"CO_OPTIMIZED": 1, "CO_NEWLOCALS": 2, "CO_VARARGS": 4, "CO_VARKEYWORDS": 8, "CO_GENERATOR": 0x20,
      "CO_COROUTINE": 0x80, "CO_ASYNC_GENERATOR": 0x200}


def parse_c(path):
    txt = open(path, errors="replace").read()
    m = RE_STRUCT.search(txt)
    widths = [int(x) for x in m.groups()] if m else None
    inits = []
    for mm in RE_INIT.finditer(txt):
        a, p, k, n, fl, line, vn, fpath, fname = mm.groups()
        flags = 0
        for t in fl.split("|"):
            flags |= CO[t]
        cname = fname.strip().split("->")[-1]
        nm = re.sub(r"^__pyx_(?:n_u|kp_u|n_s)_", "", cname)
        names = [re.sub(r"^__pyx_(?:n_u|kp_u|n_s)_", "", x.strip().split("->")[-1]) for x in vn.split(",") if x.strip() != "0"]
        inits.append({"vals": [int(a), int(p), int(k), int(n), flags, int(line)], "fname": nm, "varnames": names,
                      "file": fpath.strip().split("->")[-1], "raw": mm.group(0).split(";")[0] + ";"})
    return widths, inits, txt.count("const __Pyx_PyCode_New_function_description descr ="), (m.group(0) if m else None)


def readback_program(mods):
    """one small C program: per module the struct typedef exactly as emitted (block scope) and every initialiser
    statement exactly as emitted; prints what a reader of the struct (as __Pyx_PyCode_New is) gets"""
    L = ["#include <stdio.h>"] + ["#define %s %d" % kv for kv in CO.items()]
    for mi, m in enumerate(mods):
        L.append("static void mod%d(void) {" % mi)
        L.append(m["typedef"])
        for ii, it in enumerate(m["inits"]):
            L.append("  { %s printf(\"%d %d %%u %%u %%u %%u %%u %%u\\n\", (unsigned)descr.argcount, (unsigned)descr.num_posonly_args, "
                     "(unsigned)descr.num_kwonly_args, (unsigned)descr.nlocals, (unsigned)descr.flags, (unsigned)descr.first_line); }"
                     % (it["raw"], mi, ii))
        L.append("}")
    L.append("int main(void) {")
    L += ["  mod%d();" % mi for mi in range(len(mods))]
    L += ["  return 0;", "}"]
    return "\n".join(L) + "\n"


def run_readback(mods, wd):
    import subprocess
    ok = [m for m in mods if m.get("typedef") and m.get("inits")]
    if not ok:
        return
    src = os.path.join(wd, "readback.c")
    open(src, "w").write(readback_program(ok))
    exe = os.path.join(wd, "readback.exe")
    p = subprocess.run(["gcc", "-O0", "-w", src, "-o", exe], capture_output=True, text=True, timeout=600)
    if p.returncode != 0:
        for m in ok:
            m["readback_error"] = "gcc: " + p.stderr[-600:]
        return
    r = subprocess.run([exe], capture_output=True, text=True, timeout=600)
    for m in ok:
        m["readback"] = [None] * len(m["inits"])
    for line in r.stdout.split("\n"):
        t = line.split()
        if len(t) == 8:
            ok[int(t[0])]["readback"][int(t[1])] = [int(x) for x in t[2:]]


# ------------------------------------------------------------------ model encoding
def model_func_words(kind, params, locals_n, synth, line, names):
    """params [(name, kind, default)], names: dict name -> id"""
    def nid(n):
        return names.setdefault(n, len(names) + 1)

    def ps(kk):
        l = ["%d:%s" % (nid(n), "-" if d is None else str(d)) for n, k, d in params if k == kk]
        return ",".join(l) or "-"
    star = [n for n, k, d in params if k == "V"]
    ss = [n for n, k, d in params if k == "W"]
    po, pk, ko = ps("O"), ps("P"), ps("K")
    st = str(nid(star[0])) if star else "-"
    s2 = str(nid(ss[0])) if ss else "-"
    loc = ",".join(str(nid(n)) for n in locals_n) or "-"
    return [kind, po, pk, st, ko, s2, loc, str(synth), str(line)]


def sig_decode(s, rev):
    if s == "ERR":
        return "ERR"
    if s == "-":
        return []
    out = []
    for item in s.split(";"):
        n, k, d = item.split(":")
        out.append((rev.get(int(n), "?" + n), k, None if d == "-" else d))
    return out


def build_modules(tier, seed, workdir):
    rng = random.Random(seed * 7919 + 25)
    mods = []
    values = V_QUICK if tier == "quick" else V_THOROUGH
    for mi, peaks in enumerate(plans(tier, rng)):
        tag = "m%d" % mi
        funcs, roles, last_name, line_target = plan_module(rng, tag, peaks, values)
        name = "c25co_%d" % mi
        pyx, py, meta, gens = render_module(name, funcs, rng.randrange(1 << 30), last_name, line_target)
        mods.append({"name": name, "funcs": funcs, "roles": roles, "peaks": peaks, "pyx": pyx, "py": py, "meta": meta,
                     "gens": gens})
    return mods


def work(tier, seed, workdir, model):
    """everything that needs no ctx; returns {"mods": [...], "error": ...}"""
    t0 = time.time()
    wd = os.path.join(workdir, "codeobj")
    os.makedirs(wd, exist_ok=True)
    mods = build_modules(tier, seed, wd)
    for mi, m in enumerate(mods):
        # quick tier: every module is translated and its struct + initialisers are read back through gcc
        # (readback.c); one module in three is also built completely and introspected
        m["full"] = tier != "quick" or mi % 3 == 0
        m["src"] = os.path.join(wd, m["name"] + ".pyx")
        m["pysrc"] = os.path.join(wd, "py_" + m["name"] + ".py")
        open(m["src"], "w").write(m["pyx"])
        open(m["pysrc"], "w").write(m["py"])
    # 1. translate: a few warmed compiler processes working through small chunks of modules; gcc starts on a chunk
    #    as soon as it is translated
    nproc, ncc, csize = (3, 4, 2) if tier == "quick" else (6, 8, 4)
    chunks_t = [mods[i:i + csize] for i in range(0, len(mods), csize)]

    def tr(ci):
        ch = chunks_t[ci]
        r = cybuild.run_script(TRANSLATE, wd, stdin_obj=[[m["name"], m["src"]] for m in ch], name="tr%d.py" % ci,
                               timeout=3000)
        return r["json"] if isinstance(r["json"], dict) else {m["name"]: {"ok": False, "err": "translate worker died: " + r["err"][-1500:]}
                                                               for m in ch}

    def one(m, res):
        m["translate"] = res.get(m["name"], {"ok": False, "err": "no result"})
        if not m["translate"]["ok"]:
            return
        c = os.path.join(wd, m["name"] + ".c")
        m["widths"], m["inits"], m["ninit"], m["typedef"] = parse_c(c)
        if not m["full"]:
            m["cc"] = "skipped"
            return
        rc, err = cybuild.cc(c, os.path.join(wd, m["name"] + cybuild.EXT), ["-O0"])
        m["cc"] = None if rc == 0 else err[-1500:]

    with cf.ThreadPoolExecutor(max_workers=nproc) as ptr, cf.ThreadPoolExecutor(max_workers=ncc) as pcc:
        futs = {ptr.submit(tr, ci): ci for ci in range(len(chunks_t))}
        ccf = []
        for fu in cf.as_completed(futs):
            res = fu.result()
            for m in chunks_t[futs[fu]]:
                ccf.append(pcc.submit(one, m, res))
        for fu in ccf:
            fu.result()
    run_readback(mods, wd)
    t1 = time.time()
    # 2. introspection: compiled module and CPython on the same source, chunks of modules per subprocess
    def intro(chunk):
        job = [{"name": m["name"], "compiled": m.get("cc", "x") is None and m["translate"]["ok"], "py": m["pysrc"],
                "accs": [[k, v["acc"]] for k, v in m["meta"].items()] + [["GE@%d" % g["line"], g["acc"]] for g in m["gens"]]
                        + [["reduce_cython", ["cls", "CK", "__reduce_cython__"]], ["setstate_cython", ["cls", "CK", "__setstate_cython__"]],
                           ["pyx_unpickle_CK", ["attr", "__pyx_unpickle_CK"]]]}
               for m in chunk]
        r = cybuild.run_script(INTROSPECT, wd, stdin_obj=job, name="intro_%s.py" % chunk[0]["name"], timeout=1200)
        if isinstance(r["json"], dict):
            return r["json"]
        if len(chunk) == 1:
            return {chunk[0]["name"]: {"crash": "rc=%s %s" % (r["rc"], r["err"][-600:])}}
        out = {}
        for m in chunk:
            out.update(intro([m]))
        return out
    chunks = [mods[i:i + 6] for i in range(0, len(mods), 6)]
    with cf.ThreadPoolExecutor(max_workers=4) as ex:
        for res in ex.map(intro, chunks):
            for m in mods:
                if m["name"] in res:
                    m["intro"] = res[m["name"]]
    t2 = time.time()
    # 3. model queries
    lines = []
    for m in mods:
        m["model_funcs"] = model_inputs(m)
        words = []
        for mf in m["model_funcs"]:
            words += mf["words"]
        lines.append("mod 0 %d %s" % (len(m["model_funcs"]), " ".join(words)))
    outs = model.batch(lines)
    for m, o in zip(mods, outs):
        m["model_out"] = o
    return {"mods": mods, "times": [t1 - t0, t2 - t1, time.time() - t2]}


def model_inputs(m):
    """the module as the model sees it: generated functions from their specification (the emitted numbers are
    PREDICTED for them), container / generator-expression / auto-generated functions from what the C file shows"""
    out = []
    inits = list(m.get("inits") or [])
    used = set()

    def find(fname, line):
        for i, it in enumerate(inits):
            if i not in used and it["fname"] == fname and it["vals"][5] == line:
                used.add(i)
                return it
        return None
    for f in m["funcs"]:
        h = HOSTS[f["host"]]
        ps = params_of(f)
        names = {}
        line = m["meta"][f["name"]]["line"]
        locs = ["l%d" % i for i in range(f["nloc"])]
        fname = "lambda" if h[2] == "lambda" else f["name"]
        it = find(fname, line)
        w = model_func_words(h[0], ps, locs, 0, line, names)
        out.append({"key": f["name"], "spec": f, "params": ps, "words": w, "names": names, "init": it, "predicted": True,
                    "locals": locs})
    for g in m["gens"]:
        it = find("genexpr", g["line"])
        nl = it["vals"][3] if it else 0
        names = {}
        locs = ["g%d" % i for i in range(nl)]
        out.append({"key": "GE@%d" % g["line"], "spec": g, "params": [], "words": model_func_words("E", [], locs, 1, g["line"], names),
                    "names": names, "init": it, "predicted": "genexpr", "locals": locs})
    for i, it in enumerate(inits):
        if i in used:
            continue
        a, p, k, n, fl, line = it["vals"]
        ps = [("q%d" % j, "O" if j < p else "P", None) for j in range(a)]
        if fl & 4:
            ps.append(("va", "V", None))
        ps += [("qk%d" % j, "K", None) for j in range(k)]
        if fl & 8:
            ps.append(("kw", "W", None))
        kind = "A" if fl & 0x200 else "C" if fl & 0x80 else "G" if fl & 0x20 else "P"
        names = {}
        locs = ["e%d" % j for j in range(max(0, n - len(ps)))]
        out.append({"key": "extra:%s@%d" % (it["fname"], line), "spec": None, "params": ps,
                    "words": model_func_words(kind, ps, locs, 0, line, names), "names": names, "init": it,
                    "predicted": False, "locals": locs})
    return out


# ------------------------------------------------------------------ accounting (main thread)
def account(ctx, W):
    if W.get("error"):
        ctx.corr_break("code-object part did not run", "props/C25_codeobj.py", W["error"], "runs")
        return
    ctx.note("code objects: %d modules; translate+cc %.0fs, introspection %.0fs, model %.0fs" % (
        len(W["mods"]), W["times"][0], W["times"][1], W["times"][2]))
    pairs = set()
    for m in W["mods"]:
        account_module(ctx, m, pairs)
    ctx.extra["codeobj_peak_pairs_field_host"] = sorted("%s/%s" % p for p in pairs)


def fdesc(m, mf):
    f = mf["spec"]
    if mf["predicted"] is True:
        h = HOSTS[f["host"]]
        return "%s %s(%s)" % (h[2] if not h[3] else h[3] + " " + h[2], f["name"], header(f, False))
    return mf["key"]


FIELD_NAMES = ["argcount", "num_posonly_args", "num_kwonly_args", "nlocals", "flags", "first_line"]


def account_module(ctx, m, pairs):
    name = m["name"]
    base = {"module": name, "peaks": {k: list(v) for k, v in m["peaks"].items()}}

    def inp_for(mf, **kw):
        d = dict(base)
        d["function"] = fdesc(m, mf)
        if mf["spec"] and mf["predicted"] is True:
            d["host"] = mf["spec"]["host"]
        d.update(kw)
        d["module_source"] = m["pyx"]
        return d
    if not m["translate"]["ok"]:
        ctx.fail("valid_program_does_not_build", dict(base, module_source=m["pyx"]), m["translate"]["err"][-800:], "module translates")
        return
    full = m.get("cc") != "skipped"
    if full and m.get("cc") is not None:
        ctx.fail("valid_program_does_not_build", dict(base, module_source=m["pyx"]), m["cc"][-800:], "generated C compiles")
        return
    if m["widths"] is None or m["ninit"] != len(m["inits"]):
        ctx.corr_break("cannot read the description struct / initialisers from the generated C", base,
                       [m["widths"], m["ninit"], len(m["inits"])], "struct + one initialiser per code object")
        return
    out = m["model_out"]
    if out.startswith("!ERR"):
        ctx.corr_break("codedescr model error", base, "", out)
        return
    blocks = out.split(" | ")
    mw = [int(x) for x in blocks[0].split()[1].split(",")]
    # ---- struct widths: generated C vs model (tie)
    ctx.case("codeobj/struct_widths", dict(base, widths=m["widths"]), sig=(name, "widths"))
    if mw != m["widths"]:
        ctx.corr_break("description struct bit-field widths", base, m["widths"], mw)
    intro = m.get("intro") or {}
    cy, py = intro.get("cy"), intro.get("py")
    import_error = (intro.get("cy_import_error") or intro.get("crash")) if full else None
    if py is None:
        ctx.corr_break("CPython cannot run the generated module", base, intro.get("py_error") or intro.get("crash"), "runs")
    rb = m.get("readback")
    if rb is None:
        ctx.corr_break("struct read-back program", base, m.get("readback_error"), "compiles and runs")
    if import_error:
        ctx.fail("compiled_module_import_fails", dict(base, module_source=m["pyx"]), import_error, "module imports")
    for mf, blk in zip(m["model_funcs"], blocks[1:]):
        t = blk.split()
        wf, emitted, stored, unpacked, surv, covn, csig, ssig, mdef, mkwd = t
        emitted, stored, unpacked = ([int(x) for x in s.split(",")] for s in (emitted, stored, unpacked))
        rev = {v: k for k, v in mf["names"].items()}
        key = mf["key"]
        spec = mf["spec"]
        role = m["roles"].get(key, "-") if mf["predicted"] is True else "-"
        if mf["predicted"] is True:
            stratum = "codeobj/%s/%s" % (spec["host"], {"A": "argcount_peak", "P": "posonly_peak", "K": "kwonly_peak",
                                                        "N": "nlocals_peak", "L": "line_peak", "-": "background"}[role])
            if role != "-":
                pairs.add((role, spec["host"]))
        else:
            stratum = "codeobj/%s" % ("genexpr" if mf["predicted"] == "genexpr" else "auto_generated")
        inp = inp_for(mf)
        short = {k: v for k, v in inp.items() if k != "module_source"}
        ctx.case(stratum + ("" if full else "/static"), short, sig=(name, key))
        if wf != "1":
            ctx.corr_break("generator produced a function outside wf_src", short, key, wf)
        if stored != unpacked:
            ctx.corr_break("model: store differs from pack/unpack", short, stored, unpacked)
        it = mf["init"]
        if it is None:
            ctx.corr_break("no code-object initialiser for a generated function", short, None, emitted)
            continue
        # ---- initialiser: generated C vs model (tie; predicted from the specification for generated functions)
        if it["vals"] != emitted:
            ctx.corr_break("description initialiser" if mf["predicted"] is True else "re-encoding of an observed initialiser",
                           short, it["vals"], emitted)
        if mf["predicted"] is True:
            want_names = [n for n, k, d in mf["params"] if k in "OP"] + [n for n, k, d in mf["params"] if k == "K"] + \
                         [n for n, k, d in mf["params"] if k == "V"] + [n for n, k, d in mf["params"] if k == "W"] + mf["locals"]
            if it["varnames"] != want_names:
                ctx.corr_break("varnames array in the generated C", short, it["varnames"], want_names)
        # ---- what a reader of the emitted struct gets (the emitted typedef and initialiser compiled by gcc):
        #      against the model's store (tie) and against the numbers written (the property: nothing is lost)
        got_rb = rb[m["inits"].index(it)] if rb else None
        if got_rb is not None:
            if got_rb != stored:
                ctx.corr_break("struct read-back vs model store(widths, emitted)", short, got_rb, stored)
            for fi in range(6):
                if got_rb[fi] != it["vals"][fi]:
                    ctx.fail("code_object_description_truncated", inp_for(mf, field=FIELD_NAMES[fi]),
                             "initialiser %s = %d reads back as %d from the %d-bit field" % (
                                 FIELD_NAMES[fi], it["vals"][fi], got_rb[fi], m["widths"][fi]),
                             "a field at least %d bits wide" % max(1, bl(it["vals"][fi])))
        # ---- language rule: model source_sig vs the specification and vs CPython's inspect.signature
        norm = lambda s: [tuple(x) for x in s] if isinstance(s, list) else ("ERR" if isinstance(s, str) else s)
        p = None
        if mf["predicted"] is True:
            csig_m, ssig_m = sig_decode(csig, rev), sig_decode(ssig, rev)
            want = [(n, k, None if d is None else str(d)) for n, k, d in mf["params"]]
            if ssig_m != want:
                ctx.corr_break("model source_sig vs the generated specification", short, ssig_m, want)
            p = (py or {}).get(key)
            if py is not None and (p is None or "error" in p):
                ctx.corr_break("cannot introspect the CPython function", short, p, "function object")
                p = None
            if p is not None and norm(p["sig"]) != ssig_m:
                ctx.corr_break("language rule (model source_sig) vs CPython inspect.signature", short, p["sig"], ssig_m)
        if cy is None:
            continue
        c = cy.get(key if mf["predicted"] else it["fname"])
        if mf["predicted"] is False and (c is None or "error" in c):
            continue          # an auto-generated helper without a Python-level handle: generated C only
        if c is None or "error" in c:
            ctx.corr_break("cannot introspect the compiled function", short, c, "function object with __code__")
            continue
        # ---- the code object: compiled module vs model (stored fields)
        got = [c["argcount"], c["posonly"], c["kwonly"], c["nlocals"], c["flags"], c["line"]]
        if got != stored:
            ctx.corr_break("code object counts vs model store(widths, emitted)", short, got, stored)
        if mf["predicted"] is not True:
            continue
        mnames = [rev.get(int(x), "?") for x in covn.split(",")] if covn != "-" else []
        if c["varnames"] != mnames:
            ctx.corr_break("co_varnames vs model", short, c["varnames"], mnames)
        # ---- signature: compiled vs model (tie), compiled vs CPython (the property)
        cs = norm(c["sig"])
        if cs != csig_m:
            ctx.corr_break("inspect.signature of the compiled function vs model", short, c["sig"], csig_m)
        ds = [] if mdef == "-" else mdef.split(",")
        mdl = "None" if not ds else "(%s,)" % ds[0] if len(ds) == 1 else "(%s)" % ", ".join(ds)
        if c["defaults"] != mdl:
            ctx.corr_break("__defaults__ vs model defaults_of", short, c["defaults"], mdl)
        mk = None if mkwd == "-" else sorted([rev.get(int(x.split(":")[0]), "?"), x.split(":")[1]] for x in mkwd.split(","))
        ck = None if c["kwdefaults"] is None else sorted([list(x) for x in c["kwdefaults"]])
        if ck != mk:
            ctx.corr_break("__kwdefaults__ vs model kwdefaults_of", short, ck, mk)
        if p is None:
            continue
        host = spec["host"]
        if cs != norm(p["sig"]):
            ctx.fail("code_object_signature_differs", inp, c["sig"], p["sig"])
        cnt = lambda d: [d["argcount"], d["posonly"], d["kwonly"]]
        if cnt(c) != cnt(p):
            ctx.fail("code_object_counts_differ", inp, dict(zip(["co_argcount", "co_posonlyargcount", "co_kwonlyargcount"], cnt(c))),
                     dict(zip(["co_argcount", "co_posonlyargcount", "co_kwonlyargcount"], cnt(p))))
        if (c["flags"] & FLAG_MASK) != (p["flags"] & FLAG_MASK):
            ctx.fail("code_object_flags_differ", inp, hex(c["flags"] & FLAG_MASK), hex(p["flags"] & FLAG_MASK))
        npar = len(mf["params"])
        if c["varnames"][:npar] != p["varnames"][:npar]:
            ctx.fail("code_object_varnames_differ", inp, c["varnames"][:npar + 2], p["varnames"][:npar])
        if c["defaults"] != p["defaults"] or c["kwdefaults"] != p["kwdefaults"]:
            ctx.fail("function_defaults_attributes_differ", inp, [c["defaults"], c["kwdefaults"]], [p["defaults"], p["kwdefaults"]])
        lam = HOSTS[host][2] == "lambda"
        cn = (c["qualname"], c["module"]) if lam else (c["name"], c["qualname"], c["module"])
        pn = (p["qualname"], name) if lam else (p["name"], p["qualname"], name)
        if cn != pn:
            ctx.fail("function_name_attributes_differ", inp, list(cn), list(pn))
