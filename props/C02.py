"""C02 - object arithmetic with constant operands matches CPython (DESIGN 7/C02)."""
import json, os, re
import cybuild

TITLE = "Object arithmetic with constant operands matches CPython"
EXTRACTS = ["PyLongBinop"]
RULE = ("one compiled function per (operator, operand order, constant, form) with form in {expression, in-place, "
        "comparison in a boolean context}; constants: 0, +-1, +-2, 2^15+-1, 2^30-1, +-2^30, +-(2^30+1) (just outside the "
        "optimised range), shift counts 0,1,29,30,31,59,60,62,63,64, float constants; each function is called on every "
        "operand of a fixed lattice: +-2^(15k)+{-1,0,1} and +-2^(30k)+{-1,0,1} for k<=5, 2^63+-1, 2^64, +-2^53+-1, the "
        "constants themselves +-1, PRNG ints of 1..200 bits, bools, floats (+-0, inf, nan, 2^53+-1, denormal, huge), "
        "int/float subclasses (plain and with overridden operators), non-numbers; distinct by (function, operand); "
        "non-trivial = the operand selects a branch of the helper (zero, sign, digit count 1/2/3/4+, float, other type)")
EXPLANATION = ("theorems: for every well-formed CPython int x (any digit count, any sign) and every constant the compiler "
               "accepts, the PyLongBinop/PyLongCompare helper either defers to the generic PyNumber operation or returns "
               "exactly Python's result on Z (floor //, % with the divisor's sign, arithmetic shifts, two's-complement "
               "& | ^, ==, !=), with every intermediate C value in range, every shift count in [0,64), no zero divisor and "
               "no out-of-bounds digit read; ZeroDivisionError exactly when the divisor is 0 (template level, c op x); "
               "true division takes the double path only with both operands <= 2^53 in magnitude (exactly representable); "
               "==/!= decided for every long constant, never deferring. Correspondence: extracted model vs compiled "
               "functions vs the same source executed by CPython; the model's compile-time guard vs the helper calls found "
               "in the generated C. partial: float constants (PyFloatBinop) and non-exact-int operands (float branch, "
               "fallback) are compared differentially with CPython only.")
LEVEL_TEXT = ("Machine-checked for exact-int operands of any size and every accepted integer constant: result = Python "
              "semantics on Z or deferral to the generic operation, no C undefined behaviour. Float constants, float "
              "operands, subclasses and non-numbers: differential against CPython only (the fallback is PyNumber_* itself).")
TRUSTED = ["model of C arithmetic: explicit range checks per signed operation (Lib/CInt.v); signed `a << b` wraps "
           "(GCC/Clang behaviour the C text relies on under no_sanitize(\"shift\")); `>>` of a negative long is arithmetic",
           "CPython int layout (sign + base-2^30 digits, top digit non-zero, zero has no digits): Lib/PyLong.v",
           "PyLong_FromLong/FromLongLong(v) build the int of value v; PyFloat_FromDouble; the generic PyNumber_* / nb_* "
           "slots are CPython's own operations",
           "IEEE-754 division of two exactly representable doubles is correctly rounded (why (double)a/(double)b equals "
           "CPython's int true division when |a|,|b| <= 2^53)",
           "gcc as a conforming C compiler for the generated module; CPython as the oracle for `x op c`"]
ASSUMPTIONS = ["LP64: long = long long = 64 bits; PyLong_SHIFT = 30; CPython 3.12; CYTHON_USE_PYLONG_INTERNALS=1; x86-64 "
               "gcc/clang (negative_shift_works = 1)"]

SYMS = {"Add": "+", "Subtract": "-", "Multiply": "*", "Remainder": "%", "FloorDivide": "//", "TrueDivide": "/",
        "And": "&", "Or": "|", "Xor": "^", "Lshift": "<<", "Rshift": ">>", "Eq": "==", "Ne": "!="}
ARITH = ["Add", "Subtract", "Multiply", "Remainder", "FloorDivide", "TrueDivide", "And", "Or", "Xor"]
SHIFTS = ["Lshift", "Rshift"]
CMPS = ["Eq", "Ne"]

P15, P30 = 2 ** 15, 2 ** 30
CONSTS_FULL = [0, 1, -1, 2, -2, P15 - 1, P15 + 1, -(P15 + 1), P30 - 1, -(P30 - 1), P30, -P30, P30 + 1, -(P30 + 1), 7, -7]
CONSTS_QUICK = [0, 1, -1, P15 + 1, P30, -P30, P30 + 1, -7]
SHIFTS_FULL = [0, 1, 29, 30, 31, 59, 60, 62, 63, 64]
SHIFTS_QUICK = [1, 30, 31, 60, 63, 64]
FCONSTS_FULL = ["1.5", "-2.0", "0.0", "9007199254740992.0", "1e300", "0.1"]
FCONSTS_QUICK = ["1.5", "-2.0", "0.0"]
FOPS = ["Add", "Subtract", "Remainder", "TrueDivide", "Eq", "Ne", "Multiply", "FloorDivide"]


def gen_functions(tier):
    quick = tier == "quick"
    consts = CONSTS_QUICK if quick else CONSTS_FULL
    shifts = SHIFTS_QUICK if quick else SHIFTS_FULL
    fconsts = FCONSTS_QUICK if quick else FCONSTS_FULL
    F = []

    def add(op, order, c, form, isfloat=False):
        F.append(dict(op=op, order=order, c=c, form=form, isfloat=isfloat))
    for op in ARITH:
        for c in consts:
            add(op, "ObjC", c, "expr")
            if not quick or op not in ("Remainder", "FloorDivide", "TrueDivide") or c in (1, -7):
                add(op, "CObj", c, "expr")       # (c // x, c % x, c / x are never specialised)
            if not quick or c in (1, -P30):
                add(op, "ObjC", c, "inplace")
    for op in SHIFTS:
        for c in shifts:
            add(op, "ObjC", c, "expr")
            if not quick or c in (1, 63):
                add(op, "ObjC", c, "inplace")
        for c in ([1, 3] if quick else [1, 3, -3, 63]):
            add(op, "CObj", c, "expr")
    for op in CMPS:
        for c in consts:
            add(op, "ObjC", c, "expr")
            add(op, "ObjC", c, "bint")
            if not quick or c in (0, 1, P30, -P30):
                add(op, "CObj", c, "expr")
                add(op, "CObj", c, "bint")
    for op in FOPS:
        for c in fconsts:
            add(op, "ObjC", c, "expr", True)
            if not quick or c == "1.5":
                add(op, "CObj", c, "expr", True)
                if op not in CMPS:
                    add(op, "ObjC", c, "inplace", True)
    if quick:
        # constants just outside the PyLongBinop range go through PyNumberBinop (type-dispatch helper)
        add("Multiply", "ObjC", -(P30 + 1), "expr")
        add("Multiply", "CObj", "0.0", "expr", True)
        add("Add", "ObjC", -(P30 + 1), "expr")
    for i, f in enumerate(F):
        f["name"] = "f%d" % i
    return F


def func_source(f):
    c = f["c"]
    lit = ("(%s)" % c) if (f["isfloat"] and c.startswith("-")) or (not f["isfloat"] and c < 0) else str(c)
    sym = SYMS[f["op"]]
    n = f["name"]
    if f["form"] == "inplace":
        return "def %s(x):\n    x %s= %s\n    return x\n" % (n, sym, lit)
    e = ("x %s %s" % (sym, lit)) if f["order"] == "ObjC" else ("%s %s x" % (lit, sym))
    if f["form"] == "bint":
        return "def %s(x):\n    if %s:\n        return 1\n    return 0\n" % (n, e)
    return "def %s(x):\n    return %s\n" % (n, e)


NMOD = 6


def module_sources(F):
    mods = [[] for _ in range(NMOD)]
    for i, f in enumerate(F):
        f["mod"] = "c02_m%d" % (i % NMOD)
        mods[i % NMOD].append(func_source(f))
    return {"c02_m%d" % k: "# cython: language_level=3\n\n" + "\n".join(v) for k, v in enumerate(mods)}


# ---------------- operands ----------------
SETUP = r'''
import fractions, decimal
class MyInt(int):
    def __repr__(self): return "MyInt(%d)" % int(self)
class MyFloat(float):
    def __repr__(self): return "MyFloat(%s)" % float.__repr__(self)
class OvInt(int):
    """int subclass overriding every operator involved"""
    def __repr__(self): return "OvInt(%d)" % int(self)
def _mk(name):
    def m(self, other): return "OvInt.%s(%r)" % (name, other)
    return m
for _n in ("add sub mul mod floordiv truediv and or xor lshift rshift eq ne "
           "radd rsub rmul rmod rfloordiv rtruediv rand ror rxor rlshift rrshift "
           "iadd isub imul").split():
    setattr(OvInt, "__%s__" % _n, _mk(_n))
OvInt.__hash__ = int.__hash__
class OvFloat(float):
    def __repr__(self): return "OvFloat(%s)" % float.__repr__(self)
    def __add__(self, o): return "OvFloat.add"
    def __radd__(self, o): return "OvFloat.radd"
    def __eq__(self, o): return "OvFloat.eq"
    def __ne__(self, o): return "OvFloat.ne"
    def __truediv__(self, o): return "OvFloat.truediv"
    def __mod__(self, o): return "OvFloat.mod"
    __hash__ = float.__hash__
class Refl(object):
    """non-number implementing only reflected/in-place operators"""
    def __repr__(self): return "Refl()"
    def __radd__(self, o): return ("radd", o)
    def __rsub__(self, o): return ("rsub", o)
    def __rmul__(self, o): return ("rmul", o)
    def __rfloordiv__(self, o): return ("rfloordiv", o)
    def __rtruediv__(self, o): return ("rtruediv", o)
    def __rmod__(self, o): return ("rmod", o)
    def __rand__(self, o): return ("rand", o)
    def __rlshift__(self, o): return ("rlshift", o)
    def __iadd__(self, o): return ("iadd", o)
    def __ilshift__(self, o): return ("ilshift", o)
    def __ifloordiv__(self, o): return ("ifloordiv", o)
    def __eq__(self, o): return 0
    def __ne__(self, o): return []
    __hash__ = None
class Raiser(object):
    def __repr__(self): return "Raiser()"
    def __add__(self, o): raise KeyError("add")
    def __radd__(self, o): raise KeyError("radd")
    def __eq__(self, o): raise IndexError("eq")
    def __mod__(self, o): raise LookupError("mod")
    __hash__ = None
'''

OTHER_OPERANDS = [
    ("bool", "True"), ("bool", "False"),
    ("float", "0.0"), ("float", "-0.0"), ("float", "float('inf')"), ("float", "float('-inf')"), ("float", "float('nan')"),
    ("float", "9007199254740991.0"), ("float", "9007199254740992.0"), ("float", "9007199254740994.0"),
    ("float", "-9007199254740993.0"), ("float", "1.5"), ("float", "-2.5"), ("float", "1.0"), ("float", "-1.0"), ("float", "2.0"),
    ("float", "1073741824.0"), ("float", "-1073741824.0"), ("float", "32769.0"), ("float", "7.0"), ("float", "-7.0"),
    ("float", "1e308"), ("float", "-1e308"), ("float", "5e-324"), ("float", "0.1"), ("float", "1e300"),
    ("float", "1.7976931348623157e308"),
    ("intsub", "MyInt(0)"), ("intsub", "MyInt(1)"), ("intsub", "MyInt(-7)"), ("intsub", "MyInt(1073741824)"),
    ("intsub", "MyInt(-1073741824)"), ("intsub", "MyInt(2**64)"), ("intsub", "MyInt(32769)"),
    ("intsub", "OvInt(5)"), ("intsub", "OvInt(0)"), ("intsub", "OvInt(2**70)"),
    ("floatsub", "MyFloat(2.5)"), ("floatsub", "MyFloat(0.0)"), ("floatsub", "MyFloat('nan')"), ("floatsub", "MyFloat(1.0)"),
    ("floatsub", "OvFloat(1.5)"),
    ("other", "None"), ("other", "''"), ("other", "b''"), ("other", "[]"), ("other", "()"), ("other", "object"),
    ("other", "1+2j"), ("other", "0j"), ("other", "fractions.Fraction(1, 3)"), ("other", "fractions.Fraction(7)"),
    ("other", "decimal.Decimal('1.5')"), ("other", "decimal.Decimal(0)"), ("other", "Refl()"), ("other", "Raiser()"),
    ("other", "{1}"), ("other", "NotImplemented"), ("other", "bytearray()"),
    ("fmt", "'%d'"), ("fmt", "b'%d'"), ("fmt", "'%s %s'"),
]


def int_operands(rng, tier, consts):
    vals = set(range(-10, 11))
    for k in range(0, 6):
        for base in (2 ** (15 * k), 2 ** (30 * k)):
            for d in (-1, 0, 1):
                vals.add(base + d); vals.add(-base + d)
    for v in (2 ** 63, 2 ** 64, 2 ** 53, 2 ** 62, 2 ** 59, 2 ** 61, 2 ** 31, 2 ** 32, 2 ** 29, 2 ** 14):
        for d in (-1, 0, 1):
            vals.add(v + d); vals.add(-v + d)
    for c in consts:
        for d in (-1, 0, 1):
            vals.add(c + d); vals.add(-c + d)
        vals.add(c * 2 ** 30); vals.add(c * 2 ** 30 + c); vals.add(-c * 2 ** 30 - c)
    # products / multiples that exercise exact division and the digit-wise comparison
    vals |= {7 * 2 ** 40, -7 * 2 ** 40, 7 * 2 ** 57 + 3, (2 ** 30 - 1) * 2 ** 30 + (2 ** 30 - 1), 2 ** 60 - 2 ** 30,
             -(2 ** 60 - 2 ** 30), 2 ** 30 * 2 + 0, 2 ** 30 + 2 ** 60, 2 ** 30 + 2 ** 90}
    n = 40 if tier == "quick" else 150
    for _ in range(n):
        bits = rng.randrange(1, 201)
        v = rng.getrandbits(bits)
        vals.add(-v if rng.random() < 0.5 else v)
    for _ in range(n):       # 1- and 2-digit ints: the range in which the fast path computes
        v = rng.getrandbits(rng.choice([28, 30, 31, 45, 58, 59, 60, 61]))
        vals.add(-v if rng.random() < 0.5 else v)
    return sorted(vals)


def ndig(v):
    v = abs(v); n = 0
    while v:
        v >>= 30; n += 1
    return n


DRIVER = r'''
import sys, os, json, signal, resource, types
spec = json.load(open("c02_spec.json"))
try:
    resource.setrlimit(resource.RLIMIT_AS, (8 << 30, 8 << 30))
except Exception:
    pass
ns = {}
exec(spec["setup"], ns)
mods = {}
for m in spec["mods"]:
    mods[m] = __import__(m)
oracle = {}
for m, src in spec["sources"].items():
    pm = types.ModuleType("py_" + m)
    exec(compile(src, "py_" + m, "exec"), pm.__dict__)        # the same text, run by CPython
    oracle[m] = pm
ops = [compile(e, "<operand>", "eval") for e in spec["operands"]]
class Timeout(Exception): pass
def _al(s, f): raise Timeout()
signal.signal(signal.SIGALRM, _al)
def enc(r):
    try:
        return type(r).__name__ + ":" + repr(r)
    except BaseException as e:
        return type(r).__name__ + ":<repr failed>"
def run(fn, code):
    try:
        x = eval(code, ns)
        return enc(fn(x))
    except Timeout:
        raise
    except BaseException as e:
        return "!" + type(e).__name__
out = open("c02_results.jsonl", "w")
prog = open("c02_progress.txt", "w")
for fi, (m, name, skip) in enumerate(spec["funcs"]):
    prog.seek(0); prog.write("%-12s" % name); prog.flush()
    f_impl = getattr(mods[m], name)
    f_py = getattr(oracle[m], name)
    skip = set(skip)
    impl, diff = [], {}
    signal.alarm(60)
    try:
        for oi, code in enumerate(ops):
            if oi in skip:
                impl.append(None); continue
            a = run(f_impl, code)
            b = run(f_py, code)
            impl.append(a)
            if a != b:
                diff[oi] = b
        signal.alarm(0)
    except Timeout:
        impl = "TIMEOUT"
    out.write(json.dumps({"f": name, "impl": impl, "diff": diff}) + "\n")
out.close()
print(json.dumps({"done": len(spec["funcs"])}))
'''


def emitted_helpers(c_text, F):
    """which helper call (if any) the generated C of each function contains"""
    res = {}
    # function bodies: from '__pyx_pf_<...>_<name>(' definition to the next definition
    pos = [(m.start(), m.group(1)) for m in re.finditer(r"^static PyObject \*__pyx_pf_\w+?_\d*(f\d+)\(.*\{\s*$", c_text, re.M)]
    pos.sort()
    for i, (p, name) in enumerate(pos):
        end = pos[i + 1][0] if i + 1 < len(pos) else len(c_text)
        body = c_text[p:end]
        close = body.find("\n}\n")             # end of this C function
        if close >= 0:
            body = body[:close]
        m = re.search(r"__Pyx_Py(Long|Float)_(Bool)?([A-Za-z]+?)(ObjC|CObj)\(", body)
        res[name] = (m.group(1), m.group(2) or "", m.group(3), m.group(4)) if m else None
        if m:
            am = re.search(r"__Pyx_Py(?:Long|Float)_(?:Bool)?[A-Za-z]+?(?:ObjC|CObj)\(([^;]*)\);", body)
            res[name] += (am.group(1) if am else "",)
    return res


def classify(f, kind, operand=""):
    if f["isfloat"] and f["op"] == "Remainder" and f["order"] == "CObj" and kind == "float" and "inf" in operand:
        # c % x, float constant c, x = +-inf of the sign of c
        return "floatconst_mod_infinite_divisor"
    if f["op"] == "Multiply":
        # PyNumberBinop shortcut `if (float_op1 == 0.) return op1;`: float zero times a negative int
        if not f["isfloat"] and kind == "float" and operand in ("0.0", "-0.0") and f["c"] < -2 ** 30:
            return "float_zero_times_negative_int"
        if f["isfloat"] and f["c"] in ("0.0", "-0.0") and kind.startswith("int") and kind != "intsub" and operand.startswith("-"):
            return "float_zero_times_negative_int"
    return "%s_%s_%s_%s" % (f["op"], f["order"], "floatconst" if f["isfloat"] else "intconst", kind)


def run(ctx):
    import time
    t0 = time.time()
    quick = ctx.tier == "quick"
    F = gen_functions(ctx.tier)
    srcs = module_sources(F)
    specs = [dict(name=m, source=s, workdir=ctx.workdir) for m, s in sorted(srcs.items())]
    built = cybuild.build_many(specs, jobs=NMOD)
    for (so, err), sp in zip(built, specs):
        if err is not None:
            ctx.corr_break("build " + sp["name"], sp["name"], str(err)[:1500], "module builds")
            return
    model = ctx.model("pylongbinop")
    ctx.extra["t_build_s"] = round(time.time() - t0, 1)

    # ---- tie of the compile-time guard: helper calls in the generated C vs `accepts` ----
    emitted = {}
    for m in srcs:
        emitted.update(emitted_helpers(open(os.path.join(ctx.workdir, m + ".c")).read(), F))
    intF = [f for f in F if not f["isfloat"]]
    acc = model.batch(["accepts %s %s %d" % (f["op"], f["order"], f["c"]) for f in intF])
    for f, a in zip(intF, acc):
        em = emitted.get(f["name"], "missing")
        if em == "missing":
            ctx.corr_break("guard: function not found in generated C", f, "missing", a)
            continue
        is_em = em is not None and em[0] == "Long"
        f["emitted"] = is_em
        ctx.case("guard/%s/%s/%s" % (f["op"], f["order"], "helper" if is_em else "generic"),
                 {"func": func_source(f)}, sig=("guard", f["op"], f["order"], f["c"], f["form"]))
        if is_em != (a == "1"):
            ctx.corr_break("guard: accepts vs emitted helper call", {"func": func_source(f)}, em, "accepts=" + a)
        if is_em:
            if (em[2], em[3]) != (f["op"], f["order"]) or (em[1] == "Bool") != (f["form"] == "bint"):
                ctx.corr_break("guard: which helper", {"func": func_source(f)}, em, (f["op"], f["order"], f["form"]))
            args = [a_.strip().rstrip(")").strip() for a_ in em[4].split(",")]
            # (op1, op2, intval, inplace[, zerodivision_check])
            want_inplace = "1" if f["form"] == "inplace" else "0"
            if len(args) < 4 or args[3] != want_inplace or (len(args) > 4 and args[4] != "0"):
                ctx.corr_break("guard: inplace/zerodivision_check arguments", {"func": func_source(f)}, args, want_inplace)
            try:
                iv = int(args[2].rstrip("L"), 0)
            except Exception:
                iv = None
            if iv != f["c"]:
                ctx.corr_break("guard: intval argument", {"func": func_source(f)}, args, f["c"])
    for f in F:
        if f["isfloat"]:
            em = emitted.get(f["name"])
            f["emitted"] = em is not None and em[0] == "Float"

    # ---- run every function on every operand, compiled and in CPython ----
    consts = CONSTS_QUICK if quick else CONSTS_FULL
    ints = int_operands(ctx.rng, ctx.tier, consts)
    operands = [("int", str(v)) for v in ints] + OTHER_OPERANDS
    exprs = [e for _, e in operands]
    funcs = []
    for f in F:
        skip = []
        for oi, (kind, e) in enumerate(operands):
            if f["op"] == "Lshift" and f["order"] == "CObj" and kind in ("int", "intsub", "bool") and oi < len(ints) and abs(ints[oi]) > 70000:
                skip.append(oi)        # c << huge: memory, not the property
            elif f["op"] == "Lshift" and f["order"] == "CObj" and kind == "intsub" and "2**" in e:
                skip.append(oi)
            elif kind == "fmt" and not (f["op"] == "Remainder" and f["order"] == "ObjC"):
                skip.append(oi)        # 'str' * 2**30 etc.: memory
        f["skip"] = set(skip)
        funcs.append([f["mod"], f["name"], skip])
    pysrcs = {m: s for m, s in srcs.items()}
    with open(os.path.join(ctx.workdir, "c02_spec.json"), "w") as fh:
        json.dump({"setup": SETUP, "mods": sorted(srcs), "sources": pysrcs, "operands": exprs, "funcs": funcs}, fh)
    r = cybuild.run_script(DRIVER, ctx.workdir, timeout=3000)
    if r["rc"] != 0 or not r["json"]:
        last = ""
        try:
            last = open(os.path.join(ctx.workdir, "c02_progress.txt")).read().strip()
        except Exception:
            pass
        fl = [f for f in F if f["name"] == last]
        ctx.fail("crash", {"func": func_source(fl[0]) if fl else last}, "driver died rc=%s %s" % (r["rc"], r["err"][-400:]),
                 "every call returns or raises")
        return
    ctx.extra["t_run_s"] = round(time.time() - t0, 1)
    results = {}
    for line in open(os.path.join(ctx.workdir, "c02_results.jsonl")):
        d = json.loads(line)
        results[d["f"]] = d

    # ---- model queries: every exact-int operand of every function whose helper was emitted ----
    mq, mkey = [], []
    for f in F:
        if f["isfloat"] or not f.get("emitted"):
            continue
        for oi, v in enumerate(ints):
            if oi in f["skip"]:
                continue
            mq.append("binop %s %s 0 %d %d" % (f["op"], f["order"], f["c"], v))
            mkey.append((f["name"], oi))
    mres = dict(zip(mkey, model.batch(mq)))

    nfast = nfallback = 0
    for f in F:
        d = results.get(f["name"])
        if d is None or d["impl"] == "TIMEOUT":
            ctx.fail("timeout", {"func": func_source(f)}, "timeout/missing", "result")
            continue
        diff = {int(k): v for k, v in d["diff"].items()}
        strata = {}
        sigs = []
        for oi, (kind, e) in enumerate(operands):
            got = d["impl"][oi]
            if got is None:
                continue
            inp = {"func": func_source(f), "operand": e}
            exp = diff.get(oi, got)
            path = "generic"
            if f.get("emitted"):
                path = "helper"
            if kind == "int":
                v = ints[oi]
                okind = "int%dd" % min(ndig(v), 4)
                m = mres.get((f["name"], oi))
                if m is not None:
                    if m == "FALLBACK":
                        path = "helper-fallback"; nfallback += 1
                        want = None
                    elif m.startswith("I "):
                        want = "int:" + m[2:]
                    elif m.startswith("B "):
                        b = m[2:] == "1"
                        want = ("int:%d" % b) if f["form"] == "bint" else ("bool:%s" % b)
                    elif m.startswith("FD "):
                        _, a_, b_ = m.split()
                        want = "float:" + repr(float(int(a_)) / float(int(b_)))
                    elif m == "ZERODIV":
                        want = "!ZeroDivisionError"
                    else:
                        want = "<model: %s>" % m
                    if want is not None:
                        path = "helper-fast"; nfast += 1
                        if want != got:
                            ctx.corr_break("pylongbinop:binop", inp, got, m)
            else:
                okind = kind
            st = "%s/%s/%s/%s" % (f["op"], "floatc" if f["isfloat"] else f["order"], okind, path)
            strata[st] = strata.get(st, 0) + 1
            sigs.append((f["name"], f["op"], f["order"], f["c"], f["form"], e))
            if got != exp:
                ctx.fail(classify(f, okind, e), inp, got, exp)
        for st, n in strata.items():
            ctx.count(st, n, distinct_sigs=sigs)
            sigs = None
    ctx.extra["t_compare_s"] = round(time.time() - t0, 1)
    ctx.extra["functions"] = len(F)
    ctx.extra["operands_per_function"] = len(operands)
    ctx.extra["model_fast_path_cases"] = nfast
    ctx.extra["model_fallback_cases"] = nfallback
    ctx.sample({"func": func_source(F[0]), "operand": exprs[0]})
    ctx.sample({"func": func_source(F[-1]), "operand": exprs[-1]})

    if not quick:
        thorough_extra(ctx, F, srcs, funcs, exprs, operands, ints)


def thorough_extra(ctx, F, srcs, funcs, exprs, operands, ints):
    """the same functions with CYTHON_USE_PYLONG_INTERNALS=0 (helpers reduce to the generic calls)
    and with -O2 -fsanitize=undefined -fno-sanitize-recover: any UB report aborts the driver."""
    for tag, kw in (("noint", dict(macros=["CYTHON_USE_PYLONG_INTERNALS=0"])),
                    ("ubsan", dict(cflags=["-O1", "-fsanitize=undefined", "-fno-sanitize-recover=undefined"],
                                   ldflags=["-lubsan"]))):
        wd = os.path.join(ctx.workdir, tag)
        specs = [dict(name=m, source=s, workdir=wd, **kw) for m, s in sorted(srcs.items())]
        built = cybuild.build_many(specs, jobs=NMOD)
        bad = [str(e)[:800] for so, e in built if e is not None]
        if bad:
            ctx.note("thorough variant %s did not build: %s" % (tag, bad[0]))
            continue
        with open(os.path.join(wd, "c02_spec.json"), "w") as fh:
            json.dump({"setup": SETUP, "mods": sorted(srcs), "sources": srcs, "operands": exprs, "funcs": funcs}, fh)
        r = cybuild.run_script(DRIVER, wd, timeout=3000)
        if r["rc"] != 0 or not r["json"]:
            last = ""
            try:
                last = open(os.path.join(wd, "c02_progress.txt")).read().strip()
            except Exception:
                pass
            fl = [f for f in F if f["name"] == last]
            ctx.fail("crash_" + tag, {"func": func_source(fl[0]) if fl else last, "variant": tag},
                     "driver died rc=%s %s" % (r["rc"], r["err"][-600:]), "every call returns or raises")
            continue
        byname = {f["name"]: f for f in F}
        n = 0
        for line in open(os.path.join(wd, "c02_results.jsonl")):
            d = json.loads(line)
            f = byname[d["f"]]
            if d["impl"] == "TIMEOUT":
                ctx.fail("timeout", {"func": func_source(f), "variant": tag}, "timeout", "result")
                continue
            n += sum(1 for g in d["impl"] if g is not None)
            for k, exp in d["diff"].items():
                kind, e = operands[int(k)]
                okind = ("int%dd" % min(ndig(ints[int(k)]), 4)) if kind == "int" else kind
                ctx.fail(classify(f, okind, e), {"func": func_source(f), "operand": e, "variant": tag}, d["impl"][int(k)], exp)
        ctx.count("variant/" + tag, n, distinct_sigs=[(tag, n)])


def replay(ctx, obj):
    inp = obj["input"]
    src = "# cython: language_level=3\n" + inp["func"]
    name = re.search(r"def (\w+)", inp["func"]).group(1)
    cybuild.build("c02_replay", src, ctx.workdir)
    script = "\n".join([
        SETUP, "import c02_replay, types", "pm = types.ModuleType('p'); exec(" + repr(inp["func"]) + ", pm.__dict__)",
        "def run(f):", "    try:", "        return repr(f(" + inp.get("operand", "0") + "))",
        "    except BaseException as e:", "        return '!' + type(e).__name__",
        "print('compiled:', run(c02_replay." + name + "), ' CPython:', run(pm." + name + "))", ""])
    r = cybuild.run_script(script, ctx.workdir)
    print("replayed:", json.dumps(inp), "->", r["out"].strip() or r["err"][-300:], "| recorded expected:", obj.get("expected"))
